#!/bin/bash
# usage: port_patch.sh <dir with patch.diff>  -> writes <dir>/patch.ported.diff against /repo's HEAD (3-way merge, conflict blocks resolved by keeping both sides) if it builds
export GOFLAGS=-mod=mod GOPROXY=off GOSUMDB=off GOTOOLCHAIN=local
d=$1
wt=$(mktemp -d /tmp/portwt-XXXXXX); rmdir $wt
git -C /repo worktree add -q --detach $wt HEAD || exit 2
trap 'git -C /repo worktree remove --force $wt >/dev/null 2>&1' EXIT
cd $wt
git apply --3way $d/patch.diff >/dev/null 2>&1
for f in $(git diff --name-only --diff-filter=U); do
  python3 - "$f" <<'PY'
import sys,re
p=sys.argv[1]; s=open(p).read()
n=len(re.findall(r'^<<<<<<< ', s, flags=re.M))
s=re.sub(r'^<<<<<<< [^\n]*\n(.*?)^=======\n(.*?)^>>>>>>> [^\n]*\n', lambda m: m.group(1)+m.group(2), s, flags=re.M|re.S)
open(p,'w').write(s); print(p, 'resolved', n, 'conflict blocks by union')
PY
  git add $f
done
git reset -q
gofmt -l jsonschema
if go build ./... 2>&1 | head -5 | grep -q .; then echo "PORT-FAILED: does not build"; go build ./... 2>&1 | head -5; exit 1; fi
git diff > $d/patch.ported.diff
echo "ported: $(wc -l < $d/patch.ported.diff) lines"
