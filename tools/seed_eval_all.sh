#!/bin/bash
# usage: seed_eval_all.sh <seed-dir>   -> one line: confirm status + which of the 20 checks report it
set -u
export GOFLAGS=-mod=mod GOPROXY=off GOSUMDB=off GOTOOLCHAIN=local
seed=$1
wt=$(mktemp -d /tmp/seedwt-XXXXXX); rmdir $wt
git -C /repo worktree add -q --detach $wt HEAD || exit 2
trap 'git -C /repo worktree remove --force $wt >/dev/null 2>&1' EXIT
test=$(grep -o 'func Test[A-Za-z0-9_]*' $seed/demo_test.go | head -1 | sed 's/func //')
cp $seed/demo_test.go $wt/jsonschema/zz_seed_demo_test.go
race=""; grep -qi '"demo_cmd".*-race' $seed/meta.json && race="-race"
(cd $wt && go test $race -vet=off -count=1 -run "^${test}\$" ./jsonschema/ >/dev/null 2>&1); nop=$?
if ! git -C $wt apply $seed/patch.diff 2>/dev/null; then if ! git -C $wt apply --3way $seed/patch.diff >/dev/null 2>&1; then echo "$seed PATCH-DOES-NOT-APPLY"; exit 0; fi; git -C $wt reset -q; fi
(cd $wt && go test $race -vet=off -count=1 -run "^${test}\$" ./jsonschema/ >/dev/null 2>&1); wp=$?
rm $wt/jsonschema/zz_seed_demo_test.go
(cd $wt && go test -vet=off -count=1 ./... >/dev/null 2>&1); suite=$?
mkdir -p $wt/_verif; for q in $(${JSCHECK:-/verif/bin/jscheck} -list); do mkdir -p $wt/_verif/$q; cp /verif/known_findings.txt $wt/_verif/$q/; done
fired=$(${JSCHECK:-/verif/bin/jscheck} -all -repo $wt -verif $wt/_verif 2>&1 | grep '^ALL-FIRED' | sed 's/^ALL-FIRED *//')
echo "$seed confirm=$nop/$wp/$suite fired=[$fired]"
