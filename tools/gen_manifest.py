#!/usr/bin/env python3
"""Regenerate /verif/MANIFEST.json from the table below."""
import json, subprocess

ALL = [json.loads(l)['id'] for l in open('/verif/properties.jsonl')]

CLAIMED = {
 "C07": ("provenance of the three arguments at every recursive evaluation site (SSA def-use through closures and captured cells), must-pass-through and reachability on the SSA block graph, reflect-kind dataflow for kind-exclusive regions",
         "Structural necessary conditions of annotation flow decided for all schemas and instances at once: annotation-argument discipline at every recursive evaluation site, success-only hand-over to the caller, totality of merge, per-activation collector, in-place applicators before unevaluated*, unevaluated* applied to the complement, every child evaluation recorded. Not the verdict of any concrete case.", "4/C07"),
 "C13": ("field-sensitive, allocation-site based write-effect analysis over the VTA/CHA call-graph closure of each entry point; who-may-write on package variables; publication rule for sync.Map caches; type-level reachability of per-call types",
         "For all schedules at once: no function reachable from the concurrent entry points writes memory that was not allocated by the same call; globals are written only at init; caches are sync.Maps whose values are complete before publication. A necessary condition of race freedom, not an observed equivalence with sequential execution.", "4/C13"),
 "C14": ("write-effect analysis restricted to caller-supplied Schema memory and the instance; alias rule on the annotation set helpers; who-may-call on nondeterminism sources; order-insensitivity classifier over map iterations",
         "Purity as absence of writes to the input schema tree and the instance, no aliasing between annotation sets, nondeterminism confined to map iteration and a seed that only reaches SetSeed. Not an observation of equal results across processes.", "4/C14"),
 "C18": ("field-read effect analysis of the closure of Validate against a frozen keyword classification; provenance of the bytes handed to reflective struct decoding; type-level check of Extra",
         "Non-interference as a read effect: no non-asserting, container or meta field of Schema is read on any path reachable from Validate; the keyword decoder is case-exact by construction; unknown keywords cannot be rejected by type, and neither they nor default/examples by a number beyond the float64 range (generic decodes retried with UseNumber). Not an observed verdict equality.", "4/C18"),
}

CLAIMED.update({
 "C02": ("finite string-partition abstract evaluation of the version predicate and draft detector; dominance of the version gate; reachability of field reads before the draft-07 $ref short-circuit; access-path provenance of inherited $schema and draft; dominating draft guards of anchor registration",
         "Structure of draft selection decided for all inputs: the set of supported $schema values, refusal before evaluation, the $ref short-circuit and $id-beside-$ref rule under draft-07, root provenance of the inherited draft, draft gating of anchors, and every use of a keyword that exists in one draft only happening under the test for that draft. Not the draft-07 verdict of concrete cases.", "4/C02"),
 "C05": ("type-level recomputation of the marshal and unmarshal field tables (encoding/json field resolution re-implemented over go/types) and comparison with the Schema struct; guard and post-dominance rules on the splice helpers",
         "Agreement of the writer's and the reader's keyword tables for every field, preservation of significant empty containers, exact boolean folding, unconditional purge of known names from Extra, integer keyword shadowing, const-null handling, exact JSON-name set, keyword names letter for letter those of the specifications, 32-bit range of integer keywords exact at both ends, boolean documents overwrite the receiver. Not byte identity or value fidelity.", "4/C05"),
 "C17": ("type-level registry completeness; dominating guards in the pointer field lookup; constant tables of the escape replacers; guard analysis of the pointer walker (checked assertion, validity tests, both index bounds)",
         "Every schema-bearing field is registered and addressable, ambiguous JSON names are special-cased before the last-writer-wins map, escape tables are RFC 6901's, failed lookups become errors, exactly one leading slash is removed before the pointer is split, only the empty pointer is the whole document, index rules apply to arrays only, no error of the resolution code is overwritten or dropped before it is looked at, no error variable is returned where it is known to be nil. Not which subschema a concrete pointer selects.", "4/C17"),
 "C20": ("type-level registry completeness; sibling agreement on the three shapes across traversals; control-dependence of the clone write-backs; allocation-site freshness of cloned containers and elements",
         "The clone loop is total over schema-bearing fields, writes back only fresh containers filled with recursive clones, a nil container is produced only for a nil original, and the structure check rejects a shared Schema object. Not observed equality of marshaled output.", "4/C20"),
})

CLAIMED.update({
 "C03": ("dominance of the two cache insertions over the descent into references; dominating miss-guards and key identity at the Loader call; must-pass-through of the side-table merge on every path from a foreign root to its use as a key; provenance of successful returns, of the lookup URI and of stored targets",
         "Bookkeeping shape of reference resolution for every topology: cache-before-recursion under both URIs, loader only on miss, foreign tables merged, no fallback target, base of the enclosing resource, per-occurrence resolution, anchors scoped to their base, BaseURI parsed verbatim and used as the root's base unless empty, first anchor of a name wins, no resolution error dropped. Not RFC 3986 itself nor the target of a concrete topology.", "4/C03"),
 "C06": ("push/pop discipline of the evaluation stack by dominance and defer analysis; write-effect analysis of the closure of Validate (no state survives a call); exclusive-outcome and guard analysis of the lexical/dynamic split; shape of the outermost-first search",
         "The dynamic scope is a per-call stack pushed once and popped on every exit, nothing else is mutable or shared, resolution records lexical xor dynamic behaviour, and the search is outermost-first through base resources over the whole stack. Not the target selected for a concrete topology.", "4/C06"),
})

CLAIMED.update({
 "C08": ("sibling agreement between the type classifier and the number extractor (recogniser sets); accessor/setter pairing and exactness lint in the extractor; reflect-kind dataflow after the stripping loop and at every keyword group; key-provenance rule on reflect map accesses",
         "Representation independence as code shape: same numeric sources recognised by classifier and extractor, exact extraction, pointer/interface stripping in any nesting, keys converted to the map's key type, keyword groups guarded by (and covering) the right kinds, equality normalising wrappers, property names evaluated as Go strings, zero-means-missing only for struct instances, no fact about the instance computed only next to certain keywords, nilness treated alike by hasher and equality. Not verdict equality for concrete values.", "4/C08"),
 "C11": ("guard/dominance analysis of the equality function: numbers first through the exact extractor, exactness lint over the closure of Equal, reflect-kind dataflow at the kind-mismatch exit, length-before-elements and missing-key guards on every recursive call, kind sets at explicit panics",
         "Structure of JSON equality decided for all inputs: exact numeric comparison first, number never equals non-number, wrappers stripped on both sides, arrays vs slices element-wise, lengths before elements, missing keys unequal, identity shortcuts after length tests, every recursion pairs a part of one operand with a part of the other, panics only outside the JSON domain, Go equality (Value.Equal, DeepEqual) only for bool and string kinds, the number extractor never answers not-a-number for a recognised number (one known finding: exponents big.Rat refuses). Not the algebraic laws.", "4/C11"),
 "C12": ("control dependence of the enum/const/uniqueItems failure exits on the equality function; must-pass-through of bucket recording; sibling agreement between hasher and equality via reflect-kind dataflow at every hash write; sort-before-use of map keys; def-use of the hash seed",
         "enum/const/uniqueItems are decided by the equality function, every item is recorded and compared with its whole bucket (two different positions), the hash is representation independent and deterministic for equal values, one seed per call, equality and hasher agree on unexported struct fields, sorts of map keys are total. Includes the C11 equality clauses. Not collision behaviour.", "4/C12"),
})

CLAIMED.update({
 "C19": ("order-insensitivity classifier over every randomised iteration reachable from MarshalJSON (context-sensitive sink analysis); must-pass-through of the sorted second pass; guard analysis of the listed pass and of the duplicate check; write-effect analysis of the marshal closure",
         "No byte is emitted in map order, listed names first then the sorted remainder on every successful path, duplicates of any name rejected before emission, inputs untouched, inferred order always de-duplicated. Not observed byte equality.", "4/C19"),
})

CLAIMED.update({
 "C04": ("reflect-kind dataflow over the type dispatch of the inference function; guard vocabulary of the null-adding stores; frozen table of marshaler types; constant comparison of integer bounds; guard analysis of the required list; purity and provenance rules on the tag parser",
         "Code-shape clauses of inference soundness: kinds handled, null only extends an existing type, marshaler table matches the JSON encodings (big.Int is a known finding), embedded fields treated as encoding/json treats them (name tags, non-struct types; fields promoted through an embedded pointer being required is a known finding), bounds equal kind ranges, required iff neither omitempty nor omitzero, fields with one JSON name resolved as encoding/json resolves them (the decision is evaluated abstractly over the depth/tag domain, through helpers), tag names used only if encoding/json accepts them (the validity predicate is evaluated over character classes), promoted fields of a named, omitted or overridden embedded struct skipped, tag parser pure, exact integrality test, every schema-returning exit passes the pointer-flag test. Not agreement with encoding/json's dynamic field resolution.", "4/C04"),
 "C09": ("dominating-guard and skippability analysis of the struct path (closed objects, required), constant bounds table with allocation freshness, provenance of array length and element schemas, independence of the numeric keyword group from `type`",
         "Inferred schemas are tight in shape: every struct closed, required exactly under the two option tests, bounds equal to kind ranges and fresh, array length fixed, element schemas recursive, bounds enforced for nullable integers, plus the embedded-field, tag-name and name-conflict clauses of C04. Not agreement with the decoder.", "4/C09"),
 "C15": ("dominating guards of every instance mutation in the default applier (not-required, missing/present), provenance of inserted values, sibling agreement between applier and has-nested-defaults predicate, skippability and traversal analysis of default validation",
         "Defaults are applied only to missing, non-required properties with fresh copies of the declared default (or containers under the predicate); present values are written back unchanged; default validation covers the full tree, can be skipped by nothing but the absence of a default and does not leave the walk on success; the required set is read from the schema's own side-table entry. Not idempotence as an observation.", "4/C15"),
 "C16": ("clone-provenance of every table/override schema entering the result; write-effect analysis of the closure of For; test-mark-defer discipline of the cycle set; order-insensitivity classifier; tag parser purity and option provenance; index-prefix comparison for promoted fields",
         "Isolation and determinism of inference: substituted schemas always cloned, no shallow copies, per-call table and cycle set, nothing shared is written, cycle mark removed on every exit, map iterations order-insensitive, tag options exact, order de-duplicated whenever a name can have been entered twice. Not full agreement with encoding/json's name resolution (only: decided by name and depth, shallower wins).", "4/C16"),
})

CLAIMED.update({
 "C01": ("field-read coverage of the closure of Validate against the keyword classification; guard analysis of the two `type` forms; provenance of the integers compared with minLength/maxLength; finite ordering evaluation of the four bound comparisons; dominating guards of additionalProperties; provenance of compiled patterns and of every pattern verdict; plus shared rules (annotation flow of C07, order, visits-all, presence-is-nil, order-insensitivity, per-occurrence references)",
         "Necessary clauses of 2020-12 validity visible in the code on every path: every keyword has a handler, integer-is-number in both type forms, lengths in code points, bounds fail on exactly the right orderings, additionalProperties blind to annotations, in-place applicators before unevaluated*, annotation flow, patterns compiled from the keyword text and decided by the regexp engine alone, deterministic iteration. Not the verdict of any schema/instance pair.", "4/C01"),
})

CLAIMED.update({
 "C10": ("inventory of explicit panics and assertions with reflect-kind dataflow at each; kind-precondition analysis of every partial reflect operation with call-site propagation; iterator-protocol reachability; nil-guard dominance for callback and (nil, nil) results; strongly connected components of the static call graph against a table of terminating shapes, each with its own checked obligation",
         "Panic sites unreachable for JSON-shaped inputs or discharged by named rules, partial reflect operations guarded, iterators obey the yield protocol, callback and optional results nil-tested, every recursive component of a known terminating shape with its seen-set / cache / tree-check obligation, element-type walks bounded by a visited set, prefix slices guarded by a length comparison, constant-index reads of strings and slices guarded by a length test, partial helpers checked at every call site (closures called through variables included), Value.Bytes only on byte slices, non-finite bounds refused by Resolve before SetFloat64's result is used, the Loader field never nil when called. Not the absence of all run-time panics.", "4/C10"),
})

NOT_YET = "static clauses designed in DESIGN.md section 4 but the rule is not built yet in this session"

# clauses added in the ninth and tenth rounds of seeded changes (DESIGN.md, end of section 4)
ADDED = {
 "C01": "one early success exit (the draft-07 $ref rule); a json.Number is classified as a number whatever its text; every numeric kind classified; annotation sets never counted; contains offered every item from index 0; the classifier never asks IsNil; keyword preparations (pattern, patternProperties, required) independent of one another; zero-means-missing only for struct instances; annotation set helpers never alias their arguments (round 12)",
 "C02": "one early success exit (the draft-07 $ref rule); the number extractor succeeds for every numeric kind; keyword preparations independent; pointer-token bytes compared only with the ends of the digit range",
 "C03": "a relative $id is refused; the pointer-or-anchor decision is made on the looked-up string and only says 'not empty'; no error overwritten or passed over in a loop; $ref and $dynamicRef resolved independently; an unknown pointer token selects no field; tokens unescaped whenever the pointer contains the escape character; digit-range constants; the token - singled out only for arrays; the resolver reads the decoded fragment only (round 12)",
 "C04": "no kind but Struct and Pointer tested in the decision to flatten an embedded field; tag options evaluated on five cases; reflect.TypeOf of a possibly nil interface nil-tested; tag-name predicate and tag options evaluated on non-ASCII names and three options",
 "C05": "const decoded without UseNumber; cap() never a length or a condition; shadow copies in MarshalJSON independent of one another; no error passed over in a loop; exclusive keyword pairs refused by presence, not length; the UseNumber retry's own result decides",
 "C06": "the dynamic-scope search is left early only on a hit; a relative $id is refused; $ref and $dynamicRef resolved independently",
 "C07": "no removal from an annotation set (DeleteFunc included); the property lookup hands back the value as stored; annotation sets never counted; every entry of a map instance enumerated; contains offered every item from index 0; zero-means-missing only for struct instances; annotation set helpers never alias their arguments (round 12)",
 "C08": "keyword groups run whatever the Go type; no verdict on the exactness of a float conversion; no type-sensitive comparison; wrappers recognised by kind; extractor and classifier cover every numeric kind; every map entry enumerated; the classifier never asks IsNil; struct-field loops run to the last field",
 "C09": "a json.Number is classified as a number whatever its text; tag options evaluated on five cases; tag-name predicate evaluated on non-ASCII names",
 "C10": "the ok result tested before a (pointer, ok) result is used; every named type on the pointer walk recorded; make sizes not negative; no impossible NaN-and-Inf conjunction; reflect.TypeOf of a possibly nil interface nil-tested",
 "C11": "same struct-field filter in equality and hasher; no type-sensitive comparison; failure of SetString always gives up; struct-field loops run to the last field",
 "C12": "enum/const compared whatever the instance; const decoded like instances; no type-sensitive comparison; struct-field loops run to the last field",
 "C14": "a rendering of an element attribute used as a map key in a randomised iteration is judged like the attribute; struct-field loops run to the last field; exclusive keyword pairs refused by presence",
 "C15": "no error passed over or overwritten in a loop; wrappers recognised by kind; property lookup hands back the value as stored",
 "C16": "tag options evaluated on five cases; reflect.TypeOf of a possibly nil interface nil-tested; tag options evaluated on three options",
 "C17": "a relative $id is refused; the pointer-or-anchor decision is made on the looked-up string; no error overwritten in a loop; an unknown pointer token selects no field; tokens unescaped whenever escaped; digit-range constants; the token - singled out only where the value walked is an array or slice; the resolver reads url.URL.Fragment, never RawFragment or EscapedFragment() (round 12)",
 "C18": "every entry of a map instance enumerated; keyword preparations independent; the UseNumber retry's own result decides",
 "C19": "the duplicate scan covers the whole list from its first entry on every path; the listed pass runs to the end; cap() never a length or condition; make sizes not negative",
 "C20": "no error overwritten in a loop (tree check); cap() never a length or a condition",
}

def main():
    checks = []
    for pid in ALL:
        if pid not in CLAIMED: continue
        tech, text, ref = CLAIMED[pid]
        if pid in ADDED:
            text = text.rstrip() + " Added after seeded rounds 9-12 (necessary conditions, same status): " + ADDED[pid] + "."
        checks.append({
            "property_id": pid,
            "quick_cmd": f"/verif/bin/jscheck -prop {pid} -tier quick",
            "thorough_cmd": f"/verif/bin/jscheck -prop {pid} -tier thorough",
            "evidence_file": f"/verif/evidence/{pid}.json",
            "replay_cmd_template": "cat {path}",
            "engine": "jscheck",
            "level_claimed": {"category": "other", "text": text, "design_ref": "DESIGN.md section " + ref},
            "level_note": "Trusted base: go/types + go/ssa (x/tools v0.29.0) model of /repo's working tree; VTA call graph (CHA in the thorough tier); standard-library mutator/pure tables in checker/core/effects.go; reflect's documented preconditions. Decides named structural clauses only; see the evidence file's coverage.explanation and not_decided.",
            "technique": "static analysis: " + tech,
        })
    m = {
     "version": 1,
     "setup_cmd": "cd /verif/checker && GOFLAGS=-mod=mod GOPROXY=off GOSUMDB=off GOTOOLCHAIN=local GOWORK=off go build -o /verif/bin/jscheck ./cmd/jscheck",
     "hooks": {"guard": "verif", "enable": "none needed: every check is a static analysis of /repo's source as it is on disk; no hook or instrumentation is compiled into the repository (the thorough tier additionally analyses the tree under -tags verif to make sure no tagged file hides code)",
               "baseline_off_cmd": "cd /repo && go test -vet=off -count=1 ./...", "source_commits": [], "add_only": True},
     "engines": [{"name": "jscheck", "path": "/verif/checker", "serves_properties": sorted(CLAIMED), "kind_free_text": "custom static analyser over go/packages + go/ssa + VTA/CHA call graphs; rules per property in checker/rules"}],
     "checks": checks,
     "not_applicable": [{"property_id": p, "reason": NOT_YET} for p in ALL if p not in CLAIMED],
     "notes": "Static analysis only. Every check re-loads and re-type-checks /repo's working tree; nothing from /repo is executed. Exit 1 + VIOLATION line for a violated or undecided obligation; KNOWN-FINDING lines for entries of /verif/known_findings.txt. Thorough tier = build-configuration matrix + CHA call graph + checker self-test on the mutant corpus in /verif/selftest/corpus.json."
    }
    json.dump(m, open('/verif/MANIFEST.json', 'w'), indent=1)
    print("checks:", [c['property_id'] for c in checks])

main()
