#!/bin/bash
# usage: try_patch.sh <patch.diff> <prop>... : applies the patch to a scratch worktree of /repo and runs the given checks (quick), printing non-discharged lines
export GOFLAGS=-mod=mod GOPROXY=off GOSUMDB=off GOTOOLCHAIN=local
patch=$1; shift
wt=$(mktemp -d /tmp/trywt-XXXXXX); rmdir $wt
git -C /repo worktree add -q --detach $wt HEAD || exit 2
trap 'git -C /repo worktree remove --force $wt >/dev/null 2>&1' EXIT
git -C $wt apply $patch 2>/dev/null || git -C $wt apply --3way $patch >/dev/null 2>&1 || { echo "PATCH-DOES-NOT-APPLY"; exit 0; }
for p in "$@"; do mkdir -p $wt/_verif/$p; cp /verif/known_findings.txt $wt/_verif/$p/; ${JSCHECK:-/verif/bin/jscheck} -prop $p -tier quick -repo $wt -verif $wt/_verif/$p 2>&1 | grep -v "^KNOWN\|^VIOLATION" | cut -c1-${W:-400}; done
