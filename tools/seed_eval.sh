#!/bin/bash
# usage: seed_eval.sh <seed-dir> <prop> [more props...]
# Confirms a seeded change (suite passes with it, demo fails with it and passes without) and
# runs the static checks of the given properties on a scratch worktree with the change applied.
set -u
export GOFLAGS=-mod=mod GOPROXY=off GOSUMDB=off GOTOOLCHAIN=local
seed=$1; shift
wt=$(mktemp -d /tmp/seedwt-XXXXXX); rmdir $wt
git -C /repo worktree add -q --detach $wt HEAD || exit 2
trap 'git -C /repo worktree remove --force $wt >/dev/null 2>&1' EXIT
test=$(grep -o 'func Test[A-Za-z0-9_]*' $seed/demo_test.go | head -1 | sed 's/func //')
cp $seed/demo_test.go $wt/jsonschema/zz_seed_demo_test.go
race=""; grep -qi race $seed/meta.json && race="-race"
(cd $wt && go test $race -vet=off -count=1 -run "^${test}\$" ./jsonschema/ >/tmp/seed_nopatch.log 2>&1); nop=$?
git -C $wt apply $seed/patch.diff || { echo "PATCH-DOES-NOT-APPLY"; exit 3; }
(cd $wt && go test $race -vet=off -count=1 -run "^${test}\$" ./jsonschema/ >/tmp/seed_patch.log 2>&1); wp=$?
rm $wt/jsonschema/zz_seed_demo_test.go
(cd $wt && go test -vet=off -count=1 ./... >/tmp/seed_suite.log 2>&1); suite=$?
echo "demo-without-patch=$nop (want 0) demo-with-patch=$wp (want !=0) suite-with-patch=$suite (want 0)"
mkdir -p $wt/_verif; cp /verif/known_findings.txt $wt/_verif/ 2>/dev/null
for p in "$@"; do
  out=$(/verif/bin/jscheck -prop $p -tier quick -repo $wt -verif $wt/_verif 2>&1); code=$?
  echo "check $p exit=$code"
  echo "$out" | grep -E '^\s+C[0-9]+/' | cut -c1-400 | head -6
done
