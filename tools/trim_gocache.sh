#!/bin/bash
# The regression scripts run `go test` in hundreds of scratch worktrees; every worktree path gives new entries in the
# Go build cache (about 70 MB each), which is never trimmed within a session. Run this after a regression.
find "${GOCACHE:-$HOME/.cache/go-build}" -type f -mmin +${1:-20} -delete 2>/dev/null
du -sh "${GOCACHE:-$HOME/.cache/go-build}"
