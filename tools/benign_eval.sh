#!/bin/bash
# usage: benign_eval.sh <dir-with-patch.diff>  -> one line: suite status + which of the 20 checks report it (expected: none)
set -u
export GOFLAGS=-mod=mod GOPROXY=off GOSUMDB=off GOTOOLCHAIN=local
seed=$1
wt=$(mktemp -d /tmp/benwt-XXXXXX); rmdir $wt
git -C /repo worktree add -q --detach $wt HEAD || exit 2
trap 'git -C /repo worktree remove --force $wt >/dev/null 2>&1' EXIT
if ! git -C $wt apply $seed/patch.diff 2>/dev/null; then
  if ! git -C $wt apply --3way $seed/patch.diff >/dev/null 2>&1; then echo "$seed PATCH-DOES-NOT-APPLY"; exit 0; fi
fi
(cd $wt && go test -vet=off -count=1 ./... >/dev/null 2>&1); suite=$?
mkdir -p $wt/_verif; for q in $(${JSCHECK:-/verif/bin/jscheck} -list); do mkdir -p $wt/_verif/$q; cp /verif/known_findings.txt $wt/_verif/$q/; done
fired=$(for p in $(${JSCHECK:-/verif/bin/jscheck} -list); do echo $p; done | xargs -P 10 -I{} sh -c "${JSCHECK:-/verif/bin/jscheck} -prop {} -tier quick -repo $wt -verif $wt/_verif/{} >$wt/_verif/{}.log 2>&1; rc=\$?; [ \$rc -ne 0 ] && echo {}:rc\$rc:\$(grep -oE '^\s+C[0-9]+/[A-Za-z0-9_.-]+' $wt/_verif/{}.log | sort -u | tr -d ' ' | tr '\n' ',')" | sort | tr '\n' ' ')
echo "$seed suite=$suite fired=[$fired]"
if [ -n "$fired" ]; then mkdir -p /tmp/benlogs/$(echo $seed | tr / _); cp $wt/_verif/*.log /tmp/benlogs/$(echo $seed | tr / _)/; fi
