#!/bin/bash
# usage: benign_eval.sh <dir-with-patch.diff>  -> one line: suite status + which of the 20 checks report it (expected: none)
set -u
export GOFLAGS=-mod=mod GOPROXY=off GOSUMDB=off GOTOOLCHAIN=local
seed=$1
wt=$(mktemp -d /tmp/benwt-XXXXXX); rmdir $wt
git -C /repo worktree add -q --detach $wt HEAD || exit 2
trap 'git -C /repo worktree remove --force $wt >/dev/null 2>&1' EXIT
if ! git -C $wt apply $seed/patch.diff 2>/dev/null; then
  if ! git -C $wt apply --3way $seed/patch.diff >/dev/null 2>&1; then echo "$seed PATCH-DOES-NOT-APPLY"; exit 0; fi
fi
(cd $wt && go test -vet=off -count=1 ./... >/dev/null 2>&1); suite=$?
mkdir -p $wt/_verif; for q in $(${JSCHECK:-/verif/bin/jscheck} -list); do mkdir -p $wt/_verif/$q; cp /verif/known_findings.txt $wt/_verif/$q/; done
${JSCHECK:-/verif/bin/jscheck} -all -repo $wt -verif $wt/_verif > $wt/_verif/all.log 2>&1
fired=$(grep '^ALL-FIRED' $wt/_verif/all.log | sed 's/^ALL-FIRED *//')
echo "$seed suite=$suite fired=[$fired]"
if [ -n "$fired" ]; then mkdir -p /tmp/benlogs/$(echo $seed | tr / _); cp $wt/_verif/all.log /tmp/benlogs/$(echo $seed | tr / _)/; fi
