#!/bin/bash
# usage: rename_eval.sh old new [old new ...] : renames identifiers (whole words) in a scratch copy of /repo, checks that the suite passes, runs all 20 checks
export GOFLAGS=-mod=mod GOPROXY=off GOSUMDB=off GOTOOLCHAIN=local
wt=$(mktemp -d /tmp/renwt-XXXXXX); rmdir $wt
git -C /repo worktree add -q --detach $wt HEAD || exit 2
trap 'git -C /repo worktree remove --force $wt >/dev/null 2>&1' EXIT
desc=""
while [ $# -ge 2 ]; do
  sed -i -E "s/\b$1\b/$2/g" $wt/jsonschema/*.go
  desc="$desc $1->$2"; shift 2
done
(cd $wt && go build ./... 2>&1 | head -3 && go test -vet=off -count=1 ./... >/dev/null 2>&1); suite=$?
mkdir -p $wt/_verif; for q in $(/verif/bin/jscheck -list); do mkdir -p $wt/_verif/$q; cp /verif/known_findings.txt $wt/_verif/$q/; done
fired=$(for p in $(/verif/bin/jscheck -list); do echo $p; done | xargs -P 10 -I{} sh -c "/verif/bin/jscheck -prop {} -tier quick -repo $wt -verif $wt/_verif/{} >$wt/_verif/{}.log 2>&1; rc=\$?; [ \$rc -ne 0 ] && echo {}:rc\$rc:\$(grep -oE '^\s+C[0-9]+/[A-Za-z0-9_.-]+' $wt/_verif/{}.log | sort -u | tr -d ' ' | tr '\n' ',')" | sort | tr '\n' ' ')
echo "rename$desc suite=$suite fired=[$fired]"
if [ -n "$fired" ]; then mkdir -p /tmp/renlogs; cat $wt/_verif/*.log | grep -v "^C[0-9]* quick\|^KNOWN\|^VIOLATION" | cut -c1-300 | sort -u | head -${H:-12}; fi
