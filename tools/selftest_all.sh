#!/bin/bash
# run the checker self-test for every registered property, print only non-OK verdicts and a summary
for p in $(/verif/bin/jscheck -list); do
  out=$(/verif/bin/jscheck -prop $p -selftest 2>&1)
  echo "$out" | grep -E '^(MISS|FALSE-ALARM|error|skipped|caught-by-other)' | sed "s/^/$p: /"
  echo "$p: $(echo "$out" | tail -1)"
done
