#!/usr/bin/env python3
"""Generate corpus entries that re-introduce each defect repaired by a fix: commit
(reverse of the commit, expressed as unique old/new text edits on the current tree)."""
import subprocess, difflib, json, sys

def git(*a):
    return subprocess.run(['git','-C','/repo',*a],check=True,capture_output=True,text=True).stdout

def edits_for(commit):
    files = git('diff','--name-only',commit+'^',commit).split()
    out=[]
    for f in files:
        post = git('show',f'{commit}:{f}')
        pre = git('show',f'{commit}^:{f}')
        cur = open('/repo/'+f).read()
        a = post.splitlines(keepends=True); b = pre.splitlines(keepends=True)
        sm = difflib.SequenceMatcher(None,a,b,autojunk=False)
        for tag,i1,i2,j1,j2 in sm.get_opcodes():
            if tag=='equal': continue
            ctx=1
            while True:
                lo=max(0,i1-ctx); hi=min(len(a),i2+ctx)
                old=''.join(a[lo:hi])
                new=''.join(a[lo:i1])+''.join(b[j1:j2])+''.join(a[i2:hi])
                if cur.count(old)==1 or ctx>40: break
                ctx+=1
            if cur.count(old)!=1:
                print('WARNING: cannot localise edit in',f,commit,file=sys.stderr)
            out.append({'file':f,'old':old,'new':new})
    return out

spec = json.load(open(sys.argv[1]))
res=[]
for s in spec:
    es = edits_for(s['commit'])
    m = {'name':s['name'],'file':es[0]['file'],'old':es[0]['old'],'new':es[0]['new'],'props':s['props'],'note':s['note']}
    if 'rule' in s: m['rule']=s['rule']
    if len(es)>1: m['edits']=es[1:]
    res.append(m)
json.dump(res,sys.stdout,indent=1)
