#!/usr/bin/env python3
"""patch_to_mutant.py <patch.diff> -> JSON list of {file, old, new} edits (unique in /repo's current files)."""
import sys, re, json
def parse(path):
    edits=[]; cur=None; f=None
    for line in open(path):
        if line.startswith('+++ b/'):
            f=line[6:].strip(); continue
        if line.startswith('--- ') or line.startswith('diff ') or line.startswith('index '):
            continue
        if line.startswith('@@'):
            cur={'file':f,'lines':[]}; edits.append(cur); continue
        if cur is not None and line[:1] in ' +-':
            cur['lines'].append(line)
    out=[]
    for e in edits:
        src=open('/repo/'+e['file']).read()
        L=e['lines']
        # trim context to the minimum that keeps old unique
        first=min(i for i,l in enumerate(L) if l[0] in '+-'); last=max(i for i,l in enumerate(L) if l[0] in '+-')
        for ctx in range(0,10):
            lo=max(0,first-ctx); hi=min(len(L),last+1+ctx)
            old=''.join(l[1:] for l in L[lo:hi] if l[0] in ' -'); new=''.join(l[1:] for l in L[lo:hi] if l[0] in ' +')
            if old and src.count(old)==1: break
        assert src.count(old)==1, (e['file'], old)
        out.append({'file':e['file'],'old':old,'new':new})
    return out
if __name__=='__main__':
    json.dump(parse(sys.argv[1]),sys.stdout,indent=1)
