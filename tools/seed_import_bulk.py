#!/usr/bin/env python3
"""seed_import_bulk.py <results-file> <suffix> [notes.json]
Imports every confirmed seed listed in the output of seed_eval_all.sh (one line per seed:
'<dir> confirm=a/b/c fired=[Cxx:rule,rule, Cyy:rule, ]') into /verif/seeded/<prop>-<suffix><k>/
and records every check that reported it."""
import sys, os, json, re, shutil
res, suffix = sys.argv[1], sys.argv[2]
notes = json.load(open(sys.argv[3])) if len(sys.argv) > 3 else {}
for line in open(res):
    m = re.match(r'(\S+) confirm=(\d+)/(\d+)/(\d+) fired=\[(.*)\]', line.strip())
    if not m:
        print('skip', line.strip()); continue
    src, a, b, c, fired = m.groups()
    if not (a == '0' and b != '0' and c == '0'):
        print('NOT CONFIRMED', line.strip()); continue
    prop, k = src.rstrip('/').split('/')[-2:]
    name = f'{prop}-{suffix}{k}'
    dst = f'/verif/seeded/{name}'
    os.makedirs(dst, exist_ok=True)
    for f in ('patch.diff', 'demo_test.go'):
        shutil.copy(os.path.join(src, f), dst)
    meta = json.load(open(os.path.join(src, 'meta.json')))
    checks = {}
    for part in fired.split():
        p, rules = part.split(':', 1)
        checks[p] = {'exit': 1, 'rules_fired': sorted(r for r in rules.split(',') if r)}
    meta.update({'breaks_property': meta.get('property'), 'confirmed': {
        'ran': 'tools/seed_eval_all.sh in a scratch git worktree of /repo: demo test without the patch (pass), with the patch (fail), full suite with the patch (pass); then jscheck -tier quick -repo <worktree> for all 20 properties',
        'demo_without_patch_exit': 0, 'demo_with_patch_exit': int(b), 'suite_with_patch_exit': 0},
        'static_checks_reporting': checks,
        'caught_by_own_property': prop in checks,
        'note': notes.get(f'{prop}/{k}', '')})
    json.dump(meta, open(os.path.join(dst, 'meta.json'), 'w'), indent=1)
    print('imported', name, sorted(checks))
