#!/usr/bin/env python3
"""Regenerates the generated tables of /verif/DESIGN.md (between <!-- BEGIN:x --> / <!-- END:x --> markers):
   rules  - per property, the rules of the last run with their obligation counts (from evidence/*.json)
   seeded - per seeded change, which checks report it (from seeded/*/meta.json)"""
import json, glob, os, re
V = '/verif'
def rules_table():
    out = ['| property | rule | obligations (discharged / known finding / violated) |', '|---|---|---|']
    for f in sorted(glob.glob(f'{V}/evidence/C*.json')):
        e = json.load(open(f)); cov = e['coverage']
        by = cov.get('obligations_by_rule', {})
        for r in cov.get('rules', []):
            m = by.get(r, {})
            out.append(f"| {e['property_id']} | `{r}` | {m.get('discharged',0)} / {m.get('known-finding',0)} / {m.get('violated',0)+m.get('undecided',0)} |")
    return '\n'.join(out)
def seeded_table():
    rows = []
    stats = {'total':0,'own':0,'any':0}
    for d in sorted(glob.glob(f'{V}/seeded/C*')):
        if 'superseded' in d or not os.path.exists(d+'/meta.json'): continue
        m = json.load(open(d+'/meta.json'))
        name = os.path.basename(d)
        prop = m.get('breaks_property') or m.get('property') or name[:3]
        checks = m.get('static_checks_reporting') or {k:v for k,v in (m.get('static_checks') or {}).items() if v.get('exit')==1}
        fired = '; '.join(f"{p}: {', '.join(r.split('/',1)[1] for r in v.get('rules_fired',[]))}" for p,v in sorted(checks.items()))
        stats['total']+=1
        if prop in checks: stats['own']+=1
        if checks: stats['any']+=1
        summ = re.sub(r'\s+',' ', m.get('summary',''))
        if len(summ) > 150: summ = summ[:147]+'...'
        note = re.sub(r'\s+',' ', m.get('note','') or '')
        if len(note) > 160: note = note[:157]+'...'
        rows.append(f"| {name} | {prop} | {summ} | {fired or '**none**'} | {note} |")
    head = [f"{stats['total']} confirmed seeded changes; {stats['any']} are reported by at least one check, {stats['own']} by the check of the property they were written against.", '',
            '| seeded change | property | what was changed | checks that report it (property: rules) | note |', '|---|---|---|---|---|']
    return '\n'.join(head+rows)
s = open(f'{V}/DESIGN.md').read()
for key, gen in (('rules', rules_table), ('seeded', seeded_table)):
    b, e = f'<!-- BEGIN:{key} -->', f'<!-- END:{key} -->'
    if b in s and e in s:
        s = s[:s.index(b)+len(b)] + '\n' + gen() + '\n' + s[s.index(e):]
open(f'{V}/DESIGN.md','w').write(s)
print('ok')
