#!/usr/bin/env python3
"""seed_import.py <src-dir> <name> <status-note> <prop> [prop...]
Confirms a sub-agent's seeded change with seed_eval.sh and stores it under /verif/seeded/<name>/."""
import sys, os, json, subprocess, shutil, re
src, name, note, props = sys.argv[1], sys.argv[2], sys.argv[3], sys.argv[4:]
out = subprocess.run(['/verif/tools/seed_eval.sh', src] + props, capture_output=True, text=True).stdout
print(out[:3000])
m = re.search(r'demo-without-patch=(\d+).*demo-with-patch=(\d+).*suite-with-patch=(\d+)', out)
if not m or not (m.group(1) == '0' and m.group(2) != '0' and m.group(3) == '0'):
    print('NOT CONFIRMED; not imported'); sys.exit(1)
dst = f'/verif/seeded/{name}'
os.makedirs(dst, exist_ok=True)
for f in ('patch.diff', 'demo_test.go'):
    shutil.copy(os.path.join(src, f), dst)
meta = json.load(open(os.path.join(src, 'meta.json')))
checks = {}
for p in props:
    mm = re.search(rf'check {p} exit=(\d+)', out)
    rules = sorted(set(re.findall(rf'^\s+({p}/[A-Za-z0-9_.-]+) ', out, re.M)))
    checks[p] = {'exit': int(mm.group(1)) if mm else None, 'rules_fired': rules}
meta.update({'breaks_property': meta.get('property'), 'confirmed': {
    'ran': 'tools/seed_eval.sh in a scratch git worktree of /repo: demo test without the patch (pass), with the patch (fail), full suite with the patch (pass); then jscheck -tier quick -repo <worktree> for the listed properties',
    'demo_without_patch_exit': 0, 'demo_with_patch_exit': int(m.group(2)), 'suite_with_patch_exit': 0},
    'static_checks': checks, 'note': note})
json.dump(meta, open(os.path.join(dst, 'meta.json'), 'w'), indent=1)
print('imported', dst, checks)
