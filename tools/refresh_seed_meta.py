#!/usr/bin/env python3
"""refresh_seed_meta.py <regression-file>
Rewrites the static_checks_reporting / caught_by_own_property / confirmed fields of every /verif/seeded/*/meta.json
from the output of a regression run (lines of tools/seed_eval_all.sh). Superseded seeds keep their notes."""
import sys, os, json, re
n = 0
for line in open(sys.argv[1]):
    m = re.match(r'(\S+) confirm=(\d+)/(\d+)/(\d+) fired=\[(.*)\]', line.strip())
    if not m:
        print('skip', line.strip()[:100]); continue
    src, a, b, c, fired = m.groups()
    name = os.path.basename(src.rstrip('/'))
    p = os.path.join(src, 'meta.json')
    if not os.path.exists(p) or name.endswith('-superseded'):
        continue
    meta = json.load(open(p))
    prop = meta.get('breaks_property') or meta.get('property')
    checks = {}
    for part in fired.split():
        if ':' not in part: continue
        q, rules = part.split(':', 1)
        checks[q] = {'exit': 1, 'rules_fired': sorted(r for r in rules.split(',') if r)}
    conf = meta.get('confirmed', {})
    if not isinstance(conf, dict): conf = {}
    conf.update({'demo_without_patch_exit': int(a), 'demo_with_patch_exit': int(b), 'suite_with_patch_exit': int(c)})
    meta['confirmed'] = conf
    meta['static_checks_reporting'] = checks
    meta['caught_by_own_property'] = prop in checks
    json.dump(meta, open(p, 'w'), indent=1)
    n += 1
print('refreshed', n)
