package rules

import (
	"fmt"
	"go/token"

	"golang.org/x/tools/go/ssa"

	"verif/checker/core"
)

func init() {
	register(&Property{
		ID: "C06",
		Rules: []Rule{
			{"C06/scope-stack-discipline", ruleC06Stack},
			{"C06/per-call-scope", ruleC06PerCall},
			{"C06/lexical-or-dynamic", ruleC06LexicalOrDynamic},
			{"C06/outermost-first", ruleC06Outermost},
		},
		Explanation: "Decides the dynamic-scope mechanism structurally: the evaluator pushes the current schema onto the per-call stack exactly once, before any recursive evaluation or stack read, and registers (before any exit can be taken) a deferred function whose only effect is to shrink the stack by one, so the pop happens on every exit including failures; nothing else in the closure of Validate writes the stack or any other field of the per-call state, and nothing writes shared memory (so no dynamic-scope information survives a call or leaks between calls, for all histories); reference resolution stores either the lexical target or the anchor name on the two exclusive outcomes of one test, and the reference resolver reports a dynamic fragment only when the anchor entry it found is itself dynamic; the run-time search walks the stack forwards from its first (outermost) element, looks the name up in the anchor table of each entry's base resource, requires the entry to be dynamic and stops at the first hit. It does NOT decide which target a concrete topology selects.",
		NotDecided:  []string{"that the selected target is the one the specification designates for a concrete topology", "dynamic references during default validation (documented as unsupported)"},
	})
}

func ruleC06Stack(c *Ctx) {
	const rule = "C06/scope-stack-discipline"
	m := c.EvalModel(rule)
	if m == nil {
		return
	}
	ev := c.Closure(rule, "EV")
	// all stores to fields of state in the closure of Validate
	type stWrite struct {
		fn    *ssa.Function
		st    *ssa.Store
		field string
	}
	var pushes, pops, others []stWrite
	for _, fn := range ev.Sorted() {
		core.EachInstr(fn, func(i ssa.Instruction) {
			switch x := i.(type) {
			case *ssa.Store:
				fa, ok := x.Addr.(*ssa.FieldAddr)
				if !ok || c.fieldOwner(fa) != "state" {
					return
				}
				f := core.CanonFieldOf(fa.X.Type(), fa.Field)
				w := stWrite{fn, x, f}
				if f != "stack" {
					// initialisation of a fresh state in an entry point is fine
					if _, isAlloc := fa.X.(*ssa.Alloc); isAlloc {
						return
					}
					others = append(others, w)
					return
				}
				switch v := x.Val.(type) {
				case *ssa.Call:
					if core.CalleeKey(&v.Call) == "builtin.append" {
						pushes = append(pushes, w)
						return
					}
				case *ssa.Slice:
					pops = append(pops, w)
					return
				}
				others = append(others, w)
			case *ssa.MapUpdate:
				_, steps := c.accessPath(x.Map)
				for _, s := range steps {
					if s.Kind == "field" && len(s.Field) > 6 && s.Field[:6] == "state." {
						others = append(others, stWrite{fn, nil, s.Field})
						c.R.Bad(rule, core.FuncName(fn)+":mapupdate:"+s.Field, c.pos(x), "a map kept in the per-call state is updated in the closure of Validate: the evaluation stack must be the only mutable dynamic-scope state (a cache of scope lookups is stale as soon as a frame below changes)")
					}
				}
			}
		})
	}
	for _, o := range others {
		if o.st != nil {
			c.R.Bad(rule, core.FuncName(o.fn)+":store:state."+o.field, c.pos(o.st), "state."+o.field+" is written in the closure of Validate outside the push/pop of the evaluation stack")
		}
	}
	if len(pushes) != 1 || pushes[0].fn != m.E {
		c.R.Bad(rule, "push:exactly-one", c.P.Pos(m.E.Pos()), fmt.Sprintf("expected exactly one push (append) onto the evaluation stack, in the evaluator; found %d", len(pushes)))
		return
	}
	push := pushes[0].st
	// pushed value: the schema being evaluated
	app := push.Val.(*ssa.Call)
	pushedSchema := false
	if len(app.Call.Args) == 2 {
		for _, s := range traceSources(app.Call.Args[1]) {
			// varargs slice literal: look at what is stored into it
			_ = s
		}
		pushedSchema = c.valueIsSchemaParam(m, app.Call.Args[1])
	}
	c.R.Check(pushedSchema, rule, "push:current-schema", c.pos(push), "the schema being evaluated is pushed", "the value pushed onto the evaluation stack is not the schema being evaluated")
	// push dominates every recursive evaluation and every read of the stack in E
	okDom := true
	for _, s := range m.Sites {
		if s.Call.Parent() == m.E && !core.Dominates(push, s.Call) {
			okDom = false
		}
	}
	c.eachFamOwn(m.E, func(i ssa.Instruction) {
		if ld, ok := i.(*ssa.UnOp); ok && ld.Op == token.MUL {
			if fa, ok := ld.X.(*ssa.FieldAddr); ok && c.fieldName(fa.X.Type(), fa.Field) == "state.stack" {
				if ld != app.Call.Args[0] && !core.Dominates(push, ld) {
					okDom = false
				}
			}
		}
	})
	c.R.Check(okDom, rule, "push:first", c.pos(push), "the push dominates every recursive evaluation and every other read of the stack", "a recursive evaluation or a read of the stack can happen before the current schema is pushed")
	// pop: exactly one, in a closure deferred by E, shrinking by one
	if len(pops) != 1 {
		c.R.Bad(rule, "pop:exactly-one", c.P.Pos(m.E.Pos()), fmt.Sprintf("expected exactly one pop of the evaluation stack; found %d", len(pops)))
		return
	}
	pop := pops[0]
	sl := pop.st.Val.(*ssa.Slice)
	byOne := false
	if bo, ok := sl.High.(*ssa.BinOp); ok && bo.Op == token.SUB && sl.Low == nil {
		if k, ok := bo.Y.(*ssa.Const); ok {
			if kv, ok := constInt(k); ok && kv == 1 {
				if l, ok := bo.X.(*ssa.Call); ok && core.CalleeKey(&l.Call) == "builtin.len" && c.mentionsField(l.Call.Args[0], "state.stack", 3) {
					byOne = true
				}
			}
		}
	}
	c.R.Check(byOne && c.mentionsField(sl.X, "state.stack", 3), rule, "pop:by-one", c.pos(pop.st), "the pop is stack = stack[:len(stack)-1]", "the pop does not shrink the evaluation stack by exactly one element")
	// the pop runs on every exit: it is in a function deferred by E, and the Defer dominates every site and return
	var deferIns *ssa.Defer
	c.eachFamOwn(m.E, func(i ssa.Instruction) {
		if d, ok := i.(*ssa.Defer); ok {
			for _, src := range traceSources(d.Call.Value) {
				if mc, ok := src.(*ssa.MakeClosure); ok && mc.Fn == pop.fn {
					deferIns = d
				}
			}
			if d.Call.StaticCallee() == pop.fn {
				deferIns = d
			}
		}
	})
	if deferIns == nil {
		c.R.Bad(rule, "pop:deferred", c.pos(pop.st), "the pop is not in a function deferred by the evaluator: an exit on a failing keyword leaves the frame on the stack, and a later sibling would see a resource that is no longer in scope")
		return
	}
	okDefer := true
	c.eachFamOwn(m.E, func(i ssa.Instruction) {
		if _, ok := i.(*ssa.Return); ok && i.Block() != m.E.Recover {
			if !core.Dominates(deferIns, i) {
				okDefer = false
			}
		}
	})
	for _, s := range m.Sites {
		if s.Call.Parent() == m.E && !core.Dominates(deferIns, s.Call) {
			okDefer = false
		}
	}
	c.R.Check(okDefer, rule, "pop:deferred", c.pos(deferIns), "the deferred pop is registered before any exit and any recursive evaluation", "an exit or a recursive evaluation can be reached before the pop is deferred")
	// the deferred function does nothing else
	clean := true
	core.EachInstr(pop.fn, func(i ssa.Instruction) {
		switch x := i.(type) {
		case *ssa.Store:
			if x != pop.st {
				clean = false
			}
		case *ssa.MapUpdate, *ssa.Go, *ssa.Defer:
			clean = false
		case *ssa.Call:
			// len(), and the package's assertion helper (it has no effect unless it panics; C10 accounts for assertions)
			if core.CalleeKey(&x.Call) != "builtin.len" && !(x.Call.StaticCallee() != nil && x.Call.StaticCallee() == c.fn("assert")) {
				clean = false
			}
		}
	})
	c.R.Check(clean, rule, "pop:only-effect", c.P.Pos(pop.fn.Pos()), "the deferred function only pops", "the deferred pop function has other effects")
}

func (c *Ctx) valueIsSchemaParam(m *evalModel, v ssa.Value) bool {
	// append(stack, schema): the variadic argument is a slice of a one-element array holding the schema
	if sl, ok := v.(*ssa.Slice); ok {
		if arr, ok := sl.X.(*ssa.Alloc); ok && arr.Referrers() != nil {
			for _, r := range *arr.Referrers() {
				if ia, ok := r.(*ssa.IndexAddr); ok && ia.Referrers() != nil {
					for _, r2 := range *ia.Referrers() {
						if st, ok := r2.(*ssa.Store); ok {
							for _, src := range m.schemaSources(c, st.Val) {
								if src == "param:schema" {
									return true
								}
							}
						}
					}
				}
			}
		}
	}
	return false
}

func ruleC06PerCall(c *Ctx) {
	const rule = "C06/per-call-scope"
	// nothing reachable from Validate writes memory that outlives the call
	c.ruleNoSharedWrites(rule, "EV")
	// every *state reaching the evaluator is a fresh allocation of the entry point
	tr := c.Tracer(rule, "EV")
	cl := c.Closure(rule, "EV")
	for _, fn := range cl.Sorted() {
		for _, p := range fn.Params {
			if !(isPointer(p.Type()) && c.isPkgNamed(p.Type(), "state")) {
				continue
			}
			ok := true
			for l := range tr.Obj(p) {
				if !(l.Root.Kind == core.RFresh && cl.Has(l.Root.Fn)) {
					ok = false
				}
			}
			c.R.Check(ok, rule, "EV:"+core.FuncName(fn)+":"+p.Name(), c.P.Pos(fn.Pos()), "the state is allocated by the current Validate call", "a *state that was not allocated by the current call reaches "+core.FuncName(fn)+": one call's dynamic scope could leak into another")
		}
	}
}

func ruleC06LexicalOrDynamic(c *Ctx) {
	const rule = "C06/lexical-or-dynamic"
	m := c.resolverModel(rule)
	if m == nil {
		return
	}
	// 1. the two stores lie on the two outcomes of one test; neither field is written elsewhere
	type w struct {
		st *ssa.Store
		fn *ssa.Function
	}
	writes := map[string][]w{}
	for _, fn := range c.P.Funcs {
		core.EachInstr(fn, func(i ssa.Instruction) {
			if st, ok := i.(*ssa.Store); ok {
				if fa, ok := st.Addr.(*ssa.FieldAddr); ok {
					f := c.fieldName(fa.X.Type(), fa.Field)
					if f == "resolvedInfo.resolvedDynamicRef" || f == "resolvedInfo.dynamicRefAnchor" {
						writes[f] = append(writes[f], w{st, fn})
					}
				}
			}
		})
	}
	lex, dyn := writes["resolvedInfo.resolvedDynamicRef"], writes["resolvedInfo.dynamicRefAnchor"]
	if len(lex) != 1 || len(dyn) != 1 || lex[0].fn != dyn[0].fn {
		c.R.Bad(rule, "stores:one-each", "", fmt.Sprintf("expected one store each to resolvedDynamicRef and dynamicRefAnchor in one function; found %d and %d", len(lex), len(dyn)))
	} else {
		gl, gd := guardsOf(lex[0].st), guardsOf(dyn[0].st)
		exclusive := false
		var test ssa.Value
		for _, a := range gl {
			for _, b := range gd {
				if a.At == b.At && a.Pol != b.Pol {
					exclusive = true
					test = a.Cond
				}
			}
		}
		c.R.Check(exclusive, rule, "stores:exclusive", c.pos(lex[0].st), "the lexical target and the dynamic anchor name are stored on the two outcomes of one test", "the stores of the lexical target and of the dynamic anchor name are not on opposite outcomes of a single test: a $dynamicRef could end up with both or neither, which the evaluator treats as a broken invariant (panic)")
		if exclusive {
			// the test is on the dynamic fragment returned by the reference resolver
			onFrag := false
			if bo, ok := test.(*ssa.BinOp); ok {
				for _, v := range []ssa.Value{bo.X, bo.Y} {
					if ex, ok := v.(*ssa.Extract); ok {
						if call, ok := ex.Tuple.(*ssa.Call); ok && call.Call.StaticCallee() == m.refFn && ex.Index == 1 {
							onFrag = true
						}
					}
				}
			}
			c.R.Check(onFrag, rule, "stores:test-on-fragment", c.pos(lex[0].st), "the test is on the dynamic fragment reported by the reference resolver", "the choice between lexical and dynamic behaviour is not made on the dynamic fragment reported by the reference resolver")
			// the stored anchor name is that fragment; the stored target is the resolver's schema
			okVals := false
			if ex, ok := dyn[0].st.Val.(*ssa.Extract); ok && ex.Index == 1 {
				if ex2, ok := lex[0].st.Val.(*ssa.Extract); ok && ex2.Index == 0 && ex.Tuple == ex2.Tuple {
					okVals = true
				}
			}
			c.R.Check(okVals, rule, "stores:values", c.pos(dyn[0].st), "the anchor name and the lexical target are the two results of the same resolver call", "the stored anchor name / lexical target are not the results of the same reference-resolver call")
		}
	}
	// 2. the resolver reports a dynamic fragment only when the found anchor entry is dynamic
	n := 0
	core.EachInstr(m.refFn, func(i ssa.Instruction) {
		ret, ok := i.(*ssa.Return)
		if !ok || len(ret.Results) != 3 {
			return
		}
		frag := ret.Results[1]
		if s, ok := constString(frag); ok && s == "" {
			return
		}
		n++
		okAll := true
		var check func(v ssa.Value, at ssa.Instruction) bool
		check = func(v ssa.Value, at ssa.Instruction) bool {
			if s, ok := constString(v); ok && s == "" {
				return true
			}
			if phi, ok := v.(*ssa.Phi); ok {
				for k, e := range phi.Edges {
					pred := phi.Block().Preds[k]
					if !check(e, pred.Instrs[len(pred.Instrs)-1]) {
						return false
					}
				}
				return true
			}
			// a non-empty fragment: only under anchorInfo.dynamic == true
			for _, g := range guardsOf(at) {
				if g.Pol && c.mentionsField(g.Cond, "anchorInfo.dynamic", 3) {
					if _, isBin := g.Cond.(*ssa.BinOp); !isBin {
						return true
					}
				}
				// the flag as a small enumeration: kind == <non-zero constant>, or kind != <zero constant>
				if bo, isBin := g.Cond.(*ssa.BinOp); isBin && c.mentionsField(g.Cond, "anchorInfo.dynamic", 3) {
					for _, side := range []ssa.Value{bo.X, bo.Y} {
						if k, isK := side.(*ssa.Const); isK && k.Value != nil {
							kv, isInt := constInt(k)
							if isInt && ((bo.Op == token.EQL && g.Pol && kv != 0) || (bo.Op == token.NEQ && g.Pol && kv == 0) || (bo.Op == token.EQL && !g.Pol && kv == 0) || (bo.Op == token.NEQ && !g.Pol && kv != 0)) {
								return true
							}
						}
					}
				}
			}
			return false
		}
		okAll = check(frag, ret)
		c.R.Check(okAll, rule, fmt.Sprintf("resolver:dynamic-fragment#%d", n), c.pos(ret), "a non-empty dynamic fragment is returned only when the anchor entry found is dynamic", "the reference resolver can report a dynamic fragment although the anchor it found is not a $dynamicAnchor (or on a condition other than that entry's dynamic flag): the $dynamicRef would stop behaving like $ref")
	})
	c.R.Floor(rule, "returns that can carry a dynamic fragment", n, 1)
}

func ruleC06Outermost(c *Ctx) {
	const rule = "C06/outermost-first"
	m := c.EvalModel(rule)
	if m == nil {
		return
	}
	// the dynamic evaluation site: schema argument from anchorInfo.schema
	var site *evalSite
	for _, s := range m.Sites {
		for _, src := range s.SchemaSrc {
			if src == "anchorInfo.schema" {
				site = s
			}
		}
	}
	if site == nil {
		c.R.Unresolved(rule, "dynamic $dynamicRef evaluation site (schema argument from an anchor entry)")
		return
	}
	// the anchor lookup that feeds it
	var lk *ssa.Lookup
	c.eachFamOwn(m.E, func(i ssa.Instruction) {
		if l, ok := i.(*ssa.Lookup); ok && l.CommaOk {
			_, steps := c.accessPath(l.X)
			if len(steps) > 0 && steps[len(steps)-1].Field == "resolvedInfo.anchors" {
				lk = l
			}
		}
	})
	if lk == nil {
		c.R.Unresolved(rule, "anchor-table lookup in the evaluator")
		return
	}
	// table = resolvedInfos[ resolvedInfos[s].base ].anchors, s an element of the stack
	_, steps := c.accessPath(lk.X)
	okTable := false
	var elem ssa.Value
	if pathString(steps) == "state.rs/Resolved.resolvedInfos/[]/resolvedInfo.anchors" {
		_, ks := c.accessPath(steps[2].Key)
		if pathString(ks) == "state.rs/Resolved.resolvedInfos/[]/resolvedInfo.base" {
			okTable = true
			elem = ks[2].Key
		}
	}
	c.R.Check(okTable, rule, "table:of-base-resource", c.pos(lk), "the name is looked up in the anchor table of the base resource of a stack entry", "the dynamic anchor is not looked up in the anchor table of the stack entry's base resource (path "+pathString(steps)+")")
	// name looked up: the recorded anchor name of the current schema
	c.R.Check(c.mentionsField(lk.Index, "resolvedInfo.dynamicRefAnchor", 4), rule, "lookup:recorded-name", c.pos(lk), "the name looked up is the one recorded at resolution", "the name looked up on the stack is not the anchor name recorded by resolution")
	// the element iterates the stack forwards from its first entry
	forward := false
	if elem != nil {
		if ld, ok := elem.(*ssa.UnOp); ok {
			if ia, ok := ld.X.(*ssa.IndexAddr); ok && c.mentionsField(ia.X, "state.stack", 3) {
				// index = phi + 1 with phi starting at -1 (range lowering), or phi starting at 0 and incremented
				if bo, ok := ia.Index.(*ssa.BinOp); ok && bo.Op == token.ADD {
					if phi, ok := bo.X.(*ssa.Phi); ok {
						for _, e := range phi.Edges {
							if k, ok := e.(*ssa.Const); ok {
								if kv, ok := constInt(k); ok && kv == -1 {
									forward = true
								}
							}
						}
					}
				}
				if phi, ok := ia.Index.(*ssa.Phi); ok {
					start, inc := false, false
					for _, e := range phi.Edges {
						if k, ok := e.(*ssa.Const); ok {
							if kv, ok := constInt(k); ok && kv == 0 {
								start = true
							}
						}
						if bo, ok := e.(*ssa.BinOp); ok && bo.Op == token.ADD && bo.X == phi {
							inc = true
						}
					}
					forward = start && inc
				}
			}
		}
	}
	// ... and all of it: the entry of the schema that holds the $dynamicRef is part of its own dynamic scope
	if elem != nil {
		if ld, ok := elem.(*ssa.UnOp); ok {
			if ia, ok := ld.X.(*ssa.IndexAddr); ok && c.mentionsField(ia.X, "state.stack", 3) {
				partial := ""
				for _, v := range append(traceSourcesKeepSlices(ia.X), ia.X) {
					if sl, ok := v.(*ssa.Slice); ok && (sl.Low != nil || sl.High != nil) {
						partial = c.pos(sl)
					}
				}
				c.R.Check(partial == "", rule, "search:whole-stack", c.pos(lk), "the search visits every entry of the stack, the current schema's included", "the dynamic-scope search runs over a part of the stack only (slice expression at "+partial+"): when the resource that holds the $dynamicRef is itself the outermost one declaring the anchor (it was entered by $ref), the search finds nothing and the lexical target is used instead")
			}
		}
	}
	c.R.Check(forward, rule, "search:from-outermost", c.pos(lk), "the search visits the stack from index 0 upwards (outermost scope first)", "the dynamic-scope search does not start at the outermost stack entry and move inwards: the innermost matching resource would win")
	// the hit requires ok && dynamic, and leaves the loop
	var hit ssa.Instruction
	c.eachFamOwn(m.E, func(i ssa.Instruction) {
		switch x := i.(type) {
		case *ssa.Field:
			if c.fieldName(x.X.Type(), x.Field) == "anchorInfo.schema" {
				hit = x
			}
		case *ssa.UnOp:
			if fa, ok := x.X.(*ssa.FieldAddr); ok && x.Op == token.MUL && c.fieldName(fa.X.Type(), fa.Field) == "anchorInfo.schema" {
				hit = x
			}
		}
	})
	if hit == nil {
		c.R.Unknown(rule, "hit", c.pos(lk), "cannot find where the found anchor's schema is recorded")
		return
	}
	okFound, okDyn := false, false
	for _, g := range guardsOf(hit) {
		if ex, ok := g.Cond.(*ssa.Extract); ok && g.Pol && ex.Tuple == lk && ex.Index == 1 {
			okFound = true
		}
		if g.Pol && c.mentionsField(g.Cond, "anchorInfo.dynamic", 3) {
			okDyn = true
		}
	}
	c.R.Check(okFound && okDyn, rule, "hit:found-and-dynamic", c.pos(hit), "a stack entry matches only if its base declares the name as a $dynamicAnchor", "a stack entry is accepted without requiring both that the name was found and that it is a dynamic anchor")
	// first hit wins: from the hit the loop header is not reachable without leaving the loop
	leaves := true
	b := hit.Block()
	if core.Reachable(b, lk.Block(), nil) {
		leaves = false
	}
	c.R.Check(leaves, rule, "hit:first-wins", c.pos(hit), "the search stops at the first (outermost) hit", "the search continues after a hit: a later (inner) resource would override the outermost one")
	// ... and only at a hit: a resource that declares the name as a plain anchor, or not at all, does not end it
	if h := loopHeaderOf(lk.Block()); h != nil && hit.Parent() == lk.Parent() {
		early := ""
		for _, q := range lk.Parent().Blocks {
			if q == h || !inLoopOf(h, q) {
				continue
			}
			for _, sc := range q.Succs {
				if inLoopOf(h, sc) || blockReturnsErrorDeepLocal(sc) {
					continue
				}
				if q != hit.Block() && !hit.Block().Dominates(q) && sc != hit.Block() && !hit.Block().Dominates(sc) {
					early = c.pos(q.Instrs[len(q.Instrs)-1])
				}
			}
		}
		c.R.Check(early == "", rule, "search:left-only-on-a-hit", c.pos(lk), "the search is left early only where a dynamic anchor was found", "the dynamic-scope search can be left (the exit at "+early+") at a stack entry that is not a hit: an outer resource that declares the name as a plain $anchor, or has an entry of another kind, ends the search, the resources further in are never asked and the lexical target is used")
	}
}

func init() {
	p := Properties["C06"]
	p.Rules = append(p.Rules, Rule{"C06/fallback-to-lexical", ruleC06Fallback})
}

// When no resource in the dynamic scope declares the anchor, the initially
// (lexically) resolved schema is the target: the "nothing found" outcome of the
// search may fail only if there is no such schema, and the schema remembered for
// that purpose is the resolver's result of the same call that produced the anchor name.
func ruleC06Fallback(c *Ctx) {
	const rule = "C06/fallback-to-lexical"
	m := c.EvalModel(rule)
	rm := c.resolverModel(rule)
	if m == nil || rm == nil {
		return
	}
	// the failure exit of the dynamic branch: an error return in the evaluator guarded by dynamicRefAnchor != ""
	// must also be guarded by the absence of a lexical fallback
	n := 0
	c.eachFamOwn(m.E, func(i ssa.Instruction) {
		call, ok := i.(*ssa.Call)
		if !ok || core.CalleeKey(&call.Call) != "fmt.Errorf" {
			return
		}
		mentions := false
		for _, a := range call.Call.Args {
			if c.mentionsField(a, "resolvedInfo.dynamicRefAnchor", 8) {
				mentions = true
			}
			if sl, ok := a.(*ssa.Slice); ok {
				if arr, ok := sl.X.(*ssa.Alloc); ok && arr.Referrers() != nil {
					for _, r := range *arr.Referrers() {
						if ia, ok := r.(*ssa.IndexAddr); ok && ia.Referrers() != nil {
							for _, r2 := range *ia.Referrers() {
								if st, ok := r2.(*ssa.Store); ok && c.mentionsField(st.Val, "resolvedInfo.dynamicRefAnchor", 8) {
									mentions = true
								}
							}
						}
					}
				}
			}
		}
		if !mentions {
			return
		}
		n++
		viaFallback := false
		for _, g := range guardsOf(call) {
			x, k, equal, ok := eqConst(g)
			if !ok || !k.IsNil() || !equal {
				continue
			}
			// the tested value can be the lexical fallback
			for _, s := range traceSourcesPhi(x) {
				if ld, ok := s.val.(*ssa.UnOp); ok {
					if fa, ok := ld.X.(*ssa.FieldAddr); ok && c.fieldOwner(fa) == "resolvedInfo" && isPointer(ld.Type()) && c.isPkgNamed(ld.Type(), "Schema") {
						viaFallback = true
					}
				}
			}
		}
		c.R.Check(viaFallback, rule, "search-miss:falls-back", c.pos(call), "the search fails only when there is no lexically resolved schema to fall back to", "when no resource on the evaluation stack declares the dynamic anchor the evaluator fails (\"missing dynamic anchor\") instead of using the initially resolved schema: a $dynamicRef such as \"other.json#name\" evaluated before other.json was entered cannot be validated")
	})
	c.R.Floor(rule, "failure exits of the dynamic search", n, 1)
	// the fallback stored at resolution is the same resolver result as the anchor name
	okStore := false
	for _, fn := range c.Closure(rule, "RES").Minus(c.Closure(rule, "EV")).Sorted() {
		var anchorSt, fbSt *ssa.Store
		core.EachInstr(fn, func(i ssa.Instruction) {
			st, ok := i.(*ssa.Store)
			if !ok {
				return
			}
			fa, ok := st.Addr.(*ssa.FieldAddr)
			if !ok || c.fieldOwner(fa) != "resolvedInfo" {
				return
			}
			name := core.CanonFieldOf(fa.X.Type(), fa.Field)
			if name == "dynamicRefAnchor" {
				anchorSt = st
			}
			if ex, ok := st.Val.(*ssa.Extract); ok && ex.Index == 0 && name != "resolvedRef" && name != "resolvedDynamicRef" {
				if call, ok := ex.Tuple.(*ssa.Call); ok && call.Call.StaticCallee() == rm.refFn {
					fbSt = st
				}
			}
		})
		if anchorSt != nil && fbSt != nil {
			a, ok1 := anchorSt.Val.(*ssa.Extract)
			b, ok2 := fbSt.Val.(*ssa.Extract)
			if ok1 && ok2 && a.Tuple == b.Tuple && anchorSt.Block() == fbSt.Block() {
				okStore = true
			}
		}
	}
	c.R.Check(okStore, rule, "fallback:stored-with-anchor", "", "the lexically resolved schema is remembered together with the anchor name (same resolver call, same branch)", "resolution does not remember the lexically resolved schema of a dynamically behaving $dynamicRef next to its anchor name")
}

// traceSourcesKeepSlices: the values v comes from through phis and cells, slice expressions included in the result.
func traceSourcesKeepSlices(v ssa.Value) []ssa.Value {
	var out []ssa.Value
	seen := map[ssa.Value]bool{}
	var walk func(v ssa.Value, depth int)
	walk = func(v ssa.Value, depth int) {
		if v == nil || seen[v] || depth == 0 {
			return
		}
		seen[v] = true
		out = append(out, v)
		switch x := v.(type) {
		case *ssa.Slice:
			walk(x.X, depth-1)
		case *ssa.Phi:
			for _, e := range x.Edges {
				walk(e, depth-1)
			}
		case *ssa.UnOp:
			if x.Op == token.MUL {
				if cell := resolveCell(x.X); cell != nil {
					for _, sv := range cellStores(cell) {
						walk(sv, depth-1)
					}
				}
			}
		}
	}
	walk(v, 6)
	return out
}
