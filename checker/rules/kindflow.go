package rules

import (
	"go/constant"
	"go/token"
	"sort"
	"strings"

	"golang.org/x/tools/go/ssa"

	"verif/checker/core"
)

// KindSet is a set of reflect.Kind values (bit i = kind i).
type KindSet uint32

const (
	kInvalid = iota
	kBool
	kInt
	kInt8
	kInt16
	kInt32
	kInt64
	kUint
	kUint8
	kUint16
	kUint32
	kUint64
	kUintptr
	kFloat32
	kFloat64
	kComplex64
	kComplex128
	kArray
	kChan
	kFunc
	kInterface
	kMap
	kPointer
	kSlice
	kString
	kStruct
	kUnsafePointer
	nKinds
)

const AllKinds KindSet = 1<<nKinds - 1

var kindNames = []string{"Invalid", "Bool", "Int", "Int8", "Int16", "Int32", "Int64", "Uint", "Uint8", "Uint16", "Uint32", "Uint64", "Uintptr", "Float32", "Float64", "Complex64", "Complex128", "Array", "Chan", "Func", "Interface", "Map", "Pointer", "Slice", "String", "Struct", "UnsafePointer"}

func Kinds(ks ...int) KindSet {
	var s KindSet
	for _, k := range ks {
		s |= 1 << uint(k)
	}
	return s
}

var (
	intKinds   = Kinds(kInt, kInt8, kInt16, kInt32, kInt64)
	uintKinds  = Kinds(kUint, kUint8, kUint16, kUint32, kUint64, kUintptr)
	floatKinds = Kinds(kFloat32, kFloat64)
	nilable    = Kinds(kChan, kFunc, kInterface, kMap, kPointer, kSlice, kUnsafePointer)
)

func (s KindSet) String() string {
	if s == AllKinds {
		return "{any}"
	}
	var out []string
	for i := 0; i < nKinds; i++ {
		if s&(1<<uint(i)) != 0 {
			out = append(out, kindNames[i])
		}
	}
	sort.Strings(out)
	return "{" + strings.Join(out, ",") + "}"
}

func (s KindSet) SubsetOf(t KindSet) bool { return s&^t == 0 }

// kindFlow holds, per block, the possible kinds of one reflect.Value subject at block entry.
type kindFlow struct {
	fn      *ssa.Function
	subject func(ssa.Value) bool
	kills   func(ssa.Instruction) bool
	in      map[*ssa.BasicBlock]KindSet
	reached map[*ssa.BasicBlock]bool
	full    func(cond ssa.Value, cur KindSet) (KindSet, KindSet)
	entry   KindSet // kinds at function entry (AllKinds unless this is the flow of a helper seen from its callers)
	hasEnt  bool
	subs    map[*ssa.Function]*kindFlow
	kindVal func(ssa.Value) bool // values that ARE the subject's kind (a reflect.Kind parameter), compared with constants directly
}

// refine returns the kind sets on the true and false outcome of cond.
func (kf *kindFlow) refine(cond ssa.Value, cur KindSet) (t, f KindSet) {
	t, f = cur, cur
	switch x := cond.(type) {
	case *ssa.UnOp:
		if x.Op == token.NOT {
			f, t = kf.refine(x.X, cur)
		}
	case *ssa.BinOp:
		if x.Op == token.LSS || x.Op == token.LEQ || x.Op == token.GTR || x.Op == token.GEQ {
			// a range of kinds: `k >= reflect.Int && k <= reflect.Uint64`
			isKind := func(v ssa.Value) bool {
				if kf.kindVal != nil && kf.kindVal(v) {
					return true
				}
				cc, ok := v.(*ssa.Call)
				if !ok {
					return false
				}
				return (core.CalleeKey(&cc.Call) == "reflect.Value.Kind" && len(cc.Call.Args) > 0 && kf.subject(cc.Call.Args[0])) || (cc.Call.IsInvoke() && cc.Call.Method.Name() == "Kind" && kf.subject(cc.Call.Value))
			}
			op := x.Op
			var kc *ssa.Const
			if kk, ok := x.Y.(*ssa.Const); ok && isKind(x.X) {
				kc = kk
			} else if kk, ok := x.X.(*ssa.Const); ok && isKind(x.Y) {
				kc = kk
				op = map[token.Token]token.Token{token.LSS: token.GTR, token.LEQ: token.GEQ, token.GTR: token.LSS, token.GEQ: token.LEQ}[op]
			}
			if kc == nil || kc.Value == nil || kc.Value.Kind() != constant.Int {
				return
			}
			kv, _ := constant.Int64Val(kc.Value)
			var tset KindSet
			for k := 0; k < nKinds; k++ {
				if constant.Compare(constant.MakeInt64(int64(k)), op, constant.MakeInt64(kv)) {
					tset |= Kinds(k)
				}
			}
			return cur & tset, cur &^ tset
		}
		if x.Op != token.EQL && x.Op != token.NEQ {
			return
		}
		var call *ssa.Call
		var k *ssa.Const
		for _, pair := range [][2]ssa.Value{{x.X, x.Y}, {x.Y, x.X}} {
			if cc, ok := pair[0].(*ssa.Call); ok {
				if kk, ok := pair[1].(*ssa.Const); ok {
					call, k = cc, kk
				}
			}
		}
		if kf.kindVal != nil {
			// `k == reflect.Int8` where k is the kind itself
			for _, pair := range [][2]ssa.Value{{x.X, x.Y}, {x.Y, x.X}} {
				if kk, ok := pair[1].(*ssa.Const); ok && kf.kindVal(pair[0]) && kk.Value != nil && kk.Value.Kind() == constant.Int {
					kv, _ := constant.Int64Val(kk.Value)
					if kv >= 0 && kv < nKinds {
						eq, ne := cur&Kinds(int(kv)), cur&^Kinds(int(kv))
						if x.Op == token.EQL {
							return eq, ne
						}
						return ne, eq
					}
				}
			}
		}
		if call == nil || k == nil || k.Value == nil || k.Value.Kind() != constant.Int {
			return
		}
		isValueKind := core.CalleeKey(&call.Call) == "reflect.Value.Kind" && kf.subject(call.Call.Args[0])
		isTypeKind := call.Call.IsInvoke() && call.Call.Method.Name() == "Kind" && kf.subject(call.Call.Value)
		if !isValueKind && !isTypeKind {
			return
		}
		kv, _ := constant.Int64Val(k.Value)
		if kv < 0 || kv >= nKinds {
			return
		}
		eq, ne := cur&Kinds(int(kv)), cur&^Kinds(int(kv))
		if x.Op == token.EQL {
			t, f = eq, ne
		} else {
			t, f = ne, eq
		}
	case *ssa.Call:
		key := core.CalleeKey(&x.Call)
		// a package predicate applied to the subject's kind (isObjectKind(v.Kind())): evaluate it for every kind
		if callee := x.Call.StaticCallee(); callee != nil && curCtx != nil && curCtx.P.InPkg(callee) && len(callee.Params) == 1 && len(x.Call.Args) == 1 {
			if kc, ok := x.Call.Args[0].(*ssa.Call); ok && ((core.CalleeKey(&kc.Call) == "reflect.Value.Kind" && kf.subject(kc.Call.Args[0])) || (kc.Call.IsInvoke() && kc.Call.Method.Name() == "Kind" && kf.subject(kc.Call.Value))) {
				var tset KindSet
				okAll := true
				for k := 0; k < nKinds; k++ {
					res, ok := evalPureFn(callee, func(v ssa.Value) (constant.Value, bool) {
						if v == callee.Params[0] {
							return constant.MakeInt64(int64(k)), true
						}
						return nil, false
					})
					if !ok || res.Kind() != constant.Bool {
						okAll = false
						break
					}
					if constant.BoolVal(res) {
						tset |= Kinds(k)
					}
				}
				if okAll {
					return cur & tset, cur &^ tset
				}
			}
			return
		}
		if !strings.HasPrefix(key, "reflect.Value.") || len(x.Call.Args) == 0 || !kf.subject(x.Call.Args[0]) {
			return
		}
		var set KindSet
		switch strings.TrimPrefix(key, "reflect.Value.") {
		case "CanInt":
			set = intKinds
		case "CanUint":
			set = uintKinds
		case "CanFloat":
			set = floatKinds
		case "IsValid":
			set = AllKinds &^ Kinds(kInvalid)
		default:
			return
		}
		t, f = cur&set, cur&^set
	}
	return
}

// KindFlow computes the possible kinds of the subject at the entry of every block.
func KindFlow(fn *ssa.Function, subject func(ssa.Value) bool, kills func(ssa.Instruction) bool) *kindFlow {
	kf := &kindFlow{fn: fn, subject: subject, kills: kills, in: map[*ssa.BasicBlock]KindSet{}, reached: map[*ssa.BasicBlock]bool{}}
	kf.solve()
	return kf
}

// atom refines one non-phi condition.
func (kf *kindFlow) atom(cond ssa.Value, cur KindSet) (KindSet, KindSet) {
	if kf.full != nil {
		return kf.full(cond, cur)
	}
	return kf.refine(cond, cur)
}

// endOf: kinds at the end of block b.
func (kf *kindFlow) endOf(b *ssa.BasicBlock) KindSet {
	if !kf.reached[b] {
		return 0
	}
	cur := kf.in[b]
	for _, i := range b.Instrs {
		if kf.kills != nil && kf.kills(i) {
			cur = AllKinds
		}
	}
	return cur
}

// edge: kinds on the edge from pred to its successor number si.
func (kf *kindFlow) edge(pred *ssa.BasicBlock, si int, depth int) KindSet {
	cur := kf.endOf(pred)
	if ifi, ok := pred.Instrs[len(pred.Instrs)-1].(*ssa.If); ok && len(pred.Succs) == 2 && pred.Succs[0] != pred.Succs[1] {
		t, f := kf.cond(ifi.Cond, pred, cur, depth)
		if si == 0 {
			return t
		}
		return f
	}
	return cur
}

// cond refines by a condition evaluated at the end of block at; boolean phis
// (from &&, || or a test stored in a local) are resolved edge by edge.
func (kf *kindFlow) cond(c ssa.Value, at *ssa.BasicBlock, cur KindSet, depth int) (KindSet, KindSet) {
	if u, ok := c.(*ssa.UnOp); ok && u.Op == token.NOT {
		t, f := kf.cond(u.X, at, cur, depth)
		return f, t
	}
	phi, ok := c.(*ssa.Phi)
	if !ok || depth == 0 {
		return kf.atom(c, cur)
	}
	// the subject must not change between the phi's block and the test
	pb := phi.Block()
	if pb != at && !(pb.Dominates(at)) {
		return cur, cur
	}
	var t, f KindSet
	for k, e := range phi.Edges {
		pred := pb.Preds[k]
		si := 0
		for j, s := range pred.Succs {
			if s == pb {
				si = j
			}
		}
		base := kf.edge(pred, si, depth-1)
		if kc, isConst := e.(*ssa.Const); isConst && kc.Value != nil {
			if kc.Value.String() == "true" {
				t |= base
			} else {
				f |= base
			}
			continue
		}
		et, ef := kf.cond(e, pred, base, depth-1)
		t |= et
		f |= ef
	}
	return t & cur, f & cur
}

func (kf *kindFlow) solve() {
	fn := kf.fn
	if len(fn.Blocks) == 0 {
		return
	}
	kf.in[fn.Blocks[0]] = AllKinds
	if kf.hasEnt {
		kf.in[fn.Blocks[0]] = kf.entry
	}
	kf.reached[fn.Blocks[0]] = true
	work := []*ssa.BasicBlock{fn.Blocks[0]}
	steps := 0
	for len(work) > 0 && steps < 20000 {
		steps++
		b := work[0]
		work = work[1:]
		cur := kf.endOf(b)
		outs := make([]KindSet, len(b.Succs))
		for i := range outs {
			outs[i] = cur
		}
		if ifi, ok := b.Instrs[len(b.Instrs)-1].(*ssa.If); ok && len(b.Succs) == 2 {
			outs[0], outs[1] = kf.cond(ifi.Cond, b, cur, 4)
		}
		for si, s := range b.Succs {
			nw := kf.in[s] | outs[si]
			if !kf.reached[s] || nw != kf.in[s] {
				kf.in[s] = nw
				kf.reached[s] = true
				work = append(work, s)
			}
		}
	}
}

// At returns the possible kinds of the subject just before instruction i.
func (kf *kindFlow) At(i ssa.Instruction) KindSet {
	if i.Parent() != kf.fn {
		if sub := kf.sub(i.Parent()); sub != nil {
			return sub.At(i)
		}
	}
	b := i.Block()
	if !kf.reached[b] {
		return 0
	}
	cur := kf.in[b]
	for _, x := range b.Instrs {
		if x == i {
			break
		}
		if kf.kills != nil && kf.kills(x) {
			cur = AllKinds
		}
	}
	return cur
}

// cellSubject builds subject/kill predicates for a variable that lives in a
// cell (captured local) or is a plain SSA value.
func cellSubject(cell *ssa.Alloc, plain ssa.Value) (func(ssa.Value) bool, func(ssa.Instruction) bool) {
	subject := func(v ssa.Value) bool {
		if plain != nil && v == plain {
			return true
		}
		if u, ok := v.(*ssa.UnOp); ok && u.Op == token.MUL && cell != nil {
			return resolveCell(u.X) == cell
		}
		return false
	}
	kills := func(i ssa.Instruction) bool {
		if st, ok := i.(*ssa.Store); ok && cell != nil {
			return resolveCell(st.Addr) == cell
		}
		return false
	}
	return subject, kills
}

// sub: the flow of the same subject inside a transparent helper h called (only) from this flow's function
// or from its helpers: the helper's parameters that receive the subject at every call site are the subject
// there, and the kinds at entry are those possible at the call sites.
func (kf *kindFlow) sub(h *ssa.Function) *kindFlow {
	if kf.subs == nil {
		kf.subs = map[*ssa.Function]*kindFlow{}
	}
	if s, ok := kf.subs[h]; ok {
		return s
	}
	kf.subs[h] = nil // guards against recursion
	c := curCtx
	if c == nil || h == nil {
		return nil
	}
	// the body of a range-over-func loop: it runs while the iterator call is in progress, so what is known
	// about the subject where the body closure is created still holds inside (the subject is read through
	// the captured variable's cell)
	if h.Parent() != nil && strings.Contains(h.Synthetic, "range-over-func") {
		parentFlow := kf
		if h.Parent() != kf.fn {
			parentFlow = kf.sub(h.Parent())
		}
		if parentFlow == nil {
			return nil
		}
		var mc *ssa.MakeClosure
		core.EachInstr(h.Parent(), func(i ssa.Instruction) {
			if m, ok := i.(*ssa.MakeClosure); ok && m.Fn == h {
				mc = m
			}
		})
		if mc == nil {
			return nil
		}
		// subject cells: cells of which the parent has a load that is a subject
		cells := map[*ssa.Alloc]bool{}
		for _, f := range core.WithAnon(outermost(h)) {
			core.EachInstr(f, func(i ssa.Instruction) {
				if ld, ok := i.(*ssa.UnOp); ok && ld.Op == token.MUL && ld.Parent() == parentFlow.fn && parentFlow.subject(ld) {
					if a := resolveCell(ld.X); a != nil {
						cells[a] = true
					}
				}
			})
		}
		if len(cells) == 0 {
			return nil
		}
		subject := func(v ssa.Value) bool {
			ld, ok := v.(*ssa.UnOp)
			return ok && ld.Op == token.MUL && cells[resolveCell(ld.X)]
		}
		s := &kindFlow{fn: h, subject: subject, in: map[*ssa.BasicBlock]KindSet{}, reached: map[*ssa.BasicBlock]bool{}, entry: parentFlow.At(mc), hasEnt: true}
		s.solve()
		kf.subs[h] = s
		return s
	}
	// the closure that an iterator constructor returns (func f(v) iter.Seq { return func(yield) {...v...} }): it runs
	// with the values the constructor was called with; what the call sites of the constructor know about the
	// subject holds inside (the subject is read through the captured parameter's cell)
	if h.Parent() != nil && h.Parent().Parent() == nil && c.transparent(h.Parent()) {
		P := h.Parent()
		returned := false
		core.EachInstr(P, func(i ssa.Instruction) {
			if ret, ok := i.(*ssa.Return); ok {
				for _, r := range ret.Results {
					for _, src := range append(traceSources(r), r) {
						if mc, ok := src.(*ssa.MakeClosure); ok && mc.Fn == h {
							returned = true
						}
					}
				}
			}
		})
		sites := c.P.CallIndex().Sites[P]
		if !returned || len(sites) == 0 {
			return nil
		}
		cells := map[*ssa.Alloc]bool{}
		var entry KindSet
		for pi, q := range P.Params {
			all := true
			var ent KindSet
			for _, site := range sites {
				args := site.Common().Args
				if pi >= len(args) {
					all = false
					break
				}
				var callerFlow *kindFlow
				if site.Parent() == kf.fn {
					callerFlow = kf
				} else {
					callerFlow = kf.sub(site.Parent())
					if callerFlow == nil {
						callerFlow = kf.sub(outermost(site.Parent()))
						if callerFlow != nil && site.Parent() != callerFlow.fn {
							callerFlow = nil
						}
					}
				}
				if callerFlow == nil || !callerFlow.subject(args[pi]) {
					all = false
					break
				}
				ent |= callerFlow.At(site)
			}
			if !all {
				continue
			}
			// the cell the parameter is spilled into
			if refs := q.Referrers(); refs != nil {
				for _, r := range *refs {
					if st, ok := r.(*ssa.Store); ok && st.Val == ssa.Value(q) {
						if a, ok := st.Addr.(*ssa.Alloc); ok {
							cells[a] = true
							entry |= ent
						}
					}
				}
			}
		}
		if len(cells) == 0 {
			return nil
		}
		subject := func(v ssa.Value) bool {
			ld, ok := v.(*ssa.UnOp)
			return ok && ld.Op == token.MUL && cells[resolveCell(ld.X)]
		}
		s := &kindFlow{fn: h, subject: subject, in: map[*ssa.BasicBlock]KindSet{}, reached: map[*ssa.BasicBlock]bool{}, entry: entry, hasEnt: true}
		s.solve()
		kf.subs[h] = s
		return s
	}
	if h.Parent() != nil || !c.transparent(h) {
		return nil
	}
	sites := c.P.CallIndex().Sites[h]
	if len(sites) == 0 {
		return nil
	}
	subj := map[ssa.Value]bool{}
	var entry KindSet
	for pi, q := range h.Params {
		all := true
		for _, site := range sites {
			args := site.Common().Args
			if pi >= len(args) {
				all = false
				break
			}
			var callerFlow *kindFlow
			switch {
			case site.Parent() == kf.fn:
				callerFlow = kf
			default:
				callerFlow = kf.sub(outermost(site.Parent()))
				if callerFlow != nil && site.Parent() != callerFlow.fn {
					callerFlow = nil // a call from a closure: not modelled
				}
			}
			if callerFlow == nil || !callerFlow.subject(args[pi]) {
				all = false
				break
			}
		}
		if !all {
			continue
		}
		for v := range subjectSet(h, q) {
			subj[v] = true
		}
	}
	if len(subj) == 0 {
		return nil
	}
	for _, site := range sites {
		if site.Parent() == kf.fn {
			entry |= kf.At(site)
		} else if cf := kf.sub(outermost(site.Parent())); cf != nil {
			entry |= cf.At(site)
		} else {
			entry = AllKinds
		}
	}
	s := &kindFlow{fn: h, subject: func(v ssa.Value) bool { return subj[v] }, in: map[*ssa.BasicBlock]KindSet{}, reached: map[*ssa.BasicBlock]bool{}, full: nil, entry: entry, hasEnt: true}
	s.solve()
	kf.subs[h] = s
	return s
}
