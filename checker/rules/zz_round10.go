package rules

import (
	"fmt"
	"go/token"
	"go/types"

	"golang.org/x/tools/go/ssa"

	"verif/checker/core"
)

// Clauses added after the tenth (half) round of seeded changes.
func init() {
	for _, pid := range []string{"C05", "C20", "C19"} {
		pid := pid
		Properties[pid].Rules = append(Properties[pid].Rules, Rule{pid + "/no-capacity-as-content", func(c *Ctx) { ruleNoCapacityAsContent(c, pid+"/no-capacity-as-content") }})
	}
	for _, pid := range []string{"C10", "C19"} {
		pid := pid
		Properties[pid].Rules = append(Properties[pid].Rules, Rule{pid + "/make-size-not-negative", func(c *Ctx) { ruleMakeSizeNotNegative(c, pid+"/make-size-not-negative") }})
	}
	for _, pid := range []string{"C07", "C01"} {
		pid := pid
		Properties[pid].Rules = append(Properties[pid].Rules, Rule{pid + "/annotation-sets-not-counted", func(c *Ctx) { ruleAnnotationSetsNotCounted(c, pid+"/annotation-sets-not-counted") }})
	}
	for _, pid := range []string{"C08", "C07", "C18"} {
		pid := pid
		Properties[pid].Rules = append(Properties[pid].Rules, Rule{pid + "/every-map-entry-enumerated", func(c *Ctx) { ruleEveryMapEntryEnumerated(c, pid+"/every-map-entry-enumerated") }})
	}
	Properties["C10"].Rules = append(Properties["C10"].Rules, Rule{"C10/no-impossible-conjunction", ruleNoImpossibleConjunction})
}

// The capacity of a slice says nothing about the JSON value it holds: it is an accident of how the slice was built
// (encoding/json grows in powers of two, slices.Clone trims). cap() is used only as the capacity argument of make
// or append-style growth, never as a length or in a condition. Zero uses are expected; every one is reported.
func ruleNoCapacityAsContent(c *Ctx, rule string) {
	n := 0
	for _, fn := range c.P.Funcs {
		if !c.P.InPkg(fn) {
			continue
		}
		core.EachInstr(fn, func(i ssa.Instruction) {
			call, ok := i.(*ssa.Call)
			if !ok || core.CalleeKey(&call.Call) != "builtin.cap" || call.Referrers() == nil {
				return
			}
			n++
			for _, r := range *call.Referrers() {
				if ms, ok := r.(*ssa.MakeSlice); ok && ms.Cap == ssa.Value(call) && ms.Len != ssa.Value(call) {
					continue
				}
				c.R.Bad(rule, fmt.Sprintf("%s:cap#%d", core.FuncName(fn), n), c.pos(call), "the capacity of a slice is used as a length or in a decision: it depends on how the slice was built, not on the JSON value (encoding/json leaves spare capacity after 3, 5, 6, 7 ... elements, a clone has none), so a decoded list gains trailing nulls, or a keyword is written for the original and dropped for its clone")
			}
		})
	}
	c.R.OK(rule, "cap-uses-examined", "", fmt.Sprintf("%d uses of cap() in the package: none as a length or in a condition", n))
}

// make([]T, n) and make([]T, 0, n) panic for a negative n. A size computed as a difference of two lengths is
// guarded by a comparison of the same two lengths.
func ruleMakeSizeNotNegative(c *Ctx, rule string) {
	n := 0
	for _, fn := range c.P.Funcs {
		if !c.P.InPkg(fn) {
			continue
		}
		core.EachInstr(fn, func(i ssa.Instruction) {
			ms, ok := i.(*ssa.MakeSlice)
			if !ok {
				return
			}
			for _, sz := range []ssa.Value{ms.Len, ms.Cap} {
				bo, ok := sz.(*ssa.BinOp)
				if !ok || bo.Op != token.SUB {
					continue
				}
				if _, isConst := bo.Y.(*ssa.Const); isConst {
					// n-1: guarded by n > 0 or similar; judged by the same test
				}
				n++
				guarded := false
				for _, g := range guardsOf(ms) {
					gb, ok := g.Cond.(*ssa.BinOp)
					if !ok {
						continue
					}
					same := func(a, b ssa.Value) bool { return a == b || sharesSource(a, b) || sameLenArg(a, b) }
					switch {
					case same(gb.X, bo.X) && same(gb.Y, bo.Y) && ((gb.Op == token.GEQ || gb.Op == token.GTR) == g.Pol) && (gb.Op == token.GEQ || gb.Op == token.GTR || gb.Op == token.LSS || gb.Op == token.LEQ):
						if g.Pol && (gb.Op == token.GEQ || gb.Op == token.GTR) || !g.Pol && (gb.Op == token.LSS) {
							guarded = true
						}
					case same(gb.X, bo.Y) && same(gb.Y, bo.X):
						if g.Pol && (gb.Op == token.LEQ || gb.Op == token.LSS) || !g.Pol && (gb.Op == token.GTR) {
							guarded = true
						}
					}
				}
				// len(m) - len(set), where set is a local map that only ever gets keys found in m: a subset is not larger
				if !guarded {
					lx, okx := bo.X.(*ssa.Call)
					ly, oky := bo.Y.(*ssa.Call)
					if okx && oky && core.CalleeKey(&lx.Call) == "builtin.len" && core.CalleeKey(&ly.Call) == "builtin.len" {
						if mm, isLocal := ly.Call.Args[0].(*ssa.MakeMap); isLocal {
							subset, any := true, false
							core.EachInstr(fn, func(j ssa.Instruction) {
								mu, ok := j.(*ssa.MapUpdate)
								if !ok || mu.Map != ssa.Value(mm) {
									return
								}
								any = true
								found := false
								for _, g := range guardsLocal(mu) {
									ex, ok := g.Cond.(*ssa.Extract)
									if !ok || !g.Pol || ex.Index != 1 {
										continue
									}
									if lk, ok := ex.Tuple.(*ssa.Lookup); ok && (lk.X == lx.Call.Args[0] || sharesSource(lk.X, lx.Call.Args[0]) || sameFieldLoad(lk.X, lx.Call.Args[0])) && (lk.Index == mu.Key || sharesSource(lk.Index, mu.Key)) {
										found = true
									}
								}
								if !found {
									subset = false
								}
							})
							if any && subset {
								guarded = true
							}
						}
					}
				}
				c.R.Check(guarded, rule, fmt.Sprintf("%s:make#%d", core.FuncName(fn), n), c.pos(ms), "the size is known not to be negative", "a slice is made with a size that is the difference of two values with no comparison of the two before it: where the second is the larger (more names in PropertyOrder than there are properties) make panics")
			}
		})
	}
	c.R.OK(rule, "makes-examined", "", fmt.Sprintf("%d slice sizes computed by subtraction examined", n))
}

func sameLenArg(a, b ssa.Value) bool {
	la, ok1 := a.(*ssa.Call)
	lb, ok2 := b.(*ssa.Call)
	if !ok1 || !ok2 || core.CalleeKey(&la.Call) != "builtin.len" || core.CalleeKey(&lb.Call) != "builtin.len" {
		return false
	}
	return la.Call.Args[0] == lb.Call.Args[0] || sharesSource(la.Call.Args[0], lb.Call.Args[0]) || sameFieldLoad(la.Call.Args[0], lb.Call.Args[0])
}

// The sets of an annotation record also hold what in-place applicators handed up; their size is never the count
// of anything a keyword of this schema object matched. len() of such a set is not used in the evaluator.
func ruleAnnotationSetsNotCounted(c *Ctx, rule string) {
	n := 0
	for _, fn := range c.Closure(rule, "EV").Sorted() {
		if !c.P.InPkg(fn) {
			continue
		}
		core.EachInstr(fn, func(i ssa.Instruction) {
			call, ok := i.(*ssa.Call)
			if !ok || core.CalleeKey(&call.Call) != "builtin.len" {
				return
			}
			n++
			for _, s := range append(traceSources(call.Call.Args[0]), call.Call.Args[0]) {
				if ld, ok := s.(*ssa.UnOp); ok {
					if fa, ok := ld.X.(*ssa.FieldAddr); ok && c.isPkgNamed(fa.X.Type(), "annotations") {
						c.R.Bad(rule, core.FuncName(fn)+":len-of-"+core.StructField(fa.X.Type(), fa.Field).Name(), c.pos(call), "the size of an annotation set is used as a count: the set also holds the indexes (or names) that in-place applicators evaluated, so `contains` counts items matched by a `contains` inside allOf, and minContains/maxContains and the \"no item matches\" failure are decided on the wrong population")
					}
				}
			}
		})
	}
	c.R.OK(rule, "len-uses-examined", "", fmt.Sprintf("%d uses of len() in the evaluation closure: none of an annotation set", n))
}

// The enumeration of an object's properties yields every entry of a map instance: in the body of the loop over the
// map no test stands between an entry and its being yielded. (The struct arm has documented skips; a map has the
// entries the document has, a null member included.)
func ruleEveryMapEntryEnumerated(c *Ctx, rule string) {
	n := 0
	seen := map[*ssa.Function]bool{}
	{
		for _, fn := range c.P.Funcs {
			if seen[fn] || !c.P.InPkg(fn) {
				continue
			}
			seen[fn] = true
			if !isRangeFuncBody(fn) {
				continue
			}
			at := rangeFuncCall(fn)
			if at == nil {
				continue
			}
			rc, ok := at.(*ssa.Call)
			if !ok {
				continue
			}
			// the loop ranges over v.Seq2() / v.Seq() of a reflect.Value
			over := false
			for _, s := range append(traceSources(rc.Call.Value), rc.Call.Value) {
				if sc, ok := s.(*ssa.Call); ok {
					if k := core.CalleeKey(&sc.Call); k == "reflect.Value.Seq2" || k == "reflect.Value.Seq" {
						over = true
					}
				}
			}
			for _, a := range rc.Call.Args {
				for _, s := range append(traceSources(a), a) {
					if sc, ok := s.(*ssa.Call); ok {
						if k := core.CalleeKey(&sc.Call); k == "reflect.Value.Seq2" || k == "reflect.Value.Seq" {
							over = true
						}
					}
				}
			}
			if k := core.CalleeKey(&rc.Call); !over && k != "reflect.Value.Seq2" && k != "reflect.Value.Seq" {
				continue
			}
			var yields []*ssa.Call
			core.EachInstr(fn, func(i ssa.Instruction) {
				call, ok := i.(*ssa.Call)
				if !ok || call.Call.IsInvoke() || call.Call.StaticCallee() != nil {
					return
				}
				// a call of a function value that came from outside (the yield of the enclosing iterator)
				for _, src := range append(traceSources(call.Call.Value), call.Call.Value) {
					switch src.(type) {
					case *ssa.FreeVar, *ssa.Parameter:
						if sig := call.Call.Signature(); sig.Results().Len() == 1 && isBoolType(sig.Results().At(0).Type()) {
							yields = append(yields, call)
						}
					}
				}
			})
			// ... and none is passed over: every way to the next entry (`return true` in the body) goes through a yield
			if len(yields) > 0 {
				through := map[*ssa.BasicBlock]bool{}
				for _, y := range yields {
					through[y.Block()] = true
				}
				targets := map[*ssa.BasicBlock]bool{}
				for _, b := range fn.Blocks {
					if ret, ok := b.Instrs[len(b.Instrs)-1].(*ssa.Return); ok && len(ret.Results) == 1 {
						if k, ok := ret.Results[0].(*ssa.Const); ok && k.Value != nil && k.Value.String() == "true" {
							targets[b] = true
						}
					}
				}
				c.R.Check(len(targets) == 0 || mustPass(fn.Blocks[0], through, targets), rule, core.FuncName(fn)+":no-entry-passed-over", c.P.Pos(fn.Pos()), "the loop goes on to the next entry only after yielding the current one", "the loop over a map instance can go on to the next entry without yielding the current one (a `continue` before the yield): entries so passed over (a member whose value is a nil pointer, i.e. null) are hidden from additionalProperties, patternProperties, propertyNames and unevaluatedProperties, while `required`, the property count and the lookup of a single property still see them, and the same object held in a map[string]any keeps them")
			}
			for _, y := range yields {
				n++
				var tests []string
				for _, g := range guardsLocal(y) {
					if g.At.Block() == fn.Blocks[0] {
						continue // the synthetic "is this loop still running" test at the head of the body
					}
					tests = append(tests, c.pos(g.At))
				}
				c.R.Check(len(tests) == 0, rule, fmt.Sprintf("%s:yield#%d", core.FuncName(fn), n), c.pos(y), "every entry of the map is yielded", fmt.Sprintf("an entry of a map instance is yielded only under a test (at %v): entries that fail it (a member whose value is a nil pointer, i.e. null) are hidden from additionalProperties, patternProperties, propertyNames and unevaluatedProperties, while `required`, the property count and the lookup of a single property still see them, and the same object held in a map[string]any keeps them", tests))
			}
		}
	}
	// the same loop written with a map iterator: for it.Next() { ... yield(it.Key(), it.Value()) ... }
	for _, fn := range c.P.Funcs {
		if !c.P.InPkg(fn) {
			continue
		}
		var yields []*ssa.Call
		core.EachInstr(fn, func(i ssa.Instruction) {
			call, ok := i.(*ssa.Call)
			if !ok || call.Call.IsInvoke() || call.Call.StaticCallee() != nil {
				return
			}
			for _, src := range append(traceSources(call.Call.Value), call.Call.Value) {
				switch src.(type) {
				case *ssa.FreeVar, *ssa.Parameter:
					if sig := call.Call.Signature(); sig.Results().Len() == 1 && isBoolType(sig.Results().At(0).Type()) && sig.Params().Len() == 2 {
						yields = append(yields, call)
					}
				}
			}
		})
		if len(yields) == 0 {
			continue
		}
		for _, h := range fn.Blocks {
			ifi, ok := h.Instrs[len(h.Instrs)-1].(*ssa.If)
			if !ok {
				continue
			}
			nc, ok := ifi.Cond.(*ssa.Call)
			if !ok || core.CalleeKey(&nc.Call) != "reflect.MapIter.Next" {
				continue
			}
			through := map[*ssa.BasicBlock]bool{}
			inside := false
			for _, y := range yields {
				if inLoopOf(h, y.Block()) {
					through[y.Block()] = true
					inside = true
				}
			}
			if !inside {
				continue
			}
			n++
			c.R.Check(mustPass(h.Succs[0], through, map[*ssa.BasicBlock]bool{h: true}), rule, core.FuncName(fn)+":no-entry-passed-over", c.pos(ifi), "the loop goes on to the next entry only after yielding the current one", "the loop over a map instance can go on to the next entry without yielding the current one (a `continue` before the yield): entries so passed over are hidden from additionalProperties, patternProperties, propertyNames and unevaluatedProperties, while `required`, the property count and the lookup of a single property still see them")
		}
	}
	c.R.Floor(rule, "yields inside a loop over a reflect map", n, 1)
}

// A test that can never hold: math.IsNaN(x) and math.IsInf(x, 0) both required of the same x. What it guards (the
// refusal of a non-finite bound) is dead code.
func ruleNoImpossibleConjunction(c *Ctx) {
	const rule = "C10/no-impossible-conjunction"
	n := 0
	for _, fn := range c.P.Funcs {
		if !c.P.InPkg(fn) {
			continue
		}
		has := false
		core.EachInstr(fn, func(i ssa.Instruction) {
			if call, ok := i.(*ssa.Call); ok && core.CalleeKey(&call.Call) == "math.IsNaN" {
				has = true
			}
		})
		if !has {
			continue
		}
		for _, b := range fn.Blocks {
			if len(b.Instrs) == 0 {
				continue
			}
			n++
			var nan, inf []ssa.Value
			for _, g := range guardsLocal(b.Instrs[0]) {
				call, ok := g.Cond.(*ssa.Call)
				if !ok || !g.Pol {
					continue
				}
				switch core.CalleeKey(&call.Call) {
				case "math.IsNaN":
					nan = append(nan, call.Call.Args[0])
				case "math.IsInf":
					inf = append(inf, call.Call.Args[0])
				}
			}
			for _, a := range nan {
				for _, bb := range inf {
					if a == bb || sharesSource(a, bb) || sameLoadSource(a, bb) {
						c.R.Bad(rule, fmt.Sprintf("%s:block#%d", core.FuncName(fn), b.Index), c.pos(b.Instrs[0]), "this code runs only where one value is both NaN and infinite, which no float is (a De Morgan slip when the test was turned into an early return): the refusal of a non-finite bound it contains never happens, Resolve accepts the schema, and Validate panics converting the bound to an exact rational")
					}
				}
			}
		}
	}
	c.R.OK(rule, "blocks-examined", "", fmt.Sprintf("%d blocks of functions that test for NaN examined", n))
}

func init() {
	Properties["C05"].Rules = append(Properties["C05"].Rules, Rule{"C05/shadow-copies-independent", ruleShadowCopiesIndependent})
}

// schemaFieldsIn: the Schema fields read on the way to v.
func (c *Ctx) schemaFieldsIn(v ssa.Value) map[string]bool {
	out := map[string]bool{}
	for _, x := range append(backSlice(v, 16), v) {
		if fa, ok := x.(*ssa.FieldAddr); ok {
			if nm := c.fieldName(fa.X.Type(), fa.Field); len(nm) > 7 && nm[:7] == "Schema." {
				out[nm] = true
			}
		}
		if f, ok := x.(*ssa.Field); ok {
			if nm := c.fieldName(f.X.Type(), f.Field); len(nm) > 7 && nm[:7] == "Schema." {
				out[nm] = true
			}
		}
	}
	return out
}

// MarshalJSON copies some fields of the schema into the fields of a local struct that shadow them. Whether one is
// copied depends on that field alone - or on a field it cannot be set together with (Type/Types, Items/ItemsArray:
// the check run before refuses a schema with both). An `else if` chain over fields that can be set together writes
// the first and silently drops the rest.
func ruleShadowCopiesIndependent(c *Ctx) {
	const rule = "C05/shadow-copies-independent"
	mar := c.fn("Schema.MarshalJSON")
	if mar == nil {
		c.R.Unresolved(rule, "Schema.MarshalJSON")
		return
	}
	// pairs of fields that the checks reachable from MarshalJSON refuse together
	excl := map[[2]string]bool{}
	for _, fn := range c.Closure(rule, "MAR").Sorted() {
		if !c.P.InPkg(fn) || fn.Signature.Results().Len() == 0 || !isErrorType(fn.Signature.Results().At(fn.Signature.Results().Len()-1).Type()) {
			continue
		}
		for _, b := range fn.Blocks {
			if !blockReturnsErrorDeepLocal(b) || len(b.Instrs) == 0 {
				continue
			}
			fields := map[string]bool{}
			for _, g := range guardsLocal(b.Instrs[0]) {
				for f := range c.schemaFieldsIn(g.Cond) {
					fields[f] = true
				}
			}
			if len(fields) == 2 {
				ks := sortedKeys(fields)
				excl[[2]string{ks[0], ks[1]}] = true
			}
		}
	}
	n := 0
	core.EachInstr(mar, func(i ssa.Instruction) {
		st, ok := i.(*ssa.Store)
		if !ok {
			return
		}
		fa, ok := st.Addr.(*ssa.FieldAddr)
		if !ok {
			return
		}
		if _, isLocal := fa.X.(*ssa.Alloc); !isLocal || c.isPkgNamed(fa.X.Type(), "Schema") {
			return
		}
		// the shadow struct is a local anonymous struct type; a named helper type (the ordered properties) is built
		// under the test of the field it wraps
		if pt, ok := fa.X.Type().Underlying().(*types.Pointer); ok {
			if _, named := pt.Elem().(*types.Named); named {
				return
			}
		}
		src := sortedKeys(c.schemaFieldsIn(st.Val))
		if len(src) != 1 {
			return
		}
		n++
		var others []string
		for _, g := range guardsLocal(st) {
			for f := range c.schemaFieldsIn(g.Cond) {
				if f == src[0] {
					continue
				}
				pair := [2]string{f, src[0]}
				if pair[0] > pair[1] {
					pair[0], pair[1] = pair[1], pair[0]
				}
				if !excl[pair] {
					others = append(others, f)
				}
			}
		}
		c.R.Check(len(others) == 0, rule, "copy:"+src[0], c.pos(st), "whether the field is copied depends on itself (or on a field it excludes)", fmt.Sprintf("whether %s is written depends on %v, fields it can be set together with: for a schema with both, only the first of the chain is marshaled and the other keyword is silently dropped, so the round-tripped schema accepts instances the original rejects", src[0], others))
	})
	// the same through a helper that is handed the address of the shadow field: setIfNonNil(&ms.Enum, s.Enum)
	core.EachInstr(mar, func(i ssa.Instruction) {
		call, ok := i.(*ssa.Call)
		if !ok || call.Call.StaticCallee() == nil || !c.P.InPkg(call.Call.StaticCallee()) || len(call.Call.Args) < 2 {
			return
		}
		fa, ok := call.Call.Args[0].(*ssa.FieldAddr)
		if !ok {
			return
		}
		if _, isLocal := fa.X.(*ssa.Alloc); !isLocal || c.isPkgNamed(fa.X.Type(), "Schema") {
			return
		}
		if pt, ok := fa.X.Type().Underlying().(*types.Pointer); ok {
			if _, named := pt.Elem().(*types.Named); named {
				return
			}
		}
		src := sortedKeys(c.schemaFieldsIn(call.Call.Args[1]))
		if len(src) != 1 {
			return
		}
		n++
		var others []string
		for _, g := range guardsLocal(call) {
			for f := range c.schemaFieldsIn(g.Cond) {
				if f == src[0] {
					continue
				}
				pair := [2]string{f, src[0]}
				if pair[0] > pair[1] {
					pair[0], pair[1] = pair[1], pair[0]
				}
				if !excl[pair] {
					others = append(others, f)
				}
			}
		}
		c.R.Check(len(others) == 0, rule, "copy:"+src[0], c.pos(call), "whether the field is copied depends on itself (or on a field it excludes)", fmt.Sprintf("whether %s is written depends on %v, fields it can be set together with: for a schema with both, only the first of the chain is marshaled and the other keyword is silently dropped", src[0], others))
	})
	c.R.Floor(rule, "conditional copies into the marshal shadow struct", n, 2)
}

func init() {
	for _, pid := range []string{"C06", "C03"} {
		pid := pid
		Properties[pid].Rules = append(Properties[pid].Rules, Rule{pid + "/references-resolved-independently", func(c *Ctx) { ruleRefsResolvedIndependently(c, pid+"/references-resolved-independently") }})
	}
}

// A schema may carry both $ref and $dynamicRef; each is resolved where it is present, whatever the other says.
// (`else if s.DynamicRef != ""` after the $ref block leaves the $dynamicRef of such a schema unresolved, and the
// evaluator's assertion that every $dynamicRef was resolved fails at validation time.)
func ruleRefsResolvedIndependently(c *Ctx, rule string) {
	n := 0
	for _, fn := range c.Closure(rule, "RES").Minus(c.Closure(rule, "EV")).Sorted() {
		if !c.P.InPkg(fn) {
			continue
		}
		core.EachInstr(fn, func(i ssa.Instruction) {
			call, ok := i.(*ssa.Call)
			if !ok || call.Call.StaticCallee() == nil || !c.P.InPkg(call.Call.StaticCallee()) {
				return
			}
			which := ""
			for _, a := range call.Call.Args {
				if !tString(a.Type()) {
					continue
				}
				for f := range c.schemaFieldsIn(a) {
					if f == "Schema.Ref" || f == "Schema.DynamicRef" {
						which = f
					}
				}
			}
			if which == "" {
				return
			}
			other := "Schema.DynamicRef"
			if which == other {
				other = "Schema.Ref"
			}
			n++
			dep := ""
			for _, g := range guardsLocal(call) {
				if c.schemaFieldsIn(g.Cond)[other] {
					dep = c.pos(g.At)
				}
			}
			c.R.Check(dep == "", rule, fmt.Sprintf("%s:%s", core.FuncName(fn), which), c.pos(call), "resolved wherever it is present", "whether "+which+" is resolved depends on "+other+" (test at "+dep+"): in a schema that carries both, one of the two references is never resolved; Resolve succeeds and Validate panics (or silently skips the keyword) when it reaches that schema")
		})
	}
	c.R.Floor(rule, "resolutions of $ref / $dynamicRef", n, 2)
}
