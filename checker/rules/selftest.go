package rules

import (
	"encoding/json"
	"fmt"
	"os"
	"os/exec"
	"path/filepath"
	"regexp"
	"sort"
	"strings"
	"sync"
)

// Mutant is one single-site edit of the repository used to test the checker
// both ways: breaking edits must be reported, benign edits must be silent.
type Mutant struct {
	Name   string   `json:"name"`
	File   string   `json:"file"`
	Old    string   `json:"old"`
	New    string   `json:"new"`
	Props  []string `json:"props"`            // properties whose check must fire (breaking) or stay silent (benign)
	Benign bool     `json:"benign,omitempty"` // behaviour-preserving: every listed check must be silent
	Rule   string   `json:"rule,omitempty"`   // rule expected to report it (substring)
	Note   string   `json:"note,omitempty"`
	Edits  []Edit   `json:"edits,omitempty"` // additional edits (multi-site mutants)
	All    bool     `json:"all,omitempty"`   // the first edit replaces every occurrence
}

type Edit struct {
	File string `json:"file"`
	Old  string `json:"old"`
	New  string `json:"new"`
	All  bool   `json:"all,omitempty"` // replace every occurrence (renamings)
}

type Corpus struct {
	Note    string   `json:"note"`
	Mutants []Mutant `json:"mutants"`
}

func LoadCorpus(verif string) (*Corpus, error) {
	b, err := os.ReadFile(filepath.Join(verif, "selftest", "corpus.json"))
	if err != nil {
		return nil, err
	}
	var c Corpus
	if err := json.Unmarshal(b, &c); err != nil {
		return nil, err
	}
	return &c, nil
}

// scratchCopy copies the analysable part of the repository to a fresh directory.
func scratchCopy(repo string) (string, error) {
	base := os.Getenv("TMPDIR")
	if base == "" {
		base = "/tmp"
	}
	dir, err := os.MkdirTemp(base, "jscheck-mut-")
	if err != nil {
		return "", err
	}
	cp := func(rel string) error {
		b, err := os.ReadFile(filepath.Join(repo, rel))
		if err != nil {
			return err
		}
		os.MkdirAll(filepath.Dir(filepath.Join(dir, rel)), 0o755)
		return os.WriteFile(filepath.Join(dir, rel), b, 0o644)
	}
	for _, f := range []string{"go.mod", "go.sum"} {
		if err := cp(f); err != nil {
			os.RemoveAll(dir)
			return "", err
		}
	}
	ents, err := os.ReadDir(filepath.Join(repo, "jsonschema"))
	if err != nil {
		os.RemoveAll(dir)
		return "", err
	}
	for _, e := range ents {
		if strings.HasSuffix(e.Name(), ".go") && !strings.HasSuffix(e.Name(), "_test.go") {
			if err := cp(filepath.Join("jsonschema", e.Name())); err != nil {
				os.RemoveAll(dir)
				return "", err
			}
		}
	}
	return dir, nil
}

func applyEdit(dir string, e Edit) (bool, error) {
	p := filepath.Join(dir, e.File)
	b, err := os.ReadFile(p)
	if err != nil {
		return false, err
	}
	s := string(b)
	if e.All {
		if strings.Count(s, e.Old) == 0 {
			return false, nil
		}
		return true, os.WriteFile(p, []byte(strings.ReplaceAll(s, e.Old, e.New)), 0o644)
	}
	if strings.Count(s, e.Old) != 1 {
		return false, nil
	}
	return true, os.WriteFile(p, []byte(strings.Replace(s, e.Old, e.New, 1)), 0o644)
}

type MutantResult struct {
	Name     string   `json:"name"`
	Benign   bool     `json:"benign,omitempty"`
	Applied  bool     `json:"applied"`
	Fired    bool     `json:"fired"`
	Rules    []string `json:"rules_fired,omitempty"`
	Verdict  string   `json:"verdict"` // caught, MISS, silent-ok, FALSE-ALARM, skipped, error
	Detail   string   `json:"detail,omitempty"`
	Expected string   `json:"expected_rule,omitempty"`
}

var ruleRe = regexp.MustCompile(`(?m)^\s+(C\d+/[A-Za-z0-9_.-]+) `)

// RunMutant applies m to a scratch copy and runs the quick check of prop on it.
func RunMutant(m Mutant, prop, repo, verif string) MutantResult {
	res := MutantResult{Name: m.Name, Benign: m.Benign, Expected: m.Rule}
	dir, err := scratchCopy(repo)
	if err != nil {
		res.Verdict, res.Detail = "error", err.Error()
		return res
	}
	defer os.RemoveAll(dir)
	edits := append([]Edit{{File: m.File, Old: m.Old, New: m.New, All: m.All}}, m.Edits...)
	for _, e := range edits {
		ok, err := applyEdit(dir, e)
		if err != nil {
			res.Verdict, res.Detail = "error", err.Error()
			return res
		}
		if !ok {
			res.Verdict, res.Detail = "skipped", "the edit no longer applies to "+e.File+" (the repository changed)"
			return res
		}
	}
	res.Applied = true
	tv := filepath.Join(dir, "_verif")
	os.MkdirAll(tv, 0o755)
	if b, err := os.ReadFile(filepath.Join(verif, "known_findings.txt")); err == nil {
		os.WriteFile(filepath.Join(tv, "known_findings.txt"), b, 0o644)
	}
	exe, _ := os.Executable()
	cmd := exec.Command(exe, "-prop", prop, "-tier", "quick", "-repo", dir, "-verif", tv)
	out, err := cmd.CombinedOutput()
	code := 0
	if err != nil {
		if ee, ok := err.(*exec.ExitError); ok {
			code = ee.ExitCode()
		} else {
			res.Verdict, res.Detail = "error", err.Error()
			return res
		}
	}
	text := string(out)
	seen := map[string]bool{}
	for _, mm := range ruleRe.FindAllStringSubmatch(text, -1) {
		if !seen[mm[1]] {
			seen[mm[1]] = true
			res.Rules = append(res.Rules, mm[1])
		}
	}
	sort.Strings(res.Rules)
	res.Fired = code == 1 && strings.Contains(text, "VIOLATION property="+prop)
	if code != 0 && code != 1 {
		res.Verdict, res.Detail = "error", fmt.Sprintf("exit %d: %s", code, tail(text, 400))
		return res
	}
	if strings.Contains(text, "cannot load and type-check") {
		res.Verdict, res.Detail = "skipped", "the variant does not compile"
		return res
	}
	switch {
	case m.Benign && res.Fired:
		res.Verdict, res.Detail = "FALSE-ALARM", tail(text, 600)
	case m.Benign:
		res.Verdict = "silent-ok"
	case res.Fired:
		res.Verdict = "caught"
		if m.Rule != "" {
			hit := false
			for _, r := range res.Rules {
				if strings.Contains(r, m.Rule) {
					hit = true
				}
			}
			if !hit {
				res.Verdict = "caught-by-other-rule"
			}
		}
	default:
		res.Verdict = "MISS"
	}
	return res
}

func tail(s string, n int) string {
	if len(s) > n {
		return "..." + s[len(s)-n:]
	}
	return s
}

// SelfTest runs the property's slice of the mutant corpus through the checker
// (not through the repository's tests). Misses indict the checker, not the
// repository: they are reported as SELFTEST-MISS lines and in the evidence,
// never as VIOLATION lines.
func SelfTest(prop, repo, verif string) any {
	corpus, err := LoadCorpus(verif)
	if err != nil {
		return map[string]any{"error": err.Error()}
	}
	var todo []Mutant
	for _, m := range corpus.Mutants {
		for _, p := range m.Props {
			if p == prop {
				todo = append(todo, m)
			}
		}
	}
	results := make([]MutantResult, len(todo))
	sem := make(chan struct{}, 8)
	var wg sync.WaitGroup
	for i, m := range todo {
		wg.Add(1)
		go func(i int, m Mutant) {
			defer wg.Done()
			sem <- struct{}{}
			defer func() { <-sem }()
			results[i] = RunMutant(m, prop, repo, verif)
		}(i, m)
	}
	wg.Wait()
	counts := map[string]int{}
	for _, r := range results {
		counts[r.Verdict]++
		switch r.Verdict {
		case "MISS":
			fmt.Printf("SELFTEST-MISS property=%s mutant=%s (breaking edit not reported)\n", prop, r.Name)
		case "FALSE-ALARM":
			fmt.Printf("SELFTEST-FALSE-ALARM property=%s mutant=%s (behaviour-preserving edit reported)\n", prop, r.Name)
		case "error":
			fmt.Printf("SELFTEST-ERROR property=%s mutant=%s %s\n", prop, r.Name, r.Detail)
		}
	}
	return map[string]any{"mutants": len(todo), "counts": counts, "results": results}
}
