package rules

import (
	"fmt"
	"go/token"
	"go/types"

	"golang.org/x/tools/go/ssa"

	"verif/checker/core"
)

// Clauses added after the ninth round of seeded changes.
func init() {
	for _, pid := range []string{"C08", "C09", "C01"} {
		pid := pid
		Properties[pid].Rules = append(Properties[pid].Rules, Rule{pid + "/json-number-is-a-number", func(c *Ctx) { ruleJSONNumberIsANumber(c, pid+"/json-number-is-a-number") }})
	}
	Properties["C10"].Rules = append(Properties["C10"].Rules, Rule{"C10/ok-before-use", ruleOKBeforeUse})
	for _, pid := range []string{"C08", "C05", "C02", "C11"} {
		pid := pid
		Properties[pid].Rules = append(Properties[pid].Rules, Rule{pid + "/extractor-covers-kinds", func(c *Ctx) { ruleExtractorCoversKinds(c, pid+"/extractor-covers-kinds") }})
	}
}

// isJSONNumberTest: cond holds only where v's type is json.Number.
func (c *Ctx) isJSONNumberTest(cond ssa.Value, isInst func(ssa.Value) bool) bool {
	jng := c.jsonNumberTypeGlobals()
	switch x := cond.(type) {
	case *ssa.BinOp:
		if x.Op != token.EQL {
			return false
		}
		for _, pair := range [][2]ssa.Value{{x.X, x.Y}, {x.Y, x.X}} {
			if g := loadedFromGlobal(pair[1]); g != nil && jng[g] {
				if tc, ok := pair[0].(*ssa.Call); ok && core.CalleeKey(&tc.Call) == "reflect.Value.Type" && isInst(tc.Call.Args[0]) {
					return true
				}
			}
		}
	case *ssa.Call:
		return len(x.Call.Args) == 1 && isInst(x.Call.Args[0]) && c.isJSONNumberPredicate(x.Call.StaticCallee())
	case *ssa.Extract:
		// _, ok := v.Interface().(json.Number)
		if ta, ok := x.Tuple.(*ssa.TypeAssert); ok && x.Index == 1 && isNamed(ta.AssertedType, "encoding/json", "Number") {
			return true
		}
	}
	return false
}

// A json.Number is a JSON number whatever its text: once the classifier has found the value to be one, every
// answer it can still give is "number" or "integer" (its Go kind, String, is never consulted).
func ruleJSONNumberIsANumber(c *Ctx, rule string) {
	cls := c.TypeClassifier(rule)
	if cls == nil || len(cls.Params) == 0 {
		return
	}
	subj := subjectSet(cls, cls.Params[0])
	isInst := func(v ssa.Value) bool { return subj[v] }
	n := 0
	for _, b := range cls.Blocks {
		ifi, ok := b.Instrs[len(b.Instrs)-1].(*ssa.If)
		if !ok || !c.isJSONNumberTest(ifi.Cond, isInst) {
			continue
		}
		n++
		bad := ""
		seen := map[*ssa.BasicBlock]bool{}
		var walk func(x *ssa.BasicBlock)
		walk = func(x *ssa.BasicBlock) {
			if seen[x] {
				return
			}
			seen[x] = true
			if ret, ok := x.Instrs[len(x.Instrs)-1].(*ssa.Return); ok && len(ret.Results) > 0 {
				s, isStr := constString(ret.Results[0])
				if !isStr || (s != "number" && s != "integer") {
					bad = c.pos(ret)
				}
			}
			for _, s := range x.Succs {
				walk(s)
			}
		}
		walk(b.Succs[0])
		c.R.Check(bad == "", rule, fmt.Sprintf("%s:json.Number#%d", core.FuncName(cls), n), c.pos(ifi), "a json.Number is classified as a number or an integer, never by its Go kind", "after the value has been found to be a json.Number the classifier can still answer something other than \"number\" or \"integer\" (the return at "+bad+"): a json.Number whose text the exact conversion refuses (an exponent beyond its limit) is then classified by its Go kind, String, and a number passes `type: string`")
	}
	c.R.Floor(rule, "tests for json.Number in the classifier", n, 1)
}

// A package function that answers (pointer, ok) and gives (nil, false) when it gives up: the pointer is used (as
// the receiver or an argument of a call, or dereferenced) only where ok was tested and found true.
func ruleOKBeforeUse(c *Ctx) {
	const rule = "C10/ok-before-use"
	givesUp := func(fn *ssa.Function) bool {
		res := fn.Signature.Results()
		if res.Len() != 2 || !isBoolType(res.At(1).Type()) {
			return false
		}
		if _, isPtr := res.At(0).Type().Underlying().(*types.Pointer); !isPtr {
			return false
		}
		found := false
		core.EachInstr(fn, func(i ssa.Instruction) {
			if ret, ok := i.(*ssa.Return); ok && len(ret.Results) == 2 {
				if k, ok := ret.Results[0].(*ssa.Const); ok && k.IsNil() {
					found = true
				}
			}
		})
		return found
	}
	n := 0
	seenFn := map[*ssa.Function]bool{}
	for _, cl := range []string{"EV", "EQ", "RES", "DEF", "INF", "MAR", "UNM"} {
		for _, fn := range c.Closure(rule, cl).Sorted() {
			if seenFn[fn] || !c.P.InPkg(fn) {
				continue
			}
			seenFn[fn] = true
			core.EachInstr(fn, func(i ssa.Instruction) {
				call, ok := i.(*ssa.Call)
				if !ok {
					return
				}
				callee := call.Call.StaticCallee()
				if callee == nil || !c.P.InPkg(callee) || len(callee.Blocks) == 0 || !givesUp(callee) || call.Referrers() == nil {
					return
				}
				var ptr, okv ssa.Value
				for _, r := range *call.Referrers() {
					if ex, isEx := r.(*ssa.Extract); isEx {
						if ex.Index == 0 {
							ptr = ex
						} else {
							okv = ex
						}
					}
				}
				if ptr == nil || ptr.Referrers() == nil {
					return
				}
				for _, r := range *ptr.Referrers() {
					use := false
					switch u := r.(type) {
					case ssa.CallInstruction:
						use = true
					case *ssa.UnOp:
						use = u.Op == token.MUL
					case *ssa.FieldAddr:
						use = true
					}
					if !use {
						continue
					}
					n++
					guarded := false
					for _, g := range guardsOf(r) {
						if okv != nil && g.Cond == okv && g.Pol {
							guarded = true
						}
						// a nil test of the pointer itself
						if x, k, equal, isEq := eqConst(g); isEq && k.IsNil() && !equal && x == ptr {
							guarded = true
						}
					}
					c.R.Check(guarded, rule, fmt.Sprintf("%s:%s#%d", core.FuncName(fn), core.FuncName(callee), n), c.pos(r), "the result is used only where the call said ok", "the pointer result of "+core.FuncName(callee)+" is used without its ok result having been tested: where the function gives up it returns nil, and the use panics with a nil dereference")
				}
			})
		}
	}
	c.R.Floor(rule, "uses of a (pointer, ok) result", n, 3)
}

// The number extractor succeeds for every numeric kind (the kinds the classifier calls "integer" or "number"):
// a kind it gives up on is a number for `type` and for the inference, but is skipped by minimum/maximum/multipleOf
// and is never equal to the same number in enum or const.
func ruleExtractorCoversKinds(c *Ctx, rule string) {
	ext := c.NumberExtractor(rule)
	if ext == nil || len(ext.Params) == 0 {
		return
	}
	subj := c.subjectsDeep(ext, ext.Params[0])
	kf := c.kindFlowWithTypeTests(ext, func(v ssa.Value) bool { return subj[v] }, nil)
	var got KindSet
	n := 0
	core.EachInstr(ext, func(i ssa.Instruction) {
		ret, ok := i.(*ssa.Return)
		if !ok || len(ret.Results) != 2 {
			return
		}
		for _, src := range append(traceSources(ret.Results[1]), ret.Results[1]) {
			if k, ok := src.(*ssa.Const); ok && k.Value != nil && k.Value.String() == "true" {
				got |= kf.At(ret)
				n++
				break
			}
		}
	})
	if n == 0 {
		c.R.Unknown(rule, "extractor:success-exits", c.P.Pos(ext.Pos()), "no return of the number extractor answers ok=true with a constant")
		return
	}
	numeric := intKinds | uintKinds | floatKinds
	c.R.Check(numeric.SubsetOf(got), rule, "extractor:numeric-kinds", c.P.Pos(ext.Pos()), fmt.Sprintf("the extractor can succeed for every kind in %s", numeric),
		fmt.Sprintf("the number extractor succeeds only for the numeric kinds %s, not for all of %s: a value of the missing kind is still an integer for `type` and for the inferred schema, but minimum, maximum and multipleOf are skipped for it and it never equals the same number in enum or const", got&numeric, numeric))
}

func init() {
	for _, pid := range []string{"C15", "C03", "C05"} {
		pid := pid
		Properties[pid].Rules = append(Properties[pid].Rules, Rule{pid + "/no-error-passed-over-in-a-loop", func(c *Ctx) { ruleNoErrorPassedOver(c, pid+"/no-error-passed-over-in-a-loop") }})
	}
}

// Inside a loop, the branch taken when a call has returned a non-nil error ends in a return (or a panic): it never
// goes on with the next element. (`if err != nil { if harmless(x) { continue }; return err }` makes the function
// report success for an element it could not examine.) Package-wide.
func ruleNoErrorPassedOver(c *Ctx, rule string) {
	n := 0
	for _, fn := range c.P.Funcs {
		if !c.P.InPkg(fn) || (fn.Synthetic != "" && !isRangeFuncBody(fn)) {
			continue
		}
		k := 0
		for _, b := range fn.Blocks {
			ifi, ok := b.Instrs[len(b.Instrs)-1].(*ssa.If)
			if !ok {
				continue
			}
			x, kc, equal, isEq := eqConst(guardAtom{Cond: ifi.Cond, Pol: true})
			if !isEq || !kc.IsNil() || !isErrorType(x.Type()) {
				continue
			}
			// the value is what a call returned
			switch v := x.(type) {
			case *ssa.Call:
			case *ssa.Extract:
				if _, isCall := v.Tuple.(*ssa.Call); !isCall {
					continue
				}
			default:
				continue
			}
			h := loopHeaderOf(b)
			inBody := h == nil && isRangeFuncBody(fn)
			if h == nil && !inBody {
				continue
			}
			t := b.Succs[0]
			if equal {
				t = b.Succs[1]
			}
			n++
			k++
			// can the header be reached again from the error branch without leaving the function?
			seen := map[*ssa.BasicBlock]bool{}
			again := false
			var walk func(q *ssa.BasicBlock)
			walk = func(q *ssa.BasicBlock) {
				if seen[q] || again {
					return
				}
				seen[q] = true
				if inBody {
					// the body of a range-over-func loop: `continue` is `return true`
					if ret, ok := q.Instrs[len(q.Instrs)-1].(*ssa.Return); ok && len(ret.Results) == 1 {
						if kc, ok := ret.Results[0].(*ssa.Const); ok && kc.Value != nil && kc.Value.String() == "true" {
							again = true
							delete(seen, q)
						}
						return
					}
				} else {
					if q == h {
						again = true
						return
					}
					if !inLoopOf(h, q) {
						return
					}
				}
				for _, s := range q.Succs {
					walk(s)
				}
			}
			walk(t)
			if again {
				// the verdict of the evaluator is a signal, not a failure of the function
				if call, ok := errCall(x); ok && call.Call.StaticCallee() != nil && call.Call.StaticCallee() == c.Evaluator(rule) {
					again = false
				}
				// the error is recorded on the way (collected, reported through a callback)
				if refs := x.Referrers(); refs != nil {
					for _, r := range *refs {
						if r == ssa.Instruction(nil) || r.Block() == nil || !seen[r.Block()] || r.Block() == h {
							continue
						}
						if bo, isBo := r.(*ssa.BinOp); isBo && ssa.Value(bo) == ifi.Cond {
							continue
						}
						if _, isRet := r.Block().Instrs[len(r.Block().Instrs)-1].(*ssa.Return); isRet {
							continue
						}
						again = false
					}
				}
			}
			c.R.Check(!again, rule, fmt.Sprintf("%s:error-branch#%d", core.FuncName(fn), k), c.pos(ifi), "the error branch leaves the loop", "inside a loop, the branch taken when a call has failed can go on with the next element instead of returning the error: the function reports success although it could not examine that element (a default that cannot be decoded is never checked, a document that cannot be read is skipped)")
		}
	}
	c.R.Floor(rule, "error tests inside loops", n, 10)
}

func errCall(x ssa.Value) (*ssa.Call, bool) {
	switch v := x.(type) {
	case *ssa.Call:
		return v, true
	case *ssa.Extract:
		cc, ok := v.Tuple.(*ssa.Call)
		return cc, ok
	}
	return nil, false
}

func init() {
	for _, pid := range []string{"C01", "C02"} {
		pid := pid
		Properties[pid].Rules = append(Properties[pid].Rules, Rule{pid + "/one-early-success", func(c *Ctx) { ruleOneEarlySuccess(c, pid+"/one-early-success") }})
	}
}

// retNilError: the return gives a nil error (directly, or through a named result assigned nil in the same block).
func retNilError(ret *ssa.Return) bool {
	if len(ret.Results) == 0 {
		return false
	}
	ev := ret.Results[len(ret.Results)-1]
	if !isErrorType(ev.Type()) {
		return false
	}
	if k, ok := ev.(*ssa.Const); ok {
		return k.IsNil()
	}
	ld, ok := ev.(*ssa.UnOp)
	if !ok || ld.Op != token.MUL {
		return false
	}
	var last ssa.Value
	for _, i := range ret.Block().Instrs {
		if st, ok := i.(*ssa.Store); ok && st.Addr == ld.X {
			last = st.Val
		}
	}
	k, ok := last.(*ssa.Const)
	return ok && k.IsNil()
}

// The evaluator reports success in one place, after every keyword has had its turn. The only earlier success exit
// is the one draft-07 prescribes: a schema with $ref ignores its other keywords.
func ruleOneEarlySuccess(c *Ctx, rule string) {
	e := c.Evaluator(rule)
	if e == nil {
		return
	}
	n, early := 0, 0
	var recSites []*ssa.Call
	core.EachInstr(e, func(i ssa.Instruction) {
		if call, ok := i.(*ssa.Call); ok && call.Call.StaticCallee() == e {
			recSites = append(recSites, call)
		}
	})
	core.EachInstr(e, func(i ssa.Instruction) {
		ret, ok := i.(*ssa.Return)
		if !ok || ret.Block() == e.Recover || !retNilError(ret) {
			return
		}
		n++
		gs := guardsLocal(ret)
		// the final exit comes after every keyword: each recursive evaluation can still reach it
		isEarly := false
		for _, site := range recSites {
			if site.Block() != ret.Block() && !core.Reachable(site.Block(), ret.Block(), nil) {
				isEarly = true
			}
		}
		if !isEarly {
			return
		}
		early++
		d7, isD7 := c.draftConst("draft7")
		okv := false
		for _, g := range gs {
			if isD7 && c.guardIsDraft(g, d7) {
				okv = true
			}
		}
		ref := false
		for _, g := range gs {
			if c.condMentions(g.Cond, "Schema.Ref") {
				ref = true
			}
		}
		c.R.Check(okv && ref, rule, fmt.Sprintf("%s:early-success#%d", core.FuncName(e), early), c.pos(ret), "the early success exit is the draft-07 rule for a schema with $ref", "the evaluator can report success before the end of its keyword list on a path that is not the draft-07 rule for $ref (`return nil` where `break` or nothing was meant): every keyword after this point is skipped for such an instance, so uniqueItems, contains, minItems, the object keywords ... no longer reject it")
	})
	c.R.Floor(rule, "success exits of the evaluator", n, 1)
}

func init() {
	for _, pid := range []string{"C03", "C06", "C17"} {
		pid := pid
		Properties[pid].Rules = append(Properties[pid].Rules, Rule{pid + "/relative-id-refused", func(c *Ctx) { ruleRelativeIDRefused(c, pid+"/relative-id-refused") }})
	}
}

// A $id that does not resolve to an absolute URI makes Resolve fail: the outcome "not absolute" of the test leads
// to an error return. (Passing such a schema over leaves it, and the anchors below it, in the enclosing resource:
// two embedded resources then share one anchor table and one of them answers for the other.)
func ruleRelativeIDRefused(c *Ctx, rule string) {
	n := 0
	for _, fn := range c.Closure(rule, "RES").Minus(c.Closure(rule, "EV")).Sorted() {
		if !c.P.InPkg(fn) {
			continue
		}
		for _, b := range fn.Blocks {
			ifi, ok := b.Instrs[len(b.Instrs)-1].(*ssa.If)
			if !ok {
				continue
			}
			cond, pol := ssa.Value(ifi.Cond), true
			for {
				if u, ok := cond.(*ssa.UnOp); ok && u.Op == token.NOT {
					cond, pol = u.X, !pol
					continue
				}
				break
			}
			call, ok := cond.(*ssa.Call)
			if !ok || core.CalleeKey(&call.Call) != "net/url.URL.IsAbs" {
				continue
			}
			if !c.mentionsField(call.Call.Args[0], "resolvedInfo.uri", 6) {
				continue
			}
			n++
			// successor taken when IsAbs() is false
			notAbs := b.Succs[1]
			if !pol {
				notAbs = b.Succs[0]
			}
			c.R.Check(blockReturnsErrorDeepLocal(notAbs), rule, fmt.Sprintf("%s:not-absolute#%d", core.FuncName(fn), n), c.pos(ifi), "a $id that does not resolve to an absolute URI is an error", "a $id that does not resolve to an absolute URI is passed over instead of refused: the schema does not become a resource of its own, its anchors go into the enclosing resource's table, and a $ref or $dynamicRef in a sibling resource with the same anchor name reaches the wrong subschema")
		}
	}
	c.R.Floor(rule, "tests that a resolved $id is absolute", n, 1)
}

func init() {
	for _, pid := range []string{"C20", "C17", "C03", "C15"} {
		pid := pid
		Properties[pid].Rules = append(Properties[pid].Rules, Rule{pid + "/no-error-overwritten-in-a-loop", func(c *Ctx) { ruleNoErrorOverwritten(c, pid+"/no-error-overwritten-in-a-loop") }})
	}
}

// An error variable that is assigned in every iteration of a loop and looked at only afterwards keeps the result
// of the last element: the failure of an earlier one is overwritten. In SSA form that is a phi of error type at a
// loop header whose value from the back edge is what a call returned in the body, regardless of the phi itself.
func ruleNoErrorOverwritten(c *Ctx, rule string) {
	n := 0
	for _, fn := range c.P.Funcs {
		if !c.P.InPkg(fn) || (fn.Synthetic != "" && !isRangeFuncBody(fn)) {
			continue
		}
		k := 0
		for _, b := range fn.Blocks {
			for _, ins := range b.Instrs {
				phi, ok := ins.(*ssa.Phi)
				if !ok {
					break
				}
				if !isErrorType(phi.Type()) {
					continue
				}
				for ei, e := range phi.Edges {
					pred := b.Preds[ei]
					call, isCall := errCall(e)
					if !isCall {
						continue
					}
					// the value comes round the loop (a back edge), or out of a loop the phi is not part of
					lh := b
					if !b.Dominates(pred) {
						lh = loopHeaderOf(call.Block())
						if lh == nil || inLoopOf(lh, b) {
							continue
						}
					}
					n++
					// errors.Join(err, f(x)) and the like take the previous value into account
					uses := false
					for _, a := range call.Call.Args {
						for _, v := range append(backSlice(a, 20), a) {
							if v == ssa.Value(phi) {
								uses = true
							}
						}
					}
					// ... and so does a test of the fresh value inside the loop (if err != nil { return/break })
					tested := false
					if refs := e.Referrers(); refs != nil {
						for _, r := range *refs {
							if bo, ok := r.(*ssa.BinOp); ok && (bo.Op == token.NEQ || bo.Op == token.EQL) && bo.Referrers() != nil {
								for _, r2 := range *bo.Referrers() {
									if _, isIf := r2.(*ssa.If); isIf && inLoopOf(lh, r2.Block()) {
										tested = true
									}
								}
							}
						}
					}
					k++
					c.R.Check(uses || tested, rule, fmt.Sprintf("%s:carried-error#%d", core.FuncName(fn), k), c.pos(call), "the error carried around the loop is combined with, or tested before, the next one", "an error variable is assigned what a call returned in every iteration of a loop and examined only after the loop: the failure of an earlier element is overwritten by the success of a later one, so the function reports success although one element failed (a schema shared between two places of the tree, a bad reference) unless it happens to be the last")
				}
			}
		}
	}
	c.R.OK(rule, "loops-examined", "", fmt.Sprintf("%d back-edge values of error variables examined", n))
}

func init() {
	for _, pid := range []string{"C08", "C11", "C12"} {
		pid := pid
		Properties[pid].Rules = append(Properties[pid].Rules, Rule{pid + "/no-type-sensitive-comparison", func(c *Ctx) { ruleNoTypeSensitiveComparison(c, pid+"/no-type-sensitive-comparison") }})
	}
	Properties["C08"].Rules = append(Properties["C08"].Rules, Rule{"C08/no-verdict-on-exactness", ruleNoVerdictOnExactness})
}

// Equality and the hasher never hand a comparison to reflect's own equality (Value.Equal, DeepEqual) or compare
// the operands as interfaces: those answer false for the same JSON value held in two Go types (a named string
// against a string). Zero such calls are expected; every one is reported.
func ruleNoTypeSensitiveComparison(c *Ctx, rule string) {
	n := 0
	for _, root := range []*ssa.Function{c.Equality(rule), c.Hasher(rule)} {
		if root == nil {
			continue
		}
		for _, fi := range c.familyInstrs(root) {
			n++
			switch x := fi.I.(type) {
			case *ssa.Call:
				switch key := core.CalleeKey(&x.Call); key {
				case "reflect.Value.Equal", "reflect.DeepEqual":
					c.R.Bad(rule, core.FuncName(x.Parent())+":"+key, c.pos(x), "the comparison is handed to "+key+", which answers false whenever the Go types differ: a string or boolean of a named type (type Color string) no longer equals the same JSON value decoded as a plain string, so enum and const reject it and uniqueItems misses the duplicate")
				}
			case *ssa.BinOp:
				if (x.Op == token.EQL || x.Op == token.NEQ) && types.IsInterface(x.X.Type()) && !isErrorType(x.X.Type()) {
					if _, isConst := x.Y.(*ssa.Const); isConst {
						continue
					}
					if _, isConst := x.X.(*ssa.Const); isConst {
						continue
					}
					// reflect.Type comparisons are how kinds of types are told apart; only values (any) matter here
					if isNamed(x.X.Type(), "reflect", "Type") {
						continue
					}
					c.R.Bad(rule, core.FuncName(x.Parent())+":interface-comparison", c.pos(x), "two interface values are compared with ==: that compares dynamic types as well as values, so the same JSON value in two Go types is unequal")
				}
			}
		}
	}
	c.R.OK(rule, "comparisons-examined", "", fmt.Sprintf("%d instructions of equality and the hasher examined: no reflect.Value.Equal, DeepEqual or interface ==", n))
}

// Whether a number fails multipleOf, minimum ... never depends on whether its conversion to float64 was exact:
// the second result of big.Rat.Float64 (or big.Float.Float64) is not used in the evaluator. Otherwise a json.Number
// or a 64-bit integer that float64 cannot hold exactly gets another verdict than the same document decoded plainly.
func ruleNoVerdictOnExactness(c *Ctx) {
	const rule = "C08/no-verdict-on-exactness"
	n := 0
	for _, fn := range c.Closure(rule, "EV").Sorted() {
		if !c.P.InPkg(fn) {
			continue
		}
		core.EachInstr(fn, func(i ssa.Instruction) {
			call, ok := i.(*ssa.Call)
			if !ok {
				return
			}
			switch core.CalleeKey(&call.Call) {
			case "math/big.Rat.Float64", "math/big.Rat.Float32", "math/big.Float.Float64", "math/big.Float.Float32", "math/big.Float.Int64", "math/big.Float.Uint64":
			default:
				return
			}
			n++
			used := ""
			if refs := call.Referrers(); refs != nil {
				for _, r := range *refs {
					if ex, ok := r.(*ssa.Extract); ok && ex.Index == 1 && ex.Referrers() != nil && len(*ex.Referrers()) > 0 {
						used = c.pos(ex)
					}
				}
			}
			c.R.Check(used == "", rule, fmt.Sprintf("%s:exactness#%d", core.FuncName(fn), n), c.pos(call), "the exactness of the conversion is not consulted", "the evaluator consults whether the conversion of the instance to a float was exact: a number that float64 cannot hold exactly (a json.Number such as 0.3, an int64 above 2^53) then gets a different verdict than the same document decoded into float64")
		})
	}
	c.R.Floor(rule, "conversions of an exact number to a float in the evaluator", n, 1)
}

func init() {
	for _, pid := range []string{"C17", "C03"} {
		pid := pid
		Properties[pid].Rules = append(Properties[pid].Rules, Rule{pid + "/fragment-classified-as-looked-up", func(c *Ctx) { ruleFragmentClassified(c, pid+"/fragment-classified-as-looked-up") }})
	}
}

// Whether a fragment is a JSON Pointer or an anchor name is decided on the very string that is then looked up in
// the anchor table or walked as a pointer: the decoded fragment. (Deciding on the escaped form sends "#%2F$defs%2Fa",
// a legal spelling of the pointer /$defs/a, to the anchor table.)
func ruleFragmentClassified(c *Ctx, rule string) {
	n := 0
	for _, fn := range c.Closure(rule, "RES").Minus(c.Closure(rule, "EV")).Sorted() {
		if !c.P.InPkg(fn) {
			continue
		}
		core.EachInstr(fn, func(i ssa.Instruction) {
			lk, ok := i.(*ssa.Lookup)
			if !ok {
				return
			}
			mt, isMap := lk.X.Type().Underlying().(*types.Map)
			if !isMap || !c.isPkgNamed(mt.Elem(), "anchorInfo") || !tString(lk.Index.Type()) {
				return
			}
			for _, g := range guardsOf(lk) {
				cond := g.Cond
				for {
					if u, ok := cond.(*ssa.UnOp); ok && u.Op == token.NOT {
						cond = u.X
						continue
					}
					break
				}
				// a test of the length of the looked-up string says "not empty", nothing stronger: a one-letter anchor
				// name is a name
				if bo, ok := cond.(*ssa.BinOp); ok {
					if lc, ok := bo.X.(*ssa.Call); ok && core.CalleeKey(&lc.Call) == "builtin.len" && sharesSource(lc.Call.Args[0], lk.Index) {
						if k, ok := bo.Y.(*ssa.Const); ok {
							if kv, ok := constInt(k); ok {
								nonEmpty := g.Pol && (bo.Op == token.GTR && kv == 0 || bo.Op == token.GEQ && kv == 1 || bo.Op == token.NEQ && kv == 0) ||
									!g.Pol && (bo.Op == token.EQL && kv == 0 || bo.Op == token.LEQ && kv == 0 || bo.Op == token.LSS && kv == 1)
								c.R.Check(nonEmpty, rule, core.FuncName(fn)+":anchor-names-of-any-length", c.pos(bo), "the length test before the anchor lookup says no more than \"not empty\"", "the anchor lookup is made only for fragments longer than some length: a one-letter anchor name (\"$dynamicAnchor\": \"T\") is taken for a JSON Pointer, and the reference fails or misses its target")
							}
						}
					}
				}
				if bo, ok := cond.(*ssa.BinOp); ok {
					if subj, ok := slashAtZero(bo); ok { // frag[0] == '/' written in place
						n++
						c.R.Check(sharesSource(subj, lk.Index), rule, fmt.Sprintf("%s:pointer-or-anchor#%d", core.FuncName(fn), n), c.pos(bo), "the pointer-or-anchor decision is made on the string that is looked up", "whether the fragment is a JSON Pointer is decided on another string than the one looked up in the anchor table (its escaped form, say): a pointer whose leading slash is written %2F is taken for an anchor name, so the $ref fails, or reaches whatever schema happens to carry that text as $anchor")
						continue
					}
				}
				call, ok := cond.(*ssa.Call)
				if !ok {
					continue
				}
				// the test may live in a predicate on the fragment: func isJSONPointer(frag string) bool
				if h := call.Call.StaticCallee(); h != nil && c.P.InPkg(h) && len(h.Params) == 1 && len(call.Call.Args) == 1 && tString(h.Params[0].Type()) {
					inner := false
					core.EachInstr(h, func(j ssa.Instruction) {
						if hc, ok := j.(*ssa.Call); ok && core.CalleeKey(&hc.Call) == "strings.HasPrefix" && len(hc.Call.Args) == 2 && hc.Call.Args[0] == ssa.Value(h.Params[0]) {
							if s, isStr := constString(hc.Call.Args[1]); isStr && s == "/" {
								inner = true
							}
						}
					})
					core.EachInstr(h, func(j ssa.Instruction) {
						if bo, ok := j.(*ssa.BinOp); ok {
							if subj, ok := slashAtZero(bo); ok && subj == ssa.Value(h.Params[0]) {
								inner = true // frag[0] == '/'
							}
						}
					})
					if inner {
						n++
						same := sharesSource(call.Call.Args[0], lk.Index)
						c.R.Check(same, rule, fmt.Sprintf("%s:pointer-or-anchor#%d", core.FuncName(fn), n), c.pos(call), "the pointer-or-anchor decision is made on the string that is looked up", "whether the fragment is a JSON Pointer is decided on another string than the one looked up in the anchor table (its escaped form, say): a pointer whose leading slash is written %2F is taken for an anchor name, so the $ref fails, or reaches whatever schema happens to carry that text as $anchor")
					}
					continue
				}
				if core.CalleeKey(&call.Call) != "strings.HasPrefix" || len(call.Call.Args) != 2 {
					continue
				}
				if s, isStr := constString(call.Call.Args[1]); !isStr || s != "/" {
					continue
				}
				n++
				same := sharesSource(call.Call.Args[0], lk.Index)
				c.R.Check(same, rule, fmt.Sprintf("%s:pointer-or-anchor#%d", core.FuncName(fn), n), c.pos(call), "the pointer-or-anchor decision is made on the string that is looked up", "whether the fragment is a JSON Pointer is decided on another string than the one looked up in the anchor table (its escaped form, say): a pointer whose leading slash is written %2F is taken for an anchor name, so the $ref fails, or reaches whatever schema happens to carry that text as $anchor")
			}
		})
	}
	c.R.Floor(rule, "pointer-or-anchor decisions guarding an anchor lookup", n, 1)
}

func init() {
	for _, pid := range []string{"C12", "C08", "C05"} {
		pid := pid
		Properties[pid].Rules = append(Properties[pid].Rules, Rule{pid + "/const-decoded-like-instances", func(c *Ctx) { ruleConstDecodedPlainly(c, pid+"/const-decoded-like-instances") }})
	}
}

// The value of `const` is decoded the way instances and `enum` values are: numbers become float64. A decoder with
// UseNumber turns them into json.Number, whose exact decimal value (0.1 = 1/10) differs from the float64 the instance
// 0.1 is decoded to, so {"const": 0.1} rejects 0.1 while {"enum": [0.1]} accepts it.
func ruleConstDecodedPlainly(c *Ctx, rule string) {
	n := 0
	for _, fn := range c.Closure(rule, "UNM").Sorted() {
		if !c.P.InPkg(fn) {
			continue
		}
		core.EachInstr(fn, func(i ssa.Instruction) {
			call, ok := i.(*ssa.Call)
			if !ok {
				return
			}
			target := ""
			for _, a := range call.Call.Args {
				for _, v := range append(backSlice(a, 8), a) {
					if fa, ok := v.(*ssa.FieldAddr); ok {
						if nm := c.fieldName(fa.X.Type(), fa.Field); nm == "Schema.Const" || nm == "Schema.Enum" {
							target = nm
						}
					}
				}
			}
			if target == "" {
				return
			}
			// the functions the call can run
			var callees []*ssa.Function
			if sc := call.Call.StaticCallee(); sc != nil {
				callees = append(callees, sc)
			} else {
				for _, src := range append(traceSources(call.Call.Value), call.Call.Value) {
					switch f := src.(type) {
					case *ssa.Function:
						callees = append(callees, f)
					case *ssa.MakeClosure:
						callees = append(callees, f.Fn.(*ssa.Function))
					}
				}
			}
			n++
			bad := ""
			for _, callee := range callees {
				if !c.P.InPkg(callee) {
					continue
				}
				for f := range c.P.Closure("tmp", c.G, callee).Set {
					for _, ff := range core.WithAnon(f) {
						core.EachInstr(ff, func(j ssa.Instruction) {
							if jc, ok := j.(ssa.CallInstruction); ok && core.CalleeKey(jc.Common()) == "encoding/json.Decoder.UseNumber" {
								bad = c.pos(j)
							}
						})
					}
				}
			}
			c.R.Check(bad == "", rule, fmt.Sprintf("%s:%s#%d", core.FuncName(fn), target, n), c.pos(call), "the value is decoded without UseNumber, as instances are", "the value of "+target+" is decoded by a decoder with UseNumber (at "+bad+"): its numbers are json.Number while instances and enum values hold float64, and the exact comparison then tells 0.1 the decimal from 0.1 the float: {\"const\": 0.1} rejects the instance 0.1")
		})
	}
	c.R.Floor(rule, "explicit decodings of const", n, 1)
}

func init() {
	for _, pid := range []string{"C15", "C08"} {
		pid := pid
		Properties[pid].Rules = append(Properties[pid].Rules, Rule{pid + "/unwrapped-by-kind", func(c *Ctx) { ruleUnwrappedByKind(c, pid+"/unwrapped-by-kind") }})
	}
}

// A wrapper (interface or pointer) around an instance is recognised by its kind, never by comparing its type with
// one particular type: `v.Type() == reflect.TypeFor[any]()` misses every named interface type (type Value interface{}),
// whose values then go on wrapped and are treated as "neither object nor array".
func ruleUnwrappedByKind(c *Ctx, rule string) {
	n := 0
	seen := map[*ssa.Function]bool{}
	for _, cl := range []string{"DEF", "EV", "EQ"} {
		for _, fn := range c.Closure(rule, cl).Sorted() {
			if seen[fn] || !c.P.InPkg(fn) {
				continue
			}
			seen[fn] = true
			k := 0
			core.EachInstr(fn, func(i ssa.Instruction) {
				call, ok := i.(*ssa.Call)
				if !ok || core.CalleeKey(&call.Call) != "reflect.Value.Elem" || !tReflectValue(call.Call.Args[0].Type()) {
					return
				}
				v := call.Call.Args[0]
				byType, byKind := "", false
				for _, g := range guardsLocal(call) {
					for _, x := range append(backSlice(g.Cond, 8), g.Cond) {
						cc, ok := x.(*ssa.Call)
						if !ok || len(cc.Call.Args) == 0 || !(cc.Call.Args[0] == v || sharesSource(cc.Call.Args[0], v)) {
							continue
						}
						switch core.CalleeKey(&cc.Call) {
						case "reflect.Value.Kind":
							byKind = true
						case "reflect.Value.Type":
							// compared for identity with another type (not asked for its kind, key or element)
							if refs := cc.Referrers(); refs != nil {
								for _, r := range *refs {
									if bo, ok := r.(*ssa.BinOp); ok && (bo.Op == token.EQL || bo.Op == token.NEQ) {
										byType = c.pos(bo)
									}
								}
							}
						}
					}
				}
				if byType == "" && !byKind {
					return
				}
				n++
				k++
				c.R.Check(byKind || byType == "", rule, fmt.Sprintf("%s:unwrap#%d", core.FuncName(fn), k), c.pos(call), "the wrapper is recognised by its kind", "a wrapped instance is unwrapped only where its type is identical to one particular type (test at "+byType+") instead of where its kind is Interface or Pointer: a value held in a named interface type (type Value interface{}; map[string]Value) stays wrapped, is taken for neither an object nor an array, and the defaults below it are not applied (or the keywords below it not evaluated)")
			})
		}
	}
	c.R.Floor(rule, "unwrappings of an instance under a test of it", n, 3)
}

func init() {
	for _, pid := range []string{"C07", "C15", "C08"} {
		pid := pid
		Properties[pid].Rules = append(Properties[pid].Rules, Rule{pid + "/property-value-as-stored", func(c *Ctx) { rulePropertyValueAsStored(c, pid+"/property-value-as-stored") }})
	}
}

// The helper that answers "the value of property p of this instance" (func(reflect.Value, string) reflect.Value)
// hands back what the map or struct holds. Its answer doubles as the presence test (an invalid Value means "no such
// property"), so it must not step through a pointer or interface that may be nil: Elem of a nil pointer is the
// invalid Value, and a property that is present with the value null would be reported absent - not marked evaluated,
// not a trigger for dependentSchemas, missing for required - while the enumeration of properties still lists it.
func rulePropertyValueAsStored(c *Ctx, rule string) {
	n := 0
	seen := map[*ssa.Function]bool{}
	for _, cl := range []string{"EV", "DEF"} {
		for _, fn := range c.Closure(rule, cl).Sorted() {
			if seen[fn] || !c.P.InPkg(fn) || fn.Parent() != nil {
				continue
			}
			seen[fn] = true
			sig := fn.Signature
			if sig.Recv() != nil || sig.Params().Len() != 2 || sig.Results().Len() != 1 || !tReflectValue(sig.Params().At(0).Type()) || !tString(sig.Params().At(1).Type()) || !tReflectValue(sig.Results().At(0).Type()) {
				continue
			}
			n++
			bad := ""
			core.EachInstr(fn, func(i ssa.Instruction) {
				call, ok := i.(*ssa.Call)
				if !ok {
					return
				}
				key := core.CalleeKey(&call.Call)
				if key != "reflect.Value.Elem" && key != "reflect.Indirect" {
					return
				}
				// on a value taken out of the instance (not on the instance itself, which the callers have stripped)
				fromMember := false
				for _, v := range append(backSlice(call.Call.Args[0], 16), call.Call.Args[0]) {
					if mc, ok := v.(*ssa.Call); ok {
						switch core.CalleeKey(&mc.Call) {
						case "reflect.Value.MapIndex", "reflect.Value.Field", "reflect.Value.FieldByIndex", "reflect.Value.FieldByName":
							fromMember = true
						}
					}
				}
				if !fromMember {
					return
				}
				notNil := false
				for _, g := range guardsLocal(call) {
					if gc, ok := g.Cond.(*ssa.Call); ok && !g.Pol && core.CalleeKey(&gc.Call) == "reflect.Value.IsNil" && sharesSource(gc.Call.Args[0], call.Call.Args[0]) {
						notNil = true
					}
				}
				if !notNil {
					bad = c.pos(call)
				}
			})
			c.R.Check(bad == "", rule, core.FuncName(fn)+":member-not-unwrapped", c.P.Pos(fn.Pos()), "the property value is handed back as the map or struct holds it", "the property lookup steps through a pointer or interface held in the map or struct (at "+bad+") without knowing it to be non-nil: for a nil one the result is the invalid Value, which the callers read as \"no such property\", so a property that is present with the value null is not marked evaluated, does not trigger dependentSchemas and is unevaluated for unevaluatedProperties, while the enumeration of the properties still lists it")
		}
	}
	c.R.Floor(rule, "property lookup helpers", n, 1)
}

// slashAtZero: bo compares the first byte of a string with '/'; the string is returned.
func slashAtZero(bo *ssa.BinOp) (ssa.Value, bool) {
	if bo.Op != token.EQL && bo.Op != token.NEQ {
		return nil, false
	}
	for _, pair := range [][2]ssa.Value{{bo.X, bo.Y}, {bo.Y, bo.X}} {
		var str, index ssa.Value
		switch lk := pair[0].(type) { // string indexing is an Index in this x/tools, a Lookup in older ones
		case *ssa.Lookup:
			str, index = lk.X, lk.Index
		case *ssa.Index:
			str, index = lk.X, lk.Index
		default:
			continue
		}
		if !tString(str.Type()) {
			continue
		}
		if ix, ok := index.(*ssa.Const); !ok {
			continue
		} else if iv, ok := constInt(ix); !ok || iv != 0 {
			continue
		}
		if k, ok := pair[1].(*ssa.Const); ok {
			if kv, ok := constInt(k); ok && kv == '/' {
				return str, true
			}
		}
	}
	return nil, false
}
