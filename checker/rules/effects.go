package rules

import (
	"fmt"
	"go/types"
	"strings"

	"golang.org/x/tools/go/ssa"

	"verif/checker/core"
)

// sharedWrite is a write whose target is not memory allocated by the call tree.
type sharedWrite struct {
	Fn     *ssa.Function
	W      core.Write
	Loc    core.Loc
	Reason string // non-empty when exempted
}

type effectSummary struct {
	Closure   *core.Closure
	Writes    int
	Targets   int
	Shared    []sharedWrite // not exempted
	Exempt    []sharedWrite
	NoTarget  []sharedWrite // writes whose target set is empty (could not be traced)
	Undecided []string
}

var effCache = map[string]*effectSummary{}

// exemptions: closure -> predicate with a one-line reason.
func (c *Ctx) exemptWrite(closure string, fn *ssa.Function, w core.Write, l core.Loc) string {
	switch closure {
	case "RES":
		if l.Root.Kind == core.RExt {
			if call, ok := l.Root.V.(*ssa.Call); ok && c.isLoaderCall(call) {
				return "document freshly returned by the Loader callback: owned by this Resolve call under the Loader contract"
			}
		}
	case "DEF":
		if l.Root.Kind == core.RParam && l.Root.Fn != nil && core.FuncName(l.Root.Fn) == "(*Resolved).ApplyDefaults" && isInterfaceType(l.Root.V.Type()) {
			if strings.HasPrefix(w.Kind, "reflect:") || strings.HasPrefix(w.Kind, "mutator:encoding/json.Unmarshal") {
				return "ApplyDefaults is documented to modify the instance it is given a pointer to"
			}
		}
	case "UNM":
		if l.Root.Kind == core.RParam && len(l.Root.Fn.Params) > 0 && l.Root.V == l.Root.Fn.Params[0] {
			return "UnmarshalJSON fills its receiver"
		}
	}
	return ""
}

func isInterfaceType(t types.Type) bool {
	_, ok := t.Underlying().(*types.Interface)
	return ok
}

// isLoaderCall: a dynamic call through the Loader field of ResolveOptions.
func (c *Ctx) isLoaderCall(call *ssa.Call) bool {
	if call.Call.IsInvoke() || call.Call.StaticCallee() != nil {
		return false
	}
	return c.isPkgNamed(call.Call.Value.Type(), "Loader")
}

func (c *Ctx) effects(rule, closure string) *effectSummary {
	key := closure + "/" + c.Graph + "/" + c.P.Cfg.String()
	if s, ok := effCache[key]; ok {
		return s
	}
	cl := c.Closure(rule, closure)
	tr := c.Tracer(rule, closure)
	s := &effectSummary{Closure: cl}
	for _, fn := range cl.Sorted() {
		for _, w := range tr.Writes(fn) {
			s.Writes++
			if len(w.Targets) == 0 {
				s.NoTarget = append(s.NoTarget, sharedWrite{Fn: fn, W: w})
				continue
			}
			for _, l := range w.Targets.Sorted() {
				s.Targets++
				switch l.Root.Kind {
				case core.RFresh, core.RTemp:
					if cl.Has(l.Root.Fn) {
						continue
					}
					// a closure writing a variable of the function it is nested in: the activation that made the closure
					// made the variable (the call graph can reach a callback whose enclosing function it does not reach,
					// because callbacks of one signature are merged)
					if l.Root.Fn != nil && fn != l.Root.Fn && isNested(fn, l.Root.Fn) && l.Root.Fn.Name() != "init" {
						continue
					}
				}
				sw := sharedWrite{Fn: fn, W: w, Loc: l}
				if r := c.exemptWrite(closure, fn, w, l); r != "" {
					sw.Reason = r
					s.Exempt = append(s.Exempt, sw)
				} else {
					s.Shared = append(s.Shared, sw)
				}
			}
		}
	}
	s.Undecided = append(s.Undecided, tr.Undecided...)
	effCache[key] = s
	return s
}

func (sw sharedWrite) construct() string {
	return fmt.Sprintf("%s:%s:%s", core.FuncName(sw.Fn), sw.W.Kind, sw.Loc)
}

// touchesType reports whether the written location lies in, or is reached
// through, an object of one of the named package types.
func (c *Ctx) touchesType(l core.Loc, names ...string) (string, bool) {
	for _, f := range l.FieldsOnPath() {
		for _, n := range names {
			if strings.HasPrefix(f, n+".") {
				return n, true
			}
		}
	}
	if l.Root.Kind == core.RParam || l.Root.Kind == core.RExt || l.Root.Kind == core.RGlobal {
		t := l.Root.V.Type()
		if l.Root.Kind == core.RGlobal {
			if p, ok := t.(*types.Pointer); ok {
				t = p.Elem()
			}
		}
		for _, n := range names {
			if c.isPkgNamed(t, n) {
				return n, true
			}
			if n == "Schema" && c.containsSchemaPtr(t, map[types.Type]bool{}) {
				return "schema-carrying " + shortTypeName(t), true
			}
		}
	}
	return "", false
}

// ruleNoSharedWrites: no function of the closure writes memory that was not
// allocated by the same call tree (DESIGN 3.2, C13/no-shared-writes).
func (c *Ctx) ruleNoSharedWrites(rule string, closures ...string) {
	for _, name := range closures {
		s := c.effects(rule, name)
		for _, u := range s.Undecided {
			c.R.Unknown(rule, name+":"+u, "", u)
		}
		for _, sw := range s.NoTarget {
			c.R.Unknown(rule, fmt.Sprintf("%s:%s:%s:no-target", name, core.FuncName(sw.Fn), sw.W.Kind), c.pos(sw.W.Instr), "the written location could not be traced to any allocation, parameter or global")
		}
		for _, sw := range s.Shared {
			c.R.Bad(rule, name+":"+sw.construct(), c.pos(sw.W.Instr),
				fmt.Sprintf("%s (reachable from %s) performs %s on %s, which is not memory allocated by the same call: it is visible to other goroutines and to later calls", core.FuncName(sw.Fn), strings.Join(closureEntries[name], ", "), sw.W.Kind, sw.Loc))
		}
		for _, sw := range s.Exempt {
			c.R.OK(rule, name+":exempt:"+sw.construct(), c.pos(sw.W.Instr), "exempted: "+sw.Reason)
		}
		c.R.OK(rule, name+":all-writes-call-local", "", fmt.Sprintf("%d writes with %d target locations in %d functions of closure %s (%s graph): every target is rooted in an allocation made by a function of the closure", s.Writes, s.Targets, len(s.Closure.Set), name, c.Graph))
		c.R.Info["closure_"+name+"_"+c.Graph] = len(s.Closure.Set)
	}
}

func shortTypeName(t types.Type) string {
	return types.TypeString(t, func(*types.Package) string { return "" })
}
