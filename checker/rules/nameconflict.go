package rules

import (
	"fmt"
	"go/constant"
	"go/token"
	"go/types"
	"reflect"
	"sort"
	"strings"
	"unicode"
	"unicode/utf8"

	"golang.org/x/tools/go/ssa"

	"verif/checker/core"
)

// Scenario evaluation of the resolution of two fields with one JSON name (C04/C09 json-name-conflicts).
//
// The decision depends on three things only: how the embedding depth of the holder of the name compares with
// the depth of the newcomer, and whether either name comes from a tag. That is a domain of 3 x 2 x 2 abstract
// inputs. For each of them the code is executed abstractly from the block in which the table of holders is
// consulted (package helpers and methods are entered), with
//   - the result of that lookup bound to a holder of the scenario's depth and taggedness (found = true),
//   - len(field.Index) bound to the newcomer's depth, and "the json tag gives a name" bound to its taggedness,
// until the field's schema is entered under the name (MapUpdate on Schema.Properties) or the iteration moves on.
// What is recorded on the way: whether the holder's property was deleted and whether the name was taken out of
// Schema.Required. The outcomes are compared with encoding/json's rule (dominantField):
//   holder shallower                      -> newcomer skipped, nothing touched
//   holder deeper                         -> newcomer entered, the name removed from required first
//   same depth, only the holder tagged    -> newcomer skipped
//   same depth, only the newcomer tagged  -> newcomer entered, the name removed from required first
//   same depth, same taggedness           -> neither is a property: holder deleted, newcomer not entered
// If any scenario cannot be evaluated (a value outside the little domain is needed), nothing is concluded.

type aval struct {
	k      constant.Value // scalar
	fields map[int]*aval  // struct
	typ    []string       // an abstract reflect.Type: its kinds from the outside in ("ptr", "struct")
	elems  []*aval        // a slice of known elements (isSlice)
	isSlice bool
	m      map[string]*aval // a map with string keys
}

func (a *aval) String() string {
	if a == nil || (a.k == nil && a.fields == nil) {
		return "?"
	}
	if a.fields != nil {
		var ps []string
		for i := 0; i < 8; i++ {
			if f, ok := a.fields[i]; ok {
				ps = append(ps, f.String())
			}
		}
		return "{" + strings.Join(ps, ",") + "}"
	}
	return a.k.String()
}

type ncOutcome struct {
	entered, deletedProp, cleanedRequired bool
	cleanedOrder                          bool // PropertyOrder was replaced by something other than itself plus a name
	appendedOrder                         bool  // the name was appended to PropertyOrder (after being entered)
	postEntryKnown                        bool  // the code after the entry was followed up to the append or the end of the iteration
	ownerSet                              *aval // what the table of holders records for the name afterwards (nil: unchanged)
	ownerDeleted                          bool
}

type ncInterp struct {
	c            *Ctx
	concrete     bool // every value is given: no scenario shortcuts
	lookup       *ssa.Lookup
	holderAbsent bool
	curFrame     *ncFrame
	holder       *aval
	dc           int64
	tc           bool
	mem          map[ssa.Value]*aval // allocs
	out          ncOutcome
	steps        int
	failed       string
	topLoop      map[*ssa.BasicBlock]bool
}

func (in *ncInterp) fail(why string) *aval {
	if in.failed == "" {
		in.failed = why
	}
	return nil
}

func avalEqual(a, b *aval) (bool, bool) {
	if a == nil || b == nil {
		return false, false
	}
	if a.fields != nil || b.fields != nil {
		if a.fields == nil || b.fields == nil || len(a.fields) != len(b.fields) {
			return false, false
		}
		for i, fa := range a.fields {
			eq, ok := avalEqual(fa, b.fields[i])
			if !ok {
				return false, false
			}
			if !eq {
				return false, true
			}
		}
		return true, true
	}
	if a.k == nil || b.k == nil || a.k.Kind() != b.k.Kind() {
		return false, false
	}
	return constant.Compare(a.k, token.EQL, b.k), true
}

// frame: one activation
type ncFrame struct {
	fn    *ssa.Function
	args  []*aval
	prev  *ssa.BasicBlock
	vals  map[ssa.Value]*aval
	iters map[*ssa.Range]int // position of string iterations
}

func (in *ncInterp) eval(fr *ncFrame, v ssa.Value, depth int) *aval {
	if depth == 0 {
		return in.fail("expression too deep")
	}
	if r, ok := fr.vals[v]; ok {
		return r
	}
	res := in.eval1(fr, v, depth)
	if res != nil {
		fr.vals[v] = res
	}
	return res
}

func (in *ncInterp) isTagDerived(v ssa.Value) bool {
	for _, x := range backSlice(v, 60) {
		if call, ok := x.(*ssa.Call); ok {
			k := core.CalleeKey(&call.Call)
			if k == "reflect.StructTag.Get" || k == "reflect.StructTag.Lookup" {
				return true
			}
			// a package helper that reads the tag (func jsonTagName(f reflect.StructField) string)
			if h := call.Call.StaticCallee(); h != nil && in.c.P.InPkg(h) {
				found := false
				for _, hf := range core.WithAnon(h) {
					core.EachInstr(hf, func(j ssa.Instruction) {
						if hc, ok := j.(*ssa.Call); ok {
							if hk := core.CalleeKey(&hc.Call); hk == "reflect.StructTag.Get" || hk == "reflect.StructTag.Lookup" {
								found = true
							}
						}
					})
				}
				if found {
					return true
				}
			}
		}
		if x == ssa.Value(in.lookup) {
			return false
		}
	}
	return false
}

func (in *ncInterp) eval1(fr *ncFrame, v ssa.Value, depth int) *aval {
	switch x := v.(type) {
	case *ssa.Const:
		if x.Value == nil {
			return in.fail("nil constant")
		}
		return &aval{k: x.Value}
	case *ssa.Parameter:
		for i, p := range fr.fn.Params {
			if p == x && i < len(fr.args) && fr.args[i] != nil {
				return fr.args[i]
			}
		}
		return in.fail("unbound parameter " + x.Name())
	case *ssa.Index:
		if r := in.stringIndex(fr, x.X, x.Index, depth); r != nil {
			return r
		}
		return in.fail("index")
	case *ssa.Lookup:
		if r := in.stringIndex(fr, x.X, x.Index, depth); r != nil && x != in.lookup {
			return r
		}
		if x == in.lookup {
			if in.holderAbsent {
				zero := &aval{fields: map[int]*aval{}}
				for k, f := range in.holder.fields {
					if f.k != nil && f.k.Kind() == constant.Bool {
						zero.fields[k] = &aval{k: constant.MakeBool(false)}
					} else {
						zero.fields[k] = &aval{k: constant.MakeInt64(0)}
					}
				}
				if x.CommaOk {
					return &aval{fields: map[int]*aval{0: zero, 1: {k: constant.MakeBool(false)}}}
				}
				return zero
			}
			if x.CommaOk {
				return &aval{fields: map[int]*aval{0: in.holder, 1: {k: constant.MakeBool(true)}}}
			}
			return in.holder
		}
		return in.fail("another map lookup")
	case *ssa.Extract:
		// a commaok result of a tag lookup: whether the tag is present
		if !in.concrete && isBoolType(x.Type()) && in.isTagDerived(x) {
			return &aval{k: constant.MakeBool(in.tc)}
		}
		t := in.eval(fr, x.Tuple, depth-1)
		if t == nil || t.fields == nil || t.fields[x.Index] == nil {
			return in.fail("tuple component")
		}
		return t.fields[x.Index]
	case *ssa.Call:
		key := core.CalleeKey(&x.Call)
		if !in.concrete && key == "builtin.len" && len(x.Call.Args) == 1 && sliceMentionsField(x.Call.Args[0], "Index") {
			return &aval{k: constant.MakeInt64(in.dc)}
		}
		if x.Call.IsInvoke() {
			recv := in.evalQuiet(fr, x.Call.Value, depth-1)
			if recv != nil && recv.typ != nil {
				kinds := map[string]int64{"bool": 1, "int": 2, "string": 24, "struct": 25, "ptr": 22, "slice": 23, "map": 21, "interface": 20}
				switch x.Call.Method.Name() {
				case "Kind":
					if len(recv.typ) > 0 {
						return &aval{k: constant.MakeInt64(kinds[recv.typ[0]])}
					}
				case "Elem":
					if len(recv.typ) > 1 {
						return &aval{typ: recv.typ[1:]}
					}
				case "Name":
					return &aval{k: constant.MakeString("")}
				}
			}
			return in.fail("interface method call " + x.Call.Method.Name())
		}
		if r := in.pureLibCall(fr, key, x, depth); r != nil {
			return r
		}
		callee := x.Call.StaticCallee()
		if callee == nil || !in.c.P.InPkg(callee) || len(callee.Blocks) == 0 {
			return in.fail("call of " + key)
		}
		var args []*aval
		for _, a := range x.Call.Args {
			args = append(args, in.evalQuiet(fr, a, depth-1))
		}
		return in.run(callee, args, nil, 0)
	case *ssa.BinOp:
		// "the json tag gives a name"
		if !in.concrete && (x.Op == token.NEQ || x.Op == token.EQL) && isBoolType(x.Type()) {
			for _, pair := range [][2]ssa.Value{{x.X, x.Y}, {x.Y, x.X}} {
				if s, ok := constString(pair[1]); ok && s == "" && in.isTagDerived(pair[0]) {
					return &aval{k: constant.MakeBool(in.tc == (x.Op == token.NEQ))}
				}
			}
		}
		a, b := in.eval(fr, x.X, depth-1), in.eval(fr, x.Y, depth-1)
		if a == nil || b == nil {
			return in.fail("operand of " + x.Op.String())
		}
		if x.Op == token.EQL || x.Op == token.NEQ {
			eq, ok := avalEqual(a, b)
			if !ok {
				return in.fail("comparison")
			}
			return &aval{k: constant.MakeBool(eq == (x.Op == token.EQL))}
		}
		if a.k == nil || b.k == nil {
			return in.fail("scalar operands")
		}
		switch x.Op {
		case token.LSS, token.GTR, token.LEQ, token.GEQ:
			return &aval{k: constant.MakeBool(constant.Compare(a.k, x.Op, b.k))}
		case token.ADD, token.SUB:
			return &aval{k: constant.BinaryOp(a.k, x.Op, b.k)}
		case token.AND, token.OR, token.LAND, token.LOR:
			if a.k.Kind() == constant.Bool {
				op := map[token.Token]token.Token{token.AND: token.LAND, token.OR: token.LOR, token.LAND: token.LAND, token.LOR: token.LOR}[x.Op]
				return &aval{k: constant.BinaryOp(a.k, op, b.k)}
			}
		}
		return in.fail("operator " + x.Op.String())
	case *ssa.UnOp:
		switch x.Op {
		case token.NOT:
			a := in.eval(fr, x.X, depth-1)
			if a == nil || a.k == nil {
				return in.fail("operand of !")
			}
			return &aval{k: constant.UnaryOp(token.NOT, a.k, 0)}
		case token.MUL:
			return in.load(fr, x.X, depth-1)
		}
		return in.fail("unary " + x.Op.String())
	case *ssa.Phi:
		for i, p := range x.Block().Preds {
			if p == fr.prev {
				return in.eval(fr, x.Edges[i], depth-1)
			}
		}
		return in.fail("phi without predecessor")
	case *ssa.Field:
		s := in.eval(fr, x.X, depth-1)
		if s == nil || s.fields == nil || s.fields[x.Field] == nil {
			return in.fail("field of an unknown struct")
		}
		return s.fields[x.Field]
	case *ssa.ChangeType:
		return in.eval(fr, x.X, depth-1)
	case *ssa.Convert:
		return in.eval(fr, x.X, depth-1)
	case *ssa.MakeMap:
		if !in.concrete {
			break
		}
		return &aval{m: map[string]*aval{}}
	}
	return in.fail(fmt.Sprintf("value %T", v))
}

// stringIndex: s[i] for a known string and index (a byte).
func (in *ncInterp) stringIndex(fr *ncFrame, sv, iv ssa.Value, depth int) *aval {
	if b, ok := sv.Type().Underlying().(*types.Basic); !ok || b.Info()&types.IsString == 0 {
		return nil
	}
	s, i := in.evalQuiet(fr, sv, depth-1), in.evalQuiet(fr, iv, depth-1)
	if s == nil || i == nil || s.k == nil || i.k == nil || s.k.Kind() != constant.String || i.k.Kind() != constant.Int {
		return nil
	}
	str := constant.StringVal(s.k)
	n, ok := constant.Int64Val(i.k)
	if !ok || n < 0 || int(n) >= len(str) {
		return nil
	}
	return &aval{k: constant.MakeInt64(int64(str[n]))}
}

// evalQuiet evaluates without recording a failure (arguments that may never be needed).
func (in *ncInterp) evalQuiet(fr *ncFrame, v ssa.Value, depth int) *aval {
	saved := in.failed
	r := in.eval(fr, v, depth)
	in.failed = saved
	return r
}

func (in *ncInterp) load(fr *ncFrame, addr ssa.Value, depth int) *aval {
	switch a := addr.(type) {
	case *ssa.Alloc:
		if m, ok := in.mem[a]; ok {
			return m
		}
		return in.fail("load of an unset variable")
	case *ssa.FieldAddr:
		if al, ok := a.X.(*ssa.Alloc); ok {
			if m, ok := in.mem[al]; ok && m.fields != nil && m.fields[a.Field] != nil {
				return m.fields[a.Field]
			}
			return in.fail("load of an unset field")
		}
		// a field of a struct held in a pointer parameter etc.
		base := in.eval(fr, a.X, depth)
		if base != nil && base.fields != nil && base.fields[a.Field] != nil {
			return base.fields[a.Field]
		}
		return in.fail("field address")
	case *ssa.IndexAddr:
		base := in.eval(fr, a.X, depth)
		idx := in.eval(fr, a.Index, depth)
		if base != nil && base.isSlice && idx != nil && idx.k != nil && idx.k.Kind() == constant.Int {
			if n, ok := constant.Int64Val(idx.k); ok && n >= 0 && int(n) < len(base.elems) {
				return base.elems[n]
			}
		}
		return in.fail("element address")
	}
	return in.fail("load")
}

func (in *ncInterp) store(fr *ncFrame, st *ssa.Store) {
	val := in.evalQuiet(fr, st.Val, 14)
	switch a := st.Addr.(type) {
	case *ssa.Alloc:
		if val != nil {
			in.mem[a] = val
		} else {
			delete(in.mem, a)
		}
	case *ssa.FieldAddr:
		if al, ok := a.X.(*ssa.Alloc); ok {
			m := in.mem[al]
			if m == nil || m.fields == nil {
				m = &aval{fields: map[int]*aval{}}
				in.mem[al] = m
			}
			if val != nil {
				m.fields[a.Field] = val
			} else {
				delete(m.fields, a.Field)
			}
		}
	}
}

// observe records what an executed instruction does to the schema under construction.
func (in *ncInterp) observe(i ssa.Instruction) {
	c := in.c
	switch x := i.(type) {
	case *ssa.MapUpdate:
		if c.mentionsField(x.Map, "Schema.Properties", 4) {
			in.out.entered = true
		}
		if in.lookup != nil && (x.Map == in.lookup.X || sharesSource(x.Map, in.lookup.X)) && in.curFrame != nil {
			in.out.ownerSet = in.evalQuiet(in.curFrame, x.Value, 14)
			in.out.ownerDeleted = false
		}
	case *ssa.Store:
		if fa, ok := x.Addr.(*ssa.FieldAddr); ok && c.fieldName(fa.X.Type(), fa.Field) == "Schema.Required" {
			if call, ok := x.Val.(*ssa.Call); ok && core.CalleeKey(&call.Call) == "builtin.append" {
				return
			}
			in.out.cleanedRequired = true
		}
		if fa, ok := x.Addr.(*ssa.FieldAddr); ok && c.fieldName(fa.X.Type(), fa.Field) == "Schema.PropertyOrder" {
			if call, ok := x.Val.(*ssa.Call); ok && core.CalleeKey(&call.Call) == "builtin.append" && in.out.entered {
				in.out.appendedOrder = true
				in.out.postEntryKnown = true
			}
			if call, ok := x.Val.(*ssa.Call); !ok || core.CalleeKey(&call.Call) != "builtin.append" {
				in.out.cleanedOrder = true
			}
		}
	case ssa.CallInstruction:
		if core.CalleeKey(x.Common()) == "builtin.delete" && len(x.Common().Args) == 2 && c.mentionsField(x.Common().Args[0], "Schema.Properties", 4) {
			in.out.deletedProp = true
		}
		if core.CalleeKey(x.Common()) == "builtin.delete" && len(x.Common().Args) == 2 && in.lookup != nil && (x.Common().Args[0] == in.lookup.X || sharesSource(x.Common().Args[0], in.lookup.X)) {
			in.out.ownerDeleted, in.out.ownerSet = true, nil
		}
	}
}

// run executes fn from block start (index from), returning the value returned, if any.
// In the top frame (stop != nil) execution ends when a block of stop is entered or the property is entered.
func (in *ncInterp) run(fn *ssa.Function, args []*aval, start *ssa.BasicBlock, from int) *aval {
	fr := &ncFrame{fn: fn, args: args, vals: map[ssa.Value]*aval{}}
	top := start != nil
	cur := start
	if cur == nil {
		cur = fn.Blocks[0]
	}
	first := true
	for {
		in.steps++
		if in.steps > 400 {
			return in.fail("too many steps")
		}
		idx := 0
		if first {
			idx, first = from, false
		}
		// on (re-)entering a block: the phis take the values of the edge just taken (in parallel), everything
		// else computed in the block on an earlier visit is forgotten
		if idx == 0 {
			phis := map[ssa.Value]*aval{}
			for _, ins := range cur.Instrs {
				phi, ok := ins.(*ssa.Phi)
				if !ok {
					break
				}
				// the value of the edge just taken, computed while the values of the previous visit (the phi's own
				// among them: i = i + 1) are still there
				var nv *aval
				for i, p := range cur.Preds {
					if p == fr.prev && i < len(phi.Edges) {
						nv = in.evalQuiet(fr, phi.Edges[i], 14)
					}
				}
				phis[phi] = nv
			}
			for p := range phis {
				delete(fr.vals, p)
			}
			for _, ins := range cur.Instrs {
				if v, ok := ins.(ssa.Value); ok {
					delete(fr.vals, v)
				}
			}
			for k, v := range phis {
				if v != nil {
					fr.vals[k] = v
				}
			}
		}
		var next *ssa.BasicBlock
		for _, ins := range cur.Instrs[idx:] {
			in.curFrame = fr
			in.observe(ins)
			switch x := ins.(type) {
			case *ssa.Store:
				in.store(fr, x)
			case *ssa.MapUpdate:
				if in.concrete {
					mv, kv := in.evalQuiet(fr, x.Map, 14), in.evalQuiet(fr, x.Key, 14)
					if mv != nil && mv.m != nil && kv != nil && kv.k != nil && kv.k.Kind() == constant.String {
						mv.m[constant.StringVal(kv.k)] = in.evalQuiet(fr, x.Value, 14)
					}
				}
			case *ssa.Next:
				// the iteration over a string: (ok, index, rune)
				rg, ok := x.Iter.(*ssa.Range)
				if !ok || !x.IsString {
					break
				}
				sv := in.evalQuiet(fr, rg.X, 14)
				if sv == nil || sv.k == nil || sv.k.Kind() != constant.String {
					break
				}
				str := constant.StringVal(sv.k)
				if fr.iters == nil {
					fr.iters = map[*ssa.Range]int{}
				}
				pos := fr.iters[rg]
				t := &aval{fields: map[int]*aval{}}
				if pos >= len(str) {
					t.fields[0] = &aval{k: constant.MakeBool(false)}
					t.fields[1] = &aval{k: constant.MakeInt64(0)}
					t.fields[2] = &aval{k: constant.MakeInt64(0)}
				} else {
					r, size := utf8.DecodeRuneInString(str[pos:])
					t.fields[0] = &aval{k: constant.MakeBool(true)}
					t.fields[1] = &aval{k: constant.MakeInt64(int64(pos))}
					t.fields[2] = &aval{k: constant.MakeInt64(int64(r))}
					fr.iters[rg] = pos + size
				}
				fr.vals[x] = t
			case *ssa.Range:
				if fr.iters != nil {
					delete(fr.iters, x)
				}
			case *ssa.Call:
				// calls executed for their effect (package helpers): enter them
				if callee := x.Call.StaticCallee(); callee != nil && in.c.P.InPkg(callee) && len(callee.Blocks) > 0 {
					if _, done := fr.vals[x]; !done {
						// (a helper whose result cannot be computed fails the scenario only if the result is needed)
						in.evalQuiet(fr, x, 14)
					}
				}
			case *ssa.Return:
				if len(x.Results) == 0 {
					return &aval{k: constant.MakeBool(true)}
				}
				if len(x.Results) == 1 {
					return in.eval(fr, x.Results[0], 14)
				}
				t := &aval{fields: map[int]*aval{}}
				for k, r := range x.Results {
					t.fields[k] = in.evalQuiet(fr, r, 14)
				}
				return t
			case *ssa.Jump:
				next = cur.Succs[0]
			case *ssa.If:
				cv := in.eval(fr, x.Cond, 14)
				if cv == nil || cv.k == nil || cv.k.Kind() != constant.Bool {
					if top && in.out.entered && !in.out.postEntryKnown {
						in.afterEntryByShape(cur)
					}
					return in.fail("branch condition at " + in.c.pos(x))
				}
				if constant.BoolVal(cv.k) {
					next = cur.Succs[0]
				} else {
					next = cur.Succs[1]
				}
			case *ssa.Panic:
				return in.fail("panic")
			}
		}
		if in.failed != "" || next == nil {
			if next == nil && in.failed == "" {
				in.fail("block without successor")
			}
			return nil
		}
		fr.prev, cur = cur, next
		if top && in.topLoop[cur] {
			in.out.postEntryKnown = true
			return nil // next iteration of the field loop
		}
	}
}

// ruleNameConflictScenarios: see the comment at the top of the file.
func ruleNameConflictScenarios(c *Ctx, rule string, inferFn *ssa.Function, enter *ssa.MapUpdate) {
	// the consultation of the table of holders: a lookup, keyed by the JSON name, in a map whose elements are structs
	var lk *ssa.Lookup
	var lkFI famInstr
	for _, fi := range c.familyInstrs(inferFn) {
		l, ok := fi.I.(*ssa.Lookup)
		if !ok {
			continue
		}
		mt, isMap := l.X.Type().Underlying().(*types.Map)
		if !isMap || !tString(mt.Key()) {
			continue
		}
		if _, isStruct := mt.Elem().Underlying().(*types.Struct); !isStruct {
			continue
		}
		lk, lkFI = l, fi
	}
	if lk == nil {
		return
	}
	st, _ := lk.X.Type().Underlying().(*types.Map).Elem().Underlying().(*types.Struct)
	depthIdx, tagIdx := -1, -1
	for i := 0; i < st.NumFields(); i++ {
		switch {
		case isIntType(st.Field(i).Type()) && depthIdx < 0:
			depthIdx = i
		case isBoolType(st.Field(i).Type()) && tagIdx < 0:
			tagIdx = i
		}
	}
	if depthIdx < 0 || tagIdx < 0 || st.NumFields() != 2 {
		return
	}
	// whether a name "comes from a tag" is read off the tag, not off a comparison with the Go name of the field: a tag
	// that spells the Go name (`X int `json:"X"``) names the field as much as any other
	nTag := 0
	for _, fi := range c.familyInstrs(inferFn) {
		stt, ok := fi.I.(*ssa.Store)
		if !ok {
			continue
		}
		fa, ok := stt.Addr.(*ssa.FieldAddr)
		if !ok || fa.Field != tagIdx {
			continue
		}
		if pt, isPtr := fa.X.Type().Underlying().(*types.Pointer); !isPtr || !types.Identical(pt.Elem().Underlying(), st) {
			continue
		}
		nTag++
		usesGoName := ""
		for _, v := range backSlice(stt.Val, 30) {
			switch x := v.(type) {
			case *ssa.Field:
				if isNamed(x.X.Type(), "reflect", "StructField") && x.Field == 0 {
					usesGoName = c.pos(stt)
				}
			case *ssa.UnOp:
				if fa2, ok := x.X.(*ssa.FieldAddr); ok && isNamed(derefType(fa2.X.Type()), "reflect", "StructField") && fa2.Field == 0 {
					usesGoName = c.pos(stt)
				}
			}
		}
		c.R.Check(usesGoName == "", rule, fmt.Sprintf("forType:taggedness#%d:from-the-tag", nTag), c.pos(stt), "whether a field's name comes from a tag is read off the tag", "whether a field's JSON name \"comes from a tag\" is decided by comparing it with the Go name of the field: a tag that repeats the Go name counts as no tag, so of two fields at one depth that are both tag-named alike one wins although encoding/json drops both")
	}
	// where to start in the inference function: the block of the lookup, or of the call that leads to it
	var at ssa.Instruction = lk
	if len(lkFI.Path) > 0 {
		at = lkFI.Path[len(lkFI.Path)-1]
	}
	if at.Parent() != enter.Parent() {
		return
	}
	// the field loop: blocks from which the entry can be reached again go on; its header ends a scenario
	header := map[*ssa.BasicBlock]bool{}
	for _, b := range at.Parent().Blocks {
		if b.Dominates(at.Block()) && b != at.Block() && core.Reachable(at.Block(), b, nil) {
			header[b] = true
		}
	}
	type scen struct {
		name   string
		dp, dc int64
		tp, tc bool
		want   ncOutcome
		strict bool // whether deletedProp / cleanedRequired are part of the expectation
	}
	var scens []scen
	for _, d := range []struct {
		n      string
		dp, dc int64
	}{{"holder-shallower", 1, 2}, {"same-depth", 2, 2}, {"holder-deeper", 2, 1}} {
		for _, tp := range []bool{false, true} {
			for _, tc := range []bool{false, true} {
				s := scen{name: fmt.Sprintf("%s/holder-tagged=%v/newcomer-tagged=%v", d.n, tp, tc), dp: d.dp, dc: d.dc, tp: tp, tc: tc}
				switch {
				case d.dp < d.dc, d.dp == d.dc && tp && !tc:
					s.want = ncOutcome{}
				case d.dp > d.dc, d.dp == d.dc && !tp && tc:
					s.want = ncOutcome{entered: true, cleanedRequired: true}
				default:
					s.want = ncOutcome{deletedProp: true, cleanedRequired: true}
				}
				scens = append(scens, s)
			}
		}
	}
	type res struct {
		s   scen
		out ncOutcome
	}
	var results []res
	for _, s := range scens {
		in := &ncInterp{c: c, lookup: lk, dc: s.dc, tc: s.tc, mem: map[ssa.Value]*aval{}, topLoop: header,
			holder: &aval{fields: map[int]*aval{depthIdx: {k: constant.MakeInt64(s.dp)}, tagIdx: {k: constant.MakeBool(s.tp)}}}}
		in.run(at.Parent(), nil, at.Block(), 0)
		if in.failed != "" && in.out.entered {
			in.failed = "" // what follows the entry (option lookups ...) is outside the domain; what was seen until then stands
		}
		if in.failed != "" {
			c.R.OK(rule, "forType:properties[name]:scenarios", c.pos(at), "the decision between two fields with one JSON name could not be evaluated over the depth/tag domain ("+in.failed+"): nothing concluded beyond the dependence on name and depth")
			return
		}
		results = append(results, res{s, in.out})
	}
	for _, r := range results {
		got, want := r.out, r.s.want
		ok := got.entered == want.entered
		why := ""
		switch {
		case got.entered != want.entered && want.entered:
			why = "the newcomer is not entered although encoding/json emits it"
		case got.entered != want.entered:
			why = "the newcomer is entered although encoding/json does not emit it"
		case want.entered && !got.cleanedRequired:
			ok, why = false, "the newcomer replaces the holder but the name is not taken out of `required` first: if the newcomer may be omitted (omitempty) the name stays required, and otherwise it is listed twice"
		case !want.entered && want.deletedProp && !got.deletedProp:
			ok, why = false, "neither field is emitted by encoding/json (a tie), but the holder's property is kept"
		case !want.entered && !want.deletedProp && got.deletedProp:
			ok, why = false, "the holder wins, but its property is deleted"
		case !want.entered && want.deletedProp && got.deletedProp && !got.cleanedOrder:
			ok, why = false, "neither field is emitted by encoding/json (a tie) and the holder's property is removed, but its name stays in PropertyOrder: the inferred order lists a name that is not a property, and a property of that name added later is emitted at the position of a field that does not exist"
		case want.entered && got.postEntryKnown && !got.appendedOrder:
			ok, why = false, "the newcomer replaces the holder but is not given its own place in PropertyOrder: the property keeps the position of the field that lost (or none), so the inferred order is not the order of the fields encoding/json emits"
		}
		c.R.Check(ok, rule, "forType:properties[name]:"+r.s.name, c.pos(at), "resolved as encoding/json resolves it", why+" (holder at depth "+fmt.Sprint(r.s.dp)+", newcomer at depth "+fmt.Sprint(r.s.dc)+")")
	}
	// a third field: after an undecided tie the name stays taken, so that a later field at the same depth or deeper
	// is not entered either (encoding/json drops the name altogether)
	for _, r := range results {
		if !(r.s.dp == r.s.dc && r.s.tp == r.s.tc) {
			continue
		}
		for _, third := range []struct {
			name  string
			depth int64
		}{{"same-depth", r.s.dc}, {"deeper", r.s.dc + 1}} {
			holder := &aval{fields: map[int]*aval{depthIdx: {k: constant.MakeInt64(r.s.dp)}, tagIdx: {k: constant.MakeBool(r.s.tp)}}}
			absent := false
			switch {
			case r.out.ownerDeleted:
				absent = true
			case r.out.ownerSet != nil && r.out.ownerSet.fields != nil && r.out.ownerSet.fields[depthIdx] != nil && r.out.ownerSet.fields[tagIdx] != nil:
				holder = r.out.ownerSet
			}
			in := &ncInterp{c: c, lookup: lk, dc: third.depth, tc: r.s.tc, mem: map[ssa.Value]*aval{}, topLoop: header, holder: holder, holderAbsent: absent}
			in.run(at.Parent(), nil, at.Block(), 0)
			if in.failed != "" && !in.out.entered {
				continue
			}
			c.R.Check(!in.out.entered, rule, fmt.Sprintf("forType:properties[name]:after-tie/tagged=%v/third-%s", r.s.tp, third.name), c.pos(at), "after an undecided tie a third field with the name is not entered",
				"after two fields tied for a JSON name (so that neither is a property) a third field with that name, not shallower than they are, becomes a property: the name is forgotten in the table of holders, but encoding/json drops it altogether")
		}
	}
}

// pureLibCall evaluates a few pure standard-library predicates on concrete arguments.
func (in *ncInterp) pureLibCall(fr *ncFrame, key string, x *ssa.Call, depth int) *aval {
	argStr := func(i int) (string, bool) {
		a := in.evalQuiet(fr, x.Call.Args[i], depth-1)
		if a == nil || a.k == nil || a.k.Kind() != constant.String {
			return "", false
		}
		return constant.StringVal(a.k), true
	}
	argRune := func(i int) (rune, bool) {
		a := in.evalQuiet(fr, x.Call.Args[i], depth-1)
		if a == nil || a.k == nil || a.k.Kind() != constant.Int {
			return 0, false
		}
		n, ok := constant.Int64Val(a.k)
		return rune(n), ok
	}
	b := func(v bool) *aval { return &aval{k: constant.MakeBool(v)} }
	uni := map[string]func(rune) bool{"unicode.IsLetter": unicode.IsLetter, "unicode.IsDigit": unicode.IsDigit, "unicode.IsPunct": unicode.IsPunct,
		"unicode.IsSymbol": unicode.IsSymbol, "unicode.IsSpace": unicode.IsSpace, "unicode.IsControl": unicode.IsControl, "unicode.IsNumber": unicode.IsNumber,
		"unicode.IsUpper": unicode.IsUpper, "unicode.IsLower": unicode.IsLower, "unicode.IsPrint": unicode.IsPrint, "unicode.IsGraphic": unicode.IsGraphic, "unicode.IsMark": unicode.IsMark}
	if f, ok := uni[key]; ok && len(x.Call.Args) == 1 {
		if r, ok := argRune(0); ok {
			return b(f(r))
		}
		return nil
	}
	switch key {
	case "reflect.StructField.IsExported":
		a := in.evalQuiet(fr, x.Call.Args[0], depth-1)
		if a != nil && a.fields != nil && a.fields[1] != nil && a.fields[1].k != nil {
			return b(constant.StringVal(a.fields[1].k) == "")
		}
	case "reflect.StructTag.Get":
		if s, ok := argStr(0); ok {
			if k, ok := argStr(1); ok {
				return &aval{k: constant.MakeString(reflect.StructTag(s).Get(k))}
			}
		}
	case "reflect.StructTag.Lookup":
		if s, ok := argStr(0); ok {
			if k, ok := argStr(1); ok {
				v, found := reflect.StructTag(s).Lookup(k)
				return &aval{fields: map[int]*aval{0: {k: constant.MakeString(v)}, 1: b(found)}}
			}
		}
	case "strings.Cut":
		if s, ok := argStr(0); ok {
			if sep, ok := argStr(1); ok {
				before, after, found := strings.Cut(s, sep)
				return &aval{fields: map[int]*aval{0: {k: constant.MakeString(before)}, 1: {k: constant.MakeString(after)}, 2: b(found)}}
			}
		}
	case "strings.ContainsRune":
		if s, ok := argStr(0); ok {
			if r, ok := argRune(1); ok {
				return b(strings.ContainsRune(s, r))
			}
		}
	case "strings.IndexRune":
		if s, ok := argStr(0); ok {
			if r, ok := argRune(1); ok {
				return &aval{k: constant.MakeInt64(int64(strings.IndexRune(s, r)))}
			}
		}
	case "strings.ContainsAny":
		if s, ok := argStr(0); ok {
			if t, ok := argStr(1); ok {
				return b(strings.ContainsAny(s, t))
			}
		}
	case "strings.Contains":
		if s, ok := argStr(0); ok {
			if t, ok := argStr(1); ok {
				return b(strings.Contains(s, t))
			}
		}
	case "builtin.len":
		if s, ok := argStr(0); ok {
			return &aval{k: constant.MakeInt64(int64(len(s)))}
		}
		if a := in.evalQuiet(fr, x.Call.Args[0], depth-1); a != nil {
			if a.isSlice {
				return &aval{k: constant.MakeInt64(int64(len(a.elems)))}
			}
			if a.m != nil {
				return &aval{k: constant.MakeInt64(int64(len(a.m)))}
			}
		}
	case "strings.Split":
		if s, ok := argStr(0); ok {
			if sep, ok := argStr(1); ok {
				out := &aval{isSlice: true}
				for _, part := range strings.Split(s, sep) {
					out.elems = append(out.elems, &aval{k: constant.MakeString(part)})
				}
				return out
			}
		}
	case "strings.SplitN":
		if s, ok := argStr(0); ok {
			if sep, ok := argStr(1); ok {
				if nv := in.evalQuiet(fr, x.Call.Args[2], depth-1); nv != nil && nv.k != nil && nv.k.Kind() == constant.Int {
					n, _ := constant.Int64Val(nv.k)
					out := &aval{isSlice: true}
					for _, part := range strings.SplitN(s, sep, int(n)) {
						out.elems = append(out.elems, &aval{k: constant.MakeString(part)})
					}
					return out
				}
			}
		}
	}
	return nil
}

// evalStringPredicate evaluates the package predicate fn (func(string) bool) on a concrete string.
func evalStringPredicate(c *Ctx, fn *ssa.Function, s string) (bool, string) {
	in := &ncInterp{c: c, mem: map[ssa.Value]*aval{}}
	r := in.run(fn, []*aval{{k: constant.MakeString(s)}}, nil, 0)
	if in.failed != "" || r == nil || r.k == nil || r.k.Kind() != constant.Bool {
		why := in.failed
		if why == "" {
			why = "no boolean result"
		}
		return false, why
	}
	return constant.BoolVal(r.k), ""
}

func init() {
	for _, pid := range []string{"C04", "C09", "C16"} {
		pid := pid
		p := Properties[pid]
		if p == nil {
			continue
		}
		p.Rules = append(p.Rules, Rule{pid + "/tag-name-validity", func(c *Ctx) { ruleTagNameValidity(c, pid+"/tag-name-validity") }})
	}
}

// encoding/json ignores the name part of a json tag that it does not consider valid (isValidTag: letters, digits
// and the punctuation !#$%&()*+-./:;<=>?@[]^_{|}~ and space) and falls back to the Go field name. Inference must
// do the same, or the inferred property has a name the encoding never has.
//   - wherever the name part of a json tag is read in the inference closure, every use that lets it escape
//     (a store, a return) is guarded by a package predicate applied to it;
//   - that predicate is evaluated abstractly on a set of strings that separates the character classes of
//     isValidTag, and must give isValidTag's answer on each.
func ruleTagNameValidity(c *Ctx, rule string) {
	isTagGet := func(v ssa.Value) bool {
		for _, x := range backSlice(v, 40) {
			if call, ok := x.(*ssa.Call); ok {
				k := core.CalleeKey(&call.Call)
				if (k == "reflect.StructTag.Get" || k == "reflect.StructTag.Lookup") && len(call.Call.Args) == 2 {
					if s, ok := constString(call.Call.Args[1]); ok && s == "json" {
						return true
					}
				}
			}
		}
		return false
	}
	preds := map[*ssa.Function]bool{}
	n := 0
	for _, fn := range c.Closure(rule, "INF").Sorted() {
		if !c.P.InPkg(fn) || len(fn.Blocks) == 0 {
			continue
		}
		core.EachInstr(fn, func(i ssa.Instruction) {
			cut, ok := i.(*ssa.Call)
			if !ok || core.CalleeKey(&cut.Call) != "strings.Cut" || !isTagGet(cut.Call.Args[0]) || cut.Referrers() == nil {
				return
			}
			if s, ok := constString(cut.Call.Args[1]); !ok || s != "," {
				return
			}
			for _, r := range *cut.Referrers() {
				name, ok := r.(*ssa.Extract)
				if !ok || name.Index != 0 || name.Referrers() == nil {
					continue
				}
				n++
				// the predicate applied to the name
				var tests []*ssa.Call
				for _, u := range *name.Referrers() {
					if pc, ok := u.(*ssa.Call); ok {
						if callee := pc.Call.StaticCallee(); callee != nil && c.P.InPkg(callee) && len(callee.Params) == 1 && callee.Signature.Results().Len() == 1 && isBoolType(callee.Signature.Results().At(0).Type()) && tString(callee.Params[0].Type()) {
							tests = append(tests, pc)
							preds[callee] = true
						}
					}
				}
				var unguarded []string
				for _, u := range *name.Referrers() {
					escapes := false
					switch x := u.(type) {
					case *ssa.Store:
						escapes = x.Val == ssa.Value(name)
					case *ssa.Return:
						escapes = true
					case *ssa.MakeInterface, *ssa.MapUpdate, *ssa.Phi:
						escapes = true
					}
					if !escapes {
						continue
					}
					at := u
					if phi, ok := u.(*ssa.Phi); ok {
						// judged where the name flows into the merge
						for k, e := range phi.Edges {
							if e == ssa.Value(name) {
								pred := phi.Block().Preds[k]
								at = pred.Instrs[len(pred.Instrs)-1]
							}
						}
					}
					guarded := false
					for _, g := range guardsOf(at) {
						for _, t := range tests {
							if g.Cond == ssa.Value(t) && g.Pol {
								guarded = true
							}
						}
					}
					if !guarded {
						unguarded = append(unguarded, c.pos(u))
					}
				}
				c.R.Check(len(unguarded) == 0, rule, fmt.Sprintf("%s:tag-name#%d:used-only-if-valid", core.FuncName(fn), n), c.pos(cut), "the name part of the json tag is used only where the validity predicate holds",
					fmt.Sprintf("the name part of the json tag is used (at %v) without asking whether encoding/json accepts it: for `json:\"it's\"` or a name containing a quote or a backslash encoding/json falls back to the Go field name, but the inferred property carries the tag's text, so the schema rejects the encoding of every value of the type", unguarded))
			}
		})
	}
	c.R.Floor(rule, "readings of the name part of a json tag in the inference closure", n, 1)
	// the predicate(s)
	ref := func(s string) bool {
		if s == "" {
			return false
		}
		for _, ch := range s {
			switch {
			case strings.ContainsRune("!#$%&()*+-./:;<=>?@[]^_{|}~ ", ch):
			case !unicode.IsLetter(ch) && !unicode.IsDigit(ch):
				return false
			}
		}
		return true
	}
	samples := []string{"", "a", "Z9", "naïve", "日本", "٣", "full name", " ", "it's", "a\"b", "a\\b", "a`b", "a,b", "tab\tx", "x¿", "§", "a©", "€", "-", "_x", "a.b", "x\n", " ", "á"}
	for _, ch := range "!#$%&()*+-./:;<=>?@[]^_{|}~ " {
		samples = append(samples, "a"+string(ch))
	}
	// one or two runes of every Unicode general category (Lu, Ll, ... Nd, Nl, No, ... Zs, Cc, Cf ...): the classes the
	// standard predicates are made of
	var cats []string
	for name := range unicode.Categories {
		if len(name) == 2 {
			cats = append(cats, name)
		}
	}
	sort.Strings(cats)
	for _, name := range cats {
		t := unicode.Categories[name]
		var first, last rune = -1, -1
		if len(t.R16) > 0 {
			first, last = rune(t.R16[0].Lo), rune(t.R16[len(t.R16)-1].Hi)
		}
		if len(t.R32) > 0 {
			if first < 0 {
				first = rune(t.R32[0].Lo)
			}
			last = rune(t.R32[len(t.R32)-1].Hi)
		}
		for _, r := range []rune{first, last} {
			if r >= 0 && !(r >= 0xD800 && r <= 0xDFFF) {
				samples = append(samples, "a"+string(r))
			}
		}
	}
	for p := range preds {
		var wrong []string
		failed := ""
		for _, s := range samples {
			got, why := evalStringPredicate(c, p, s)
			if why != "" {
				failed = why
				break
			}
			if got != ref(s) {
				wrong = append(wrong, fmt.Sprintf("%q -> %v", s, got))
			}
		}
		construct := core.FuncName(p) + ":agrees-with-encoding/json"
		if failed != "" {
			c.R.OK(rule, construct, c.P.Pos(p.Pos()), "the predicate could not be evaluated over the sample strings ("+failed+"): nothing concluded about it")
			continue
		}
		c.R.Check(len(wrong) == 0, rule, construct, c.P.Pos(p.Pos()), fmt.Sprintf("gives encoding/json's answer on %d strings that separate its character classes", len(samples)),
			fmt.Sprintf("the tag-name validity predicate disagrees with encoding/json's isValidTag (%s): for such a tag the inferred property name is not the name encoding/json uses", strings.Join(wrong, ", ")))
	}
}

// afterEntryByShape: the field's schema has been entered and a condition outside the domain was met (an option
// lookup). Whether the name is still appended to PropertyOrder in this iteration is then read off the shape of
// the code: on every path from here to the next iteration, or on none.
func (in *ncInterp) afterEntryByShape(from *ssa.BasicBlock) {
	isAppend := map[*ssa.BasicBlock]bool{}
	for _, b := range from.Parent().Blocks {
		for _, ins := range b.Instrs {
			st, ok := ins.(*ssa.Store)
			if !ok {
				continue
			}
			if fa, ok := st.Addr.(*ssa.FieldAddr); ok && in.c.fieldName(fa.X.Type(), fa.Field) == "Schema.PropertyOrder" {
				if call, ok := st.Val.(*ssa.Call); ok && core.CalleeKey(&call.Call) == "builtin.append" {
					isAppend[b] = true
				}
			}
		}
	}
	// blocks reachable from here within this iteration
	reach := map[*ssa.BasicBlock]bool{}
	stack := append([]*ssa.BasicBlock(nil), from.Succs...)
	for len(stack) > 0 {
		b := stack[len(stack)-1]
		stack = stack[:len(stack)-1]
		if reach[b] || in.topLoop[b] {
			continue
		}
		reach[b] = true
		stack = append(stack, b.Succs...)
	}
	any := false
	for b := range reach {
		if isAppend[b] {
			any = true
		}
	}
	switch {
	case !any:
		in.out.postEntryKnown = true // no append can follow
	case len(from.Succs) > 0:
		all := true
		for _, s := range from.Succs {
			if !mustPass(s, isAppend, in.topLoop) {
				all = false
			}
		}
		if all {
			in.out.appendedOrder, in.out.postEntryKnown = true, true
		}
	}
}

// evalTagParser runs the tag parser abstractly on one struct field: Go name, exportedness, embeddedness, the kinds
// of its type from the outside in, and the whole tag string. It returns the fields `omit` and `name` of the
// parser's result (found by type: the bool and the string field of the result struct).
func evalTagParser(c *Ctx, tp *ssa.Function, goName string, exported, anonymous bool, typ []string, tag string) (omit bool, name string, why string) {
	omit, name, _, _, why = evalTagParserFull(c, tp, goName, exported, anonymous, typ, tag)
	return
}

// evalTagParserFull also reports the options the parser recorded (the keys of the result's map[string]bool field set
// to true), if the result has such a field.
func evalTagParserFull(c *Ctx, tp *ssa.Function, goName string, exported, anonymous bool, typ []string, tag string) (omit bool, name string, opts []string, hasOpts bool, why string) {
	pkgPath := ""
	if !exported {
		pkgPath = "example.com/p"
	}
	f := &aval{fields: map[int]*aval{
		0: {k: constant.MakeString(goName)},
		1: {k: constant.MakeString(pkgPath)},
		2: {typ: typ},
		3: {k: constant.MakeString(tag)},
		4: {k: constant.MakeInt64(0)},
		6: {k: constant.MakeBool(anonymous)},
	}}
	in := &ncInterp{c: c, mem: map[ssa.Value]*aval{}, concrete: true}
	args := []*aval{f}
	for len(args) < len(tp.Params) {
		args = append(args, nil)
	}
	r := in.run(tp, args, nil, 0)
	if in.failed != "" || r == nil || r.fields == nil {
		if in.failed == "" {
			in.failed = "no struct result"
		}
		return false, "", nil, false, in.failed
	}
	st, ok := tp.Signature.Results().At(0).Type().Underlying().(*types.Struct)
	if !ok {
		return false, "", nil, false, "result is not a struct"
	}
	omitIdx, nameIdx := -1, -1
	for k := 0; k < st.NumFields(); k++ {
		switch {
		case isBoolType(st.Field(k).Type()) && omitIdx < 0:
			omitIdx = k
		case tString(st.Field(k).Type()) && nameIdx < 0:
			nameIdx = k
		}
	}
	if omitIdx < 0 || nameIdx < 0 {
		return false, "", nil, false, "result struct has no bool/string field"
	}
	if v := r.fields[omitIdx]; v != nil && v.k != nil && v.k.Kind() == constant.Bool {
		omit = constant.BoolVal(v.k)
	}
	if v := r.fields[nameIdx]; v != nil && v.k != nil && v.k.Kind() == constant.String {
		name = constant.StringVal(v.k)
	}
	for k := 0; k < st.NumFields(); k++ {
		mt, isMap := st.Field(k).Type().Underlying().(*types.Map)
		if !isMap || !tString(mt.Key()) || !isBoolType(mt.Elem()) {
			continue
		}
		hasOpts = true
		if v := r.fields[k]; v != nil && v.m != nil {
			for key, val := range v.m {
				if val != nil && val.k != nil && val.k.Kind() == constant.Bool && constant.BoolVal(val.k) {
					opts = append(opts, key)
				}
			}
		}
		sort.Strings(opts)
	}
	return omit, name, opts, hasOpts, ""
}

func init() {
	for _, pid := range []string{"C04", "C09", "C16"} {
		pid := pid
		p := Properties[pid]
		if p == nil {
			continue
		}
		p.Rules = append(p.Rules, Rule{pid + "/tag-parser-cases", func(c *Ctx) { ruleTagParserCases(c, pid+"/tag-parser-cases") }})
	}
}

// Which fields encoding/json sees, and under which name, as a table of cases the tag parser is evaluated on:
// an unexported field counts only if it is an embedded struct (or pointer to one); "-" omits, "-," names the field
// "-"; a valid name is used, an invalid one ignored. (Options are left to the shape rules of tag-parser.)
func ruleTagParserCases(c *Ctx, rule string) {
	m := c.inferModel(rule)
	if m == nil {
		return
	}
	tp := c.roles["role:tag-parser"]
	if tp == nil || len(tp.Params) != 1 {
		c.R.OK(rule, "not-evaluated", "", "the tag parser is not a function of the field alone: nothing concluded here")
		return
	}
	type tc struct {
		label               string
		exported, anonymous bool
		typ                 []string
		tag                 string
		wantOmit            bool
		wantName            string
	}
	cases := []tc{
		{"exported/no-tag", true, false, []string{"string"}, "", false, "F"},
		{"exported/dash", true, false, []string{"string"}, `json:"-"`, true, ""},
		{"exported/dash-comma", true, false, []string{"string"}, `json:"-,"`, false, "-"},
		{"exported/name", true, false, []string{"string"}, `json:"abc"`, false, "abc"},
		{"exported/invalid-name", true, false, []string{"string"}, `json:"it's"`, false, "F"},
		{"exported/name-with-space", true, false, []string{"string"}, `json:"a b"`, false, "a b"},
		{"exported/other-key-only", true, false, []string{"string"}, `yaml:"x"`, false, "F"},
		{"unexported/plain", false, false, []string{"string"}, "", true, ""},
		{"unexported/plain-struct", false, false, []string{"struct"}, "", true, ""},
		{"unexported/embedded-struct", false, true, []string{"struct"}, "", false, "F"},
		{"unexported/embedded-pointer-to-struct", false, true, []string{"ptr", "struct"}, "", false, "F"},
		{"unexported/embedded-non-struct", false, true, []string{"string"}, "", true, ""},
		{"unexported/embedded-pointer-to-non-struct", false, true, []string{"ptr", "int"}, "", true, ""},
		{"exported/embedded-non-struct", true, true, []string{"string"}, "", false, "F"},
	}
	type out struct {
		omit bool
		name string
	}
	var outs []out
	for _, k := range cases {
		o, n, why := evalTagParser(c, tp, "F", k.exported, k.anonymous, k.typ, k.tag)
		if why != "" {
			c.R.OK(rule, "not-evaluated", c.P.Pos(tp.Pos()), "the tag parser could not be evaluated on the case "+k.label+" ("+why+"): nothing concluded here")
			return
		}
		outs = append(outs, out{o, n})
	}
	// the function that answers "which name does the tag give the field" (func(reflect.StructField) string), if there
	// is one: "" only where the tag gives none
	for _, fn := range c.Closure(rule, "INF").Sorted() {
		sig := fn.Signature
		if fn.Parent() != nil || !c.P.InPkg(fn) || sig.Recv() != nil || sig.Params().Len() != 1 || sig.Results().Len() != 1 || !isNamed(sig.Params().At(0).Type(), "reflect", "StructField") || !tString(sig.Results().At(0).Type()) {
			continue
		}
		for _, k := range []struct {
			label, tag, want string
			nonEmpty         bool
		}{
			{"no-tag", "", "", false},
			{"name", `json:"abc"`, "abc", false},
			{"dash", `json:"-"`, "", true},
			{"dash-comma", `json:"-,"`, "-", false},
			{"options-only", `json:",omitempty"`, "", false},
			{"invalid-name", `json:"it's"`, "", false},
			{"other-key", `yaml:"x"`, "", false},
		} {
			f := &aval{fields: map[int]*aval{
				0: {k: constant.MakeString("F")}, 1: {k: constant.MakeString("")}, 2: {typ: []string{"struct"}},
				3: {k: constant.MakeString(k.tag)}, 4: {k: constant.MakeInt64(0)}, 6: {k: constant.MakeBool(true)},
			}}
			in := &ncInterp{c: c, mem: map[ssa.Value]*aval{}, concrete: true}
			r := in.run(fn, []*aval{f}, nil, 0)
			if in.failed != "" || r == nil || r.k == nil || r.k.Kind() != constant.String {
				c.R.OK(rule, core.FuncName(fn)+":not-evaluated", c.P.Pos(fn.Pos()), "the tag-name function could not be evaluated on the case "+k.label+": nothing concluded about it")
				break
			}
			got := constant.StringVal(r.k)
			okv := got == k.want
			if k.nonEmpty {
				okv = got != ""
			}
			c.R.Check(okv, rule, core.FuncName(fn)+":"+k.label, c.P.Pos(fn.Pos()), "the name the tag gives, as encoding/json reads it",
				fmt.Sprintf("for the tag %q the tag-name function answers %q: a bare \"-\" does say something about the field (it is left out, and an embedded struct so tagged is not a source of promoted fields), an options-only or invalid name says nothing", k.tag, got))
		}
	}
	// the options: every non-empty element after the first comma, wherever it stands
	for _, k := range []struct {
		label, tag string
		want       []string
	}{
		{"options/one", `json:"a,omitempty"`, []string{"omitempty"}},
		{"options/two", `json:"a,omitempty,string"`, []string{"omitempty", "string"}},
		{"options/after-an-empty-one", `json:"a,,omitempty"`, []string{"omitempty"}},
		{"options/no-name", `json:",omitzero"`, []string{"omitzero"}},
		{"options/trailing-comma", `json:"a,omitempty,"`, []string{"omitempty"}},
		{"options/three", `json:"a,string,omitempty,omitzero"`, []string{"omitempty", "omitzero", "string"}},
	} {
		_, _, opts, has, why := evalTagParserFull(c, tp, "F", true, false, []string{"string"}, k.tag)
		if why != "" || !has {
			c.R.OK(rule, core.FuncName(tp)+":"+k.label+":not-evaluated", c.P.Pos(tp.Pos()), "the options the tag parser records could not be evaluated on this case ("+why+"): nothing concluded about it")
			continue
		}
		var got []string
		for _, o := range opts {
			if o != "" {
				got = append(got, o)
			}
		}
		c.R.Check(strings.Join(got, "|") == strings.Join(k.want, "|"), rule, core.FuncName(tp)+":"+k.label, c.P.Pos(tp.Pos()), "the options recorded are the non-empty elements after the name",
			fmt.Sprintf("for the tag %q the tag parser records the options %v; encoding/json honours %v (an empty element between commas does not end the list): an omitempty that is not recorded makes the field required although encoding/json leaves it out when empty", k.tag, got, k.want))
	}
	for i, k := range cases {
		got := outs[i]
		ok := got.omit == k.wantOmit && (k.wantOmit || got.name == k.wantName)
		c.R.Check(ok, rule, core.FuncName(tp)+":"+k.label, c.P.Pos(tp.Pos()), "as encoding/json treats the field",
			fmt.Sprintf("for a field (exported=%v, embedded=%v, type kinds %v, tag %q) the tag parser says omit=%v name=%q; encoding/json: omit=%v name=%q", k.exported, k.anonymous, k.typ, k.tag, got.omit, got.name, k.wantOmit, k.wantName))
	}
}
