package rules

import (
	"fmt"
	"go/token"
	"go/types"
	"strings"

	"golang.org/x/tools/go/ssa"

	"verif/checker/core"
)

// Clauses added after the twelfth (mini) round of seeded changes.
func init() {
	for _, pid := range []string{"C17", "C03"} {
		pid := pid
		Properties[pid].Rules = append(Properties[pid].Rules,
			Rule{pid + "/dash-for-arrays-only", func(c *Ctx) { ruleDashForArraysOnly(c, pid+"/dash-for-arrays-only") }},
			Rule{pid + "/fragment-is-the-decoded-form", func(c *Ctx) { ruleFragmentDecodedForm(c, pid+"/fragment-is-the-decoded-form") }})
	}
	// necessary conditions of other properties as well (DESIGN 8.5, round 12): run under both names
	for _, sh := range []struct {
		prop, as, orig string
		f              func(*Ctx)
	}{
		{"C01", "C01/zero-means-missing-only-for-structs", "C08/zero-means-missing-only-for-structs", ruleC08ZeroMissing}, // a null-valued declared property of a map instance is validated
		{"C07", "C07/zero-means-missing-only-for-structs", "C08/zero-means-missing-only-for-structs", ruleC08ZeroMissing}, // ... and recorded as evaluated
		{"C01", "C01/no-annotation-aliasing", "C14/no-annotation-aliasing", ruleC14NoAnnotationAliasing},                   // a record made later through an alias is seen, or missed, depending on whether the map existed
		{"C07", "C07/no-annotation-aliasing", "C14/no-annotation-aliasing", ruleC14NoAnnotationAliasing},
	} {
		sh := sh
		p := Properties[sh.prop]
		p.Rules = append(p.Rules, Rule{sh.as, func(c *Ctx) { runAs(c, sh.as, sh.orig, sh.f) }})
	}
}

// "-" is special in a JSON Pointer only as an array index (the element after the last one). As a member name it is
// an ordinary key: "#/properties/-" names the property "-". So a comparison of a token (or of the token list) with
// the constant "-" may sit only where the value walked is known to be an array or slice - not in the parser, and
// not in the walker before the kind of the value is known.
func ruleDashForArraysOnly(c *Ctx, rule string) {
	n := 0
	kindSubject := func(fn *ssa.Function) ssa.Value {
		var subject ssa.Value
		core.EachInstr(fn, func(i ssa.Instruction) {
			if call, ok := i.(*ssa.Call); ok && core.CalleeKey(&call.Call) == "reflect.Value.Kind" {
				subject = call.Call.Args[0]
			}
		})
		return subject
	}
	w := c.pointerWalker(rule)
	if w == nil {
		return
	}
	isDash := func(v ssa.Value) bool { s, ok := constString(v); return ok && s == "-" }
	for _, fn := range c.P.Closure("PTR", c.G, w).Sorted() {
		if !c.P.InPkg(fn) {
			continue
		}
		core.EachInstr(fn, func(i ssa.Instruction) {
			hit := false
			switch x := i.(type) {
			case *ssa.BinOp:
				hit = (x.Op == token.EQL || x.Op == token.NEQ) && (isDash(x.X) || isDash(x.Y))
			case *ssa.Call:
				key := core.CalleeKey(&x.Call)
				if strings.HasPrefix(key, "slices.Contains") || strings.HasPrefix(key, "slices.Index") || strings.HasPrefix(key, "strings.") {
					for _, a := range x.Call.Args {
						if isDash(a) {
							hit = true
						}
					}
				}
			}
			if !hit {
				return
			}
			var at ssa.Instruction = i
			walker := fn
			for hops := 0; hops < 4 && kindSubject(walker) == nil; hops++ {
				site := soleCaller(walker)
				if site == nil {
					break
				}
				at, walker = site, site.Parent()
			}
			n++
			subject := kindSubject(walker)
			if subject == nil {
				c.R.Bad(rule, fmt.Sprintf("%s:dash#%d", core.FuncName(fn), n), c.pos(i), "a pointer token is compared with \"-\" in code that does not know the kind of the value walked: \"#/properties/-\" names the property \"-\" and would be refused")
				return
			}
			ks, _ := c.kindsAt(walker, subject, at)
			c.R.Check(ks != 0 && ks.SubsetOf(Kinds(kArray, kSlice)), rule, fmt.Sprintf("%s:dash#%d", core.FuncName(fn), n), c.pos(i), "\"-\" is special only where the value walked is an array or slice",
				fmt.Sprintf("a pointer token (or the token list) is compared with \"-\" where the value walked can have kind %s: \"#/properties/-\" or \"#/$defs/-\" names a subschema stored under the key \"-\" and would be refused", ks))
		})
	}
	if n == 0 {
		c.R.OK(rule, "none", c.P.Pos(w.Pos()), "the pointer code does not single out the token \"-\" (an index that is not a number is refused by the number parse)")
	}
}

// net/url keeps two forms of a fragment: Fragment (percent-decoded) and RawFragment / EscapedFragment() (as
// written, or re-encoded). RFC 6901 section 6: a pointer in a URI fragment is percent-decoded before it is
// evaluated, and an anchor name is compared decoded as well. What the resolver looks up is therefore derived from
// Fragment alone.
func ruleFragmentDecodedForm(c *Ctx, rule string) {
	res := c.Closure(rule, "RES")
	if res == nil {
		return
	}
	nFrag, bad := 0, 0
	for _, fn := range res.Sorted() {
		if !c.P.InPkg(fn) {
			continue
		}
		core.EachInstr(fn, func(i ssa.Instruction) {
			switch x := i.(type) {
			case *ssa.FieldAddr:
				name, ok := urlField(x)
				if !ok {
					return
				}
				read := false
				for _, r := range *x.Referrers() {
					if u, ok := r.(*ssa.UnOp); ok && u.Op == token.MUL {
						read = true
					}
				}
				if !read {
					return
				}
				switch name {
				case "Fragment":
					nFrag++
				case "RawFragment":
					bad++
					c.R.Bad(rule, core.FuncName(fn)+":RawFragment", c.pos(i), "the resolver reads url.URL.RawFragment: that is the fragment as written (kept only when it differs from the canonical encoding), so \"#/$defs/caf%c3%a9\" or \"#/$defs/%41\" would be looked up undecoded and miss the member \"café\" / \"A\"; the decoded form is url.URL.Fragment")
				}
			case ssa.CallInstruction:
				if core.CalleeKey(x.Common()) == "net/url.URL.EscapedFragment" {
					bad++
					c.R.Bad(rule, core.FuncName(fn)+":EscapedFragment", c.pos(i), "the resolver takes url.URL.EscapedFragment(): a percent-encoded form; members and anchors are looked up by the decoded fragment (url.URL.Fragment)")
				}
			}
		})
	}
	c.R.Floor(rule, "reads of url.URL.Fragment in the resolver", nFrag, 1)
	if bad == 0 {
		c.R.OK(rule, "resolver:decoded-fragment-only", "", fmt.Sprintf("%d reads of url.URL.Fragment, none of RawFragment or EscapedFragment(), in the package functions of the resolver's closure", nFrag))
	}
}

// urlField: the name of the field selected, if fa selects a field of net/url.URL.
func urlField(fa *ssa.FieldAddr) (string, bool) {
	pt, ok := fa.X.Type().Underlying().(*types.Pointer)
	if !ok {
		return "", false
	}
	named, ok := types.Unalias(pt.Elem()).(*types.Named)
	if !ok || named.Obj().Pkg() == nil || named.Obj().Pkg().Path() != "net/url" || named.Obj().Name() != "URL" {
		return "", false
	}
	st, ok := named.Underlying().(*types.Struct)
	if !ok || fa.Field >= st.NumFields() {
		return "", false
	}
	return st.Field(fa.Field).Name(), true
}
