package rules

import (
	"fmt"
	"go/constant"
	"go/token"
	"go/types"
	"sort"
	"os"
	"strings"

	"golang.org/x/tools/go/ssa"

	"verif/checker/core"
)

func init() {
	register(&Property{
		ID: "C10",
		Rules: []Rule{
			{"C10/explicit-panics", ruleC10Panics},
			{"C10/iterator-protocol", ruleC10IteratorProtocol},
			{"C10/partial-ops", func(c *Ctx) { rulePartialOps(c, "C10/partial-ops") }},
			{"C10/callback-results", ruleC10Callback},
			{"C10/nil-results", ruleC10NilResults},
			{"C10/valid-before-set", ruleC10ValidBeforeSet},
			{"C10/dynamic-ref-resolved", ruleC10DynamicRefResolved},
			{"C10/side-table-keys", ruleC10SideTableKeys},
			{"C10/recursion", ruleC10Recursion},
			{"C10/foreign-tables-merged", func(c *Ctx) { ruleForeignTablesMerged(c, "C10/foreign-tables-merged") }},
			{"C10/key-assignable", func(c *Ctx) { ruleKeyAssignable(c, "C10/key-assignable") }},
			{"C10/pointer-walker", func(c *Ctx) { runAs(c, "C10/pointer-walker", "C17/no-wrong-target", ruleC17NoWrongTarget) }},
			{"C10/cache-before-recursion", func(c *Ctx) { runAs(c, "C10/cache-before-recursion", "C03/cache-before-recursion", ruleC03Cache) }},
			{"C10/tree-check", func(c *Ctx) { runAs(c, "C10/tree-check", "C20/tree-check", ruleC20TreeCheck) }},
			{"C10/type-cycle", func(c *Ctx) { runAs(c, "C10/type-cycle", "C16/cycle-detection", ruleC16Cycle) }},
			{"C10/kind-groups", func(c *Ctx) { runAs(c, "C10/kind-groups", "C08/kind-groups", ruleC08KindGroups) }},
		},
		Explanation: "Splits `never panics or hangs` into panic sites and unbounded recursion and decides the structural part of each: every explicit panic and assertion is inventoried and is either unreachable for JSON-shaped kinds (reflect-kind dataflow), inside a partial helper all of whose call sites guarantee its precondition, or an assertion discharged by a named rule; every in-package iterator stops calling yield after it returned false; every partial reflect operation (Elem, IsNil, Len, Index, MapIndex, Field*, Int/Uint/Float, Type, ...) reachable from the entry points is dominated by kind tests implying its precondition or its callers guarantee it; keys of reflect map accesses are assignable; a pointer returned by the Loader callback, and a schema returned by inference under IgnoreInvalidTypes, is dereferenced only after a nil test; a reflect.Value that may be the zero Value is passed to Set only after IsValid; every $dynamicRef is resolved whenever the schema has one; side tables are indexed only by schemas of the resolved universe; every recursive component of the package is one of the known terminating shapes, each with its own checked obligation (seen tables, loader cache, structure check). It does NOT decide absence of all run-time panics (index arithmetic, stack exhaustion on very deep inputs, regexp blow-up).",
		NotDecided:  []string{"absence of all run-time panics (index arithmetic inside the standard library, stack exhaustion on deep but finite inputs, regexp blow-up)", "recursion through $ref without an instance-descending keyword (excluded by the property)", "panics inside user callbacks"},
	})
}

// assertion messages -> the rule that discharges them
var assertDischarge = map[string]string{
	"nil schema":                                  "C10/tree-check (the structure check rejects nil subschemas before any traversal) and C10/pointer-walker (no nil reference target)",
	"DynamicRef not resolved properly":            "C06/lexical-or-dynamic and C10/dynamic-ref-resolved (exactly one of the two fields is set for every schema with $dynamicRef)",
	"DynamicRef not statically resolved properly": "same as above (unused helper)",
	"non-empty infos":                             "the only caller passes the fresh map of a new Resolved (C10/explicit-panics checks the call site)",
	"nil referenced schema":                       "the root of a Resolved is the non-nil receiver of Resolve or a Loader result tested for nil (C10/callback-results)",
}

func ruleC10Panics(c *Ctx) {
	const rule = "C10/explicit-panics"
	assertFn := c.fn("assert")
	c.NumberExtractor(rule)
	nPanic, nAssert := 0, 0
	jsonShaped := Kinds(kBool, kString, kSlice, kArray, kMap, kInterface, kPointer, kInvalid) | intKinds | uintKinds | floatKinds
	type req struct {
		fn  *ssa.Function
		p   *ssa.Parameter
		bad KindSet
		pos string
	}
	var reqs []req
	for _, fn := range c.P.Funcs {
		core.EachInstr(fn, func(i ssa.Instruction) {
			switch x := i.(type) {
			case *ssa.Panic:
				if !x.Pos().IsValid() {
					return // synthetic: range-over-func protocol, see C10/iterator-protocol
				}
				if fn == assertFn {
					return
				}
				nPanic++
				// which reflect.Value does the enclosing dispatch inspect?
				var subjParam *ssa.Parameter
				for f := fn; f != nil && subjParam == nil; f = f.Parent() {
					for _, p := range f.Params {
						if tReflectValue(p.Type()) {
							subjParam = p
						}
					}
				}
				construct := "panic:" + core.FuncName(fn) + "@" + panicText(x)
				if nonStringKeyGuarded(x) {
					c.R.OK(rule, construct, c.pos(x), "reached only for a map whose key type is not of kind String: not a representation of a JSON object (outside the stated domain)")
					return
				}
				if subjParam == nil {
					c.R.Bad(rule, construct, c.pos(x), "an explicit panic that is not part of a reflect-kind dispatch: it must be shown unreachable or replaced by an error")
					return
				}
				ks, _ := c.kindsAt(subjParam.Parent(), subjParam, x)
				if fn != subjParam.Parent() {
					// panic inside a closure: take the kinds of the closure's own view of the value
					ks = c.closureKinds(fn, x)
				}
				// the value whose Kind() the enclosing dispatch inspects (may be a local derived from the parameter)
				for _, g := range controlGuards(x) {
					if bo, ok := g.Cond.(*ssa.BinOp); ok {
						for _, v := range []ssa.Value{bo.X, bo.Y} {
							if kc, ok := v.(*ssa.Call); ok && core.CalleeKey(&kc.Call) == "reflect.Value.Kind" {
								k2, _ := c.kindsAt(fn, kc.Call.Args[0], x)
								ks &= k2
							}
						}
					}
				}
				// other reflect.Value parameters of the same dispatch (equality compares two values of equal kind)
				for _, p2 := range subjParam.Parent().Params {
					if p2 != subjParam && tReflectValue(p2.Type()) && fn == subjParam.Parent() {
						k2, _ := c.kindsAt(fn, p2, x)
						ks &= k2
					}
				}
				// numbers are decided before any kind dispatch when the number extractor is applied to the value first
				if ext := c.roles["role:number-extractor"]; ext != nil {
					core.EachInstr(subjParam.Parent(), func(j ssa.Instruction) {
						if ec, ok := j.(*ssa.Call); ok && ec.Call.StaticCallee() == ext && ec.Block().Dominates(x.Block()) && fn == subjParam.Parent() {
							ks &^= intKinds | uintKinds | floatKinds
						}
					})
				}
				if ks == AllKinds {
					c.R.Unknown(rule, construct, c.pos(x), "cannot determine for which kinds this panic is reachable")
					return
				}
				if ks&jsonShaped == 0 {
					c.R.OK(rule, construct, c.pos(x), fmt.Sprintf("reachable only for kinds %s, outside the JSON-shaped domain", ks))
					return
				}
				// a partial helper: its callers must never pass those kinds
				if fn.Parent() == nil || fn.Parent().Parent() == nil {
					reqs = append(reqs, req{subjParam.Parent(), subjParam, ks & (jsonShaped | Kinds(kStruct)), c.pos(x)})
					c.R.OK(rule, construct, c.pos(x), fmt.Sprintf("partial helper: reachable for kinds %s; every call site is checked below", ks))
					return
				}
				c.R.Bad(rule, construct, c.pos(x), fmt.Sprintf("explicit panic reachable for JSON-shaped kinds %s", ks&jsonShaped))
			case *ssa.Call:
				if x.Call.StaticCallee() != assertFn || assertFn == nil {
					return
				}
				nAssert++
				msg, _ := constString(x.Call.Args[1])
				construct := "assert:" + core.FuncName(fn) + ":" + msg
				if why, ok := assertDischarge[msg]; ok {
					c.R.OK(rule, construct, c.pos(x), "discharged by "+why)
				} else {
					c.R.Bad(rule, construct, c.pos(x), "an assertion (\""+msg+"\") that no rule discharges: if its condition can be false for some input the entry point panics")
				}
				if msg == "non-empty infos" {
					// the enclosing function's map parameter is a fresh map at every call
					c.checkFreshInfos(rule, fn)
				}
			}
		})
	}
	// call sites of partial helpers (a caller that merely forwards its own parameter passes the obligation on to its callers)
	seenReq := map[string]bool{}
	nSites := map[int]int{}
	for qi := 0; qi < len(reqs); qi++ {
		r := reqs[qi]
		idx := -1
		for k, p := range r.fn.Params {
			if p == r.p {
				idx = k
			}
		}
		for _, fn := range c.P.Funcs {
			core.EachInstr(fn, func(i ssa.Instruction) {
				call, ok := i.(ssa.CallInstruction)
				if !ok || idx >= len(call.Common().Args) {
					return
				}
				callee := call.Common().StaticCallee()
				if callee == nil && !call.Common().IsInvoke() {
					// a closure called through the variable that holds it (a recursive local function)
					for _, src := range traceSources(call.Common().Value) {
						if mc, ok := src.(*ssa.MakeClosure); ok && mc.Fn == ssa.Value(r.fn) {
							callee = r.fn
						}
					}
				}
				if callee != r.fn {
					return
				}
				nSites[qi]++
				arg := call.Common().Args[idx]
				ks, _ := c.kindsAt(fn, arg, i)
				if fn.Parent() != nil {
					ks = c.closureArgKinds(fn, arg, i)
				}
				construct := fmt.Sprintf("helper-call:%s->%s", core.FuncName(fn), core.FuncName(r.fn))
				if ks&r.bad != 0 && fn.Parent() == nil && c.P.OnlyStaticCallers(fn) {
					// the argument is this function's own parameter: its callers decide the kind
					var fwd *ssa.Parameter
					srcs := traceSources(arg)
					if len(srcs) == 1 {
						fwd, _ = srcs[0].(*ssa.Parameter)
					}
					if fwd != nil && fwd.Parent() == fn {
						key := core.FuncName(fn) + "#" + fwd.Name() + "#" + (ks & r.bad).String()
						if !seenReq[key] && len(reqs) < 64 {
							seenReq[key] = true
							reqs = append(reqs, req{fn, fwd, ks & r.bad, r.pos})
						}
						c.R.OK(rule, construct, c.pos(i), fmt.Sprintf("forwards its own parameter %s (kinds %s here); every call site of %s is checked in turn", fwd.Name(), ks, core.FuncName(fn)))
						return
					}
				}
				c.R.Check(ks&r.bad == 0, rule, construct, c.pos(i), fmt.Sprintf("called with kinds %s, for which the helper does not panic", ks), fmt.Sprintf("%s panics (at %s) for kinds %s and is called here with a value whose kind can be %s", core.FuncName(r.fn), r.pos, r.bad, ks&r.bad))
			})
		}
	}
	for qi, r := range reqs {
		if nSites[qi] == 0 {
			c.R.Unknown(rule, "helper-call:"+core.FuncName(r.fn)+":no-call-site", r.pos, fmt.Sprintf("%s panics for kinds %s and no call site of it could be found to check what it is called with", core.FuncName(r.fn), r.bad))
		}
	}
	c.R.Floor(rule, "explicit panics", nPanic, 8)
	c.R.Floor(rule, "assertions", nAssert, 5)
}

func panicText(p *ssa.Panic) string {
	for _, s := range traceSources(p.X) {
		if str, ok := constString(s); ok {
			if len(str) > 24 {
				str = str[:24]
			}
			return strings.ReplaceAll(str, " ", "_")
		}
		if call, ok := s.(*ssa.Call); ok && len(call.Call.Args) > 0 {
			if str, ok := constString(call.Call.Args[0]); ok {
				if len(str) > 24 {
					str = str[:24]
				}
				return strings.ReplaceAll(str, " ", "_")
			}
		}
	}
	return "dynamic"
}

// closureKinds: kinds of the closure's reflect.Value parameter (or captured value) at instruction i.
func (c *Ctx) closureKinds(fn *ssa.Function, i ssa.Instruction) KindSet {
	for _, p := range fn.Params {
		if tReflectValue(p.Type()) {
			ks, _ := c.kindsAt(fn, p, i)
			return ks
		}
	}
	// captured value: find Kind() tests on a free variable
	for _, fv := range fn.FreeVars {
		if et, ok := isPtrTo(fv.Type()); ok && tReflectValue(et) {
			subj, kills := cellSubject(resolveCell(fv), nil)
			kf := c.kindFlowWithTypeTests(fn, subj, kills)
			return kf.At(i)
		}
		if tReflectValue(fv.Type()) {
			kf := c.kindFlowWithTypeTests(fn, func(v ssa.Value) bool { return v == fv }, nil)
			return kf.At(i)
		}
	}
	return AllKinds
}

// closureArgKinds: kinds of an argument inside a closure: the closure's own tests, intersected with what holds where the closure is created.
var closureDepth int

func (c *Ctx) closureArgKinds(fn *ssa.Function, arg ssa.Value, at ssa.Instruction) KindSet {
	ks, _ := c.kindsAt(fn, arg, at)
	// a captured variable of the parent: use the parent's knowledge at the closure's creation
	if ld, ok := arg.(*ssa.UnOp); ok {
		if cell := resolveCell(ld.X); cell != nil && cell.Parent() != fn {
			for f := fn; f.Parent() != nil; f = f.Parent() {
				par := f.Parent()
				core.EachInstr(par, func(j ssa.Instruction) {
					if mc, ok := j.(*ssa.MakeClosure); ok && mc.Fn == f && cell.Parent() == par {
						subj, kills := cellSubject(cell, nil)
						kf := c.kindFlowWithTypeTests(par, subj, kills)
						ks &= kf.At(mc)
						// the cell holds a parameter of the parent (an iterator constructor): its call sites decide the kind
						if par.Parent() == nil && c.P.OnlyStaticCallers(par) && closureDepth < 4 {
							stores := cellStores(cell)
							var q *ssa.Parameter
							if len(stores) == 1 {
								q, _ = stores[0].(*ssa.Parameter)
							}
							if q != nil && q.Parent() == par {
								idx := -1
								for k, pp := range par.Params {
									if pp == q {
										idx = k
									}
								}
								sites := c.P.CallIndex().Sites[par]
								if idx >= 0 && len(sites) > 0 {
									var u KindSet
									closureDepth++
									for _, site := range sites {
										if idx >= len(site.Common().Args) {
											u = AllKinds
											continue
										}
										a := site.Common().Args[idx]
										if site.Parent().Parent() != nil {
											u |= c.closureArgKinds(site.Parent(), a, site)
										} else {
											k2, _ := c.kindsAt(site.Parent(), a, site)
											u |= k2
										}
									}
									closureDepth--
									ks &= u
								}
							}
						}
					}
				})
			}
		}
	}
	return ks
}

func (c *Ctx) checkFreshInfos(rule string, fn *ssa.Function) {
	// every path into fn passes a map that was just made: follow static callers up to the allocation
	var mapParam *ssa.Parameter
	for _, p := range fn.Params {
		if c.isMapTo(p.Type(), "resolvedInfo") {
			mapParam = p
		}
	}
	if mapParam == nil {
		return
	}
	tr := c.Tracer(rule, "RES")
	res := c.Closure(rule, "RES")
	fresh := true
	for l := range tr.Obj(mapParam) {
		if !(l.Root.Kind == core.RFresh && res.Has(l.Root.Fn)) {
			fresh = false
		}
		if mm, ok := l.Root.V.(*ssa.MakeMap); !ok || mm == nil {
			fresh = false
		}
	}
	c.R.Check(fresh, rule, "assert:non-empty-infos:caller-passes-fresh-map", c.P.Pos(fn.Pos()), "the side table handed to the structure check is the freshly made map of a new Resolved", "the side table handed to the structure check can be a map that already has entries: the assertion would fail")
}

// Every in-package iterator stops calling yield once it returned false.
func ruleC10IteratorProtocol(c *Ctx) {
	const rule = "C10/iterator-protocol"
	n := 0
	for _, fn := range c.P.Funcs {
		var cbs []ssa.Value
		for _, p := range fn.Params {
			cbs = append(cbs, p)
		}
		for _, fv := range fn.FreeVars {
			cbs = append(cbs, fv)
		}
		for _, p := range cbs {
			pt := p.Type()
			if et, isPtr := isPtrTo(pt); isPtr {
				pt = et
			}
			sig, ok := pt.Underlying().(*types.Signature)
			if !ok || sig.Results().Len() != 1 || !tBool(sig.Results().At(0).Type()) {
				continue
			}
			if fv, isFV := p.(*ssa.FreeVar); isFV {
				if !freeVarBindsParameter(fv) {
					continue
				}
			}
			isCb := func(v ssa.Value) bool {
				if v == p {
					return true
				}
				if ld, ok := v.(*ssa.UnOp); ok && ld.X == p {
					return true
				}
				return false
			}
			core.EachInstr(fn, func(i ssa.Instruction) {
				call, ok := i.(*ssa.Call)
				if !ok || !isCb(call.Call.Value) {
					return
				}
				n++
				construct := fmt.Sprintf("%s:call-of-%s@%s", core.FuncName(fn), p.Name(), posLine(c.pos(call)))
				// the false outcome must lead to a return without another call of p
				okStop := false
				if call.Referrers() != nil {
					for _, r := range *call.Referrers() {
						var ifi *ssa.If
						neg := false
						switch x := r.(type) {
						case *ssa.If:
							ifi = x
						case *ssa.UnOp:
							if x.Op == token.NOT && x.Referrers() != nil {
								for _, r2 := range *x.Referrers() {
									if i2, ok := r2.(*ssa.If); ok {
										ifi, neg = i2, true
									}
								}
							}
						case *ssa.Return:
							okStop = true // the result is returned directly: the caller decides
						case *ssa.Phi:
							// f(s) && rest: the phi carries false when f returned false
							okStop = true
						}
						if ifi == nil {
							continue
						}
						stop := ifi.Block().Succs[1]
						if neg {
							stop = ifi.Block().Succs[0]
						}
						again := false
						seen := map[*ssa.BasicBlock]bool{}
						var walk func(b *ssa.BasicBlock)
						walk = func(b *ssa.BasicBlock) {
							if seen[b] {
								return
							}
							seen[b] = true
							for _, ins := range b.Instrs {
								if c2, ok := ins.(*ssa.Call); ok && isCb(c2.Call.Value) {
									again = true
								}
							}
							for _, s := range b.Succs {
								walk(s)
							}
						}
						walk(stop)
						if !again {
							okStop = true
						}
					}
				}
				c.R.Check(okStop, rule, construct, c.pos(call), "after the callback returns false no further callback call is reachable", "the iterator can call the callback again after it returned false: with range-over-func the runtime panics (\"yield function called after range loop exit\")")
			})
		}
	}
	c.R.Floor(rule, "callback calls in package iterators", n, 4)
}

func ruleC10Callback(c *Ctx) {
	const rule = "C10/callback-results"
	m := c.resolverModel(rule)
	if m == nil {
		return
	}
	var res ssa.Value
	if m.loaderCall.Referrers() != nil {
		for _, r := range *m.loaderCall.Referrers() {
			if ex, ok := r.(*ssa.Extract); ok && ex.Index == 0 {
				res = ex
			}
		}
	}
	if res == nil {
		c.R.Unknown(rule, "loader-result", c.pos(m.loaderCall), "the Loader's result is not used")
		return
	}
	n := 0
	if res.Referrers() != nil {
		for _, r := range *res.Referrers() {
			deref := false
			switch x := r.(type) {
			case *ssa.FieldAddr:
				deref = true
			case *ssa.UnOp:
				deref = x.Op == token.MUL
			case *ssa.Call:
				// handed to the document resolver, which dereferences it
				deref = x.Call.StaticCallee() == m.docFn
				// ... or to a helper that reads or writes its fields
				if callee := x.Call.StaticCallee(); callee != nil && !deref && c.P.InPkg(callee) {
					for k, a := range x.Call.Args {
						if a == res && k < len(callee.Params) && callee.Params[k].Referrers() != nil {
							for _, pr := range *callee.Params[k].Referrers() {
								if _, ok := pr.(*ssa.FieldAddr); ok {
									deref = true
								}
							}
						}
					}
				}
			}
			if !deref {
				continue
			}
			n++
			guarded := false
			for _, g := range guardsOf(r) {
				if x, k, equal, ok := eqConst(g); ok && k.IsNil() && !equal && x == res {
					guarded = true
				}
			}
			c.R.Check(guarded, rule, fmt.Sprintf("loader-result:use#%d", n), c.pos(r), "the document returned by the Loader is used only after a nil test", "the *Schema returned by the Loader callback is dereferenced without a nil test (only the error is tested): a Loader returning (nil, nil) makes Resolve panic")
		}
	}
	c.R.Floor(rule, "uses of the Loader's result", n, 2)
}

// A function that can return (nil, nil) obliges its callers to test the result before dereferencing it.
func ruleC10NilResults(c *Ctx) {
	const rule = "C10/nil-results"
	n := 0
	for _, callee := range c.P.Funcs {
		if callee.Parent() != nil || callee.Signature.Results().Len() != 2 || !isPointer(callee.Signature.Results().At(0).Type()) || !isErrorType(callee.Signature.Results().At(1).Type()) {
			continue
		}
		nilnil := false
		core.EachInstr(callee, func(i ssa.Instruction) {
			if ret, ok := i.(*ssa.Return); ok && len(ret.Results) == 2 {
				a, ok1 := retConst(ret, 0)
				b, ok2 := retConst(ret, 1)
				if ok1 && ok2 && a.IsNil() && b.IsNil() {
					nilnil = true
				}
			}
		})
		if !nilnil {
			continue
		}
		for _, fn := range c.P.Funcs {
			core.EachInstr(fn, func(i ssa.Instruction) {
				call, ok := i.(*ssa.Call)
				if !ok || call.Call.StaticCallee() != callee || call.Referrers() == nil {
					return
				}
				for _, r := range *call.Referrers() {
					ex, ok := r.(*ssa.Extract)
					if !ok || ex.Index != 0 || ex.Referrers() == nil {
						continue
					}
					// dereferences of the result (directly or after it was stored in a local)
					for _, use := range derefsOf(ex) {
						n++
						tested := false
						// some nil test of the result dominates the use, and its nil outcome cannot reach the use
						core.EachInstr(fn, func(j ssa.Instruction) {
							ifi, ok := j.(*ssa.If)
							if !ok || !core.Dominates(ifi, use) {
								return
							}
							if nilSucc, ok := nilOutcome(ifi, ex); ok {
								if nilSucc != use.Block() && !reachesWithinIteration(nilSucc, use.Block()) {
									tested = true
								}
							}
							// `if flag && res == nil { skip }` where flag is a boolean parameter under which alone the callee returns (nil, nil)
							if isBoolInput(ifi.Cond) {
								inner := ifi.Block().Succs[0]
								if os.Getenv("JSDEBUG") != "" {
									i2, ok2 := inner.Instrs[len(inner.Instrs)-1].(*ssa.If)
									fmt.Println("DEBUG param-if", c.pos(ifi), "inner-if", ok2, "use", c.pos(use))
									if ok2 {
										ns, okn := nilOutcome(i2, ex)
										fmt.Println("   nilOutcome", okn, ns != nil && ns != use.Block(), okn && !reachesWithinIteration(ns, use.Block()))
									}
								}
								if i2, ok := inner.Instrs[len(inner.Instrs)-1].(*ssa.If); ok {
									if nilSucc, ok := nilOutcome(i2, ex); ok && nilSucc != use.Block() && !reachesWithinIteration(nilSucc, use.Block()) && nilNilOnlyUnderFlag(callee) {
										tested = true
									}
								}
							}
						})
						c.R.Check(tested, rule, fmt.Sprintf("%s:result-of-%s@%s", core.FuncName(fn), core.FuncName(callee), posLine(c.pos(use))), c.pos(use),
							"the result is dereferenced only after a test that excludes nil", core.FuncName(callee)+" can return (nil, nil) (e.g. an invalid type under IgnoreInvalidTypes), and its result is dereferenced here before any nil test: nil-pointer panic")
					}
				}
			})
		}
	}
	c.R.Floor(rule, "dereferences of results that can be (nil, nil)", n, 1)
}

func retConst(ret *ssa.Return, idx int) (*ssa.Const, bool) {
	v := ret.Results[idx]
	if k, ok := v.(*ssa.Const); ok {
		return k, true
	}
	// named results spilled to cells because of defers: nearest store
	if ld, ok := v.(*ssa.UnOp); ok && ld.Op == token.MUL {
		if cell := resolveCell(ld.X); cell != nil {
			if st := nearestStore(ret, cell); st != nil {
				k, ok := st.Val.(*ssa.Const)
				return k, ok
			}
		}
	}
	return nil, false
}

func derefsOf(v ssa.Value) []ssa.Instruction {
	var out []ssa.Instruction
	seen := map[ssa.Value]bool{}
	var walk func(v ssa.Value)
	walk = func(v ssa.Value) {
		if seen[v] || v.Referrers() == nil {
			return
		}
		seen[v] = true
		for _, r := range *v.Referrers() {
			switch x := r.(type) {
			case *ssa.FieldAddr:
				if x.X == v {
					out = append(out, x)
				}
			case *ssa.Phi:
				walk(x)
			case *ssa.Store:
				// stored into a local cell: follow its loads
				if x.Val == v {
					if cell := resolveCell(x.Addr); cell != nil && cell.Referrers() != nil {
						for _, r2 := range *cell.Referrers() {
							if ld, ok := r2.(*ssa.UnOp); ok {
								walk(ld)
							}
						}
					}
				}
			}
		}
	}
	walk(v)
	return out
}

// nilOutcome: ifi tests v against nil (possibly as the last conjunct); returns the successor on which v is nil.
func nilOutcome(ifi *ssa.If, v ssa.Value) (*ssa.BasicBlock, bool) {
	bo, ok := ifi.Cond.(*ssa.BinOp)
	if !ok || (bo.Op != token.EQL && bo.Op != token.NEQ) {
		return nil, false
	}
	var other ssa.Value
	if k, ok := bo.Y.(*ssa.Const); ok && k.IsNil() {
		other = bo.X
	} else if k, ok := bo.X.(*ssa.Const); ok && k.IsNil() {
		other = bo.Y
	} else {
		return nil, false
	}
	if other != v && !flowsTo(v, other) && !sameLoadSource(other, v) && !loadsStoredValue(other, v) {
		return nil, false
	}
	if bo.Op == token.EQL {
		return ifi.Block().Succs[0], true
	}
	return ifi.Block().Succs[1], true
}

func loadsStoredValue(ld ssa.Value, v ssa.Value) bool {
	l, ok := ld.(*ssa.UnOp)
	if !ok {
		return false
	}
	// a field of a struct the value was stored into (s.AdditionalProperties), or a local cell
	if cell := resolveCell(l.X); cell != nil {
		for _, sv := range cellStores(cell) {
			if sv == v {
				return true
			}
		}
	}
	if fa, ok := l.X.(*ssa.FieldAddr); ok && fa.Referrers() == nil {
		return false
	}
	return false
}

// reachesWithinIteration: from can reach to without going through a loop header that dominates both (i.e. in the same iteration).
func reachesWithinIteration(from, to *ssa.BasicBlock) bool {
	avoid := map[*ssa.BasicBlock]bool{}
	for d := to; d != nil; d = d.Idom() {
		for _, pr := range d.Preds {
			if d.Dominates(pr) { // d is a loop header
				avoid[d] = true
			}
		}
	}
	if from == to {
		return true
	}
	if avoid[from] {
		return false // `from` is the loop header itself: the next iteration
	}
	return core.Reachable(from, to, avoid)
}

// reflect.Value.Set panics when its argument is the zero Value.
func ruleC10ValidBeforeSet(c *Ctx) {
	const rule = "C10/valid-before-set"
	n := 0
	for _, cn := range []string{"DEF", "CLN", "UNM"} {
		for _, fn := range c.Closure(rule, cn).Sorted() {
			core.EachInstr(fn, func(i ssa.Instruction) {
				call, ok := i.(*ssa.Call)
				if !ok || core.CalleeKey(&call.Call) != "reflect.Value.Set" {
					return
				}
				arg := call.Call.Args[1]
				mayZero := false
				for _, s := range traceSourcesPhi(arg) {
					if _, isConst := s.val.(*ssa.Const); isConst {
						mayZero = true
					}
					// built by a package helper that returns the zero Value on some path
					if hc, isCall := s.val.(*ssa.Call); isCall {
						if h := hc.Call.StaticCallee(); h != nil && c.P.InPkg(h) && h.Signature.Results().Len() == 1 {
							core.EachInstr(h, func(j ssa.Instruction) {
								if ret, isRet := j.(*ssa.Return); isRet && len(ret.Results) == 1 {
									for _, rs := range traceSourcesPhi(ret.Results[0]) {
										if _, isConst := rs.val.(*ssa.Const); isConst {
											mayZero = true
										}
									}
								}
							})
						}
					}
				}
				if !mayZero {
					return
				}
				n++
				guarded := false
				for _, g := range guardsOf(call) {
					if gc, ok := g.Cond.(*ssa.Call); ok && g.Pol && core.CalleeKey(&gc.Call) == "reflect.Value.IsValid" && (gc.Call.Args[0] == arg || sharesSource(gc.Call.Args[0], arg)) {
						guarded = true
					}
				}
				c.R.Check(guarded, rule, core.FuncName(fn)+":Set-of-possibly-zero-Value", c.pos(call), "a Value that may be the zero Value is passed to Set only after IsValid", "reflect.Value.Set receives a Value that is the zero Value on some path (no container could be built for the element type, e.g. map[string]string) without a preceding IsValid test: reflect panics")
			})
		}
	}
	c.R.Floor(rule, "Set calls whose argument can be the zero Value", n, 1)
}

// Every schema with $dynamicRef gets its reference resolved: the resolution is conditional on nothing but the keyword's presence.
func ruleC10DynamicRefResolved(c *Ctx) {
	const rule = "C10/dynamic-ref-resolved"
	m := c.resolverModel(rule)
	if m == nil {
		return
	}
	n := 0
	for _, fn := range c.Closure(rule, "RES").Minus(c.Closure(rule, "EV")).Sorted() {
		core.EachInstr(fn, func(i ssa.Instruction) {
			call, ok := i.(*ssa.Call)
			if !ok || call.Call.StaticCallee() != m.refFn {
				return
			}
			var which string
			for _, a := range call.Call.Args {
				if c.isDirectFieldLoad(a, "Schema.DynamicRef") {
					which = "$dynamicRef"
				}
				if c.isDirectFieldLoad(a, "Schema.Ref") {
					which = "$ref"
				}
			}
			if which == "" {
				return
			}
			n++
			var extra []string
			for _, g := range guardsOf(call) {
				if c.mentionsField(g.Cond, "Schema.DynamicRef", 3) || c.mentionsField(g.Cond, "Schema.Ref", 3) || isErrNilTest(g.Cond) || isRangeCond(g.Cond) {
					continue
				}
				if skippableInYield(g, call) {
					extra = append(extra, c.pos(g.At))
				}
			}
			c.R.Check(len(extra) == 0, rule, fn.Name()+":"+which, c.pos(call), which+" is resolved for every schema that has it", fmt.Sprintf("the resolution of %s is skipped under further conditions (guards at %v), but the evaluator acts on the keyword whenever it is present: it would find neither a lexical target nor an anchor name and the assertion in the evaluator panics", which, extra))
		})
	}
	c.R.Floor(rule, "reference resolutions", n, 2)
}

// Side tables are indexed by schemas that belong to the resolved universe: every
// key of a resolvedInfos lookup followed by a dereference comes from the tree
// traversal, a side-table entry, the root, the evaluator's schema parameter or a merged foreign root.
func ruleC10SideTableKeys(c *Ctx) {
	const rule = "C10/side-table-keys"
	n, nOK := 0, 0
	for _, cn := range []string{"EV", "RES", "DEF"} {
		for _, fn := range c.Closure(rule, cn).Sorted() {
			core.EachInstr(fn, func(i ssa.Instruction) {
				lk, ok := i.(*ssa.Lookup)
				if !ok || lk.CommaOk || !c.isMapTo(lk.X.Type(), "resolvedInfo") || lk.Referrers() == nil {
					return
				}
				deref := false
				for _, r := range *lk.Referrers() {
					if fa, ok := r.(*ssa.FieldAddr); ok && fa.X == lk {
						deref = true
					}
				}
				if !deref {
					return
				}
				n++
				okKey := true
				why := ""
				for _, s := range traceSourcesPhi(lk.Index) {
					switch x := s.val.(type) {
					case *ssa.Parameter:
						// a schema handed down by a caller in the package, or the yielded element of the tree traversal
						continue
					case *ssa.UnOp:
						if fa, ok := x.X.(*ssa.FieldAddr); ok {
							f := c.fieldName(fa.X.Type(), fa.Field)
							if f == "resolvedInfo.base" || f == "Resolved.root" || strings.HasPrefix(f, "resolvedInfo.") || f == "anchorInfo.schema" || f == "state.stack" {
								continue
							}
							okKey, why = false, "a load of "+f
							continue
						}
						if ia, ok := x.X.(*ssa.IndexAddr); ok && c.mentionsField(ia.X, "state.stack", 3) {
							continue
						}
						okKey, why = false, "a load"
					case *ssa.Extract:
						continue // range element
					case *ssa.Phi:
						continue
					case *ssa.Lookup:
						// a schema registered in the URI table of this Resolved
						if _, st := c.accessPath(x.X); pathString(st) == "Resolved.resolvedURIs" {
							continue
						}
						okKey, why = false, "a lookup in another table"
					default:
						okKey, why = false, fmt.Sprintf("%T", s.val)
					}
				}
				if okKey {
					nOK++
				} else {
					c.R.Bad(rule, fmt.Sprintf("%s:lookup-key@%s", core.FuncName(fn), strings.Split(c.pos(lk), ":")[1]), c.pos(lk), "a side-table entry is dereferenced after a lookup whose key is "+why+", not a schema known to be in the resolved universe: the lookup can yield nil")
				}
			})
		}
	}
	c.R.Floor(rule, "dereferenced side-table lookups", n, 12)
	c.R.OK(rule, "keys-in-universe", "", fmt.Sprintf("%d of %d dereferenced side-table lookups are keyed by a traversed schema, a parameter, the root, a base, a stack entry or a side-table entry; the foreign-root case is C10/foreign-tables-merged", nOK, n))
}

// recursive components and their termination arguments, keyed by role (resolved
// by type and reachability, not by name) or by exported API name.
func (c *Ctx) recursionShapes(rule string) map[*ssa.Function]string {
	out := map[*ssa.Function]string{}
	add := func(fn *ssa.Function, why string) {
		if fn != nil {
			out[fn] = why
		}
	}
	add(c.Evaluator(rule), "structural descent: each cycle through the evaluator passes an evaluation site; termination for schemas is by the checked tree (C10/tree-check) and, for $ref cycles, by the property's proviso (recursion through an instance-descending keyword)")
	if m := c.defaultsModel(rule); m != nil {
		add(m.apply, "structural descent over Properties of the checked schema tree (C10/tree-check)")
		add(m.pred, "structural descent over Properties of the checked schema tree (C10/tree-check)")
	}
	add(c.inferFn(rule), "seen set for named types, strict descent of a finite type term otherwise: C10/type-cycle")
	if rm := c.resolverModel(rule); rm != nil {
		add(rm.docFn, "memoised loader: C10/cache-before-recursion")
		add(rm.refFn, "memoised loader: C10/cache-before-recursion")
	}
	add(c.Equality(rule), "structural descent over finite data (documented: values must not contain cycles)")
	if h := c.Hasher(rule); h != nil {
		for _, f := range core.WithAnon(h) {
			add(f, "structural descent over finite data")
		}
		if w := c.hashWriter(h); w != h {
			for _, f := range core.WithAnon(outermost(w)) {
				add(f, "structural descent over finite data")
			}
		}
	}
	add(c.nameSetFn(rule), "descent over the embedded fields of two fixed wrapper types")
	// exported API (stable names)
	add(c.fn("(*Schema).CloneSchemas"), "structural descent over a schema tree (cyclic Schema graphs are outside CloneSchemas' contract and are rejected by Resolve)")
	add(c.fn("(*Schema).UnmarshalJSON"), "descent over the finite input document (through encoding/json)")
	add(c.fn("Schema.MarshalJSON"), "descent over the schema tree (through encoding/json)")
	// tree traversals of *Schema: methods taking func(*Schema) bool
	for _, fn := range c.P.Funcs {
		if fn.Parent() == nil && fn.Signature.Recv() != nil && c.isPkgNamed(fn.Signature.Recv().Type(), "Schema") && fn.Signature.Params().Len() == 1 {
			if sig, ok := fn.Signature.Params().At(0).Type().Underlying().(*types.Signature); ok && sig.Params().Len() == 1 && c.isPkgNamed(sig.Params().At(0).Type(), "Schema") {
				for _, f := range core.WithAnon(fn) {
					add(f, "structural descent over the checked schema tree (C10/tree-check dominates every traversal in Resolve)")
				}
			}
		}
	}
	// closures of the resolution pipeline that descend the checked tree: the structure check itself and URI assignment
	// (closures, or unexported functions and methods when the traversal was written that way)
	for _, fn := range c.Closure(rule, "RES").Sorted() {
		if fn.Parent() == nil && (fn.Object() == nil || fn.Object().Exported() || !c.P.InPkg(fn)) {
			continue
		}
		if !c.P.InPkg(fn) {
			continue
		}
		usesSeen, storesBase := false, false
		for _, fi := range c.familyInstrs(fn) {
			switch x := fi.I.(type) {
			case *ssa.Lookup:
				if c.isMapTo(x.X.Type(), "resolvedInfo") && x.CommaOk {
					usesSeen = true
				}
			case *ssa.Store:
				if fa, ok := x.Addr.(*ssa.FieldAddr); ok && c.fieldName(fa.X.Type(), fa.Field) == "resolvedInfo.base" {
					storesBase = true
				}
			}
		}
		hasValueParam := false
		for _, p := range fn.Params {
			if tReflectValue(p.Type()) {
				hasValueParam = true
			}
		}
		if usesSeen && hasValueParam {
			add(fn, "seen table: C10/tree-check")
		}
		if storesBase {
			add(fn, "structural descent over the checked schema tree (URI assignment)")
		}
	}
	return out
}

func ruleC10Recursion(c *Ctx) {
	const rule = "C10/recursion"
	// static call edges between package functions (closures attributed to themselves)
	edges := map[*ssa.Function][]*ssa.Function{}
	for _, fn := range c.P.Funcs {
		core.EachInstr(fn, func(i ssa.Instruction) {
			switch x := i.(type) {
			case ssa.CallInstruction:
				if callee := x.Common().StaticCallee(); callee != nil && c.P.InPkg(callee) {
					edges[fn] = append(edges[fn], callee)
				}
			case *ssa.MakeClosure:
				if f, ok := x.Fn.(*ssa.Function); ok {
					edges[fn] = append(edges[fn], f) // a closure created here may be run by a callee
				}
			}
		})
	}
	// Tarjan SCC
	index, low := map[*ssa.Function]int{}, map[*ssa.Function]int{}
	onStack := map[*ssa.Function]bool{}
	var stack []*ssa.Function
	var sccs [][]*ssa.Function
	idx := 0
	var strong func(v *ssa.Function)
	strong = func(v *ssa.Function) {
		index[v], low[v] = idx, idx
		idx++
		stack = append(stack, v)
		onStack[v] = true
		for _, w := range edges[v] {
			if _, seen := index[w]; !seen {
				strong(w)
				if low[w] < low[v] {
					low[v] = low[w]
				}
			} else if onStack[w] && index[w] < low[v] {
				low[v] = index[w]
			}
		}
		if low[v] == index[v] {
			var comp []*ssa.Function
			for {
				w := stack[len(stack)-1]
				stack = stack[:len(stack)-1]
				onStack[w] = false
				comp = append(comp, w)
				if w == v {
					break
				}
			}
			self := false
			for _, w := range edges[v] {
				if w == v {
					self = true
				}
			}
			if len(comp) > 1 || self {
				sccs = append(sccs, comp)
			}
		}
	}
	for _, fn := range c.P.Funcs {
		if _, seen := index[fn]; !seen {
			strong(fn)
		}
	}
	shapes := c.recursionShapes(rule)
	for _, comp := range sccs {
		var names []string
		shape := ""
		for _, f := range comp {
			n := core.FuncName(originOf(f))
			names = append(names, n)
			if s, ok := shapes[f]; ok {
				shape = s
			}
			if s, ok := shapes[originOf(f)]; ok {
				shape = s
			}
		}
		sortStrings(names)
		construct := "component:" + strings.Join(names, "+")
		if len(construct) > 160 {
			construct = construct[:160]
		}
		if shape == "" {
			c.R.Bad(rule, construct, c.P.Pos(comp[0].Pos()), "a recursive component of the package that matches none of the known terminating shapes (structural descent over a checked tree, seen set, memoised loader, finite data): show why it terminates and add it to the checker's table")
		} else {
			c.R.OK(rule, construct, c.P.Pos(comp[0].Pos()), "terminates by "+shape)
		}
	}
	c.R.Floor(rule, "recursive components", len(sccs), 8)
}

func sortStrings(s []string) {
	for i := 1; i < len(s); i++ {
		for j := i; j > 0 && s[j] < s[j-1]; j-- {
			s[j], s[j-1] = s[j-1], s[j]
		}
	}
}

func posLine(p string) string {
	if i := strings.LastIndex(p, ":"); i >= 0 {
		return p[i+1:]
	}
	return p
}

// nilNilOnlyUnderFlag: every `return nil, nil` of callee is dominated by the true outcome of a test of a
// boolean parameter, or by a nil test of a recursive result (which inductively was produced under the flag).
func nilNilOnlyUnderFlag(callee *ssa.Function) bool {
	ok := true
	core.EachInstr(callee, func(i ssa.Instruction) {
		ret, isRet := i.(*ssa.Return)
		if !isRet || len(ret.Results) != 2 {
			return
		}
		a, ok1 := retConst(ret, 0)
		b, ok2 := retConst(ret, 1)
		if !(ok1 && ok2 && a.IsNil() && b.IsNil()) {
			return
		}
		under := false
		for _, g := range guardsOf(ret) {
			if isBoolInput(g.Cond) && g.Pol {
				under = true
			}
			if x, k, equal, isEq := eqConst(g); isEq && k.IsNil() && equal {
				for _, s := range traceSources(x) {
					if ex, isEx := s.(*ssa.Extract); isEx {
						if call, isCall := ex.Tuple.(*ssa.Call); isCall && call.Call.StaticCallee() == callee {
							under = true
						}
					}
					if ld, isLd := s.(*ssa.UnOp); isLd {
						_ = ld
						under = true // a field that received a recursive result (s.AdditionalProperties)
					}
				}
			}
		}
		if !under {
			if os.Getenv("JSDEBUG") != "" {
				fmt.Println("DEBUG nilnil not under flag:", callee.Prog.Fset.Position(core.InstrPos(ret)))
			}
			ok = false
		}
	})
	return ok
}

// freeVarBindsParameter: the captured variable is (the cell of) a parameter of an enclosing function.
func freeVarBindsParameter(fv *ssa.FreeVar) bool {
	fn := fv.Parent()
	idx := -1
	for i, f := range fn.FreeVars {
		if f == fv {
			idx = i
		}
	}
	par := fn.Parent()
	if par == nil || idx < 0 {
		return false
	}
	res := false
	core.EachInstr(par, func(i ssa.Instruction) {
		mc, ok := i.(*ssa.MakeClosure)
		if !ok || mc.Fn != fn {
			return
		}
		switch b := mc.Bindings[idx].(type) {
		case *ssa.Parameter:
			res = true
		case *ssa.FreeVar:
			res = freeVarBindsParameter(b)
		case *ssa.Alloc:
			// a parameter spilled to a cell
			if b.Referrers() != nil {
				for _, r := range *b.Referrers() {
					if st, ok := r.(*ssa.Store); ok && st.Addr == b {
						if _, isP := st.Val.(*ssa.Parameter); isP {
							res = true
						}
					}
				}
			}
		}
	})
	return res
}

// nonStringKeyGuarded: the instruction executes only when `T.Key().Kind() != reflect.String` holds for some map type T.
func nonStringKeyGuarded(i ssa.Instruction) bool {
	for _, g := range guardsOf(i) {
		bo, ok := g.Cond.(*ssa.BinOp)
		if !ok || !((bo.Op == token.NEQ && g.Pol) || (bo.Op == token.EQL && !g.Pol)) {
			continue
		}
		for _, pair := range [][2]ssa.Value{{bo.X, bo.Y}, {bo.Y, bo.X}} {
			kc, ok := pair[0].(*ssa.Call)
			if !ok || !kc.Call.IsInvoke() || kc.Call.Method.Name() != "Kind" {
				continue
			}
			key, ok := kc.Call.Value.(*ssa.Call)
			if !ok || !key.Call.IsInvoke() || key.Call.Method.Name() != "Key" {
				continue
			}
			if k, ok := pair[1].(*ssa.Const); ok {
				if v, ok := constInt(k); ok && v == int64(kString) {
					return true
				}
			}
		}
	}
	return false
}

// isBoolInput: v is a boolean option of the function: a bool parameter, or a bool field loaded from a parameter
// (options bundled into a context struct or receiver).
func isBoolInput(v ssa.Value) bool {
	if v == nil || !tBool(v.Type()) {
		return false
	}
	switch x := v.(type) {
	case *ssa.Parameter:
		return true
	case *ssa.UnOp:
		if fa, ok := x.X.(*ssa.FieldAddr); ok {
			for _, src := range append(traceSources(fa.X), fa.X) {
				if _, isP := src.(*ssa.Parameter); isP {
					return true
				}
			}
		}
	}
	return false
}

func init() {
	p := Properties["C10"]
	p.Rules = append(p.Rules, Rule{"C10/type-walks-bounded", ruleC10TypeWalks})
}

// A loop that walks down a Go type by replacing a reflect.Type variable with its own Elem() terminates only
// if the chain of element types is finite. It is not for a declared type that is its own element type
// (type P *P): For/ForType would spin forever. Such a loop must consult (and extend) a set of types already
// seen, or be bounded by a counter.
func ruleC10TypeWalks(c *Ctx) {
	const rule = "C10/type-walks-bounded"
	n := 0
	for _, fn := range c.Closure(rule, "INF").Sorted() {
		if !c.P.InPkg(fn) || len(fn.Blocks) == 0 {
			continue
		}
		core.EachInstr(fn, func(i ssa.Instruction) {
			phi, ok := i.(*ssa.Phi)
			if !ok || !isNamed(phi.Type(), "reflect", "Type") {
				return
			}
			header := phi.Block()
			for ei, e := range phi.Edges {
				call, ok := e.(*ssa.Call)
				if !ok || !call.Call.IsInvoke() || call.Call.Method.Name() != "Elem" || call.Call.Value != phi {
					continue
				}
				latch := header.Preds[ei]
				if !header.Dominates(latch) {
					continue
				}
				n++
				inLoop := func(b *ssa.BasicBlock) bool {
					return header.Dominates(b) && (b == latch || core.Reachable(b, latch, map[*ssa.BasicBlock]bool{header: true}))
				}
				checked, recorded, counted := false, false, false
				condRecorded := ""
				for _, b := range fn.Blocks {
					if b != header && !inLoop(b) {
						continue
					}
					for _, ins := range b.Instrs {
						switch x := ins.(type) {
						case *ssa.MapUpdate:
							if x.Key == ssa.Value(phi) {
								recorded = true
								// every type that can lie on a cycle is recorded: a cycle of pointer types passes through a
								// declared type, so the recording may depend on the type having a name, on nothing else
								for _, g := range guardsLocal(x) {
									if g.At.Block() != header && !inLoop(g.At.Block()) {
										continue
									}
									okG, mentions := false, false
									for _, v := range sliceWithReceivers(g.Cond, 30) {
										if v == ssa.Value(phi) {
											mentions = true
										}
										if lk, ok := v.(*ssa.Lookup); ok && lk.Index == ssa.Value(phi) {
											okG = true
										}
										if mc, ok := v.(*ssa.Call); ok && mc.Call.IsInvoke() && mc.Call.Value == ssa.Value(phi) && (mc.Call.Method.Name() == "Name" || mc.Call.Method.Name() == "Kind" || mc.Call.Method.Name() == "PkgPath") {
											okG = true
										}
									}
									if mentions && !okG {
										condRecorded = c.pos(g.At)
									}
								}
							}
						case *ssa.If:
							exits := false
							for _, s := range b.Succs {
								if s != header && !inLoop(s) {
									exits = true
								}
							}
							if !exits {
								continue
							}
							for _, v := range backSlice(x.Cond, 50) {
								if lk, ok := v.(*ssa.Lookup); ok && lk.Index == ssa.Value(phi) {
									checked = true
								}
								// the test-and-mark can live in a helper that is handed the type and whose result decides the exit
								if hc, ok := v.(*ssa.Call); ok {
									if h := hc.Call.StaticCallee(); h != nil && c.P.InPkg(h) {
										for pi, a := range hc.Call.Args {
											if a != ssa.Value(phi) || pi >= len(h.Params) {
												continue
											}
											ps := typeSubjectSet(h, h.Params[pi])
											core.EachInstr(h, func(j ssa.Instruction) {
												switch y := j.(type) {
												case *ssa.Lookup:
													if ps[y.Index] {
														checked = true
													}
												case *ssa.MapUpdate:
													if ps[y.Key] {
														recorded = true
													}
												}
											})
										}
									}
								}
								if bo, ok := v.(*ssa.BinOp); ok {
									if p2, ok := bo.X.(*ssa.Phi); ok && p2.Block() == header && isIntType(p2.Type()) {
										counted = true
									}
								}
							}
						}
					}
				}
				if recorded && !counted {
					c.R.Check(condRecorded == "", rule, core.FuncName(fn)+":elem-walk:every-named-type-recorded", c.pos(call), "whether a type is recorded as visited depends only on its having a name",
						"whether a type passed by the walk is recorded as visited depends on another property of the type (test at "+condRecorded+") than its having a name: only some of the types that can lie on a cycle are recorded (type P *P is, type P **P or type P *Q; type Q *P are not), and for the others the loop never ends, so For/ForType hang")
				}
				c.R.Check(checked && recorded || counted, rule, core.FuncName(fn)+":elem-walk", c.pos(call),
					"a loop that descends through element types consults and extends a set of visited types (or counts its steps)",
					"the loop replaces a reflect.Type by its own Elem() until the kind changes, without remembering the types it has passed: for a declared type that is its own element type (type P *P) it never ends, so For/ForType hang")
			}
		})
	}
	c.R.Floor(rule, "element-type walks in the inference closure", n, 1)
}

func init() {
	p := Properties["C10"]
	p.Rules = append(p.Rules, Rule{"C10/prefix-slices-guarded", ruleC10PrefixSlices})
}

// x[:len(y)] panics when x is shorter than y. Where a slice expression takes its bound from the length of
// another slice (the prefix of an index path, of a segment list), a comparison of the two lengths must guard it.
func ruleC10PrefixSlices(c *Ctx) {
	const rule = "C10/prefix-slices-guarded"
	lenArg := func(v ssa.Value) ssa.Value {
		if call, ok := v.(*ssa.Call); ok && core.CalleeKey(&call.Call) == "builtin.len" {
			return call.Call.Args[0]
		}
		return nil
	}
	same := func(a, b ssa.Value) bool { return a == b || sharesSource(a, b) || sameFieldLoad(a, b) }
	n := 0
	for _, fn := range c.P.Funcs {
		if !c.P.InPkg(fn) {
			continue
		}
		core.EachInstr(fn, func(i ssa.Instruction) {
			sl, ok := i.(*ssa.Slice)
			if !ok {
				return
			}
			for _, bound := range []ssa.Value{sl.High, sl.Low} {
				y := lenArg(bound)
				if bound == nil || y == nil || same(y, sl.X) {
					continue
				}
				if _, isSlice := sl.X.Type().Underlying().(*types.Slice); !isSlice {
					if _, isStr := sl.X.Type().Underlying().(*types.Basic); !isStr {
						continue
					}
				}
				n++
				guarded := false
				for _, g := range guardsOf(sl) {
					bo, ok := g.Cond.(*ssa.BinOp)
					if !ok {
						continue
					}
					lx, ly := lenArg(bo.X), lenArg(bo.Y)
					if lx == nil || ly == nil {
						continue
					}
					op := bo.Op
					switch {
					case same(lx, sl.X) && same(ly, y):
					case same(ly, sl.X) && same(lx, y):
						op = map[token.Token]token.Token{token.LSS: token.GTR, token.GTR: token.LSS, token.LEQ: token.GEQ, token.GEQ: token.LEQ, token.EQL: token.EQL, token.NEQ: token.NEQ}[op]
					default:
						continue
					}
					if !g.Pol {
						op = map[token.Token]token.Token{token.LSS: token.GEQ, token.GTR: token.LEQ, token.LEQ: token.GTR, token.GEQ: token.LSS, token.EQL: token.NEQ, token.NEQ: token.EQL}[op]
					}
					// now: len(x) op len(y) holds
					if op == token.GEQ || op == token.GTR || op == token.EQL {
						guarded = true
					}
				}
				c.R.Check(guarded, rule, fmt.Sprintf("%s:slice-to-len#%d", core.FuncName(fn), n), c.pos(sl), "the sliced value is known to be at least as long as the slice whose length bounds it",
					"a slice expression is bounded by the length of another slice without a preceding comparison of the two lengths: it panics (slice bounds out of range) when the sliced value is the shorter one, e.g. a field at a smaller embedding depth than the path it is compared with")
			}
		})
	}
	if n == 0 {
		c.R.OK(rule, "none", "", "no slice expression in the package is bounded by the length of another slice")
	}
}

func init() {
	p := Properties["C10"]
	p.Rules = append(p.Rules, Rule{"C10/constant-index-guarded", ruleC10ConstantIndex})
}

// s[k] with a constant k panics when s has at most k elements. Every such access to a string or slice in the
// package is preceded, on every path, by a test that implies len(s) > k (a length comparison, or s != "" for
// k = 0). In `len(s) > 1 && s[0] == '0'` the order of the operands is what keeps the access safe.
func ruleC10ConstantIndex(c *Ctx) {
	const rule = "C10/constant-index-guarded"
	same := func(a, b ssa.Value) bool { return a == b || sharesSource(a, b) || sameFieldLoad(a, b) }
	n := 0
	perFn := map[*ssa.Function]int{}
	for _, fn := range c.P.Funcs {
		if !c.P.InPkg(fn) || fn.Synthetic != "" {
			continue
		}
		core.EachInstr(fn, func(i ssa.Instruction) {
			var x, idx ssa.Value
			switch a := i.(type) {
			case *ssa.Lookup:
				if b, ok := a.X.Type().Underlying().(*types.Basic); ok && b.Info()&types.IsString != 0 {
					x, idx = a.X, a.Index
				}
			case *ssa.Index:
				if b, ok := a.X.Type().Underlying().(*types.Basic); ok && b.Info()&types.IsString != 0 {
					x, idx = a.X, a.Index
				}
			case *ssa.IndexAddr:
				if _, ok := a.X.Type().Underlying().(*types.Slice); ok {
					x, idx = a.X, a.Index
				}
			}
			if x == nil {
				return
			}
			kc, ok := idx.(*ssa.Const)
			if !ok || kc.Value == nil || kc.Value.Kind() != constant.Int {
				return
			}
			k, _ := constant.Int64Val(kc.Value)
			// a freshly built slice of known length
			for _, src := range traceSources(x) {
				switch s := src.(type) {
				case *ssa.Slice:
					if al, ok := s.X.(*ssa.Alloc); ok {
						if arr, ok := al.Type().Underlying().(*types.Pointer).Elem().Underlying().(*types.Array); ok && arr.Len() > k {
							return
						}
					}
				case *ssa.MakeSlice:
					if lc, ok := s.Len.(*ssa.Const); ok && lc.Value != nil {
						if l, _ := constant.Int64Val(lc.Value); l > k {
							return
						}
					}
				case *ssa.Call:
					if key := core.CalleeKey(&s.Call); (key == "strings.Split" || key == "strings.SplitN" || key == "strings.Fields" && false) && k == 0 {
						return // Split returns at least one element
					}
				}
			}
			n++
			perFn[fn]++
			guarded := false
			for _, g := range guardsOf(i.(ssa.Instruction)) {
				bo, ok := g.Cond.(*ssa.BinOp)
				if !ok {
					continue
				}
				op := bo.Op
				if !g.Pol {
					op = map[token.Token]token.Token{token.LSS: token.GEQ, token.GTR: token.LEQ, token.LEQ: token.GTR, token.GEQ: token.LSS, token.EQL: token.NEQ, token.NEQ: token.EQL}[op]
				}
				// s != "" (k = 0)
				if k == 0 && op == token.NEQ {
					for _, pair := range [][2]ssa.Value{{bo.X, bo.Y}, {bo.Y, bo.X}} {
						if s, ok := constString(pair[1]); ok && s == "" && same(pair[0], x) {
							guarded = true
						}
					}
				}
				// len(s) op c  /  c op len(s)
				var lenSide, other ssa.Value = bo.X, bo.Y
				if call, ok := bo.Y.(*ssa.Call); ok && core.CalleeKey(&call.Call) == "builtin.len" {
					lenSide, other = bo.Y, bo.X
					op = map[token.Token]token.Token{token.LSS: token.GTR, token.GTR: token.LSS, token.LEQ: token.GEQ, token.GEQ: token.LEQ, token.EQL: token.EQL, token.NEQ: token.NEQ}[op]
				}
				lc, ok := lenSide.(*ssa.Call)
				if !ok || core.CalleeKey(&lc.Call) != "builtin.len" || !same(lc.Call.Args[0], x) {
					continue
				}
				oc, ok := other.(*ssa.Const)
				if !ok || oc.Value == nil || oc.Value.Kind() != constant.Int {
					continue
				}
				cv, _ := constant.Int64Val(oc.Value)
				// now: len(s) op cv holds
				switch op {
				case token.GTR:
					guarded = guarded || cv >= k
				case token.GEQ:
					guarded = guarded || cv >= k+1
				case token.EQL:
					guarded = guarded || cv >= k+1
				case token.NEQ:
					guarded = guarded || (cv == 0 && k == 0)
				}
			}
			c.R.Check(guarded, rule, fmt.Sprintf("%s:index#%d", core.FuncName(fn), perFn[fn]), c.pos(i.(ssa.Instruction)), fmt.Sprintf("element %d is read only where the length is known to exceed %d", k, k),
				fmt.Sprintf("element %d of a string or slice is read without a preceding test that it has more than %d elements (for instance the operands of `len(s) > 1 && s[0] == '0'` the other way round): the access panics with index out of range for a shorter value, e.g. an empty JSON Pointer segment", k, k))
		})
	}
	c.R.Floor(rule, "constant-index accesses to strings and slices", n, 4)
}

func init() {
	p := Properties["C10"]
	p.Rules = append(p.Rules, Rule{"C10/finite-bounds", ruleC10FiniteBounds})
}

// big.Rat.SetFloat64 returns nil for a number that is not finite. Where the evaluator hands its result on (to Cmp),
// the float must be finite: it comes from the instance (a JSON number is finite) or from a keyword of the schema that
// the structure check of Resolve has tested with math.IsInf / math.IsNaN (a Schema built in Go can hold +Inf in
// Minimum; a JSON document cannot).
func ruleC10FiniteBounds(c *Ctx) {
	const rule = "C10/finite-bounds"
	// the float fields of Schema whose finiteness Resolve tests
	tested := map[string]bool{}
	for _, fn := range c.Closure(rule, "RES").Minus(c.Closure(rule, "EV")).Sorted() {
		core.EachInstr(fn, func(i ssa.Instruction) {
			call, ok := i.(*ssa.Call)
			if !ok {
				return
			}
			if k := core.CalleeKey(&call.Call); k != "math.IsInf" && k != "math.IsNaN" {
				return
			}
			for _, v := range c.floatFieldSources(call.Call.Args[0], 12) {
				tested[v] = true
			}
		})
	}
	n := 0
	for _, fn := range c.Closure(rule, "EV").Sorted() {
		core.EachInstr(fn, func(i ssa.Instruction) {
			call, ok := i.(*ssa.Call)
			if !ok || core.CalleeKey(&call.Call) != "math/big.Rat.SetFloat64" || call.Referrers() == nil {
				return
			}
			used := false
			for _, r := range *call.Referrers() {
				switch r.(type) {
				case *ssa.Call, *ssa.Return, *ssa.Store, *ssa.Phi:
					used = true
				}
			}
			if !used {
				return // the receiver is used instead, which is never nil
			}
			n++
			fields := c.floatFieldSources(call.Call.Args[1], 6)
			if len(fields) == 0 {
				c.R.OK(rule, fmt.Sprintf("%s:SetFloat64#%d", core.FuncName(fn), n), c.pos(call), "the number converted does not come from a keyword of the schema")
				return
			}
			var missing []string
			for _, f := range fields {
				if !tested[f] {
					missing = append(missing, f)
				}
			}
			sort.Strings(missing)
			c.R.Check(len(missing) == 0, rule, fmt.Sprintf("%s:SetFloat64#%d", core.FuncName(fn), n), c.pos(call), "every keyword whose value is converted to a rational here is tested for finiteness by Resolve",
				fmt.Sprintf("the result of big.Rat.SetFloat64 is handed on without a nil test, and it is nil for +Inf, -Inf and NaN; the number comes from %v, which Resolve does not test with math.IsInf / math.IsNaN: Validate panics (nil pointer) for a Schema built in Go with such a bound, e.g. Schema{Minimum: Ptr(math.Inf(1))}", missing))
		})
	}
	if n == 0 {
		c.R.OK(rule, "none", "", "the evaluator hands no result of big.Rat.SetFloat64 on")
	}
}

// floatFieldSources: the float-valued fields of Schema that v can come from (through loads, parameters of local
// closures and transparent helpers).
func (c *Ctx) floatFieldSources(v ssa.Value, depth int) []string {
	seen := map[ssa.Value]bool{}
	out := map[string]bool{}
	var walk func(v ssa.Value, d int)
	walk = func(v ssa.Value, d int) {
		if v == nil || d == 0 || seen[v] {
			return
		}
		seen[v] = true
		switch x := v.(type) {
		case *ssa.UnOp:
			if x.Op == token.MUL {
				if fa, ok := x.X.(*ssa.FieldAddr); ok {
					if name := c.fieldName(fa.X.Type(), fa.Field); strings.HasPrefix(name, "Schema.") {
						if pt, isPtr := core.StructField(fa.X.Type(), fa.Field).Type().Underlying().(*types.Pointer); isPtr {
							if b, ok := pt.Elem().Underlying().(*types.Basic); ok && b.Info()&types.IsFloat != 0 {
								out[name] = true
							}
						}
					}
				}
				if cell := resolveCell(x.X); cell != nil {
					for _, sv := range cellStores(cell) {
						walk(sv, d-1)
					}
				}
			}
			walk(x.X, d-1)
		case *ssa.Parameter:
			// a parameter of a closure or helper: the arguments at its call sites
			fn := x.Parent()
			idx := -1
			for k, p := range fn.Params {
				if p == x {
					idx = k
				}
			}
			for _, f := range c.P.Funcs {
				core.EachInstr(f, func(i ssa.Instruction) {
					call, ok := i.(ssa.CallInstruction)
					if !ok || idx < 0 {
						return
					}
					callee := call.Common().StaticCallee()
					if callee == nil && !call.Common().IsInvoke() {
						for _, src := range traceSources(call.Common().Value) {
							if mc, ok := src.(*ssa.MakeClosure); ok && mc.Fn == ssa.Value(fn) {
								callee = fn
							}
						}
					}
					if callee == fn && idx < len(call.Common().Args) {
						walk(call.Common().Args[idx], d-1)
					}
				})
			}
		case *ssa.Phi:
			for _, e := range x.Edges {
				walk(e, d-1)
			}
		case *ssa.Convert:
			walk(x.X, d-1)
		case *ssa.ChangeType:
			walk(x.X, d-1)
		case *ssa.Field:
			walk(x.X, d)
		case *ssa.Index:
			walk(x.X, d)
		case *ssa.IndexAddr:
			walk(x.X, d)
		case *ssa.FieldAddr:
			walk(x.X, d)
		case *ssa.Slice:
			walk(x.X, d)
		case *ssa.Alloc:
			// a local table (array or struct literal): everything stored into its elements and their fields
			var stores func(addr ssa.Value, dd int)
			stores = func(addr ssa.Value, dd int) {
				if dd == 0 || addr.Referrers() == nil {
					return
				}
				for _, r := range *addr.Referrers() {
					switch y := r.(type) {
					case *ssa.Store:
						if y.Addr == addr {
							walk(y.Val, d-1)
						}
					case *ssa.IndexAddr:
						if y.X == addr {
							stores(y, dd-1)
						}
					case *ssa.FieldAddr:
						if y.X == addr {
							stores(y, dd-1)
						}
					}
				}
			}
			stores(x, 3)
		}
	}
	walk(v, depth)
	var names []string
	for k := range out {
		names = append(names, k)
	}
	sort.Strings(names)
	return names
}

func init() {
	p := Properties["C10"]
	p.Rules = append(p.Rules, Rule{"C10/loader-never-nil", ruleC10LoaderNeverNil})
}

// The Loader is called through a field of the options. Resolve makes that field non-nil before it resolves anything:
// a default loader is stored under the test "the field is nil" - of the field itself, not of the options pointer
// (non-nil options without a Loader are the common case) - and that happens before the document resolver is called.
func ruleC10LoaderNeverNil(c *Ctx) {
	const rule = "C10/loader-never-nil"
	entry := c.entry(rule, "(*Schema).Resolve")
	m := c.resolverModel(rule)
	if entry == nil || m == nil {
		return
	}
	n := 0
	c.eachFam(entry, func(i ssa.Instruction) {
		st, ok := i.(*ssa.Store)
		if !ok {
			return
		}
		fa, ok := st.Addr.(*ssa.FieldAddr)
		if !ok || c.fieldName(fa.X.Type(), fa.Field) != "ResolveOptions.Loader" {
			return
		}
		n++
		byField := false
		var others []string
		for _, g := range guardsOf(st) {
			x, k, equal, ok := eqConst(g)
			if !ok || !k.IsNil() {
				continue
			}
			if ld, isLd := x.(*ssa.UnOp); isLd && ld.Op == token.MUL {
				if fa2, isFA := ld.X.(*ssa.FieldAddr); isFA && c.fieldName(fa2.X.Type(), fa2.Field) == "ResolveOptions.Loader" && equal {
					byField = true
					continue
				}
			}
			// a nil test of the options themselves (or of anything else that is not an error): the wrong question
			if isErrorType(x.Type()) || !equal {
				continue
			}
			others = append(others, c.pos(g.At))
		}
		c.R.Check(byField && len(others) == 0, rule, fmt.Sprintf("default-loader#%d:when-the-field-is-nil", n), c.pos(st), "the default loader is installed exactly when the Loader field is nil",
			fmt.Sprintf("the default loader is installed under a test other than \"the Loader field is nil\" (field test present: %v; other nil tests at %v): options that are given but have no Loader leave the field nil, and the first remote reference calls a nil function", byField, others))
		before := false
		c.eachFam(entry, func(j ssa.Instruction) {
			if call, ok := j.(*ssa.Call); ok && call.Call.StaticCallee() == m.docFn {
				// (the store may sit in a helper that sets the resolver up: judged where the helper is called)
				a, b := liftTo(st, entry), liftTo(call, entry)
				if a != nil && b != nil && a.Parent() == b.Parent() && core.ReachableFromInstr(a, b) && !core.ReachableFromInstr(b, a) {
					before = true
				}
			}
		})
		c.R.Check(before, rule, fmt.Sprintf("default-loader#%d:before-resolution", n), c.pos(st), "the default is in place before the document resolver runs", "the default loader is installed after (or not before) the call of the document resolver")
	})
	c.R.Floor(rule, "places where Resolve installs a default Loader", n, 1)
}

func init() {
	p := Properties["C10"]
	p.Rules = append(p.Rules, Rule{"C10/bytes-of-byte-slices", ruleC10BytesOfByteSlices})
}

// reflect.Value.Bytes panics unless the value is a slice (or addressable array) of bytes. Each call is guarded by a
// test that the element kind of the value's own type is Uint8, or by the equality of its type with the type of a
// value for which that test was made.
func ruleC10BytesOfByteSlices(c *Ctx) {
	const rule = "C10/bytes-of-byte-slices"
	n := 0
	seen := map[*ssa.Function]bool{}
	for _, cn := range []string{"EQ", "EV", "DEF"} {
		for _, fn := range c.Closure(rule, cn).Sorted() {
			if seen[fn] || !c.P.InPkg(fn) {
				continue
			}
			seen[fn] = true
			core.EachInstr(fn, func(i ssa.Instruction) {
				call, ok := i.(*ssa.Call)
				if !ok || core.CalleeKey(&call.Call) != "reflect.Value.Bytes" {
					return
				}
				n++
				v := call.Call.Args[0]
				// values whose element kind has been found to be Uint8, and type equalities, among the guards
				typeOf := func(x ssa.Value) ssa.Value { // x is V.Type(): V
					for _, s := range append(traceSources(x), x) {
						if tc, ok := s.(*ssa.Call); ok && core.CalleeKey(&tc.Call) == "reflect.Value.Type" {
							return tc.Call.Args[0]
						}
					}
					return nil
				}
				same := func(a, b ssa.Value) bool { return a != nil && b != nil && (a == b || sharesSource(a, b)) }
				var byteElem []ssa.Value
				var eqPairs [][2]ssa.Value
				isElemKindTest := func(bo *ssa.BinOp) ssa.Value { // V.Type().Elem().Kind() == Uint8: V
					for _, pair := range [][2]ssa.Value{{bo.X, bo.Y}, {bo.Y, bo.X}} {
						if k, isK := pair[1].(*ssa.Const); isK && k.Value != nil {
							if kv, ok := constInt(k); ok && kv == int64(kUint8) {
								if kc, ok := pair[0].(*ssa.Call); ok && kc.Call.IsInvoke() && kc.Call.Method.Name() == "Kind" {
									if ec, ok := kc.Call.Value.(*ssa.Call); ok && ec.Call.IsInvoke() && ec.Call.Method.Name() == "Elem" {
										return typeOf(ec.Call.Value)
									}
								}
							}
						}
					}
					return nil
				}
				for _, g := range guardsOf(call) {
					// a package predicate that is exactly this test of its parameter: isByteSlice(v)
					if pc, ok := g.Cond.(*ssa.Call); ok && g.Pol && len(pc.Call.Args) == 1 {
						if h := pc.Call.StaticCallee(); h != nil && c.P.InPkg(h) && len(h.Params) == 1 {
							exact := false
							core.EachInstr(h, func(j ssa.Instruction) {
								if ret, ok := j.(*ssa.Return); ok && len(ret.Results) == 1 {
									if rb, ok := ret.Results[0].(*ssa.BinOp); ok && rb.Op == token.EQL && isElemKindTest(rb) == ssa.Value(h.Params[0]) {
										exact = true
									}
								}
							})
							if exact {
								byteElem = append(byteElem, pc.Call.Args[0])
							}
						}
					}
					bo, ok := g.Cond.(*ssa.BinOp)
					if !ok || !((bo.Op == token.EQL && g.Pol) || (bo.Op == token.NEQ && !g.Pol)) {
						continue
					}
					// V.Type().Elem().Kind() == Uint8
					for _, pair := range [][2]ssa.Value{{bo.X, bo.Y}, {bo.Y, bo.X}} {
						if k, isK := pair[1].(*ssa.Const); isK && k.Value != nil {
							if kv, ok := constInt(k); ok && kv == int64(kUint8) {
								if kc, ok := pair[0].(*ssa.Call); ok && kc.Call.IsInvoke() && kc.Call.Method.Name() == "Kind" {
									if ec, ok := kc.Call.Value.(*ssa.Call); ok && ec.Call.IsInvoke() && ec.Call.Method.Name() == "Elem" {
										if w := typeOf(ec.Call.Value); w != nil {
											byteElem = append(byteElem, w)
										}
									}
								}
							}
						}
					}
					// V.Type() == W.Type()
					if a, b := typeOf(bo.X), typeOf(bo.Y); a != nil && b != nil {
						eqPairs = append(eqPairs, [2]ssa.Value{a, b})
					}
				}
				okv := false
				for _, w := range byteElem {
					if same(w, v) {
						okv = true
					}
					for _, p := range eqPairs {
						if same(p[0], w) && same(p[1], v) || same(p[1], w) && same(p[0], v) {
							okv = true
						}
					}
				}
				c.R.Check(okv, rule, fmt.Sprintf("%s:Bytes#%d", core.FuncName(fn), n), c.pos(call), "Bytes is applied to a value whose type is known to have byte elements",
					"reflect.Value.Bytes is applied to a value that is not known to be a slice of bytes (no test of its element kind, and no equality of its type with a type so tested): for a []byte compared with an []any of the same length the call panics")
			})
		}
	}
	if n == 0 {
		c.R.OK(rule, "none", "", "no call of reflect.Value.Bytes in the closures of Equal, Validate and ApplyDefaults")
	}
}
