package rules

import (
	"fmt"
	"go/token"
	"strings"

	"golang.org/x/tools/go/ssa"

	"verif/checker/core"
)

func init() {
	register(&Property{
		ID: "C01",
		Rules: []Rule{
			{"C01/coverage", ruleC01Coverage},
			{"C01/type-subsumption", ruleC01TypeSubsumption},
			{"C01/length-in-code-points", ruleC01Length},
			{"C01/bound-orderings", ruleC01Bounds},
			{"C01/additional-independent", ruleC01AdditionalIndependent},
			{"C01/presence-is-nil", func(c *Ctx) { rulePresenceIsNil(c, "C01/presence-is-nil") }},
			{"C01/order", func(c *Ctx) { ruleC07OrderAs(c, "C01/order") }},
			{"C01/visits-all", func(c *Ctx) { ruleC07VisitsAllAs(c, "C01/visits-all") }},
			{"C01/integer-classification", func(c *Ctx) { ruleIntegerClassification(c, "C01/integer-classification") }},
			{"C01/numeric-keywords-unconditional", func(c *Ctx) { ruleNumericUnconditional(c, "C01/numeric-keywords-unconditional") }},
			{"C01/ref-per-occurrence", func(c *Ctx) { ruleC03RefPerOccurrenceAs(c, "C01/ref-per-occurrence") }},
			{"C01/order-insensitive", func(c *Ctx) { c.ruleOrderInsensitive("C01/order-insensitive", "EV") }},
		},
		Explanation: "The validity relation itself (an infinite product of schemas and instances, arithmetic, regular expressions) is not statically decidable. Decided here are necessary clauses whose truth is visible in the code on every path: every asserting and applicator field of Schema is read in the closure of Validate (a keyword cannot lose its handler); both forms of `type` apply the integer-is-a-number rule; string lengths compared with minLength/maxLength are counts of Unicode code points and nothing derived from the byte length takes part in those decisions; minimum, maximum, exclusiveMinimum and exclusiveMaximum fail on exactly the orderings {LT}, {GT}, {LT,EQ}, {EQ,GT} of instance versus bound (finite ordering evaluation, orientation taken from the comparison's operands); the application of additionalProperties depends only on the per-schema evaluated set, never on annotation fields; presence of keywords whose empty value matters is a nil test; in-place applicators precede unevaluated*; list applicators visit every subschema; integral floats are classified exactly; numeric keywords do not depend on `type`; each reference occurrence is resolved on its own; every randomised iteration in the evaluator is order-insensitive. It does NOT decide the verdict for any particular schema/instance pair.",
		NotDecided:  []string{"the verdict for any particular schema/instance pair", "regular-expression semantics", "multipleOf arithmetic", "contains/minContains/maxContains counting", "correctness of what each handler does once it runs"},
	})
}

func ruleC01Coverage(c *Ctx) {
	const rule = "C01/coverage"
	ev := c.Closure(rule, "EV")
	read := map[string]bool{}
	for _, fn := range ev.Sorted() {
		for _, fr := range c.fieldAccesses(fn) {
			if fr.Owner == "Schema" && !fr.Whole {
				if fa, ok := fr.Instr.(*ssa.FieldAddr); ok && isAddrOnlyWritten(fa) {
					continue
				}
				read[fr.Field.Name()] = true
			}
		}
	}
	// pattern properties reach the evaluator through the compiled side table
	for _, fn := range ev.Sorted() {
		for _, fr := range c.fieldAccesses(fn) {
			if fr.Owner == "resolvedInfo" && core.CanonFieldVar(fr.Owner, fr.Field) == "patternProperties" {
				read["PatternProperties(compiled)"] = true
			}
			if fr.Owner == "resolvedInfo" && core.CanonFieldVar(fr.Owner, fr.Field) == "pattern" {
				read["Pattern(compiled)"] = true
			}
		}
	}
	n := 0
	for _, f := range c.SchemaFields(rule) {
		if f.Class != "assert" && f.Class != "applicator-inplace" && f.Class != "applicator-child" {
			continue
		}
		n++
		c.R.Check(read[f.Name], rule, "handled:"+f.Name, c.P.Pos(f.Var.Pos()), "read in the closure of Validate", "Schema."+f.Name+" ("+f.Class+") is never read on any path reachable from Validate: the keyword \""+f.JSONName+"\" has no handler and is silently ignored")
	}
	c.R.Check(read["PatternProperties(compiled)"] && read["Pattern(compiled)"], rule, "handled:compiled-regexps", "", "the compiled pattern and patternProperties are used by the evaluator", "the compiled regular expressions of pattern / patternProperties are not used by the evaluator")
	c.R.Floor(rule, "asserting and applicator fields of Schema", n, 40)
}

func ruleC01TypeSubsumption(c *Ctx) {
	const rule = "C01/type-subsumption"
	m := c.EvalModel(rule)
	cls := c.TypeClassifier(rule)
	if m == nil || cls == nil {
		return
	}
	isGot := func(v ssa.Value) bool {
		for _, s := range traceSources(v) {
			if ex, ok := s.(*ssa.Extract); ok && ex.Index == 0 {
				if call, ok := ex.Tuple.(*ssa.Call); ok && call.Call.StaticCallee() == cls {
					return true
				}
			}
		}
		return false
	}
	// atoms "instance type == integer"
	var intAtoms []*ssa.BinOp
	c.eachFamOwn(m.E, func(i ssa.Instruction) {
		if bo, ok := i.(*ssa.BinOp); ok && bo.Op == token.EQL {
			for _, pair := range [][2]ssa.Value{{bo.X, bo.Y}, {bo.Y, bo.X}} {
				if s, ok := constString(pair[1]); ok && s == "integer" && isGot(pair[0]) {
					intAtoms = append(intAtoms, bo)
				}
			}
		}
	})
	underIntAtom := func(i ssa.Instruction) bool {
		for _, g := range guardsOf(i) {
			for _, a := range intAtoms {
				if g.Cond == a && g.Pol {
					return true
				}
			}
		}
		return false
	}
	single, list := false, false
	c.eachFamOwn(m.E, func(i ssa.Instruction) {
		switch x := i.(type) {
		case *ssa.BinOp:
			if x.Op != token.EQL {
				return
			}
			for _, pair := range [][2]ssa.Value{{x.X, x.Y}, {x.Y, x.X}} {
				if s, ok := constString(pair[1]); ok && s == "number" && c.mentionsField(pair[0], "Schema.Type", 3) && underIntAtom(x) {
					single = true
				}
			}
		case *ssa.Call:
			key := core.CalleeKey(&x.Call)
			if (key == "slices.Contains" || key == "slices.Index") && len(x.Call.Args) == 2 && c.mentionsField(x.Call.Args[0], "Schema.Types", 3) {
				if s, ok := constString(x.Call.Args[1]); ok && s == "number" && underIntAtom(x) {
					list = true
				}
			}
		}
	})
	c.R.Check(single, rule, "single-type:integer-is-number", c.P.Pos(m.E.Pos()), "`type: \"number\"` accepts an instance classified as integer", "the single-type form of `type` has no `instance is integer && type is number` case: integers fail {\"type\":\"number\"}")
	c.R.Check(list, rule, "type-list:integer-is-number", c.P.Pos(m.E.Pos()), "a type list containing \"number\" accepts an instance classified as integer", "the list form of `type` has no `instance is integer && list contains number` case although the single form has: 3 fails {\"type\":[\"number\",\"string\"]}")
}

func ruleC01Length(c *Ctx) {
	const rule = "C01/length-in-code-points"
	m := c.EvalModel(rule)
	if m == nil {
		return
	}
	isSame := func(v ssa.Value) bool { return m.instLoc(c, v, map[ssa.Value]bool{}) == "same" }
	fromRuneCount := func(v ssa.Value) bool {
		for _, s := range traceSources(v) {
			call, ok := s.(*ssa.Call)
			if !ok || !strings.HasPrefix(core.CalleeKey(&call.Call), "unicode/utf8.RuneCount") {
				return false
			}
		}
		return true
	}
	usesByteLen := func(v ssa.Value) bool {
		var walk func(v ssa.Value, d int) bool
		walk = func(v ssa.Value, d int) bool {
			if d == 0 || v == nil {
				return false
			}
			switch x := v.(type) {
			case *ssa.Call:
				if core.CalleeKey(&x.Call) == "builtin.len" {
					if sc, ok := x.Call.Args[0].(*ssa.Call); ok && core.CalleeKey(&sc.Call) == "reflect.Value.String" && isSame(sc.Call.Args[0]) {
						return true
					}
					if tString(x.Call.Args[0].Type()) {
						return true
					}
				}
				if core.CalleeKey(&x.Call) == "reflect.Value.Len" && isSame(x.Call.Args[0]) {
					return true
				}
				for _, a := range x.Call.Args {
					if walk(a, d-1) {
						return true
					}
				}
			case *ssa.BinOp:
				return walk(x.X, d-1) || walk(x.Y, d-1)
			case *ssa.UnOp:
				return walk(x.X, d-1)
			case *ssa.Phi:
				for _, e := range x.Edges {
					if walk(e, d-1) {
						return true
					}
				}
			case *ssa.Convert:
				return walk(x.X, d-1)
			}
			return false
		}
		return walk(v, 6)
	}
	n := 0
	for _, fn := range m.Nest {
		core.EachInstr(fn, func(i ssa.Instruction) {
			bo, ok := i.(*ssa.BinOp)
			if !ok {
				return
			}
			switch bo.Op {
			case token.LSS, token.GTR, token.LEQ, token.GEQ, token.EQL, token.NEQ:
			default:
				return
			}
			for _, kw := range []string{"Schema.MinLength", "Schema.MaxLength"} {
				var other ssa.Value
				if c.mentionsField(bo.X, kw, 5) {
					other = bo.Y
				} else if c.mentionsField(bo.Y, kw, 5) {
					other = bo.X
				} else {
					continue
				}
				if k, isK := other.(*ssa.Const); isK && k.IsNil() {
					continue // presence test
				}
				n++
				construct := fmt.Sprintf("%s:comparison#%d", strings.TrimPrefix(kw, "Schema."), n)
				if usesByteLen(other) || usesByteLen(bo.X) && usesByteLen(bo.Y) {
					c.R.Bad(rule, construct, c.pos(bo), kw+" is compared with a quantity derived from the byte length of the string: code points of 2 to 4 bytes are miscounted (three emoji pass minLength 4)")
					continue
				}
				c.R.Check(fromRuneCount(other), rule, construct, c.pos(bo), "compared with utf8.RuneCountInString of the instance", kw+" is compared with a value that is not the count of Unicode code points of the instance string")
			}
		})
	}
	c.R.Floor(rule, "comparisons with minLength/maxLength", n, 2)
}

// orderings: the subset of {LT, EQ, GT} (instance vs bound) on which a comparison of sign(instance-bound) with constant k holds.
func orderingSet(op token.Token, k int64, mirrored bool) string {
	var out []string
	for _, v := range []int64{-1, 0, 1} {
		hold := false
		switch op {
		case token.LSS:
			hold = v < k
		case token.LEQ:
			hold = v <= k
		case token.GTR:
			hold = v > k
		case token.GEQ:
			hold = v >= k
		case token.EQL:
			hold = v == k
		case token.NEQ:
			hold = v != k
		}
		if hold {
			name := map[int64]string{-1: "LT", 0: "EQ", 1: "GT"}[v]
			if mirrored {
				name = map[int64]string{-1: "GT", 0: "EQ", 1: "LT"}[v]
			}
			out = append(out, name)
		}
	}
	// canonical order
	var res []string
	for _, n := range []string{"LT", "EQ", "GT"} {
		for _, o := range out {
			if o == n {
				res = append(res, n)
			}
		}
	}
	return strings.Join(res, ",")
}

func ruleC01Bounds(c *Ctx) {
	const rule = "C01/bound-orderings"
	m := c.EvalModel(rule)
	ext := c.NumberExtractor(rule)
	if m == nil || ext == nil {
		return
	}
	want := map[string]string{"Minimum": "LT", "Maximum": "GT", "ExclusiveMinimum": "LT,EQ", "ExclusiveMaximum": "EQ,GT"}
	// orientation of a comparison helper: closure returning A.Cmp(B)
	orientation := func(fn *ssa.Function) (mirrored, ok bool) {
		core.EachInstr(fn, func(i ssa.Instruction) {
			ret, isRet := i.(*ssa.Return)
			if !isRet || len(ret.Results) != 1 {
				return
			}
			call, isCall := ret.Results[0].(*ssa.Call)
			if !isCall || core.CalleeKey(&call.Call) != "math/big.Rat.Cmp" {
				return
			}
			fromParam := func(v ssa.Value) bool {
				return dependsOnParam(v, fn, 5)
			}
			a, b := call.Call.Args[0], call.Call.Args[1]
			switch {
			case fromParam(b) && !fromParam(a):
				mirrored, ok = false, true
			case fromParam(a) && !fromParam(b):
				mirrored, ok = true, true
			}
		})
		return
	}
	for _, kw := range []string{"Minimum", "Maximum", "ExclusiveMinimum", "ExclusiveMaximum"} {
		found := false
		c.eachFam(m.E, func(i ssa.Instruction) {
			ifi, isIf := i.(*ssa.If)
			if !isIf {
				return
			}
			bo, isBo := ifi.Cond.(*ssa.BinOp)
			if !isBo {
				return
			}
			var set string
			switch {
			case isCmpOfKeyword(c, bo.X, "Schema."+kw):
				k, isK := bo.Y.(*ssa.Const)
				kv, okk := constInt(k)
				if !isK || !okk {
					return
				}
				call := bo.X.(*ssa.Call)
				mir := false
				if callee := call.Call.StaticCallee(); callee != nil {
					var okO bool
					mir, okO = orientation(callee)
					if !okO {
						c.R.Unknown(rule, kw+":orientation", c.pos(bo), "cannot determine which operand of the comparison helper is the instance")
						return
					}
				}
				set = orderingSet(bo.Op, kv, mir)
			case c.mentionsField(bo.Y, "Schema."+kw, 3) && !isNilConst(bo.X):
				// direct comparison  instance OP bound
				set = orderingSet(bo.Op, 0, false)
			case c.mentionsField(bo.X, "Schema."+kw, 3) && !isNilConst(bo.Y):
				set = orderingSet(bo.Op, 0, true)
			default:
				return
			}
			// the true edge must be the failure
			if !blockReturnsError(ifi.Block().Succs[0]) && !blockReturnsErrorDeep(ifi.Block().Succs[0]) {
				return
			}
			found = true
			c.R.Check(set == want[kw], rule, kw, c.pos(bo), "fails exactly on orderings {"+set+"} of instance vs bound", fmt.Sprintf("%s fails on orderings {%s} of instance versus bound; the keyword requires failure on exactly {%s}", kw, set, want[kw]))
		})
		if !found {
			c.R.Bad(rule, kw, c.P.Pos(m.E.Pos()), "no failure exit compares the instance with "+kw)
		}
	}
}

func isNilConst(v ssa.Value) bool {
	k, ok := v.(*ssa.Const)
	return ok && k.IsNil()
}

func dependsOnParam(v ssa.Value, fn *ssa.Function, depth int) bool {
	if depth == 0 || v == nil {
		return false
	}
	switch x := v.(type) {
	case *ssa.Parameter:
		return x.Parent() == fn
	case *ssa.Call:
		for _, a := range x.Call.Args {
			if dependsOnParam(a, fn, depth-1) {
				return true
			}
		}
	case *ssa.UnOp:
		return dependsOnParam(x.X, fn, depth-1)
	case *ssa.Convert:
		return dependsOnParam(x.X, fn, depth-1)
	}
	return false
}

// isCmpOfKeyword: v is a call (of the comparison helper) whose argument is the keyword's value.
func isCmpOfKeyword(c *Ctx, v ssa.Value, field string) bool {
	call, ok := v.(*ssa.Call)
	if !ok || len(call.Call.Args) != 1 {
		return false
	}
	return c.mentionsField(call.Call.Args[0], field, 3)
}

func ruleC01AdditionalIndependent(c *Ctx) {
	const rule = "C01/additional-independent"
	m := c.EvalModel(rule)
	if m == nil {
		return
	}
	mentionsAnns := func(v ssa.Value) bool {
		for _, f := range []string{"allItems", "endIndex", "evaluatedIndexes", "allProperties", "evaluatedProperties"} {
			if c.mentionsField(v, "annotations."+f, 6) {
				return true
			}
		}
		return false
	}
	n := 0
	checkSite := func(ins ssa.Instruction, what string) {
		n++
		bad := ""
		for f := ins.Parent(); f != nil; f = f.Parent() {
			_ = f
		}
		var walk func(i ssa.Instruction)
		walk = func(i ssa.Instruction) {
			for _, g := range guardsOf(i) {
				if mentionsAnns(g.Cond) {
					bad = c.pos(g.At)
				}
			}
			// the guards of the place where the enclosing closure runs
			fn := i.Parent()
			if fn != m.E && fn.Parent() != nil {
				core.EachInstr(fn.Parent(), func(j ssa.Instruction) {
					if call, ok := j.(ssa.CallInstruction); ok {
						for _, a := range append([]ssa.Value{call.Common().Value}, call.Common().Args...) {
							for _, src := range traceSources(a) {
								if mc, ok := src.(*ssa.MakeClosure); ok && mc.Fn == fn {
									walk(j)
								}
							}
						}
					}
				})
			}
		}
		walk(ins)
		c.R.Check(bad == "", rule, what, c.pos(ins), "depends only on the per-schema evaluated set, not on merged annotations", "whether additionalProperties applies to a property depends on the annotations record (guard at "+bad+"): properties evaluated by subschemas of allOf/$ref etc. would be exempted, which additionalProperties must not observe")
	}
	for _, s := range m.Sites {
		for _, src := range s.SchemaSrc {
			if src == "Schema.AdditionalProperties" {
				checkSite(s.Call, "general-path")
			}
		}
	}
	// the summarising fast path: appends of property names under the falsy test
	for _, fn := range m.Nest {
		core.EachInstr(fn, func(i ssa.Instruction) {
			call, ok := i.(*ssa.Call)
			if !ok || core.CalleeKey(&call.Call) != "builtin.append" {
				return
			}
			for _, g := range controlGuards(call) {
				if c.mentionsField(g.Cond, "Schema.AdditionalProperties", 8) || c.mentionsField(g.Cond, "Schema.Not", 8) {
					checkSite(call, "falsy-fast-path:"+core.FuncName(fn))
					return
				}
			}
			// inside a yield closure run under the falsy test
			if fn != m.E {
				c.eachFamOwn(m.E, func(j ssa.Instruction) {
					if cc, ok := j.(ssa.CallInstruction); ok {
						for _, a := range cc.Common().Args {
							if mc, ok := a.(*ssa.MakeClosure); ok && mc.Fn == fn {
								for _, g := range controlGuards(cc) {
									if c.mentionsField(g.Cond, "Schema.Not", 8) || condIsFalsyFlag(c, g.Cond) {
										checkSite(call, "falsy-fast-path:"+core.FuncName(fn))
									}
								}
							}
						}
					}
				})
			}
		})
	}
	c.R.Floor(rule, "applications of additionalProperties", n, 2)
}

// condIsFalsyFlag: the condition is a boolean computed from additionalProperties.Not.
func condIsFalsyFlag(c *Ctx, cond ssa.Value) bool {
	return c.mentionsField(cond, "Schema.Not", 8) || c.mentionsField(cond, "Schema.AdditionalProperties", 8)
}

// wrappers that run rules of other properties under a C01 rule id
func ruleC07OrderAs(c *Ctx, rule string)     { runAs(c, rule, "C07/order", ruleC07Order) }
func ruleC07VisitsAllAs(c *Ctx, rule string) { runAs(c, rule, "C07/visits-all", ruleC07VisitsAll) }
func ruleC03RefPerOccurrenceAs(c *Ctx, rule string) {
	runAs(c, rule, "C03/ref-per-occurrence", ruleC03RefPerOccurrence)
}

// runAs executes a rule written for another property and re-labels its obligations.
func runAs(c *Ctx, as, orig string, f func(*Ctx)) {
	sub := core.NewReport(c.R.Property, c.R.Tier)
	c2 := *c
	c2.R = sub
	f(&c2)
	for _, o := range sub.Obs {
		r := strings.Replace(o.Rule, orig, as, 1)
		switch o.Status {
		case core.Discharged:
			c.R.OK(r, o.Construct, o.Pos, o.Msg)
		case core.Violated:
			c.R.Bad(r, o.Construct, o.Pos, o.Msg)
		default:
			c.R.Unknown(r, o.Construct, o.Pos, o.Msg)
		}
	}
	c.R.Floors = append(c.R.Floors, sub.Floors...)
}

func init() {
	p := Properties["C01"]
	p.Rules = append(p.Rules, Rule{"C01/patterns-by-regexp-engine", ruleC01Patterns})
}

// `pattern` and `patternProperties` are decided by Go's regexp engine applied to the keyword's own text (the
// documented deviation is the syntax, nothing else):
//   - every regexp.Compile in the resolution closure receives the text of Schema.Pattern or a key of
//     Schema.PatternProperties, unchanged (no anchoring, quoting, trimming);
//   - in the evaluator, every boolean obtained from a compiled pattern is the result of a Match method of
//     *regexp.Regexp - directly, or through a package function all of whose results are such results.
func ruleC01Patterns(c *Ctx) {
	const rule = "C01/patterns-by-regexp-engine"
	isCompile := func(call *ssa.Call) bool {
		k := core.CalleeKey(&call.Call)
		return k == "regexp.Compile" || k == "regexp.MustCompile" || k == "regexp.CompilePOSIX" || k == "regexp.MustCompilePOSIX"
	}
	isMatch := func(call *ssa.Call) bool {
		return strings.HasPrefix(core.CalleeKey(&call.Call), "regexp.Regexp.Match")
	}
	nc := 0
	for _, fn := range c.Closure(rule, "RES").Sorted() {
		if !c.P.InPkg(fn) {
			continue
		}
		core.EachInstr(fn, func(i ssa.Instruction) {
			call, ok := i.(*ssa.Call)
			if !ok || !isCompile(call) {
				return
			}
			nc++
			okText, why := true, ""
			for _, src := range traceSourcesDeep(call.Call.Args[0]) {
				switch {
				case c.mentionsField(src, "Schema.Pattern", 2):
				case c.isRangeKeyOver(src, "Schema.PatternProperties"):
				default:
					okText, why = false, fmt.Sprintf("%s (%T)", src.Name(), src)
				}
			}
			c.R.Check(okText, rule, core.FuncName(fn)+":compile:own-text", c.pos(call), "the compiled text is the keyword's own string, unchanged", "the regular expression compiled for pattern / patternProperties is not the keyword's text as written ("+why+"): anchoring, quoting or otherwise rewriting it changes which strings match")
		})
	}
	c.R.Floor(rule, "regexp compilations in the resolution closure", nc, 1)
	nm := 0
	perFn := map[*ssa.Function]int{}
	fromCompiled := func(v ssa.Value) bool {
		for _, src := range append(traceSourcesDeep(v), v) {
			if c.mentionsField(src, "resolvedInfo.pattern", 3) || c.isRangeKeyOver(src, "resolvedInfo.patternProperties") {
				return true
			}
		}
		return false
	}
	for _, fn := range c.Closure(rule, "EV").Sorted() {
		if !c.P.InPkg(fn) {
			continue
		}
		core.EachInstr(fn, func(i ssa.Instruction) {
			call, ok := i.(*ssa.Call)
			if !ok || call.Call.IsInvoke() || len(call.Call.Args) == 0 || !isBoolType(call.Type()) || !fromCompiled(call.Call.Args[0]) {
				return
			}
			nm++
			perFn[fn]++
			construct := fmt.Sprintf("%s:match#%d", core.FuncName(fn), perFn[fn])
			if isMatch(call) {
				c.R.OK(rule, construct, c.pos(call), "decided by "+core.CalleeKey(&call.Call))
				return
			}
			callee := call.Call.StaticCallee()
			okAll, why := callee != nil && c.P.InPkg(callee), "the callee is not a regexp Match method"
			if okAll {
				for _, h := range c.familyFuncs(callee) {
					if h != callee {
						continue
					}
					core.EachInstr(h, func(j ssa.Instruction) {
						ret, ok := j.(*ssa.Return)
						if !ok || len(ret.Results) != 1 {
							return
						}
						for _, src := range append(traceSources(returnedValue(ret, 0)), returnedValue(ret, 0)) {
							switch x := src.(type) {
							case *ssa.Const, *ssa.Phi:
							case *ssa.Call:
								if !isMatch(x) {
									okAll, why = false, "a result of "+core.FuncName(callee)+" comes from "+core.CalleeKey(&x.Call)+" ("+c.pos(x)+")"
								}
							default:
								okAll, why = false, fmt.Sprintf("a result of %s is not a Match result (%s)", core.FuncName(callee), c.pos(ret))
							}
						}
					})
				}
			}
			c.R.Check(okAll, rule, construct, c.pos(call), "every result is a result of a regexp Match method", "whether a string matches a pattern / patternProperties key is not decided by the regexp engine alone: "+why+"; a shortcut (substring search, prefix test) disagrees with the engine for some patterns, e.g. anchored literals")
		})
	}
	c.R.Floor(rule, "pattern matches in the evaluator", nm, 2)
}

// isRangeKeyOver: v is the key of a range loop over the named map field.
func (c *Ctx) isRangeKeyOver(v ssa.Value, field string) bool {
	ex, ok := v.(*ssa.Extract)
	if !ok || ex.Index != 1 {
		return false
	}
	nx, ok := ex.Tuple.(*ssa.Next)
	if !ok {
		return false
	}
	rg, ok := nx.Iter.(*ssa.Range)
	return ok && c.mentionsField(rg.X, field, 4)
}
