package rules

import (
	"fmt"
	"go/constant"
	"go/token"
	"go/types"

	"golang.org/x/tools/go/ssa"

	"verif/checker/core"
)

func init() {
	register(&Property{
		ID: "C02",
		Rules: []Rule{
			{"C02/version-gate", ruleC02VersionGate},
			{"C02/ref-siblings", ruleC02RefSiblings},
			{"C02/root-provenance", ruleC02RootProvenance},
			{"C02/anchor-gate", ruleC02AnchorGate},
			{"C02/presence-is-nil", func(c *Ctx) { rulePresenceIsNil(c, "C02/presence-is-nil") }},
		},
		Explanation: "Decides the draft-selection structure: the supported-version predicate, evaluated abstractly over the partition {\"\", the two draft-07 URIs, the 2020-12 URI, anything else}, is true on exactly the first four classes; the draft detector maps the two draft-07 spellings to draft-07 and the others to 2020-12; in Validate (and default validation) the predicate is applied to the root's $schema, its false outcome returns an error and it dominates every evaluation; under draft-07 a successful $ref returns before any other keyword of the schema object is read, and an $id beside $ref is ignored under the same test; the $schema stored into a loaded document and the draft of every Resolved derive from the root of the referring document, never from the referring subschema; $anchor/$dynamicAnchor are registered only under 2020-12 and fragment $id anchors only under draft-07. It does NOT decide that items-array/additionalItems/dependencies behave as draft-07 prescribes for concrete inputs (the suite's 913 draft-07 pairs exercise those handlers).",
		NotDecided:  []string{"the verdict of any draft-07 schema/instance pair", "behaviour of array-form items, additionalItems and dependencies beyond being reached under the draft-07 test"},
	})
}

const (
	d7http  = "http://json-schema.org/draft-07/schema#"
	d7https = "https://json-schema.org/draft-07/schema#"
	d2020   = "https://json-schema.org/draft/2020-12/schema"
)

func (c *Ctx) versionPredicate(rule string) *ssa.Function {
	// the func(string) bool called by Validate
	v := c.fn("(*Resolved).Validate")
	if v == nil {
		return nil
	}
	var found *ssa.Function
	for _, fi := range c.familyInstrs(v) {
		if call, ok := fi.I.(*ssa.Call); ok {
			if callee := call.Call.StaticCallee(); callee != nil && c.P.InPkg(callee) &&
				sigIs(callee.Signature, []func(types.Type) bool{tString}, []func(types.Type) bool{tBool}) {
				found = callee
			}
		}
	}
	if found != nil {
		c.roles["role:version-predicate"] = found
	}
	if found == nil {
		c.R.Unresolved(rule, "supported-version predicate (func(string) bool called by Validate)")
	}
	return found
}

func ruleC02VersionGate(c *Ctx) {
	const rule = "C02/version-gate"
	pred := c.versionPredicate(rule)
	if pred == nil {
		return
	}
	classes := []struct {
		name, val string
		want      bool
	}{{"empty", "", true}, {"draft-07 http", d7http, true}, {"draft-07 https", d7https, true}, {"2020-12", d2020, true},
		{"other", "https://json-schema.org/draft/2019-09/schema", false}, {"other-near", d2020 + "#", false}, {"other-draft7-no-hash", "http://json-schema.org/draft-07/schema", false}, {"other-case", "HTTP://JSON-SCHEMA.ORG/DRAFT-07/SCHEMA#", false}, {"other-space", " " + d2020, false}, {"other-hash", "#", false}, {"other-draft4", "http://json-schema.org/draft-04/schema#", false}}
	for _, cl := range classes {
		res, ok := evalStringFn(pred, func(v ssa.Value) (string, bool) {
			if p, isP := v.(*ssa.Parameter); isP && p.Parent() == pred {
				return cl.val, true
			}
			return "", false
		})
		if !ok || res.Kind() != constant.Bool {
			c.R.Unknown(rule, "predicate:"+cl.name, c.P.Pos(pred.Pos()), "the version predicate uses operations outside the string-partition domain")
			continue
		}
		got := constant.BoolVal(res)
		c.R.Check(got == cl.want, rule, "predicate:"+cl.name, c.P.Pos(pred.Pos()), fmt.Sprintf("%q -> %v", cl.val, got),
			fmt.Sprintf("the supported-version predicate yields %v for $schema %q (class %s), expected %v: an unsupported draft would be validated under another draft's rules, or a supported one refused", got, cl.val, cl.name, cl.want))
	}
	// draft detector
	var det *ssa.Function
	for _, fn := range c.Closure(rule, "RES").Sorted() {
		s := fn.Signature
		if fn.Parent() == nil && s.Recv() == nil && s.Params().Len() == 1 && s.Results().Len() == 1 && c.isPkgNamed(s.Params().At(0).Type(), "Schema") && c.isPkgNamed(s.Results().At(0).Type(), "draft") {
			det = fn
		}
	}
	if det == nil {
		c.R.Unresolved(rule, "draft detector (func(*Schema) draft)")
	} else {
		d7, _ := c.draftConst("draft7")
		d20, _ := c.draftConst("draft2020")
		for _, cl := range []struct {
			name, val string
			want      int64
		}{{"draft-07 http", d7http, d7}, {"draft-07 https", d7https, d7}, {"empty", "", d20}, {"2020-12", d2020, d20}} {
			res, ok := evalStringFn(det, func(v ssa.Value) (string, bool) {
				if ld, isLd := v.(*ssa.UnOp); isLd {
					if fa, isFa := ld.X.(*ssa.FieldAddr); isFa && c.fieldName(fa.X.Type(), fa.Field) == "Schema.Schema" {
						return cl.val, true
					}
				}
				return "", false
			})
			if !ok || res.Kind() != constant.Int {
				c.R.Unknown(rule, "detector:"+cl.name, c.P.Pos(det.Pos()), "the draft detector uses operations outside the string-partition domain")
				continue
			}
			got, _ := constant.Int64Val(res)
			c.R.Check(got == cl.want, rule, "detector:"+cl.name, c.P.Pos(det.Pos()), fmt.Sprintf("%q -> draft %d", cl.val, got), fmt.Sprintf("the draft detector maps $schema %q to draft constant %d, expected %d", cl.val, got, cl.want))
		}
	}
	// the gate in Validate and in default validation
	E := c.Evaluator(rule)
	n := 0
	for _, name := range []string{"(*Resolved).Validate", "(*Resolved).validateDefaults"} {
		fn := c.fn(name)
		if fn == nil {
			if name == "(*Resolved).Validate" {
				c.R.Unresolved(rule, name)
			}
			continue
		}
		var gate *ssa.Call
		var gateFI famInstr
		var evals []ssa.Instruction
		for _, fi := range c.familyInstrs(fn) {
			if call, ok := fi.I.(*ssa.Call); ok {
				if call.Call.StaticCallee() == pred {
					gate, gateFI = call, fi
				}
				if call.Call.StaticCallee() == E && len(fi.Path) == 0 {
					evals = append(evals, call)
				}
			}
		}
		if gate == nil {
			c.R.Bad(rule, "gate:"+name, c.P.Pos(fn.Pos()), name+" evaluates without first testing that the root's $schema is a supported draft")
			continue
		}
		n++
		root, steps := c.accessPath(upValue(gate.Call.Args[0], gateFI.Path))
		_, isParam := root.(*ssa.Parameter)
		c.R.Check(isParam && pathString(steps) == "Resolved.root/Schema.Schema", rule, "gate-subject:"+name, c.pos(gate), "the predicate is applied to the root schema's $schema", "the version predicate is applied to "+pathString(steps)+", not to the root's $schema")
		// false outcome -> error
		okErr := false
		if refs := gate.Referrers(); refs != nil {
			for _, r := range *refs {
				var ifi *ssa.If
				neg := false
				switch x := r.(type) {
				case *ssa.If:
					ifi = x
				case *ssa.UnOp:
					if x.Op == token.NOT && x.Referrers() != nil {
						for _, r2 := range *x.Referrers() {
							if i2, ok := r2.(*ssa.If); ok {
								ifi, neg = i2, true
							}
						}
					}
				}
				if ifi == nil {
					continue
				}
				fail := ifi.Block().Succs[1]
				if neg {
					fail = ifi.Block().Succs[0]
				}
				if blockReturnsError(fail) || blockReturnsErrorDeep(fail) {
					okErr = true
				}
			}
		}
		// when the test sits in a helper, every call on the way must hand the error on
		for _, site := range gateFI.Path {
			if !errorPropagated(site) {
				okErr = false
			}
		}
		c.R.Check(okErr, rule, "gate-refuses:"+name, c.pos(gate), "an unsupported $schema returns an error", "the false outcome of the version predicate does not return an error")
		for _, ev := range evals {
			if ev.Parent() != fn {
				continue
			}
			c.R.Check(core.Dominates(gateFI.Top(), ev), rule, "gate-dominates:"+name, c.pos(ev), "the version test dominates the evaluation", "an evaluation is reachable without passing the version test")
		}
	}
	c.R.Floor(rule, "version gates", n, 1)
}

func ruleC02RefSiblings(c *Ctx) {
	const rule = "C02/ref-siblings"
	m := c.EvalModel(rule)
	if m == nil {
		return
	}
	d7, ok := c.draftConst("draft7")
	if !ok {
		c.R.Unresolved(rule, "constant draft7")
		return
	}
	// the $ref evaluation site
	var refSite *evalSite
	for _, s := range m.Sites {
		for _, src := range s.SchemaSrc {
			if src == "resolvedInfo.resolvedRef" {
				refSite = s
			}
		}
	}
	if refSite == nil {
		c.R.Unresolved(rule, "$ref evaluation site")
		return
	}
	// the draft-07 short-circuit: an If on draft == draft7 whose true successor returns nil
	var short *ssa.If
	c.eachFamOwn(m.E, func(i ssa.Instruction) {
		ifi, ok := i.(*ssa.If)
		if !ok {
			return
		}
		g := guardAtom{Cond: ifi.Cond, Pol: true}
		if c.guardIsDraft(g, d7) && core.Dominates(refSite.Call, ifi) {
			if returnsNilError(ifi.Block().Succs[0]) {
				short = ifi
			}
		}
	})
	if short == nil {
		c.R.Bad(rule, "short-circuit", c.pos(refSite.Call), "after a successful $ref there is no `draft == draft-07 => return nil`: in draft-07 the keywords beside $ref must be ignored")
		return
	}
	c.R.OK(rule, "short-circuit", c.pos(short), "under draft-07 a successful $ref returns success immediately")
	// no other keyword of the schema object can be read before the short-circuit
	bad := 0
	for _, fr := range c.fieldAccesses(m.E) {
		if fr.Owner != "Schema" || fr.Whole || fr.Field.Name() == "Ref" {
			continue
		}
		if core.ReachableFromInstr(fr.Instr, short) && !core.Dominates(short, fr.Instr) {
			bad++
			c.R.Bad(rule, "read-before-short-circuit:"+fr.Field.Name(), c.pos(fr.Instr), "Schema."+fr.Field.Name()+" can be evaluated before the draft-07 $ref short-circuit: a keyword beside $ref would not be ignored")
		}
	}
	if bad == 0 {
		c.R.OK(rule, "nothing-before-short-circuit", c.pos(short), "no other field of the schema object is read on a path that precedes the short-circuit")
	}
	// $id beside $ref ignored in URI assignment
	n := 0
	for _, fn := range c.Closure(rule, "RES").Sorted() {
		core.EachInstr(fn, func(i ssa.Instruction) {
			call, ok := i.(*ssa.Call)
			if !ok || core.CalleeKey(&call.Call) != "net/url.Parse" || !c.mentionsField(call.Call.Args[0], "Schema.ID", 4) {
				return
			}
			n++
			okG := false
			for _, g := range guardsOf(call) {
				if c.condMentions(g.Cond, "Resolved.draft") && c.condMentions(g.Cond, "Schema.Ref") {
					okG = true
				}
			}
			if !okG {
				// or an earlier exit: a test of $ref under the draft-07 test one of whose outcomes never reaches the interpretation of $id
				core.EachInstr(call.Parent(), func(j ssa.Instruction) {
					ifi, isIf := j.(*ssa.If)
					if !isIf || !c.mentionsField(ifi.Cond, "Schema.Ref", 6) {
						return
					}
					// the decision starts at the test of the draft (or at this test when it mentions both)
					var entry *ssa.BasicBlock
					if c.mentionsField(ifi.Cond, "Resolved.draft", 6) {
						entry = ifi.Block()
					}
					for _, g := range guardsLocal(ifi) {
						if c.mentionsField(g.Cond, "Resolved.draft", 6) {
							entry = g.At.Block()
						}
					}
					if entry == nil || !entry.Dominates(call.Block()) {
						return
					}
					for _, succ := range ifi.Block().Succs {
						if succ != call.Block() && !core.Reachable(succ, call.Block(), map[*ssa.BasicBlock]bool{ifi.Block(): true}) {
							okG = true
						}
					}
				})
			}
			c.R.Check(okG, rule, "id-beside-ref:"+core.FuncName(fn), c.pos(call), "the $id is interpreted only when it is not (draft-07 and beside $ref)", "an $id beside $ref establishes a base URI even under draft-07 (no guard mentioning both the draft and $ref)")
		})
	}
	c.R.Floor(rule, "interpretations of $id", n, 1)
}

// returnsNilError: the block (through straight-line successors) returns with a nil error.
func returnsNilError(b *ssa.BasicBlock) bool {
	for hops := 0; hops < 4; hops++ {
		last := b.Instrs[len(b.Instrs)-1]
		if ret, ok := last.(*ssa.Return); ok {
			if len(ret.Results) == 0 {
				return false
			}
			e := ret.Results[len(ret.Results)-1]
			if k, ok := e.(*ssa.Const); ok {
				return k.IsNil()
			}
			return !errCellNonNil(ret)
		}
		if len(b.Succs) != 1 {
			return false
		}
		b = b.Succs[0]
	}
	return false
}

func ruleC02RootProvenance(c *Ctx) {
	const rule = "C02/root-provenance"
	res := c.Closure(rule, "RES")
	nStores := 0
	for _, fn := range res.Sorted() {
		core.EachInstr(fn, func(i ssa.Instruction) {
			st, ok := i.(*ssa.Store)
			if !ok {
				return
			}
			fa, ok := st.Addr.(*ssa.FieldAddr)
			if !ok {
				return
			}
			switch c.fieldName(fa.X.Type(), fa.Field) {
			case "Schema.Schema":
				nStores++
				_, steps := c.accessPath(st.Val)
				ps := pathString(steps)
				c.R.Check(ps == "Resolved.root/Schema.Schema", rule, core.FuncName(fn)+":store(Schema.Schema)", c.pos(st), "the inherited $schema is the root's ("+ps+")",
					"a loaded document that declares no $schema inherits it from "+orNone(ps)+" instead of the root of the referring document: a subschema normally has no $schema, so a draft-07 document referenced from a non-root $ref is read as 2020-12")
				// ... and only a document that declares none inherits: the store is guarded by "its $schema is empty"
				onlyIfEmpty := false
				for _, g := range guardsOf(st) {
					bo, ok := g.Cond.(*ssa.BinOp)
					if !ok || !((bo.Op == token.EQL && g.Pol) || (bo.Op == token.NEQ && !g.Pol)) {
						continue
					}
					for _, pair := range [][2]ssa.Value{{bo.X, bo.Y}, {bo.Y, bo.X}} {
						if k, ok := constString(pair[1]); !ok || k != "" {
							continue
						}
						if ld, ok := pair[0].(*ssa.UnOp); ok && ld.Op == token.MUL {
							if fa2, ok := ld.X.(*ssa.FieldAddr); ok && fa2.Field == fa.Field && (fa2.X == fa.X || sharesSource(fa2.X, fa.X)) {
								onlyIfEmpty = true
							}
						}
					}
				}
				c.R.Check(onlyIfEmpty, rule, core.FuncName(fn)+":store(Schema.Schema):only-if-empty", c.pos(st), "a loaded document inherits the root's $schema only if it declares none",
					"the $schema of a loaded document is overwritten with the root's although the document may declare its own: a draft-07 document referenced from a 2020-12 root is read (and, the Schema being the caller's, left behind) as 2020-12, and every later or concurrent Resolve of that document sees the changed field")
			case "Resolved.draft":
				nStores++
				// value: detector(arg) with arg == the value stored into Resolved.root of the same object
				call, isCall := st.Val.(*ssa.Call)
				okD := false
				if isCall && len(call.Call.Args) == 1 {
					core.EachInstr(fn, func(j ssa.Instruction) {
						if st2, ok := j.(*ssa.Store); ok {
							if fa2, ok := st2.Addr.(*ssa.FieldAddr); ok && fa2.X == fa.X && c.fieldName(fa2.X.Type(), fa2.Field) == "Resolved.root" && st2.Val == call.Call.Args[0] {
								okD = true
							}
						}
					})
				}
				c.R.Check(okD, rule, core.FuncName(fn)+":store(Resolved.draft)", c.pos(st), "the draft is detected from the schema stored as this Resolved's root", "Resolved.draft is not computed from the same schema that becomes Resolved.root")
			}
		})
	}
	c.R.Floor(rule, "stores to Schema.$schema / Resolved.draft in the resolver", nStores, 2)
}

func orNone(s string) string {
	if s == "" {
		return "a value that is not a field of the root"
	}
	return s
}

func ruleC02AnchorGate(c *Ctx) {
	const rule = "C02/anchor-gate"
	res := c.Closure(rule, "RES").Minus(c.Closure(rule, "EV"))
	per := map[string]int{}
	for _, fn := range res.Sorted() {
		core.EachInstr(fn, func(i ssa.Instruction) {
			call, ok := i.(*ssa.Call)
			if !ok || call.Call.StaticCallee() != nil && !c.P.InPkg(call.Call.StaticCallee()) {
				// the anchor name taken from a fragment-only $id: wherever it is computed (it may be kept for a later pass)
				if ok && core.CalleeKey(&call.Call) == "strings.TrimPrefix" && c.mentionsField(call.Call.Args[0], "Schema.ID", 3) {
					per["fragment $id"]++
					c.R.Check(c.guardedByDraft(call, "draft7"), rule, core.FuncName(fn)+":fragment $id", c.pos(call), "a fragment-only $id becomes an anchor name only under draft7",
						"a fragment-only $id is turned into an anchor name without a test that the document's draft is draft7: in 2020-12 such an $id is an error, not a reference target")
					// ... and only when the parsed $id has a fragment (not when its text merely contains '#': "x.json#" has none)
					byFragment := false
					for _, g := range guardsOf(call) {
						bo, isBin := g.Cond.(*ssa.BinOp)
						if !isBin || !((bo.Op == token.NEQ && g.Pol) || (bo.Op == token.EQL && !g.Pol)) {
							continue
						}
						for _, pair := range [][2]ssa.Value{{bo.X, bo.Y}, {bo.Y, bo.X}} {
							if k, isK := constString(pair[1]); !isK || k != "" {
								continue
							}
							if ld, isLd := pair[0].(*ssa.UnOp); isLd && ld.Op == token.MUL {
								if fa, isFA := ld.X.(*ssa.FieldAddr); isFA && isNamed(derefType(fa.X.Type()), "net/url", "URL") && core.CanonFieldOf(fa.X.Type(), fa.Field) == "Fragment" {
									byFragment = true
								}
							}
						}
					}
					c.R.Check(byFragment, rule, core.FuncName(fn)+":fragment $id:parsed-fragment", c.pos(call), "a $id is an anchor only if the parsed URI has a non-empty fragment",
						"whether a draft-07 $id names an anchor is not decided by the fragment of the parsed URI: an $id such as \"http://example.com/sub.json#\" (empty fragment) starts a new resource, but a test on the text files it as an anchor, so references inside it resolve against the wrong base")
				}
				return
			}
			if callee := call.Call.StaticCallee(); callee != nil && callee.Name() == "String" {
				return
			}
			for _, a := range call.Call.Args {
				var field, draft string
				switch {
				case c.isDirectFieldLoad(a, "Schema.Anchor"):
					field, draft = "$anchor", "draft2020"
				case c.isDirectFieldLoad(a, "Schema.DynamicAnchor"):
					field, draft = "$dynamicAnchor", "draft2020"
				}
				if field == "" {
					continue
				}
				per[field]++
				c.R.Check(c.guardedByDraft(call, draft), rule, core.FuncName(fn)+":"+field, c.pos(call), field+" is registered as an anchor only under "+draft,
					field+" is registered as an anchor without a test that the document's draft is "+draft+": in the other draft the keyword is not part of the vocabulary and must not create reference targets")
			}
		})
	}
	for _, k := range []string{"$anchor", "$dynamicAnchor", "fragment $id"} {
		c.R.Floor(rule, "anchor registrations of "+k, per[k], 1)
	}
}

func (c *Ctx) isDirectFieldLoad(v ssa.Value, field string) bool {
	ld, ok := v.(*ssa.UnOp)
	if !ok || ld.Op != token.MUL {
		return false
	}
	fa, ok := ld.X.(*ssa.FieldAddr)
	return ok && c.fieldName(fa.X.Type(), fa.Field) == field
}

// Keywords whose empty value differs from absence must be tested for presence
// with a nil comparison, never with a length test (Schema documents "nil is
// absent, empty is present"): an empty draft-07 items array still hands every
// item to additionalItems, an empty enum/anyOf/oneOf/type list rejects everything.
func rulePresenceIsNil(c *Ctx, rule string) {
	m := c.EvalModel(rule)
	if m == nil {
		return
	}
	significant := map[string]string{"Schema.ItemsArray": "an empty items array hands every item to additionalItems", "Schema.Enum": "an empty enum rejects everything",
		"Schema.AnyOf": "an empty anyOf rejects everything", "Schema.OneOf": "an empty oneOf rejects everything", "Schema.Types": "an empty type list rejects everything"}
	bad := 0
	nIfs := 0
	for _, fn := range m.Nest {
		core.EachInstr(fn, func(i ssa.Instruction) {
			ifi, ok := i.(*ssa.If)
			if !ok {
				return
			}
			nIfs++
			bo, ok := ifi.Cond.(*ssa.BinOp)
			if !ok {
				return
			}
			for _, pair := range [][2]ssa.Value{{bo.X, bo.Y}, {bo.Y, bo.X}} {
				call, isCall := pair[0].(*ssa.Call)
				k, isK := pair[1].(*ssa.Const)
				if !isCall || !isK || core.CalleeKey(&call.Call) != "builtin.len" {
					continue
				}
				kv, okk := constInt(k)
				if !okk || kv > 1 {
					continue
				}
				for field, why := range significant {
					if c.mentionsField(call.Call.Args[0], field, 6) {
						bad++
						c.R.Bad(rule, core.FuncName(fn)+":len-test:"+field, c.pos(ifi), "the presence of "+field+" is decided by a length test; it must be a nil test: "+why)
					}
				}
			}
		})
	}
	if bad == 0 {
		c.R.OK(rule, "evaluator:no-length-presence-tests", "", fmt.Sprintf("%d branch conditions in the evaluator; none decides the presence of enum, anyOf, oneOf, type list or items array by its length", nIfs))
	}
}

// errorPropagated: the error result of the call is tested and its non-nil outcome returns an error.
func errorPropagated(site ssa.CallInstruction) bool {
	call, ok := site.(*ssa.Call)
	if !ok {
		return false
	}
	var errVals []ssa.Value
	if call.Call.Signature().Results().Len() == 1 {
		errVals = append(errVals, call)
	} else if refs := call.Referrers(); refs != nil {
		for _, r := range *refs {
			if ex, ok := r.(*ssa.Extract); ok && ex.Index == call.Call.Signature().Results().Len()-1 {
				errVals = append(errVals, ex)
			}
		}
	}
	okP := false
	core.EachInstr(call.Parent(), func(i ssa.Instruction) {
		ifi, ok := i.(*ssa.If)
		if !ok {
			return
		}
		x, k, equal, isEq := eqConst(guardAtom{Cond: ifi.Cond, Pol: true})
		if !isEq || !k.IsNil() {
			return
		}
		isErr := false
		for _, ev := range errVals {
			if x == ev {
				isErr = true
			}
			for _, s := range traceSources(x) {
				if s == ev {
					isErr = true
				}
			}
		}
		if !isErr {
			return
		}
		fail := ifi.Block().Succs[0]
		if equal {
			fail = ifi.Block().Succs[1]
		}
		if blockReturnsError(fail) || blockReturnsErrorDeep(fail) {
			okP = true
		}
	})
	return okP
}

func init() {
	p := Properties["C02"]
	p.Rules = append(p.Rules, Rule{"C02/draft-keywords-gated", ruleC02DraftKeywords})
}

// keywords that exist in one of the two drafts only and that the evaluator applies under that draft only
// (read off the pinned tree; the keywords the package applies under both drafts are not listed)
var draftOnlyFields = map[string]string{
	"Schema.ItemsArray":        "draft7",
	"Schema.AdditionalItems":   "draft7",
	"Schema.DependencyStrings": "draft7",
	"Schema.DependencySchemas": "draft7",
	"Schema.PrefixItems":       "draft2020",
	"Schema.DependentRequired": "draft2020",
	"Schema.DependentSchemas":  "draft2020",
}

// In the evaluator, the value of a keyword of one draft is used only where the schema's draft is that draft:
// every use of the value read from such a field - followed through the local variables it is merged into -
// happens under a test of Resolved.draft. ("items" is read under both drafts with a different meaning; which
// fields accompany it is what this rule pins down.)
func ruleC02DraftKeywords(c *Ctx) {
	const rule = "C02/draft-keywords-gated"
	E := c.Evaluator(rule)
	if E == nil {
		return
	}
	d7, ok1 := c.draftConst("draft7")
	d20, ok2 := c.draftConst("draft2020")
	if !ok1 || !ok2 {
		c.R.Unresolved(rule, "draft constants")
		return
	}
	gated := func(gs []guardAtom, draft string) bool {
		for _, g := range gs {
			x, k, equal, ok := eqConst(g)
			if !ok || !c.mentionsField(x, "Resolved.draft", 4) {
				continue
			}
			kv, ok := constInt(k)
			if !ok {
				continue
			}
			want, other := d7, d20
			if draft == "draft2020" {
				want, other = d20, d7
			}
			if (equal && kv == want) || (!equal && kv == other) {
				return true
			}
		}
		return false
	}
	// guards that hold on the edge pred -> succ
	edgeGuards := func(pred, succ *ssa.BasicBlock) []guardAtom {
		last := pred.Instrs[len(pred.Instrs)-1]
		gs := guardsOf(last)
		if ifi, ok := last.(*ssa.If); ok && len(pred.Succs) == 2 && pred.Succs[0] != pred.Succs[1] {
			pol := pred.Succs[0] == succ
			cond := ifi.Cond
			for {
				if u, ok := cond.(*ssa.UnOp); ok && u.Op == token.NOT {
					cond, pol = u.X, !pol
					continue
				}
				break
			}
			si := 1
			if pred.Succs[0] == succ {
				si = 0
			}
			gs = append(gs, guardAtom{cond, pol, ifi, si})
			gs = append(gs, expandBoolPhi(cond, pol, ifi, si, 3)...)
		}
		return gs
	}
	n := 0
	c.eachFam(E, func(i ssa.Instruction) {
		ld, ok := i.(*ssa.UnOp)
		if !ok || ld.Op != token.MUL {
			return
		}
		fa, ok := ld.X.(*ssa.FieldAddr)
		if !ok {
			return
		}
		field := c.fieldName(fa.X.Type(), fa.Field)
		draft, ok := draftOnlyFields[field]
		if !ok {
			return
		}
		n++
		var bad ssa.Instruction
		seen := map[ssa.Value]bool{}
		var follow func(v ssa.Value)
		follow = func(v ssa.Value) {
			if seen[v] || v.Referrers() == nil {
				return
			}
			seen[v] = true
			for _, r := range *v.Referrers() {
				switch u := r.(type) {
				case *ssa.DebugRef:
				case *ssa.Phi:
					for k, e := range u.Edges {
						if e == v && !gated(edgeGuards(u.Block().Preds[k], u.Block()), draft) {
							follow(u)
						}
					}
				default:
					if !gated(guardsOf(r), draft) && bad == nil {
						bad = r
					}
				}
			}
		}
		if gated(guardsOf(ld), draft) {
			c.R.OK(rule, fmt.Sprintf("%s:read#%d:%s", core.FuncName(ld.Parent()), n, field), c.pos(ld), "read under the "+draft+" test")
			return
		}
		follow(ld)
		where := ""
		if bad != nil {
			where = c.pos(bad)
		}
		c.R.Check(bad == nil, rule, fmt.Sprintf("%s:read#%d:%s", core.FuncName(ld.Parent()), n, field), c.pos(ld), "every use of the value happens under the "+draft+" test",
			fmt.Sprintf("the value of %s, a keyword of %s only, is used at %s on a path where the draft of the schema is not tested to be %s: under the other draft the keyword, which is outside that draft's vocabulary, asserts or shifts what other keywords apply to", field, draft, where, draft))
	})
	c.R.Floor(rule, "reads of draft-specific keywords in the evaluator", n, 7)
}

// In 2020-12 an $id with a non-empty fragment is an error. It has to be refused before the $id becomes a base URI:
// otherwise the resource is registered under the URI with its fragment, the fragmentless lookup that every
// reference makes misses it, and "#/$defs/a" inside it is resolved in whatever the Loader returns for the
// fragmentless URI instead of in the document itself.
func ruleIDFragmentRefused(c *Ctx, rule string) {
	n := 0
	for _, fn := range c.Closure(rule, "RES").Minus(c.Closure(rule, "EV")).Sorted() {
		core.EachInstr(fn, func(i ssa.Instruction) {
			st, ok := i.(*ssa.Store)
			if !ok {
				return
			}
			fa, ok := st.Addr.(*ssa.FieldAddr)
			if !ok || c.fieldName(fa.X.Type(), fa.Field) != "resolvedInfo.uri" {
				return
			}
			rc, ok := st.Val.(*ssa.Call)
			if !ok || core.CalleeKey(&rc.Call) != "net/url.URL.ResolveReference" {
				return
			}
			n++
			refused := false
			isFragTest := func(g guardAtom) bool {
				bo, ok := g.Cond.(*ssa.BinOp)
				if !ok || !((bo.Op == token.NEQ && g.Pol) || (bo.Op == token.EQL && !g.Pol)) {
					return false
				}
				for _, pair := range [][2]ssa.Value{{bo.X, bo.Y}, {bo.Y, bo.X}} {
					if k, isK := constString(pair[1]); !isK || k != "" {
						continue
					}
					if ld, isLd := pair[0].(*ssa.UnOp); isLd && ld.Op == token.MUL {
						if fa2, isFA := ld.X.(*ssa.FieldAddr); isFA && isNamed(derefType(fa2.X.Type()), "net/url", "URL") && core.CanonFieldOf(fa2.X.Type(), fa2.Field) == "Fragment" {
							return true
						}
					}
				}
				return false
			}
			// the refusal: an error return reached exactly under "the parsed $id has a fragment" and "the draft is 2020-12",
			// standing in front of the store (its tests hang off a block that every path to the store passes)
			for _, b := range fn.Blocks {
				if len(b.Preds) != 1 || len(b.Instrs) == 0 || !(blockReturnsErrorLocal(b) || blockReturnsErrorDeepLocal(b)) {
					continue
				}
				if !core.Reachable(b.Preds[0], st.Block(), nil) {
					continue
				}
				near := false
				for d, hops := b.Preds[0], 0; d != nil && hops < 5; d, hops = d.Idom(), hops+1 {
					if d.Dominates(st.Block()) {
						near = true
						break
					}
				}
				if !near {
					continue
				}
				frag := false
				for _, g := range guardsOf(b.Instrs[0]) {
					if isFragTest(g) {
						frag = true
					}
				}
				if frag && c.guardedByDraft(b.Instrs[0], "draft2020") {
					refused = true
				}
			}
			c.R.Check(refused, rule, fmt.Sprintf("%s:base-from-id#%d", core.FuncName(fn), n), c.pos(st), "under 2020-12 an $id with a fragment is refused before it becomes a base URI",
				"an $id becomes the base URI of its subschema without a preceding test that, under 2020-12, its parsed URI has no fragment: the resource is registered under a URI with a fragment, fragmentless lookups miss it, and references inside it are resolved in another document")
		})
	}
	c.R.Floor(rule, "places where an $id becomes a base URI", n, 1)
}

// condMentions: the condition reads the named field, directly or inside a package predicate it is the result of
// (refSiblingsIgnored(rs.draft, s) reads s.Ref).
func (c *Ctx) condMentions(cond ssa.Value, field string) bool {
	if c.mentionsField(cond, field, 6) {
		return true
	}
	call, ok := cond.(*ssa.Call)
	if !ok {
		return false
	}
	h := call.Call.StaticCallee()
	if h == nil || !c.P.InPkg(h) || len(h.Blocks) == 0 {
		return false
	}
	for _, a := range call.Call.Args {
		if c.mentionsField(a, field, 6) {
			return true
		}
	}
	found := false
	core.EachInstr(h, func(i ssa.Instruction) {
		if fa, ok := i.(*ssa.FieldAddr); ok && c.fieldName(fa.X.Type(), fa.Field) == field {
			if _, isParam := fa.X.(*ssa.Parameter); isParam {
				found = true
			}
		}
	})
	return found
}
