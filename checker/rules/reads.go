package rules

import (
	"go/types"
	"strings"

	"golang.org/x/tools/go/ssa"

	"verif/checker/core"
)

// fieldRead is one read of (the address of) a field of a package struct type.
type fieldRead struct {
	Fn    *ssa.Function
	Instr ssa.Instruction
	Owner string // named type
	Field *types.Var
	Whole bool // the whole struct was loaded by value
}

func (c *Ctx) ownerName(t types.Type) string {
	if p, ok := t.Underlying().(*types.Pointer); ok {
		t = p.Elem()
	}
	if n, ok := types.Unalias(t).(*types.Named); ok && n.Obj().Pkg() == c.P.Types {
		return core.CanonType(n.Obj().Name())
	}
	return ""
}

// fieldAccesses lists field selections (FieldAddr / Field) on package struct
// types in fn, and whole-struct loads of those types.
func (c *Ctx) fieldAccesses(fn *ssa.Function) []fieldRead {
	var out []fieldRead
	core.EachInstr(fn, func(i ssa.Instruction) {
		switch x := i.(type) {
		case *ssa.FieldAddr:
			if o := c.ownerName(x.X.Type()); o != "" {
				// (a field that was moved into a nested struct still belongs to its pinned-tree owner)
				o = strings.SplitN(c.fieldName(x.X.Type(), x.Field), ".", 2)[0]
				out = append(out, fieldRead{Fn: fn, Instr: x, Owner: o, Field: core.StructField(x.X.Type(), x.Field)})
			}
		case *ssa.Field:
			if o := c.ownerName(x.X.Type()); o != "" {
				// (a field that was moved into a nested struct still belongs to its pinned-tree owner)
				o = strings.SplitN(c.fieldName(x.X.Type(), x.Field), ".", 2)[0]
				out = append(out, fieldRead{Fn: fn, Instr: x, Owner: o, Field: core.StructField(x.X.Type(), x.Field)})
			}
		case *ssa.UnOp:
			if x.Op.String() == "*" {
				if _, isStruct := x.Type().Underlying().(*types.Struct); isStruct {
					if o := c.ownerName(x.Type()); o != "" {
						out = append(out, fieldRead{Fn: fn, Instr: x, Owner: o, Whole: true})
					}
				}
			}
		}
	})
	return out
}

// isAddrOnlyWritten reports whether a FieldAddr is used only as the address of stores.
func isAddrOnlyWritten(fa *ssa.FieldAddr) bool {
	refs := fa.Referrers()
	if refs == nil || len(*refs) == 0 {
		return false
	}
	for _, r := range *refs {
		st, ok := r.(*ssa.Store)
		if !ok || st.Addr != fa {
			if _, isDbg := r.(*ssa.DebugRef); isDbg {
				continue
			}
			return false
		}
	}
	return true
}

// fieldOwner: the canonical (pinned-tree) owner type of the field selected by fa; for a field that was
// moved into a nested struct this is the struct it came from.
func (c *Ctx) fieldOwner(fa *ssa.FieldAddr) string {
	if c.ownerName(fa.X.Type()) == "" {
		return ""
	}
	return strings.SplitN(c.fieldName(fa.X.Type(), fa.Field), ".", 2)[0]
}
