package rules

import (
	"fmt"
	"go/constant"
	"go/token"
	"go/types"
	"strings"

	"golang.org/x/tools/go/ssa"

	"verif/checker/core"
)

func init() {
	register(&Property{
		ID: "C18",
		Rules: []Rule{
			{"C18/never-read", ruleC18NeverRead},
			{"C18/case-exact-decoding", ruleC18CaseExact},
			{"C18/unknown-accepted", ruleC18UnknownAccepted},
			{"C18/name-set-exact", func(c *Ctx) { ruleNameSetExact(c, "C18/name-set-exact") }},
		},
		Explanation: "Decides non-interference as a read effect: no function reachable from Validate reads a Schema field classified non-asserting (title, description, $comment, default, examples, deprecated, readOnly, writeOnly, format, content*), container ($defs, definitions) or meta (Extra, PropertyOrder), neither directly nor through reflection; the resolution pipeline reads of those fields are limited to a frozen, reasoned set (default validation, traversal); the keyword decoder never hands the caller's document bytes directly to a case-insensitive struct decode but re-encodes a map filtered by exact membership in the JSON-name set; unknown keywords cannot be rejected (Extra is map[string]any filled from a generic decode; no DisallowUnknownFields). every JSON value is accepted as the value of an unknown keyword, of default and of examples (a generic decode that fails on a number outside the float64 range is retried with UseNumber; no non-asserting keyword is decoded into a float64-bearing type). It does NOT observe verdict equality of decorated and undecorated schemas, and cannot tell whether the exact-key filter is itself right.",
		NotDecided:  []string{"verdict equality of a decorated and an undecorated schema as an observed fact", "correctness of the exact-key filter beyond its presence and its dependence on the JSON-name set"},
	})
}

func ruleC18NeverRead(c *Ctx) {
	const rule = "C18/never-read"
	fields := c.SchemaFields(rule)
	class := map[string]string{}
	for _, f := range fields {
		class[f.Name] = f.Class
	}
	ev := c.Closure(rule, "EV")
	nReads := 0
	forbidden := func(cl string) bool { return cl == "non-asserting" || cl == "container" || cl == "meta" }
	for _, fn := range ev.Sorted() {
		for _, fr := range c.fieldAccesses(fn) {
			if fr.Owner != "Schema" && fr.Owner != "schemaWithoutMethods" {
				continue
			}
			nReads++
			if fr.Whole {
				// exempt: a whole-Schema load whose only use is reflect.ValueOf(..).IsZero()
				if ok, why := onlyIsZero(fr.Instr.(*ssa.UnOp)); ok {
					c.R.OK(rule, "EV:"+core.FuncName(fn)+":whole-schema-load:iszero", c.pos(fr.Instr), "exempted: the loaded Schema value is only tested with reflect.Value.IsZero to choose between two error paths that reject the same instances ("+why+")")
				} else {
					c.R.Bad(rule, "EV:"+core.FuncName(fn)+":whole-schema-load", c.pos(fr.Instr), "a whole Schema value is loaded in the closure of Validate: this reads every field, including non-asserting ones")
				}
				continue
			}
			if forbidden(class[fr.Field.Name()]) {
				c.R.Bad(rule, "EV:"+core.FuncName(fn)+":"+fr.Field.Name(), c.pos(fr.Instr), fmt.Sprintf("%s, reachable from Validate, reads Schema.%s, a %s keyword that must never influence a verdict", core.FuncName(fn), fr.Field.Name(), class[fr.Field.Name()]))
			}
		}
		// reflection over a Schema inside EV hides reads
		core.EachInstr(fn, func(i ssa.Instruction) {
			call, ok := i.(*ssa.Call)
			if !ok || core.CalleeKey(&call.Call) != "reflect.ValueOf" {
				return
			}
			arg := call.Call.Args[0]
			for {
				if mi, ok := arg.(*ssa.MakeInterface); ok {
					arg = mi.X
					continue
				}
				break
			}
			if c.isPkgNamed(arg.Type(), "Schema") || c.containsSchemaPtr(arg.Type(), map[types.Type]bool{}) {
				if u, ok := arg.(*ssa.UnOp); ok {
					if ok2, _ := onlyIsZero(u); ok2 {
						return
					}
				}
				c.R.Bad(rule, "EV:"+core.FuncName(fn)+":reflect-over-schema", c.pos(call), "a Schema is inspected through reflection in the closure of Validate; field reads through reflection cannot be shown to avoid non-asserting keywords")
			}
		})
	}
	c.R.Floor(rule, "Schema field selections in the closure of Validate", nReads, 60)
	c.R.OK(rule, "EV:forbidden-classes-unread", "", fmt.Sprintf("%d selections of Schema fields in %d functions reachable from Validate; none selects a non-asserting, container or meta field", nReads, len(ev.Set)))

	// Resolution pipeline and ApplyDefaults: frozen set of reasoned reads.
	allowed := map[string]string{
		"Default":       "default validation (validateDefaults), default application and the has-nested-defaults predicate read the keyword they implement",
		"Defs":          "basicChecks rejects Defs together with Definitions (documented exclusivity)",
		"Definitions":   "basicChecks rejects Defs together with Definitions (documented exclusivity)",
		"PropertyOrder": "basicChecks rejects duplicate PropertyOrder entries (documented)",
	}
	for _, name := range []string{"RES", "DEF"} {
		cl := c.Closure(rule, name)
		for _, fn := range cl.Sorted() {
			if ev.Has(fn) {
				continue
			}
			for _, fr := range c.fieldAccesses(fn) {
				if (fr.Owner != "Schema" && fr.Owner != "schemaWithoutMethods") || fr.Whole {
					continue
				}
				if fa, ok := fr.Instr.(*ssa.FieldAddr); ok && isAddrOnlyWritten(fa) {
					continue
				}
				cls := class[fr.Field.Name()]
				if !forbidden(cls) {
					continue
				}
				construct := name + ":" + core.FuncName(fn) + ":" + fr.Field.Name()
				if why, ok := allowed[fr.Field.Name()]; ok {
					c.R.OKTable(rule, construct, c.pos(fr.Instr), "reasoned read: "+why)
				} else {
					c.R.Bad(rule, construct, c.pos(fr.Instr), fmt.Sprintf("%s, reachable from %s, reads Schema.%s (%s); a value precomputed from it could reach the evaluator through the side tables", core.FuncName(fn), strings.Join(closureEntries[name], ", "), fr.Field.Name(), cls))
				}
			}
		}
	}
}

// onlyIsZero: the struct value flows only MakeInterface -> reflect.ValueOf -> IsZero.
func onlyIsZero(u *ssa.UnOp) (bool, string) {
	var val ssa.Value = u
	for depth := 0; depth < 4; depth++ {
		refs := val.Referrers()
		if refs == nil {
			return false, ""
		}
		var next ssa.Value
		n := 0
		for _, r := range *refs {
			if _, ok := r.(*ssa.DebugRef); ok {
				continue
			}
			n++
			switch x := r.(type) {
			case *ssa.MakeInterface:
				next = x
			case *ssa.Call:
				key := core.CalleeKey(&x.Call)
				if key == "reflect.ValueOf" {
					next = x
				} else if key == "reflect.Value.IsZero" {
					return n == 1, "MakeInterface -> reflect.ValueOf -> IsZero"
				} else {
					return false, ""
				}
			default:
				return false, ""
			}
		}
		if n != 1 || next == nil {
			return false, ""
		}
		val = next
	}
	return false, ""
}

func (c *Ctx) hasMethod(t types.Type, name string) bool {
	for _, tt := range []types.Type{t, types.NewPointer(t)} {
		if c.P.SSA.MethodSets.MethodSet(tt).Lookup(c.P.Types, name) != nil {
			return true
		}
		ms := types.NewMethodSet(tt)
		for i := 0; i < ms.Len(); i++ {
			if ms.At(i).Obj().Name() == name {
				return true
			}
		}
	}
	return false
}

// traceSources follows a value back through phis, cells, slices and conversions
// and returns the terminal values.
func traceSources(v ssa.Value) []ssa.Value { return traceSourcesOpt(v, false) }

// traceSourcesDeep additionally sees through transparent helpers: the result of a call to one is
// traced into the values it returns, and a parameter of one into the arguments at its call sites.
func traceSourcesDeep(v ssa.Value) []ssa.Value { return traceSourcesOpt(v, true) }

func traceSourcesOpt(v ssa.Value, deep bool) []ssa.Value {
	var out []ssa.Value
	seen := map[ssa.Value]bool{}
	var walk func(v ssa.Value)
	walk = func(v ssa.Value) {
		if seen[v] {
			return
		}
		seen[v] = true
		switch x := v.(type) {
		case *ssa.Phi:
			for _, e := range x.Edges {
				walk(e)
			}
		case *ssa.ChangeType:
			walk(x.X)
		case *ssa.Convert:
			walk(x.X)
		case *ssa.Slice:
			walk(x.X)
		case *ssa.MakeInterface:
			walk(x.X)
		case *ssa.UnOp:
			if x.Op.String() == "*" {
				if cell := resolveCell(x.X); cell != nil {
					for _, sv := range cellStores(cell) {
						walk(sv)
					}
					return
				}
			}
			out = append(out, v)
		case *ssa.Extract:
			if call, ok := x.Tuple.(*ssa.Call); ok && deep && curCtx != nil {
				if h := call.Call.StaticCallee(); h != nil && curCtx.transparent(h) {
					n := 0
					core.EachInstr(h, func(i ssa.Instruction) {
						if ret, ok := i.(*ssa.Return); ok && x.Index < len(ret.Results) {
							n++
							walk(ret.Results[x.Index])
						}
					})
					if n > 0 {
						return
					}
				}
			}
			out = append(out, v)
		case *ssa.Call:
			if deep && curCtx != nil {
				if h := x.Call.StaticCallee(); h != nil && curCtx.transparent(h) && h.Signature.Results().Len() == 1 {
					n := 0
					core.EachInstr(h, func(i ssa.Instruction) {
						if ret, ok := i.(*ssa.Return); ok && len(ret.Results) == 1 {
							n++
							walk(ret.Results[0])
						}
					})
					if n > 0 {
						return
					}
				}
			}
			out = append(out, v)
		case *ssa.Parameter:
			if deep && curCtx != nil && x.Parent() != nil && x.Parent().Parent() == nil && curCtx.transparent(x.Parent()) {
				if args := curCtx.P.ArgsFor(x); len(args) > 0 {
					for _, a := range args {
						walk(a)
					}
					return
				}
			}
			out = append(out, v)
		default:
			out = append(out, v)
		}
	}
	walk(v)
	return out
}

func ruleC18CaseExact(c *Ctx) {
	const rule = "C18/case-exact-decoding"
	unm := c.Closure(rule, "UNM")
	nCalls, nStruct := 0, 0
	for _, fn := range unm.Sorted() {
		core.EachInstr(fn, func(i ssa.Instruction) {
			call, ok := i.(*ssa.Call)
			if !ok {
				return
			}
			key := core.CalleeKey(&call.Call)
			var data, dst ssa.Value
			switch key {
			case "encoding/json.Unmarshal":
				data, dst = call.Call.Args[0], call.Call.Args[1]
			case "encoding/json.Decoder.Decode":
				dst = call.Call.Args[1]
			default:
				return
			}
			nCalls++
			dst = peelIface(dst)
			et, isPtr := isPtrTo(dst.Type())
			if !isPtr {
				return
			}
			st, isStruct := et.Underlying().(*types.Struct)
			if !isStruct || c.hasMethod(et, "UnmarshalJSON") || c.hasMethod(et, "UnmarshalText") {
				return
			}
			named := false
			for k := 0; k < st.NumFields(); k++ {
				if st.Field(k).Exported() || st.Field(k).Embedded() {
					named = true
				}
			}
			if !named {
				return
			}
			nStruct++
			construct := core.FuncName(originOf(fn)) + ":struct-decode"
			if data == nil {
				c.R.Bad(rule, construct, c.pos(call), "a json.Decoder decodes the caller's document into a struct with JSON-named fields: encoding/json matches keys case-insensitively")
				return
			}
			srcs := traceSourcesDeep(data)
			var fromParam, fromMarshal bool
			var marshalArgs []ssa.Value
			marshalFn := map[ssa.Value]*ssa.Function{}
			for _, s := range srcs {
				switch x := s.(type) {
				case *ssa.Parameter:
					fromParam = true
				case *ssa.Extract:
					if mc, ok := x.Tuple.(*ssa.Call); ok && core.CalleeKey(&mc.Call) == "encoding/json.Marshal" && x.Index == 0 {
						fromMarshal = true
						marshalArgs = append(marshalArgs, peelIface(mc.Call.Args[0]))
						marshalFn[peelIface(mc.Call.Args[0])] = mc.Parent()
					} else {
						fromParam = fromParam || false
					}
				}
			}
			if !fromMarshal {
				c.R.Bad(rule, construct, c.pos(call), fmt.Sprintf("%s hands the caller's document bytes directly to a struct-typed json.Unmarshal; encoding/json matches object keys to struct fields case-insensitively, so \"TYPE\" or \"Properties\" would act as the standard keyword and \"MINLENGTH\":\"x\" would make Unmarshal fail", core.FuncName(fn)))
				return
			}
			// the re-encoded map must be filtered by exact membership in a name set
			filtered := false
			for _, ma := range marshalArgs {
				if c.mapFilteredByNameSet(marshalFn[ma], ma) {
					filtered = true
				}
			}
			if filtered {
				for _, s := range srcs {
					if x, ok := s.(*ssa.Extract); ok {
						if mc, ok := x.Tuple.(*ssa.Call); ok && core.CalleeKey(&mc.Call) == "encoding/json.Marshal" && x.Index == 0 {
							_, regions := c.mapFilterRegions(mc.Parent(), peelIface(mc.Call.Args[0]))
							okWhen, where := c.reencodedWheneverFiltered(mc, regions)
							c.R.Check(okWhen, rule, construct+":whenever-a-key-was-removed", c.pos(mc), "the struct decoder gets the re-encoding whenever a key was removed from the document",
								"whether the struct decoder gets the filtered re-encoding or the original bytes depends on more than \"a key was removed\" (test at "+where+"): for a document all of whose keys are unknown the original bytes are decoded again, encoding/json matches them case-insensitively, and {\"Minimum\":10} acts as minimum")
						}
					}
				}
			}
			if !filtered {
				c.R.Bad(rule, construct, c.pos(call), "the bytes given to the struct decoder come from a re-encoding, but the re-encoded map is not filtered by exact membership in the struct's JSON-name set (no delete guarded by a failed lookup in a map[string]bool returned by a package function)")
				return
			}
			_ = fromParam
			c.R.OK(rule, construct, c.pos(call), "the struct decoder sees the document only when every key is exactly a JSON field name; otherwise it sees a re-encoding of the document with all other keys deleted (delete guarded by a failed exact lookup in the JSON-name set)")
		})
	}
	c.R.Floor(rule, "json.Unmarshal/Decode calls in the closure of UnmarshalJSON", nCalls, 10)
	c.R.Floor(rule, "reflective struct decodes of the input document", nStruct, 1)
}

func originOf(fn *ssa.Function) *ssa.Function {
	if o := fn.Origin(); o != nil {
		return o
	}
	return fn
}

func peelIface(v ssa.Value) ssa.Value {
	for {
		switch x := v.(type) {
		case *ssa.MakeInterface:
			v = x.X
		case *ssa.ChangeInterface:
			v = x.X
		case *ssa.ChangeType:
			v = x.X
		default:
			return v
		}
	}
}

// mapFilteredByNameSet: in fn there is a delete(m, k) on the map m (same cell
// or value) that is control dependent on the not-found outcome of a lookup of
// k in a map[string]bool obtained from a package function.
func (c *Ctx) mapFilteredByNameSet(fn *ssa.Function, m ssa.Value) bool {
	ok, _ := c.mapFilterRegions(fn, m)
	return ok
}

// mapFilterRegions: see mapFilteredByNameSet; additionally the entry blocks of the regions in which a key is
// known not to be a name and is deleted (empty for the maps.DeleteFunc form).
func (c *Ctx) mapFilterRegions(fn *ssa.Function, m ssa.Value) (bool, []*ssa.BasicBlock) {
	var regions []*ssa.BasicBlock
	// the map may come back from a helper that filters its parameter in place and returns it
	if ex, ok := m.(*ssa.Extract); ok {
		if hc, ok := ex.Tuple.(*ssa.Call); ok {
			if h := hc.Call.StaticCallee(); h != nil && c.P.InPkg(h) && len(h.Blocks) > 0 {
				var param *ssa.Parameter
				same := true
				core.EachInstr(h, func(i ssa.Instruction) {
					if ret, ok := i.(*ssa.Return); ok && ex.Index < len(ret.Results) {
						if p, ok := ret.Results[ex.Index].(*ssa.Parameter); ok && (param == nil || param == p) {
							param = p
						} else {
							same = false
						}
					}
				})
				if param != nil && same {
					return c.mapFilterRegions(h, param)
				}
			}
		}
	}
	sameMap := func(a, b ssa.Value) bool {
		sa, sb := traceSources(a), traceSources(b)
		for _, x := range sa {
			for _, y := range sb {
				if x == y {
					return true
				}
			}
		}
		// both loads of the same cell
		ua, ok1 := a.(*ssa.UnOp)
		ub, ok2 := b.(*ssa.UnOp)
		return ok1 && ok2 && ua.X == ub.X
	}
	found := false
	fi := core.Info(fn)
	core.EachInstr(fn, func(i ssa.Instruction) {
		call, ok := i.(*ssa.Call)
		// maps.DeleteFunc(m, func(k, _) bool { return !names[k] }): every key that is not exactly a member is deleted
		if ok && core.CalleeKey(&call.Call) == "maps.DeleteFunc" && len(call.Call.Args) == 2 && sameMap(call.Call.Args[0], m) {
			if set, negated, okP := predMembership(call.Call.Args[1]); okP && negated {
				if mt, isMap := set.Type().Underlying().(*types.Map); isMap || true {
					_ = mt
					if c.fromPkgCall(set) != nil {
						found = true
					}
				}
			}
			return
		}
		if !ok || core.CalleeKey(&call.Call) != "builtin.delete" {
			return
		}
		if !sameMap(call.Call.Args[0], m) {
			return
		}
		for _, br := range fi.DomGuards(call.Block()) {
			cond, pol := br.Cond()
			if cond == nil {
				continue
			}
			// cond is names[k] (bool lookup) taken on the false edge, or !names[k] on the true edge
			v := cond
			if u, ok := v.(*ssa.UnOp); ok && u.Op.String() == "!" {
				v, pol = u.X, !pol
			}
			lk, ok := v.(*ssa.Lookup)
			_ = br
			if ext, isExt := v.(*ssa.Extract); isExt {
				if l2, ok2 := ext.Tuple.(*ssa.Lookup); ok2 && ext.Index == 1 {
					lk, ok = l2, true
				}
			}
			if !ok || pol {
				continue
			}
			mt, isMap := lk.X.Type().Underlying().(*types.Map)
			if !isMap || !tString(mt.Key()) {
				continue
			}
			// once the exact lookup fails the key must be deleted unconditionally:
			// the delete post-dominates the not-found successor of the test.
			notFound := br.Block.Succs[1]
			if u, ok := cond.(*ssa.UnOp); ok && u.Op.String() == "!" {
				notFound = br.Block.Succs[0]
			}
			if !fi.PostDominates(call.Block(), notFound) {
				continue
			}
			for _, src := range traceSourcesDeep(lk.X) {
				if sc, ok := src.(*ssa.Call); ok {
					if callee := sc.Call.StaticCallee(); callee != nil && c.P.InPkg(callee) {
						found = true
						regions = append(regions, notFound)
					}
				}
			}
		}
	})
	return found, regions
}

// reencodedWheneverFiltered: the re-encoding `marshal` of the filtered map is made whenever a key was deleted from
// it: a test that stands between the filter and the re-encoding looks only at what the deleting branch leaves
// behind (the collection of removed keys, a flag), never at anything else (such as what is left of the map).
func (c *Ctx) reencodedWheneverFiltered(marshal *ssa.Call, regions []*ssa.BasicBlock) (bool, string) {
	if len(regions) == 0 {
		return true, ""
	}
	inRegion := func(b *ssa.BasicBlock) bool {
		for _, r := range regions {
			if b != nil && b.Parent() == r.Parent() && r.Dominates(b) {
				return true
			}
		}
		return false
	}
	for _, g := range controlGuards(marshal) {
		if g.At.Parent() != marshal.Parent() {
			continue
		}
		shared := true
		for _, r := range regions {
			if !g.At.Block().Dominates(r) {
				shared = false
			}
		}
		if shared {
			continue // a condition of the filtering as a whole (the document is an object)
		}
		evidence := false
		for _, v := range backSlice(g.Cond, 20) {
			// another result of the helper that did the filtering (the collection of removed keys it returns)
			if ex, ok := v.(*ssa.Extract); ok {
				if hc, ok := ex.Tuple.(*ssa.Call); ok && hc.Call.StaticCallee() != nil && hc.Call.StaticCallee() == regions[0].Parent() && regions[0].Parent() != marshal.Parent() {
					filtered := false
					for _, a := range marshal.Call.Args {
						if peelIface(a) == ssa.Value(ex) {
							filtered = true
						}
					}
					if !filtered {
						evidence = true
					}
				}
			}
			if ins, ok := v.(ssa.Instruction); ok && inRegion(ins.Block()) {
				evidence = true
			}
			if phi, ok := v.(*ssa.Phi); ok {
				for k := range phi.Edges {
					if inRegion(phi.Block().Preds[k]) {
						evidence = true
					}
				}
			}
			if ld, ok := v.(*ssa.UnOp); ok && ld.Op == token.MUL {
				if cell := resolveCell(ld.X); cell != nil && cell.Referrers() != nil {
					for _, r := range *cell.Referrers() {
						if st, ok := r.(*ssa.Store); ok && inRegion(st.Block()) {
							evidence = true
						}
					}
				}
			}
		}
		if !evidence {
			return false, c.pos(g.At)
		}
	}
	return true, ""
}

func ruleC18UnknownAccepted(c *Ctx) {
	const rule = "C18/unknown-accepted"
	extra := c.P.Field("Schema", "Extra")
	if extra == nil {
		c.R.Unresolved(rule, "Schema.Extra")
		return
	}
	mt, ok := extra.Type().Underlying().(*types.Map)
	okType := ok && tString(mt.Key()) && isEmptyInterface(mt.Elem())
	c.R.Check(okType, rule, "Schema.Extra:type", c.P.Pos(extra.Pos()), "Extra is map[string]any: no type constraint can reject an unknown keyword's value", "Extra must be map[string]any so that every unknown keyword value is representable; it is "+extra.Type().String())
	unm := c.Closure(rule, "UNM")
	n := 0
	for _, fn := range unm.Sorted() {
		core.EachInstr(fn, func(i ssa.Instruction) {
			if call, ok := i.(ssa.CallInstruction); ok {
				key := core.CalleeKey(call.Common())
				if key == "encoding/json.Decoder.DisallowUnknownFields" {
					n++
					c.R.Bad(rule, core.FuncName(fn)+":DisallowUnknownFields", c.pos(i), "the schema decoder rejects unknown fields; a document with unknown keywords must always be accepted")
				}
			}
		})
	}
	if n == 0 {
		c.R.OK(rule, "UNM:no-DisallowUnknownFields", "", "no decoder in the closure of UnmarshalJSON disallows unknown fields")
	}
	// the map field named by the splice helpers is Extra, tagged "-", and is filled from a generic decode
	st := c.P.Struct("Schema")
	for _, fn := range c.P.Funcs {
		core.EachInstr(fn, func(i ssa.Instruction) {
			call, ok := i.(ssa.CallInstruction)
			if !ok {
				return
			}
			callee := call.Common().StaticCallee()
			if callee == nil || callee.Origin() == nil || !c.P.InPkg(callee) {
				return
			}
			for _, a := range call.Common().Args {
				k, ok := a.(*ssa.Const)
				if !ok || k.Value == nil || k.Value.Kind() != constant.String || !tString(k.Type()) {
					continue
				}
				name := constant.StringVal(k.Value)
				construct := core.FuncName(fn) + ":mapField:" + name
				var fld *types.Var
				tag := ""
				for fi := 0; fi < st.NumFields(); fi++ {
					if st.Field(fi).Name() == name {
						fld, tag = st.Field(fi), st.Tag(fi)
					}
				}
				if fld == nil {
					c.R.Bad(rule, construct, c.pos(i), "the map-field name "+name+" passed to "+callee.Name()+" is not a field of Schema: FieldByName would yield an invalid Value and unknown keywords would be lost or panic")
					continue
				}
				_, _, dash := parseJSONTag(tag, fld)
				m2, isMap := fld.Type().Underlying().(*types.Map)
				c.R.Check(dash && isMap && tString(m2.Key()) && isEmptyInterface(m2.Elem()), rule, construct, c.pos(i),
					"names a map[string]any field of Schema tagged \"-\"", "the map field must be a map[string]any tagged \"-\"")
			}
		})
	}
}

func isEmptyInterface(t types.Type) bool {
	i, ok := t.Underlying().(*types.Interface)
	return ok && i.NumMethods() == 0
}

func init() {
	p := Properties["C18"]
	p.Rules = append(p.Rules, Rule{"C18/any-json-value-accepted", ruleC18AnyValue})
}

// decodesNumbersToFloat: encoding/json decodes a JSON number found at (or below) a target of this type into a
// float64 held in an empty interface, which fails for a number outside the float64 range (1e999). Types with
// their own UnmarshalJSON (Schema, json.RawMessage, ...) decide for themselves and are not looked into.
func decodesNumbersToFloat(t types.Type, seen map[types.Type]bool) bool {
	if seen[t] {
		return false
	}
	seen[t] = true
	if n, ok := types.Unalias(t).(*types.Named); ok {
		for _, recv := range []types.Type{n, types.NewPointer(n)} {
			ms := types.NewMethodSet(recv)
			for i := 0; i < ms.Len(); i++ {
				if nm := ms.At(i).Obj().Name(); nm == "UnmarshalJSON" || nm == "UnmarshalText" {
					return false
				}
			}
		}
	}
	switch u := t.Underlying().(type) {
	case *types.Interface:
		return u.NumMethods() == 0
	case *types.Pointer:
		return decodesNumbersToFloat(u.Elem(), seen)
	case *types.Slice:
		return decodesNumbersToFloat(u.Elem(), seen)
	case *types.Array:
		return decodesNumbersToFloat(u.Elem(), seen)
	case *types.Map:
		return decodesNumbersToFloat(u.Elem(), seen)
	}
	return false
}

// Every JSON value is a legal value of an unknown keyword, and of the non-asserting keywords whose value is not
// constrained (default, examples). A value may contain a number that float64 cannot hold; decoding such a value
// into `any` fails, and with it Unmarshal of the whole document.
//   - the splice helper's generic decodes (json.Unmarshal into any / map[string]any) must not hand that failure
//     to the caller: the failing branch retries with a decoder that keeps numbers as text (UseNumber);
//   - the Schema fields of non-asserting keywords must not be of a type that decodes numbers to float64.
func ruleC18AnyValue(c *Ctx) {
	const rule = "C18/any-json-value-accepted"
	_, _, _, uh := c.wrapperTypes(rule)
	if uh == nil {
		return
	}
	n := 0
	for _, fn := range c.familyFuncs(uh) {
		useNumber := map[*ssa.BasicBlock]bool{}
		core.EachInstr(fn, func(i ssa.Instruction) {
			if call, ok := i.(ssa.CallInstruction); ok && core.CalleeKey(call.Common()) == "encoding/json.Decoder.UseNumber" {
				useNumber[i.Block()] = true
			}
		})
		core.EachInstr(fn, func(i ssa.Instruction) {
			call, ok := i.(*ssa.Call)
			if !ok || core.CalleeKey(&call.Call) != "encoding/json.Unmarshal" || len(call.Call.Args) != 2 {
				return
			}
			target := peelIface(call.Call.Args[1])
			pt, ok := target.Type().Underlying().(*types.Pointer)
			if !ok || !decodesNumbersToFloat(pt.Elem(), map[types.Type]bool{}) {
				return
			}
			n++
			// the branch on which the error is non-nil must pass a UseNumber retry before any return
			okRetry, found := true, false
			for _, r := range *call.Referrers() {
				bo, isBin := r.(*ssa.BinOp)
				if !isBin || !isErrNilTest(bo) {
					continue
				}
				for _, rr := range *bo.Referrers() {
					ifi, isIf := rr.(*ssa.If)
					if !isIf {
						continue
					}
					found = true
					failing := ifi.Block().Succs[0]
					if bo.Op == token.EQL {
						failing = ifi.Block().Succs[1]
					}
					rets := map[*ssa.BasicBlock]bool{}
					for _, b := range fn.Blocks {
						if len(b.Instrs) > 0 {
							if _, isRet := b.Instrs[len(b.Instrs)-1].(*ssa.Return); isRet && !useNumber[b] {
								rets[b] = true
							}
						}
					}
					if !mustPass(failing, useNumber, rets) {
						okRetry = false
					}
				}
			}
			name := core.FuncName(fn)
			if o := fn.Origin(); o != nil {
				name = core.FuncName(o)
			}
			c.R.Check(found && okRetry, rule, name+":generic-decode:"+shortTypeName(pt.Elem()), c.pos(call),
				"a failing generic decode (a number float64 cannot hold) is retried with UseNumber before the error can reach the caller",
				"the value is decoded into `any` and the error is handed to the caller: a number outside the float64 range anywhere in the value of an unknown keyword (or, when the whole document is decoded, of any keyword, e.g. {\"default\":1e999}) makes Unmarshal reject the document, although every JSON value is a legal value there")
		})
	}
	c.R.Floor(rule, "generic decodes in the unmarshal splice helper", n, 1)
	// the non-asserting keywords: what the decoder really decodes them into is the depth-0 field of the
	// wrapper struct (a shadow field wins over the embedded Schema field)
	_, ut, _, _ := c.wrapperTypes(rule)
	uf := jsonFieldsOf(ut)
	unm := c.fn("(*Schema).UnmarshalJSON")
	inSplice := map[*ssa.Function]bool{}
	for _, fn := range c.familyFuncs(uh) {
		inSplice[fn] = true
	}
	for _, f := range c.SchemaFields(rule) {
		if f.Class != "non-asserting" || f.JSONName == "" {
			continue
		}
		jf, ok := uf[f.JSONName]
		if !ok {
			continue
		}
		c.R.Check(!decodesNumbersToFloat(jf.Type, map[types.Type]bool{}), rule, "field:"+f.Name, c.P.Pos(f.Var.Pos()),
			"the keyword is decoded into a type that accepts every JSON value of its shape",
			fmt.Sprintf("\"%s\" is decoded by encoding/json into %s, i.e. numbers become float64 values held in `any`: a document whose %s contains a number outside the float64 range (1e999) is rejected by Unmarshal, although the keyword is documented as non-asserting and the value is well-typed", f.JSONName, jf.Type.String(), f.JSONName))
		if unm == nil || types.Identical(jf.Type, f.Var.Type()) {
			continue
		}
		// a shadow field: where its raw value is decoded generically, the same retry is needed
		goName := jf.GoPath[len(jf.GoPath)-1]
		for _, fn := range c.familyFuncs(unm) {
			if inSplice[fn] {
				continue
			}
			core.EachInstr(fn, func(i ssa.Instruction) {
				call, ok := i.(*ssa.Call)
				if !ok || core.CalleeKey(&call.Call) != "encoding/json.Unmarshal" || len(call.Call.Args) != 2 {
					return
				}
				pt, ok := peelIface(call.Call.Args[1]).Type().Underlying().(*types.Pointer)
				if !ok || !decodesNumbersToFloat(pt.Elem(), map[types.Type]bool{}) {
					return
				}
				fromShadow := false
				for _, src := range append(traceSourcesDeep(call.Call.Args[0]), call.Call.Args[0]) {
					if c.mentionsNamedField(src, goName, 5) {
						fromShadow = true
					}
				}
				if fromShadow {
					c.R.Bad(rule, "shadow:"+f.Name+":generic-decode", c.pos(call), fmt.Sprintf("the raw value of \"%s\" is decoded into `any` outside the retrying helper: a number outside the float64 range makes Unmarshal reject the document", f.JSONName))
				}
			})
		}
	}
}
