package rules

import (
	"fmt"
	"go/types"
	"strings"

	"golang.org/x/tools/go/ssa"

	"verif/checker/core"
)

func init() {
	register(&Property{
		ID: "C14",
		Rules: []Rule{
			{"C14/no-input-writes", ruleC14NoInputWrites},
			{"C14/no-annotation-aliasing", ruleC14NoAnnotationAliasing},
			{"C14/randomness-confined", ruleC14Randomness},
			{"C14/order-insensitive", func(c *Ctx) { c.ruleOrderInsensitive("C14/order-insensitive", "EV", "RES", "MAR") }},
		},
		Explanation: "Decides purity as a write effect and determinism as an iteration-order property: (1) no function reachable from Resolve, Validate or MarshalJSON writes a field of a Schema it was given, or a slice/map loaded from one, and nothing reachable from Validate can mutate the instance (no mutating reflect operation, no store through instance-derived memory); (2) the generic set-merge and the annotation methods never store or return a map that aliases an argument's map; (3) the only nondeterminism sources reachable are map iteration and maphash.MakeSeed, whose value flows only into SetSeed; no time, rand, environment, goroutine or select; (4) every order-randomised iteration (range over a map, reflect map iteration, range over properties()) reachable from these entry points is order-insensitive by the effect classifier. It does NOT observe equality of results across runs or processes.",
		NotDecided:  []string{"equality of verdicts and marshaled bytes across processes as an observed fact", "determinism of encoding/json and regexp themselves", "text of error messages (may legitimately depend on map order)"},
	})
}

func ruleC14NoInputWrites(c *Ctx) {
	const rule = "C14/no-input-writes"
	for _, name := range []string{"RES", "EV", "MAR"} {
		s := c.effects(rule, name)
		n := 0
		for _, sw := range s.Shared {
			if tn, ok := c.touchesType(sw.Loc, "Schema", "schemaWithoutMethods"); ok {
				n++
				c.R.Bad(rule, name+":"+sw.construct(), c.pos(sw.W.Instr),
					fmt.Sprintf("%s (reachable from %s) modifies the caller's %s: %s on %s; the schema tree given to Resolve/Validate/Marshal must not be modified", core.FuncName(sw.Fn), strings.Join(closureEntries[name], ", "), tn, sw.W.Kind, sw.Loc))
			}
		}
		for _, sw := range s.NoTarget {
			c.R.Unknown(rule, fmt.Sprintf("%s:%s:%s:no-target", name, core.FuncName(sw.Fn), sw.W.Kind), c.pos(sw.W.Instr), "the written location could not be traced")
		}
		if n == 0 {
			c.R.OK(rule, name+":no-schema-writes", "", fmt.Sprintf("%d writes / %d target locations in closure %s: none lies in or behind a Schema supplied by the caller", s.Writes, s.Targets, name))
		}
	}
	// the instance: no reflect mutator in EV, and no write whose root is the instance parameter
	s := c.effects(rule, "EV")
	cl := c.Closure(rule, "EV")
	bad := 0
	for _, fn := range cl.Sorted() {
		for _, call := range core.ReflectMutatorCalls(fn) {
			bad++
			c.R.Bad(rule, "EV:instance:"+core.FuncName(fn)+":"+core.CalleeKey(call.Common()), c.pos(call), "a mutating reflect operation is reachable from Validate; the instance must not be modified")
		}
	}
	for _, sw := range s.Shared {
		if sw.Loc.Root.Kind == core.RParam && isInterfaceType(sw.Loc.Root.V.Type()) {
			bad++
			c.R.Bad(rule, "EV:instance:"+sw.construct(), c.pos(sw.W.Instr), "write through memory derived from the instance argument")
		}
	}
	if bad == 0 {
		c.R.OK(rule, "EV:instance-untouched", "", "no mutating reflect operation and no write rooted in the instance parameter in the closure of Validate")
	}
}

// The annotation methods and the generic merge must not alias argument maps.
func ruleC14NoAnnotationAliasing(c *Ctx) {
	const rule = "C14/no-annotation-aliasing"
	ann := c.P.Named("annotations")
	if ann == nil {
		c.R.Unresolved(rule, "type annotations")
		return
	}
	var entries []*ssa.Function
	// methods of *annotations
	ms := c.P.SSA.MethodSets.MethodSet(types.NewPointer(ann))
	for i := 0; i < ms.Len(); i++ {
		if fn := c.P.SSA.MethodValue(ms.At(i)); fn != nil && fn.Synthetic == "" {
			entries = append(entries, fn)
		}
	}
	// generic helpers the methods call with map arguments (today: merge[int], merge[string])
	evc := c.Closure(rule, "EV")
	for _, fn := range evc.Sorted() {
		if fn.Parent() == nil && fn.Origin() != nil && fn.Signature.Recv() == nil {
			allMaps := fn.Signature.Params().Len() > 0
			for i := 0; i < fn.Signature.Params().Len(); i++ {
				if _, ok := fn.Signature.Params().At(i).Type().Underlying().(*types.Map); !ok {
					allMaps = false
				}
			}
			if allMaps {
				entries = append(entries, fn)
			}
		}
	}
	c.R.Floor(rule, "annotation methods and set helpers", len(entries), 5)
	nChecked := 0
	for _, fn := range entries {
		cl := c.P.Closure("ANN:"+core.FuncName(fn), c.G, fn)
		// analyse fn alone: its parameters are roots
		solo := &core.Closure{Name: cl.Name, Entries: []*ssa.Function{fn}, Set: map[*ssa.Function]bool{fn: true}}
		tr := core.NewTracer(c.P, solo, c.G)
		first := fn.Params[0]
		okRoot := func(l core.Loc) bool {
			switch l.Root.Kind {
			case core.RFresh, core.RTemp:
				return true
			case core.RParam:
				return l.Root.V == first
			case core.RExt:
				// result of a callee in the package analysed as its own entry (merge); accepted when that callee is itself in the entry list
				if call, ok := l.Root.V.(*ssa.Call); ok {
					if sc := call.Call.StaticCallee(); sc != nil {
						for _, e := range entries {
							if e == sc {
								return true
							}
						}
					}
				}
			}
			return false
		}
		core.EachInstr(fn, func(i ssa.Instruction) {
			switch x := i.(type) {
			case *ssa.Return:
				for ri, rv := range x.Results {
					if _, isMap := rv.Type().Underlying().(*types.Map); !isMap {
						continue
					}
					nChecked++
					bad := ""
					for l := range tr.Obj(rv) {
						if !okRoot(l) {
							bad = l.String()
						}
					}
					construct := fmt.Sprintf("%s:return#%d", core.FuncName(fn), ri)
					if bad != "" {
						c.R.Bad(rule, construct, c.pos(x), fmt.Sprintf("%s can return the map of an argument other than its destination (%s): the result would alias another frame's annotation set, so later insertions leak between sibling subschemas", core.FuncName(fn), bad))
					} else {
						c.R.OK(rule, construct, c.pos(x), "every returned map is the destination argument or a map allocated here (clone)")
					}
				}
			case *ssa.Store:
				if _, isMap := x.Val.Type().Underlying().(*types.Map); !isMap {
					return
				}
				fa, ok := x.Addr.(*ssa.FieldAddr)
				if !ok || !c.isPkgNamed(fa.X.Type(), "annotations") {
					return
				}
				nChecked++
				bad := ""
				for l := range tr.Obj(x.Val) {
					if !okRoot(l) {
						bad = l.String()
					}
				}
				// a callee result is judged by the callee's own obligation; a direct parameter is not
				if call, ok := x.Val.(*ssa.Call); ok {
					if sc := call.Call.StaticCallee(); sc != nil && c.P.InPkg(sc) {
						isEntry := false
						for _, e := range entries {
							if e == sc {
								isEntry = true
							}
						}
						if isEntry {
							bad = ""
						}
					}
				}
				construct := fmt.Sprintf("%s:store:%s", core.FuncName(fn), core.CanonFieldOf(fa.X.Type(), fa.Field))
				if bad != "" {
					c.R.Bad(rule, construct, c.pos(x), fmt.Sprintf("%s stores into an annotations field a map that belongs to an argument (%s) instead of a copy", core.FuncName(fn), bad))
				} else {
					c.R.OK(rule, construct, c.pos(x), "the stored map is freshly allocated, the receiver's own, or the result of a checked set helper")
				}
			}
		})
	}
	c.R.Floor(rule, "map-valued returns and annotation field stores", nChecked, 6)
}

func ruleC14Randomness(c *Ctx) {
	const rule = "C14/randomness-confined"
	forbiddenPkgs := map[string]bool{"time": true, "math/rand": true, "math/rand/v2": true, "crypto/rand": true, "os": true, "runtime": true, "os/exec": true, "net": true, "syscall": true}
	for _, name := range []string{"EV", "RES", "MAR"} {
		cl := c.Closure(rule, name)
		n := 0
		for _, fn := range cl.Sorted() {
			core.EachInstr(fn, func(i ssa.Instruction) {
				switch x := i.(type) {
				case *ssa.Go:
					c.R.Bad(rule, name+":"+core.FuncName(fn)+":go", c.pos(x), "goroutine started on a path reachable from "+name+": scheduling nondeterminism")
				case *ssa.Select:
					c.R.Bad(rule, name+":"+core.FuncName(fn)+":select", c.pos(x), "select statement reachable from "+name)
				case ssa.CallInstruction:
					callee := x.Common().StaticCallee()
					if callee == nil || c.P.InPkg(callee) {
						return
					}
					pkg := ""
					if callee.Pkg != nil {
						pkg = callee.Pkg.Pkg.Path()
					} else if o := callee.Object(); o != nil && o.Pkg() != nil {
						pkg = o.Pkg().Path()
					}
					n++
					if forbiddenPkgs[pkg] {
						c.R.Bad(rule, name+":"+core.FuncName(fn)+":"+core.CalleeKey(x.Common()), c.pos(x), fmt.Sprintf("call of %s reachable from %s: the result would depend on time, randomness or the environment", core.CalleeKey(x.Common()), strings.Join(closureEntries[name], ", ")))
					}
					if pkg == "hash/maphash" && (callee.Name() == "MakeSeed") {
						if v, ok := x.(ssa.Value); ok {
							if bad := seedEscapes(v); bad != "" {
								c.R.Bad(rule, name+":"+core.FuncName(fn)+":MakeSeed", c.pos(x), "the random hash seed flows into "+bad+" instead of only into (*maphash.Hash).SetSeed; the verdict could depend on it")
							} else {
								c.R.OK(rule, name+":"+core.FuncName(fn)+":MakeSeed", c.pos(x), "the random seed flows only into (*maphash.Hash).SetSeed")
							}
						}
					}
				}
			})
		}
		c.R.OK(rule, name+":no-time-rand-env", "", fmt.Sprintf("%d standard-library call sites in closure %s; none in time, math/rand, crypto/rand, os, runtime, net", n, name))
	}
}

// seedEscapes follows the uses of a seed value; it returns a description of
// the first use that is not SetSeed.
func seedEscapes(v ssa.Value) string {
	seen := map[ssa.Value]bool{}
	var walk func(v ssa.Value) string
	walk = func(v ssa.Value) string {
		if seen[v] {
			return ""
		}
		seen[v] = true
		refs := v.Referrers()
		if refs == nil {
			return ""
		}
		for _, r := range *refs {
			switch x := r.(type) {
			case *ssa.Store:
				if x.Val == v {
					if a, ok := x.Addr.(*ssa.Alloc); ok {
						if s := walk(a); s != "" {
							return s
						}
						continue
					}
					return "a store to " + x.Addr.Name()
				}
			case *ssa.UnOp:
				if s := walk(x); s != "" {
					return s
				}
			case *ssa.Phi:
				if s := walk(x); s != "" {
					return s
				}
			case *ssa.MakeClosure:
				// captured by a closure: follow the free variable
				if fn, ok := x.Fn.(*ssa.Function); ok {
					for bi, b := range x.Bindings {
						if b == v {
							if s := walk(fn.FreeVars[bi]); s != "" {
								return s
							}
						}
					}
				}
			case ssa.CallInstruction:
				key := core.CalleeKey(x.Common())
				if key == "hash/maphash.Hash.SetSeed" {
					continue
				}
				return "a call of " + key
			case *ssa.DebugRef:
			default:
				return fmt.Sprintf("%T", r)
			}
		}
		return ""
	}
	return walk(v)
}
