package rules

import (
	"fmt"
	"go/constant"
	"go/token"
	"go/types"
	"math"
	"sort"
	"strings"

	"golang.org/x/tools/go/ssa"

	"verif/checker/core"
)

func init() {
	register(&Property{
		ID: "C05",
		Rules: []Rule{
			{"C05/name-tables-agree", ruleC05Names},
			{"C05/dash-fields-handled", ruleC05Dash},
			{"C05/empty-preserved", ruleC05Empty},
			{"C05/fold-exact", ruleC05Fold},
			{"C05/extra-purged", ruleC05Extra},
			{"C05/integer-keywords", ruleC05Integers},
		},
		Explanation: "Marshal and unmarshal are two hand-written tables over the same fields; the checker recomputes both tables from the types (encoding/json's field resolution re-implemented) on every run and decides their agreement: equal JSON-name sets for the marshal wrapper, the unmarshal wrapper and every named Schema field; every field tagged `-` is read by MarshalJSON and written by UnmarshalJSON and its keyword is a wrapper field; no keyword whose empty-but-present value changes validation (enum, anyOf, oneOf; frozen table with reasons, unclassified for new slice/map fields) is marshaled through an omitempty slice/map; boolean folding compares the whole output with the two exact constants; the known names are purged from the Extra map unconditionally and duplicates between Extra and fields are rejected; all integer-valued keywords are shadowed by the range-checked integer type and copied back. It does NOT decide byte identity of a second marshal, nor value fidelity of const/enum/default contents.",
		NotDecided:  []string{"byte-identity of Marshal(Unmarshal(Marshal(s)))", "value-level fidelity of const, enum, default, examples contents (delegated to encoding/json)", "equivalence of validation behaviour after a round trip as an observed fact"},
	})
}

func ruleC05Names(c *Ctx) {
	const rule = "C05/name-tables-agree"
	mt, ut, _, _ := c.wrapperTypes(rule)
	if mt == nil || ut == nil {
		return
	}
	mf, uf := jsonFieldsOf(mt), jsonFieldsOf(ut)
	sf := c.SchemaFields(rule)
	c.R.Floor(rule, "marshal wrapper JSON names", len(mf), 50)
	for name := range mf {
		if _, ok := uf[name]; !ok {
			c.R.Bad(rule, "name:"+name, "", "keyword \""+name+"\" is written by MarshalJSON but the unmarshal wrapper has no field of that name: it would land in Extra and be lost as a keyword")
		} else {
			c.R.OKTable(rule, "name:"+name, "", "present in both wrappers")
		}
	}
	for name := range uf {
		if _, ok := mf[name]; !ok {
			c.R.Bad(rule, "name:"+name, "", "keyword \""+name+"\" is read by UnmarshalJSON but never written by MarshalJSON")
		}
	}
	// every named field of Schema is an effective member of both wrappers, resolved
	// either to the embedded Schema field itself or to a depth-0 shadow.
	for _, f := range sf {
		if f.JSONName == "" {
			continue
		}
		for wname, tab := range map[string]map[string]jsonField{"marshal": mf, "unmarshal": uf} {
			jf, ok := tab[f.JSONName]
			construct := wname + ":" + f.Name
			if !ok {
				c.R.Bad(rule, construct, c.P.Pos(f.Var.Pos()), fmt.Sprintf("Schema.%s (\"%s\") is not an effective member of the %s wrapper (dropped as ambiguous or hidden)", f.Name, f.JSONName, wname))
				continue
			}
			last := jf.GoPath[len(jf.GoPath)-1]
			if jf.Depth == 0 || last == f.Name {
				c.R.OKTable(rule, construct, c.P.Pos(f.Var.Pos()), fmt.Sprintf("resolves to %s (depth %d)", strings.Join(jf.GoPath, "."), jf.Depth))
			} else {
				c.R.Bad(rule, construct, c.P.Pos(f.Var.Pos()), fmt.Sprintf("\"%s\" resolves to %s, not to Schema.%s", f.JSONName, strings.Join(jf.GoPath, "."), f.Name))
			}
		}
	}
	// two Schema fields must not share one JSON name
	seen := map[string]string{}
	for _, f := range sf {
		if f.JSONName == "" {
			continue
		}
		if o, dup := seen[f.JSONName]; dup {
			c.R.Bad(rule, "duplicate-name:"+f.JSONName, c.P.Pos(f.Var.Pos()), fmt.Sprintf("Schema.%s and Schema.%s share the JSON name %q; encoding/json drops both", o, f.Name, f.JSONName))
		}
		seen[f.JSONName] = f.Name
	}
}

func ruleC05Dash(c *Ctx) {
	const rule = "C05/dash-fields-handled"
	mar := c.fn("Schema.MarshalJSON")
	unm := c.fn("(*Schema).UnmarshalJSON")
	if mar == nil || unm == nil {
		c.R.Unresolved(rule, "Schema.MarshalJSON / (*Schema).UnmarshalJSON")
		return
	}
	reads := map[string]bool{}
	for _, fn := range c.familyFuncs(mar) {
		for _, fr := range c.fieldAccesses(fn) {
			if fr.Owner == "Schema" && !fr.Whole {
				reads[fr.Field.Name()] = true
			}
		}
	}
	writes := map[string]bool{}
	for _, fn := range c.familyFuncs(unm) {
		core.EachInstr(fn, func(i ssa.Instruction) {
			switch x := i.(type) {
			case *ssa.Store:
				if fa, ok := x.Addr.(*ssa.FieldAddr); ok && c.fieldOwner(fa) == "Schema" {
					writes[core.CanonFieldOf(fa.X.Type(), fa.Field)] = true
				}
			case *ssa.MapUpdate:
				for _, s := range traceSources(x.Map) {
					if ld, ok := s.(*ssa.UnOp); ok {
						if fa, ok := ld.X.(*ssa.FieldAddr); ok && c.fieldOwner(fa) == "Schema" {
							writes[core.CanonFieldOf(fa.X.Type(), fa.Field)+"[]"] = true
						}
					}
				}
			case ssa.CallInstruction:
				// address of a field handed to a decoder or helper
				for _, a := range x.Common().Args {
					if fa, ok := peelIface(a).(*ssa.FieldAddr); ok && c.fieldOwner(fa) == "Schema" {
						writes[core.CanonFieldOf(fa.X.Type(), fa.Field)] = true
					}
				}
			}
		})
	}
	mt, ut, _, _ := c.wrapperTypes(rule)
	var mf, uf map[string]jsonField
	if mt != nil && ut != nil {
		mf, uf = jsonFieldsOf(mt), jsonFieldsOf(ut)
	}
	keyword := map[string]string{"Type": "type", "Types": "type", "Items": "items", "ItemsArray": "items", "DependencySchemas": "dependencies", "DependencyStrings": "dependencies"}
	n := 0
	for _, f := range c.SchemaFields(rule) {
		if !f.Dash || !f.Var.Exported() || f.Name == "Extra" || f.Name == "PropertyOrder" {
			continue
		}
		n++
		pos := c.P.Pos(f.Var.Pos())
		c.R.Check(reads[f.Name], rule, "marshal-reads:"+f.Name, pos, "MarshalJSON reads the field", "Schema."+f.Name+" is tagged `-` (invisible to encoding/json) and MarshalJSON never reads it: the keyword is lost on marshal")
		c.R.Check(writes[f.Name] || writes[f.Name+"[]"], rule, "unmarshal-writes:"+f.Name, pos, "UnmarshalJSON assigns the field", "Schema."+f.Name+" is tagged `-` and UnmarshalJSON never assigns it: the keyword is lost on unmarshal")
		kw, ok := keyword[f.Name]
		if !ok {
			c.R.Bad(rule, "keyword:"+f.Name, pos, "Schema."+f.Name+" is tagged `-` but the checker knows no keyword that carries it; add it to the marshal/unmarshal wrappers and to the checker's table")
			continue
		}
		if mf != nil {
			_, inM := mf[kw]
			_, inU := uf[kw]
			okDepth := inM && inU && mf[kw].Depth == 0 && uf[kw].Depth == 0
			c.R.Check(okDepth, rule, "keyword:"+f.Name, pos, "carried by the depth-0 wrapper field \""+kw+"\" in both wrappers", "keyword \""+kw+"\" that carries Schema."+f.Name+" is not a depth-0 field of both wrappers")
		}
	}
	c.R.Floor(rule, "exported Schema fields tagged `-` besides Extra and PropertyOrder", n, 6)
}

// keywords whose empty-but-present container value is equivalent to absence (one reason each),
// and those where it is not.
var emptyInsignificant = map[string]string{
	"allOf":             "an empty conjunction accepts everything, like absence",
	"prefixItems":       "no positional schemas: noteEndIndex(0) is a no-op",
	"required":          "no required names",
	"dependentRequired": "no dependencies",
	"$defs":             "definitions are only reached through references",
	"definitions":       "definitions are only reached through references",
	"patternProperties": "the evaluator tests len > 0",
	"dependentSchemas":  "no dependencies",
	"dependencies":      "no dependencies",
	"examples":          "annotation",
	"$vocabulary":       "not used for validation",
	"default":           "an empty RawMessage is not a JSON value; absent and empty are both 'no default'",
}
var emptySignificant = map[string]string{
	"enum":       "an empty enum rejects every instance",
	"anyOf":      "an empty disjunction rejects every instance",
	"oneOf":      "exactly-one of nothing rejects every instance",
	"type":       "an empty type list rejects every instance",
	"items":      "an empty draft-07 items array hands every item to additionalItems",
	"properties": "documented: marshaled even when empty",
}

func ruleC05Empty(c *Ctx) {
	const rule = "C05/empty-preserved"
	mt, _, _, _ := c.wrapperTypes(rule)
	if mt == nil {
		return
	}
	mar := c.fn("Schema.MarshalJSON")
	mf := jsonFieldsOf(mt)
	n := 0
	for _, name := range sortedKeys(mf) {
		jf := mf[name]
		isContainer := false
		switch jf.Type.Underlying().(type) {
		case *types.Slice, *types.Map:
			isContainer = true
		}
		_, isIface := jf.Type.Underlying().(*types.Interface)
		if why, sig := emptySignificant[name]; sig {
			n++
			if isContainer && jf.OmitEmpty {
				c.R.Bad(rule, "keyword:"+name, "", fmt.Sprintf("\"%s\" is marshaled from a %s with omitempty: a present-but-empty value is dropped, but %s", name, shortTypeName(jf.Type), why))
				continue
			}
			if !isIface {
				c.R.OKTable(rule, "keyword:"+name, "", "not an omitempty container")
				continue
			}
			// interface-typed shadow: must be assigned under a nil test of the Schema field, not a length test
			ok, msg := c.shadowAssignedUnderNilTest(mar, mt, jf)
			if ok {
				c.R.OK(rule, "keyword:"+name, "", "interface-typed wrapper field, set whenever the Schema field is non-nil: "+msg)
			} else {
				c.R.Bad(rule, "keyword:"+name, "", "\""+name+"\": "+msg+" ("+why+")")
			}
			continue
		}
		if !isContainer || !jf.OmitEmpty {
			continue
		}
		if why, ok := emptyInsignificant[name]; ok {
			c.R.OKTable(rule, "keyword:"+name, "", "empty is equivalent to absent: "+why)
		} else {
			c.R.Bad(rule, "unclassified-container:"+name, "", fmt.Sprintf("\"%s\" (%s, omitempty) is not in the checker's nil/empty significance table; decide whether an empty value changes validation", name, shortTypeName(jf.Type)))
		}
	}
	c.R.Floor(rule, "keywords whose empty value is significant", n, 5)
}

// shadowAssignedUnderNilTest: every store into the wrapper field jf in fn is
// guarded only by nil-comparisons / emptiness of strings of Schema fields, never by len(..) tests.
func (c *Ctx) shadowAssignedUnderNilTest(fn *ssa.Function, wrapper types.Type, jf jsonField) (bool, string) {
	if fn == nil {
		return false, "MarshalJSON not found"
	}
	fi := core.Info(fn)
	nStores := 0
	bad := ""
	var visit func(v ssa.Value, depth int)
	// the shadow may be assigned through a local (typ, items) first
	checkGuards := func(i ssa.Instruction) {
		for _, br := range fi.Guards(i.Block()) {
			cond, _ := br.Cond()
			if usesLen(cond, 4) {
				bad = "its assignment at " + c.pos(i) + " is guarded by a length test, so an empty but non-nil value is dropped"
			}
		}
	}
	visit = func(v ssa.Value, depth int) {
		if depth == 0 {
			return
		}
		switch x := v.(type) {
		case *ssa.Phi:
			for _, e := range x.Edges {
				visit(e, depth-1)
			}
		case *ssa.MakeInterface:
			nStores++
			checkGuards(x)
		}
	}
	core.EachInstr(fn, func(i ssa.Instruction) {
		st, ok := i.(*ssa.Store)
		if !ok {
			return
		}
		fa, ok := st.Addr.(*ssa.FieldAddr)
		if !ok || len(jf.Path) != 1 || fa.Field != jf.Path[0] || !types.Identical(derefType(fa.X.Type()), wrapper) {
			return
		}
		if _, isConstNil := st.Val.(*ssa.Const); isConstNil {
			return
		}
		checkGuards(st)
		visit(st.Val, 4)
		if _, ok := st.Val.(*ssa.MakeInterface); !ok {
			if _, ok := st.Val.(*ssa.Phi); !ok {
				nStores++
			}
		}
	})
	// ... or through a helper that is handed the address of the wrapper field: setIfNonNil(&ms.Enum, s.Enum)
	core.EachInstr(fn, func(i ssa.Instruction) {
		call, ok := i.(*ssa.Call)
		if !ok {
			return
		}
		h := call.Call.StaticCallee()
		if h == nil || !c.P.InPkg(h) || len(h.Blocks) == 0 {
			return
		}
		for ai, a := range call.Call.Args {
			fa, ok := a.(*ssa.FieldAddr)
			if !ok || len(jf.Path) != 1 || fa.Field != jf.Path[0] || !types.Identical(derefType(fa.X.Type()), wrapper) || ai >= len(h.Params) {
				continue
			}
			hi := core.Info(h)
			core.EachInstr(h, func(j ssa.Instruction) {
				st, ok := j.(*ssa.Store)
				if !ok || st.Addr != ssa.Value(h.Params[ai]) {
					return
				}
				if _, isConstNil := st.Val.(*ssa.Const); isConstNil {
					return
				}
				nStores++
				checkGuards(call)
				for _, br := range hi.Guards(st.Block()) {
					cond, _ := br.Cond()
					if usesLen(cond, 4) {
						bad = "its assignment in " + core.FuncName(h) + " at " + c.pos(st) + " is guarded by a length test, so an empty but non-nil value is dropped"
					}
				}
			})
		}
	})
	if nStores == 0 {
		return false, "the wrapper field is never assigned from the Schema field"
	}
	if bad != "" {
		return false, bad
	}
	return true, fmt.Sprintf("%d assignment(s), none guarded by a length test", nStores)
}

func derefType(t types.Type) types.Type {
	if p, ok := t.Underlying().(*types.Pointer); ok {
		return p.Elem()
	}
	return t
}

func usesLen(v ssa.Value, depth int) bool {
	if v == nil || depth == 0 {
		return false
	}
	switch x := v.(type) {
	case *ssa.Call:
		if core.CalleeKey(&x.Call) == "builtin.len" {
			return true
		}
	case *ssa.BinOp:
		return usesLen(x.X, depth-1) || usesLen(x.Y, depth-1)
	case *ssa.UnOp:
		return usesLen(x.X, depth-1)
	}
	return false
}

func constString(v ssa.Value) (string, bool) {
	switch x := v.(type) {
	case *ssa.Const:
		if x.Value != nil && x.Value.Kind() == constant.String {
			return constant.StringVal(x.Value), true
		}
	case *ssa.Convert:
		return constString(x.X)
	case *ssa.ChangeType:
		return constString(x.X)
	case *ssa.MakeInterface:
		return constString(x.X)
	}
	return "", false
}

func ruleC05Fold(c *Ctx) {
	const rule = "C05/fold-exact"
	mar := c.fn("Schema.MarshalJSON")
	if mar == nil {
		c.R.Unresolved(rule, "Schema.MarshalJSON")
		return
	}
	fi := core.Info(mar)
	want := map[string]string{"true": `{}`, "false": `{"not":true}`}
	found := map[string]bool{}
	core.EachInstr(mar, func(i ssa.Instruction) {
		cv, ok := i.(*ssa.Convert)
		if !ok {
			return
		}
		s, ok := constString(cv)
		if !ok || (s != "true" && s != "false") {
			return
		}
		if _, isSlice := cv.Type().Underlying().(*types.Slice); !isSlice {
			return
		}
		found[s] = true
		okExact := false
		why := "the replacement of the output by `" + s + "` is not guarded by an exact whole-output comparison"
		for _, br := range fi.DomGuards(cv.Block()) {
			cond, pol := br.Cond()
			if !pol || cond == nil {
				continue
			}
			switch x := cond.(type) {
			case *ssa.Call:
				key := core.CalleeKey(&x.Call)
				var k string
				var has bool
				for _, a := range x.Call.Args {
					if ks, ok := constString(a); ok {
						k, has = ks, true
					}
				}
				if key == "bytes.Equal" && has {
					if k == want[s] {
						okExact = true
					} else {
						why = fmt.Sprintf("`%s` is produced when the output equals %q, expected %q", s, k, want[s])
					}
				} else if has {
					why = fmt.Sprintf("`%s` is produced under %s(.., %q): a partial match folds schemas that are not the %s schema", s, key, k, s)
				}
			case *ssa.BinOp:
				if x.Op == token.EQL {
					for _, a := range []ssa.Value{x.X, x.Y} {
						if ks, ok := constString(a); ok && ks == want[s] {
							okExact = true
						}
					}
				}
			}
		}
		c.R.Check(okExact, rule, "fold:"+s, c.pos(cv), "`"+s+"` replaces the output only when the whole output equals "+want[s], why)
	})
	if !found["true"] && !found["false"] {
		c.R.OK(rule, "fold:absent", "", "MarshalJSON does not fold boolean schemas (nothing to check)")
	}
}

func ruleC05Extra(c *Ctx) {
	const rule = "C05/extra-purged"
	_, _, mh, uh := c.wrapperTypes(rule)
	if mh == nil || uh == nil {
		return
	}
	// unmarshal: delete(m, n) guarded only by iteration
	fi := core.Info(uh)
	nDel := 0
	core.EachInstr(uh, func(i ssa.Instruction) {
		call, ok := i.(*ssa.Call)
		// maps.DeleteFunc(m, func(k, _) bool { return names[k] }) deletes exactly the members of the name set, all of them
		if ok && core.CalleeKey(&call.Call) == "maps.DeleteFunc" && len(call.Call.Args) == 2 {
			if mt, isMap := call.Call.Args[0].Type().Underlying().(*types.Map); isMap && isEmptyInterface(mt.Elem()) {
				nDel++
				set, negated, okP := predMembership(call.Call.Args[1])
				c.R.Check(okP && !negated, rule, "unmarshal:delete-known-names", c.pos(call), "every key that is a JSON name of the struct is deleted from the Extra map", "the deletion of known keywords from the Extra map is not `delete every key that is a member of the name set`: a known keyword can stay in Extra and be emitted twice on marshal")
				c.R.Check(okP && c.fromPkgCall(set) != nil, rule, "unmarshal:delete-keys-are-name-set", c.pos(call), "the deleted keys are the members of the struct's JSON-name set", "the deleted keys are not decided by the JSON-name set computed by the package")
			}
			return
		}
		if !ok || core.CalleeKey(&call.Call) != "builtin.delete" {
			return
		}
		mt, isMap := call.Call.Args[0].Type().Underlying().(*types.Map)
		if !isMap || !isEmptyInterface(mt.Elem()) {
			return
		}
		nDel++
		// the deletion must happen in every iteration of the loop over the names:
		// its block post-dominates the loop body's entry.
		extraGuard := "no enclosing range loop"
		for _, br := range fi.DomGuards(call.Block()) {
			cond, pol := br.Cond()
			if ext, ok := cond.(*ssa.Extract); ok && pol {
				if _, isNext := ext.Tuple.(*ssa.Next); isNext && ext.Index == 0 {
					body := br.Block.Succs[0]
					if fi.PostDominates(call.Block(), body) {
						extraGuard = ""
					} else {
						extraGuard = c.pos(br.Block.Instrs[len(br.Block.Instrs)-1]) + ": an iteration can skip the deletion"
					}
				}
			}
		}
		c.R.Check(extraGuard == "", rule, "unmarshal:delete-known-names", c.pos(call), "every JSON name of the struct is deleted from the Extra map in every iteration",
			"the deletion of known keywords from the Extra map is conditional ("+extraGuard+"): a known keyword can stay in Extra and be emitted twice on marshal")
		// the keys deleted are the elements of a name set returned by a package function
		okKeys := false
		for _, s := range traceSources(call.Call.Args[1]) {
			if ext, ok := s.(*ssa.Extract); ok {
				if nx, ok := ext.Tuple.(*ssa.Next); ok {
					if rg, ok := nx.Iter.(*ssa.Range); ok {
						for _, src := range traceSources(rg.X) {
							if sc, ok := src.(*ssa.Call); ok {
								if callee := sc.Call.StaticCallee(); callee != nil && c.P.InPkg(callee) {
									okKeys = true
								}
							}
						}
					}
				}
			}
		}
		c.R.Check(okKeys, rule, "unmarshal:delete-keys-are-name-set", c.pos(call), "the deleted keys range over the struct's JSON-name set", "the deleted keys do not range over the JSON-name set computed by the package")
	})
	// the constructive form: the Extra map is built from the keys that are not JSON names of the struct
	var nonMember func(mu *ssa.MapUpdate, depth int) bool
	nonMember = func(mu *ssa.MapUpdate, depth int) bool {
		for _, g := range guardsOf(mu) {
			if lk, ok := g.Cond.(*ssa.Lookup); ok && !g.Pol && sharesSource(lk.Index, mu.Key) && c.fromPkgCall(lk.X) != nil {
				return true
			}
		}
		if depth == 0 {
			return false
		}
		// the key ranges over another map: every entry of that map must have been entered under the test
		for _, src := range append(traceSources(mu.Key), mu.Key) {
			ext, ok := src.(*ssa.Extract)
			if !ok {
				continue
			}
			nx, ok := ext.Tuple.(*ssa.Next)
			if !ok {
				continue
			}
			rg, ok := nx.Iter.(*ssa.Range)
			if !ok {
				continue
			}
			n, all := 0, true
			for _, hf := range c.familyFuncs(uh) {
				core.EachInstr(hf, func(i ssa.Instruction) {
					if mu2, ok := i.(*ssa.MapUpdate); ok && mu2 != mu && sharesSourceDeep(mu2.Map, rg.X) {
						n++
						if !nonMember(mu2, depth-1) {
							all = false
						}
					}
				})
			}
			if n > 0 && all {
				return true
			}
		}
		return false
	}
	core.EachInstr(uh, func(i ssa.Instruction) {
		mu, ok := i.(*ssa.MapUpdate)
		if !ok {
			return
		}
		if mt, isMap := mu.Map.Type().Underlying().(*types.Map); !isMap || !isEmptyInterface(mt.Elem()) {
			return
		}
		nDel++
		c.R.Check(nonMember(mu, 2), rule, "unmarshal:only-unknown-keys-entered", c.pos(mu), "a key enters the Extra map only after the test that it is not a JSON name of the struct", "a key is entered into the Extra map without the test that it is not one of the struct's JSON names: a known keyword can end up in Extra and be emitted twice on marshal")
	})
	c.R.Floor(rule, "deletions from (or guarded entries into) the generic map in the unmarshal splice helper", nDel, 1)
	// marshal: a key of the map that duplicates a struct field is an error
	fm := core.Info(mh)
	okDup := false
	core.EachInstr(mh, func(i ssa.Instruction) {
		ret, ok := i.(*ssa.Return)
		if !ok || len(ret.Results) != 2 {
			return
		}
		if k, isConst := ret.Results[1].(*ssa.Const); isConst && k.IsNil() {
			return
		}
		for _, br := range fm.DomGuards(ret.Block()) {
			cond, pol := br.Cond()
			if lk, ok := cond.(*ssa.Lookup); ok && pol {
				if m, isMap := lk.X.Type().Underlying().(*types.Map); isMap && tString(m.Key()) {
					okDup = true
				}
			}
		}
	})
	c.R.Check(okDup, rule, "marshal:duplicate-key-rejected", c.P.Pos(mh.Pos()), "a key of the extra map that equals a struct field's JSON name makes marshal fail", "the marshal splice helper no longer rejects an extra key that duplicates a keyword: the output would contain the key twice")
}

func isErrNilTest(cond ssa.Value) bool {
	bo, ok := cond.(*ssa.BinOp)
	if !ok || (bo.Op != token.NEQ && bo.Op != token.EQL) {
		return false
	}
	for _, v := range []ssa.Value{bo.X, bo.Y} {
		if k, ok := v.(*ssa.Const); ok && k.IsNil() {
			other := bo.X
			if v == bo.X {
				other = bo.Y
			}
			if types.Identical(other.Type(), types.Universe.Lookup("error").Type()) {
				return true
			}
		}
	}
	return false
}

func ruleC05Integers(c *Ctx) {
	const rule = "C05/integer-keywords"
	_, ut, _, _ := c.wrapperTypes(rule)
	unm := c.fn("(*Schema).UnmarshalJSON")
	if ut == nil || unm == nil {
		return
	}
	uf := jsonFieldsOf(ut)
	// pairs (Schema field, wrapper field) linked by a call that receives &s.F and ms.W
	linked := map[string]string{}
	for _, fn := range c.familyFuncs(unm) {
		core.EachInstr(fn, func(i ssa.Instruction) {
			call, ok := i.(ssa.CallInstruction)
			if !ok {
				return
			}
			var sfield, wfield string
			for _, a := range call.Common().Args {
				if fa, ok := a.(*ssa.FieldAddr); ok && c.fieldOwner(fa) == "Schema" {
					sfield = core.CanonFieldOf(fa.X.Type(), fa.Field)
				}
				for _, s := range traceSources(a) {
					if ld, ok := s.(*ssa.UnOp); ok {
						if fa, ok := ld.X.(*ssa.FieldAddr); ok && types.Identical(derefType(fa.X.Type()), ut) {
							wfield = core.CanonFieldOf(fa.X.Type(), fa.Field)
						}
					}
				}
			}
			if sfield != "" && wfield != "" {
				linked[sfield] = wfield
			}
		})
	}
	n := 0
	for _, f := range c.SchemaFields(rule) {
		pt, isPtr := f.Var.Type().(*types.Pointer)
		if !isPtr || f.JSONName == "" {
			continue
		}
		b, isBasic := pt.Elem().Underlying().(*types.Basic)
		if !isBasic || b.Kind() != types.Int {
			continue
		}
		n++
		pos := c.P.Pos(f.Var.Pos())
		jf, ok := uf[f.JSONName]
		if !ok || jf.Depth != 0 {
			c.R.Bad(rule, "shadow:"+f.Name, pos, "integer keyword \""+f.JSONName+"\" is decoded directly into *int: 5.0 is rejected and large values behave differently on 32-bit platforms")
			continue
		}
		et := derefType(jf.Type)
		c.R.Check(c.hasMethod(et, "UnmarshalJSON"), rule, "shadow:"+f.Name, pos, "decoded through "+shortTypeName(jf.Type)+" with its own UnmarshalJSON", "the wrapper field for \""+f.JSONName+"\" has no custom UnmarshalJSON")
		w := jf.GoPath[len(jf.GoPath)-1]
		c.R.Check(linked[f.Name] == w, rule, "copy-back:"+f.Name, pos, "copied back from wrapper field "+w, fmt.Sprintf("Schema.%s is not copied back from the wrapper field %s (linked to %q): the keyword is lost or crossed on unmarshal", f.Name, w, linked[f.Name]))
	}
	c.R.Floor(rule, "integer-valued keywords", n, 8)
}

// ---- further clauses ----

func init() {
	p := Properties["C05"]
	p.Rules = append(p.Rules, Rule{"C05/const-null", ruleC05ConstNull}, Rule{"C05/name-set-embedded", ruleC05NameSetEmbedded}, Rule{"C05/name-set-exact", func(c *Ctx) { ruleNameSetExact(c, "C05/name-set-exact") }})
}

// `"const": null` must unmarshal to a non-nil pointer to nil: the wrapper takes
// "const" as raw bytes and a fresh *any is stored under an exact comparison with `null`.
func ruleC05ConstNull(c *Ctx) {
	const rule = "C05/const-null"
	_, ut, _, _ := c.wrapperTypes(rule)
	unm := c.fn("(*Schema).UnmarshalJSON")
	if ut == nil || unm == nil {
		return
	}
	jf, ok := jsonFieldsOf(ut)["const"]
	raw := ok && jf.Depth == 0 && isNamed(jf.Type, "encoding/json", "RawMessage")
	c.R.Check(raw, rule, "wrapper:const-is-raw", "", "\"const\" is captured as raw bytes by the unmarshal wrapper", "\"const\" is decoded directly into *any: encoding/json sets the pointer to nil for `null`, so {\"const\": null} would lose its constraint")
	found := false
	for _, fn := range c.familyFuncs(unm) {
		fi := core.Info(fn)
		core.EachInstr(fn, func(i ssa.Instruction) {
			st, ok := i.(*ssa.Store)
			if !ok {
				return
			}
			a, ok := st.Val.(*ssa.Alloc)
			if !ok || !a.Heap || !isEmptyInterface(derefType(a.Type())) {
				return
			}
			for _, br := range fi.DomGuards(st.Block()) {
				cond, pol := br.Cond()
				if call, ok := cond.(*ssa.Call); ok && pol && core.CalleeKey(&call.Call) == "bytes.Equal" {
					for _, arg := range call.Call.Args {
						if s, ok := constString(arg); ok && s == "null" {
							found = true
						}
					}
				}
			}
		})
	}
	c.R.Check(found, rule, "null-becomes-pointer-to-nil", c.P.Pos(unm.Pos()), "a raw `null` is turned into a fresh non-nil *any", "no store of a fresh *any guarded by an exact comparison of the raw bytes with `null`: {\"const\": null} would unmarshal to 'no const'")
}

// the JSON-name set used by the splice helpers must include the names of embedded structs
// (the wrappers embed *schemaWithoutMethods): the name-set function recurses into anonymous fields.
func ruleC05NameSetEmbedded(c *Ctx) {
	const rule = "C05/name-set-embedded"
	_, _, mh, uh := c.wrapperTypes(rule)
	var nameFn *ssa.Function
	for _, h := range []*ssa.Function{mh, uh} {
		if h == nil {
			continue
		}
		core.EachInstr(h, func(i ssa.Instruction) {
			if call, ok := i.(*ssa.Call); ok {
				if callee := call.Call.StaticCallee(); callee != nil && c.P.InPkg(callee) {
					if m, ok := callee.Signature.Results().At(0).Type().Underlying().(*types.Map); ok && callee.Signature.Results().Len() == 1 && tString(m.Key()) && tBool(m.Elem()) {
						nameFn = callee
					}
				}
			}
		})
	}
	if nameFn == nil {
		c.R.Unresolved(rule, "JSON-name-set function used by the splice helpers")
		return
	}
	fi := core.Info(nameFn)
	okRec := false
	underAnonymous := func(b *ssa.BasicBlock) bool {
		for _, br := range fi.DomGuards(b) {
			cond, pol := br.Cond()
			if fld, ok := cond.(*ssa.Field); ok && pol && core.CanonFieldOf(fld.X.Type(), fld.Field) == "Anonymous" {
				return true
			}
			if ld, ok := cond.(*ssa.UnOp); ok && pol {
				if fa, ok := ld.X.(*ssa.FieldAddr); ok && core.CanonFieldOf(fa.X.Type(), fa.Field) == "Anonymous" {
					return true
				}
			}
		}
		return false
	}
	core.EachInstr(nameFn, func(i ssa.Instruction) {
		// maps.Copy(set, nameFn(embedded type)) under the Anonymous test
		if call, isCall := i.(*ssa.Call); isCall && core.CalleeKey(&call.Call) == "maps.Copy" && len(call.Call.Args) == 2 {
			for _, src := range traceSources(call.Call.Args[1]) {
				if sc, ok := src.(*ssa.Call); ok && sc.Call.StaticCallee() == nameFn && underAnonymous(call.Block()) {
					okRec = true
				}
			}
			return
		}
		mu, ok := i.(*ssa.MapUpdate)
		if !ok {
			return
		}
		// inserted key comes from ranging over a recursive call's result, under an Anonymous test
		fromSelf := false
		for _, s := range traceSources(mu.Key) {
			if ext, ok := s.(*ssa.Extract); ok {
				if nx, ok := ext.Tuple.(*ssa.Next); ok {
					if rg, ok := nx.Iter.(*ssa.Range); ok {
						for _, src := range traceSources(rg.X) {
							if sc, ok := src.(*ssa.Call); ok && sc.Call.StaticCallee() == nameFn {
								fromSelf = true
							}
						}
					}
				}
			}
		}
		if !fromSelf {
			return
		}
		for _, br := range fi.DomGuards(mu.Block()) {
			cond, pol := br.Cond()
			if fld, ok := cond.(*ssa.Field); ok && pol && core.CanonFieldOf(fld.X.Type(), fld.Field) == "Anonymous" {
				okRec = true
			}
			if ld, ok := cond.(*ssa.UnOp); ok && pol {
				if fa, ok := ld.X.(*ssa.FieldAddr); ok && core.CanonFieldOf(fa.X.Type(), fa.Field) == "Anonymous" {
					okRec = true
				}
			}
		}
	})
	c.R.Check(okRec, rule, core.FuncName(nameFn)+":embedded-names-included", c.P.Pos(nameFn.Pos()), "for an anonymous field the names of the embedded struct (recursive call) are inserted into the set",
		"the JSON-name set no longer includes the names of embedded structs: every keyword of the embedded Schema would also be copied into Extra and emitted twice")
}

// nameSetFn finds the function computing the JSON-name set used by the splice helpers.
func (c *Ctx) nameSetFn(rule string) *ssa.Function {
	_, _, mh, uh := c.wrapperTypes(rule)
	var nameFn *ssa.Function
	for _, h := range []*ssa.Function{mh, uh} {
		if h == nil {
			continue
		}
		core.EachInstr(h, func(i ssa.Instruction) {
			if call, ok := i.(*ssa.Call); ok {
				if callee := call.Call.StaticCallee(); callee != nil && c.P.InPkg(callee) && callee.Signature.Results().Len() == 1 {
					if m, ok := callee.Signature.Results().At(0).Type().Underlying().(*types.Map); ok && tString(m.Key()) && tBool(m.Elem()) {
						nameFn = callee
					}
				}
			}
		})
	}
	return nameFn
}

// The JSON-name set decides which keys are keywords (exactly) and which go to
// Extra: every member inserted must be a field's JSON name as computed by the
// tag parser, or a member of the set of an embedded struct - never a
// transformed spelling.
func ruleNameSetExact(c *Ctx, rule string) {
	nameFn := c.nameSetFn(rule)
	if nameFn == nil {
		c.R.Unresolved(rule, "JSON-name-set function used by the splice helpers")
		return
	}
	n := 0
	core.EachInstr(nameFn, func(i ssa.Instruction) {
		// maps.Copy(set, other): the members inserted are those of other, which must be the set of an embedded struct
		if call, isCall := i.(*ssa.Call); isCall && core.CalleeKey(&call.Call) == "maps.Copy" && len(call.Call.Args) == 2 {
			n++
			okSrc := false
			for _, src := range traceSources(call.Call.Args[1]) {
				if sc, ok := src.(*ssa.Call); ok && sc.Call.StaticCallee() == nameFn {
					okSrc = true
				}
			}
			c.R.Check(okSrc, rule, fmt.Sprintf("%s:insert#%d", core.FuncName(nameFn), n), c.pos(call), "the members copied in are those of an embedded struct's set", "the JSON-name set receives the members of a map that is not the name set of an embedded struct")
			return
		}
		mu, ok := i.(*ssa.MapUpdate)
		if !ok {
			return
		}
		n++
		okKey := true
		why := ""
		for _, s := range traceSources(mu.Key) {
			switch x := s.(type) {
			case *ssa.Field:
				if core.CanonFieldOf(x.X.Type(), x.Field) != "name" {
					okKey, why = false, "field "+core.CanonFieldOf(x.X.Type(), x.Field)
				}
			case *ssa.UnOp:
				if fa, ok := x.X.(*ssa.FieldAddr); ok && core.CanonFieldOf(fa.X.Type(), fa.Field) == "name" {
					continue
				}
				okKey, why = false, "a computed value"
			case *ssa.Extract:
				if _, isNext := x.Tuple.(*ssa.Next); !isNext {
					okKey, why = false, "a computed value"
				}
			case *ssa.Call:
				okKey, why = false, "the result of "+core.CalleeKey(&x.Call)
			default:
				okKey, why = false, fmt.Sprintf("%T", s)
			}
		}
		// a field that encoding/json omits (unexported, or tagged "-") has no JSON name: it must not be inserted
		// (its name is the empty string, which would make the unknown keyword "" look known)
		fromInfoName := false
		for _, s := range traceSources(mu.Key) {
			switch x := s.(type) {
			case *ssa.Field:
				fromInfoName = fromInfoName || core.CanonFieldOf(x.X.Type(), x.Field) == "name"
			case *ssa.UnOp:
				if fa, ok := x.X.(*ssa.FieldAddr); ok && core.CanonFieldOf(fa.X.Type(), fa.Field) == "name" {
					fromInfoName = true
				}
			}
		}
		if fromInfoName {
			notOmitted := false
			for _, g := range guardsOf(mu) {
				if !g.Pol && mentionsStructFieldNamed(g.Cond, "omit", 4) {
					notOmitted = true
				}
			}
			c.R.Check(notOmitted, rule, fmt.Sprintf("%s:insert#%d:not-omitted", core.FuncName(nameFn), n), c.pos(mu), "only fields that are not omitted enter the name set", "a field's name enters the JSON-name set without the test that the field is not omitted: omitted fields have the empty name, so the keyword \"\" would be treated as known and dropped from Extra")
		}
		c.R.Check(okKey, rule, fmt.Sprintf("%s:insert#%d", core.FuncName(nameFn), n), c.pos(mu), "the inserted member is a field's JSON name (or a member of an embedded struct's set)",
			"the JSON-name set receives "+why+" instead of a field's exact JSON name: keys that are not keywords would be treated as known (hidden from Extra, let through to the case-insensitive struct decoder)")
	})
	c.R.Floor(rule, "insertions into the JSON-name set", n, 2)
}

func init() {
	p := Properties["C05"]
	p.Rules = append(p.Rules, Rule{"C05/union-variants", ruleC05UnionVariants})
}

// The union keywords (type, items, dependencies) are decoded into the Go field
// of the variant actually present: each variant field is assigned only under
// its own discriminator, and a decoded array that may be empty is assigned as
// decoded (not rebuilt with append, which turns an empty array into nil).
func ruleC05UnionVariants(c *Ctx) {
	const rule = "C05/union-variants"
	unm := c.fn("(*Schema).UnmarshalJSON")
	if unm == nil {
		c.R.Unresolved(rule, "(*Schema).UnmarshalJSON")
		return
	}
	// variant field -> byte that must (true) / must not (false) be the first byte of the raw value
	type want struct {
		b   byte
		pol bool
	}
	wants := map[string]want{
		"Type": {'"', true}, "Types": {'[', true},
		"ItemsArray": {'[', true}, "Items": {'[', false},
		"DependencyStrings": {'[', true}, "DependencySchemas": {'[', false},
	}
	n := 0
	for _, fn := range c.familyFuncs(unm) {
		core.EachInstr(fn, func(i ssa.Instruction) {
			var field string
			var at ssa.Instruction
			var val ssa.Value
			switch x := i.(type) {
			case *ssa.Store:
				if fa, ok := x.Addr.(*ssa.FieldAddr); ok && c.fieldOwner(fa) == "Schema" {
					field, at, val = core.CanonFieldOf(fa.X.Type(), fa.Field), x, x.Val
				}
			case *ssa.MapUpdate:
				for _, s := range traceSources(x.Map) {
					if ld, ok := s.(*ssa.UnOp); ok {
						if fa, ok := ld.X.(*ssa.FieldAddr); ok && c.fieldOwner(fa) == "Schema" {
							field, at = core.CanonFieldOf(fa.X.Type(), fa.Field), x
						}
					}
				}
			case *ssa.Call:
				if core.CalleeKey(&x.Call) == "encoding/json.Unmarshal" {
					if fa, ok := peelIface(x.Call.Args[1]).(*ssa.FieldAddr); ok && c.fieldOwner(fa) == "Schema" {
						field, at = core.CanonFieldOf(fa.X.Type(), fa.Field), x
					}
				}
			}
			w, ok := wants[field]
			if !ok {
				return
			}
			// lazily created maps (s.DependencyStrings = make(...)) are part of their variant too
			n++
			discr, found := false, false
			for _, g := range controlGuards(at) {
				x, k, equal, isEq := eqConst(g)
				if !isEq {
					continue
				}
				kv, isInt := constInt(k)
				if !isInt || !isFirstByte(x) {
					continue
				}
				found = true
				if byte(kv) == w.b && equal == w.pol {
					discr = true
				}
				if byte(kv) != w.b && !w.pol && !equal && (field == "DependencySchemas" || field == "Items") {
					// the "everything else" variant is withheld for some first byte: that value is decoded nowhere
					c.R.Bad(rule, "variant:"+field+":value-dropped", c.pos(at), fmt.Sprintf("Schema.%s is not assigned when the raw value starts with %q: such a value (e.g. the boolean schema true) is parsed but stored in neither variant, so the subschema location disappears from the schema tree (a $ref to it fails, and the document does not round-trip)", field, string(rune(kv))))
					return
				}
				if byte(kv) != w.b && w.pol && equal {
					// assigned under another variant's discriminator
					discr = false
					c.R.Bad(rule, "variant:"+field+":wrong-discriminator", c.pos(at), fmt.Sprintf("Schema.%s is assigned when the raw value starts with %q: the document's variant is not preserved (e.g. a one-element type list becomes a single type), so marshaling again does not reproduce an equivalent document", field, string(rune(kv))))
					return
				}
			}
			if !found {
				c.R.Bad(rule, "variant:"+field, c.pos(at), "Schema."+field+" is assigned without a test of the raw value's first byte")
				return
			}
			c.R.Check(discr, rule, "variant:"+field, c.pos(at), fmt.Sprintf("assigned only when the raw value %s with %q", map[bool]string{true: "starts", false: "does not start"}[w.pol], string(rune(w.b))), fmt.Sprintf("Schema.%s is not assigned under its own discriminator (first byte %q, polarity %v)", field, string(rune(w.b)), w.pol))
			// empty arrays must survive: the value stored must not be rebuilt with append from a possibly nil base
			if val != nil && (field == "ItemsArray" || field == "Types") {
				if call, ok := val.(*ssa.Call); ok && core.CalleeKey(&call.Call) == "builtin.append" {
					c.R.Bad(rule, "variant:"+field+":empty-preserved", c.pos(at), "Schema."+field+" is rebuilt element by element with append: an empty array in the document leaves the field nil, so `\"items\": []` (which hands every item to additionalItems) or `\"type\": []` is lost")
				}
			}
		})
	}
	c.R.Floor(rule, "assignments of union variant fields", n, 6)
}

// isFirstByte: v is raw[0] for a raw JSON value.
func isFirstByte(v ssa.Value) bool {
	ld, ok := v.(*ssa.UnOp)
	if !ok {
		return false
	}
	ia, ok := ld.X.(*ssa.IndexAddr)
	if !ok {
		return false
	}
	k, ok := ia.Index.(*ssa.Const)
	if !ok {
		return false
	}
	kv, ok := constInt(k)
	return ok && kv == 0
}

// mentionsStructFieldNamed: v is (the negation of) a load of a struct field with the given canonical name.
func mentionsStructFieldNamed(v ssa.Value, name string, depth int) bool {
	if v == nil || depth == 0 {
		return false
	}
	switch x := v.(type) {
	case *ssa.Field:
		return core.CanonFieldOf(x.X.Type(), x.Field) == name || mentionsStructFieldNamed(x.X, name, depth-1)
	case *ssa.UnOp:
		if fa, ok := x.X.(*ssa.FieldAddr); ok {
			return core.CanonFieldOf(fa.X.Type(), fa.Field) == name
		}
		return mentionsStructFieldNamed(x.X, name, depth-1)
	case *ssa.BinOp:
		return mentionsStructFieldNamed(x.X, name, depth-1) || mentionsStructFieldNamed(x.Y, name, depth-1)
	}
	return false
}

func init() {
	p := Properties["C05"]
	p.Rules = append(p.Rules, Rule{"C05/errors-checked", ruleC05ErrorsChecked})
}

// No error produced while a document is decoded (or a schema encoded) is dropped: every error-typed result
// of a call in the families of UnmarshalJSON and MarshalJSON is tested, returned or handed on. An error that
// is overwritten before it is looked at (a shared `err` variable assigned twice) lets an ill-typed keyword
// through: the document is accepted and does not round-trip.
func ruleC05ErrorsChecked(c *Ctx) {
	const rule = "C05/errors-checked"
	n := 0
	for _, name := range []string{"(*Schema).UnmarshalJSON", "Schema.MarshalJSON"} {
		root := c.fn(name)
		if root == nil {
			c.R.Unresolved(rule, name)
			continue
		}
		c.eachFam(root, func(i ssa.Instruction) {
			call, ok := i.(*ssa.Call)
			if !ok {
				return
			}
			res := call.Call.Signature().Results()
			if res.Len() == 0 || !isErrorType(res.At(res.Len()-1).Type()) {
				return
			}
			var errVal ssa.Value = call
			if res.Len() > 1 {
				errVal = nil
				if refs := call.Referrers(); refs != nil {
					for _, r := range *refs {
						if ex, ok := r.(*ssa.Extract); ok && ex.Index == res.Len()-1 {
							errVal = ex
						}
					}
				}
			}
			n++
			construct := core.FuncName(call.Parent()) + ":" + core.CalleeKey(&call.Call) + "@" + c.pos(call)
			if errVal == nil {
				c.R.Bad(rule, construct, c.pos(call), "the error result of this call is discarded: a keyword of the wrong JSON type would be accepted silently")
				return
			}
			c.R.Check(observedOnAllPaths(errVal), rule, construct, c.pos(call), "the error is tested or returned", "the error returned here is never looked at (it is overwritten or dropped before any test): a document with an ill-typed keyword is accepted and does not survive a round trip")
		})
	}
	c.R.Floor(rule, "error-returning calls in the marshal/unmarshal code", n, 10)
}

// valueObserved: the value reaches a comparison, a return, a call argument, a store or a send - directly or through phis.
func valueObserved(v ssa.Value, seen map[ssa.Value]bool) bool {
	if seen[v] {
		return false
	}
	seen[v] = true
	refs := v.Referrers()
	if refs == nil {
		return false
	}
	for _, r := range *refs {
		switch x := r.(type) {
		case *ssa.Phi:
			if valueObserved(x, seen) {
				return true
			}
		case *ssa.DebugRef:
		default:
			return true
		}
	}
	return false
}

// observedOnAllPaths: on every path from the definition of v to a return of its function, some instruction
// looks at the value (a comparison, a return, a call argument, a store ...), where the value is followed
// through the phis it flows into along that path. A path on which the variable is assigned again before
// anyone looked (the new value, not v, reaches the merge) ends unobserved.
func observedOnAllPaths(v ssa.Value) bool {
	def, ok := v.(ssa.Instruction)
	if !ok {
		return true
	}
	uses := func(i ssa.Instruction, names map[ssa.Value]bool) bool {
		switch i.(type) {
		case *ssa.Phi, *ssa.DebugRef:
			return false
		}
		for _, op := range i.Operands(nil) {
			if op != nil && *op != nil && names[*op] {
				// an Extract of the tuple is not a look at the error
				if _, isEx := i.(*ssa.Extract); isEx {
					return false
				}
				return true
			}
		}
		return false
	}
	type state struct {
		b   *ssa.BasicBlock
		key string
	}
	seen := map[state]bool{}
	var walk func(b *ssa.BasicBlock, from int, names map[ssa.Value]bool) bool
	keyOf := func(names map[ssa.Value]bool) string {
		var ks []string
		for n := range names {
			ks = append(ks, n.Name())
		}
		sort.Strings(ks)
		return strings.Join(ks, ",")
	}
	walk = func(b *ssa.BasicBlock, from int, names map[ssa.Value]bool) bool {
		for k := from; k < len(b.Instrs); k++ {
			if uses(b.Instrs[k], names) {
				return true
			}
		}
		last := b.Instrs[len(b.Instrs)-1]
		switch last.(type) {
		case *ssa.Return:
			return false
		case *ssa.Panic:
			return true
		}
		for si, succ := range b.Succs {
			_ = si
			next := map[ssa.Value]bool{}
			for n := range names {
				next[n] = true
			}
			// which predecessor index is b in succ?
			for pi, pr := range succ.Preds {
				if pr != b {
					continue
				}
				for _, ins := range succ.Instrs {
					phi, isPhi := ins.(*ssa.Phi)
					if !isPhi {
						break
					}
					if names[phi.Edges[pi]] {
						next[phi] = true
					} else {
						delete(next, phi) // redefined along this edge
					}
				}
			}
			st := state{succ, keyOf(next)}
			if seen[st] {
				continue
			}
			seen[st] = true
			if !walk(succ, 0, next) {
				return false
			}
		}
		return true
	}
	b := def.Block()
	idx := 0
	for k, i := range b.Instrs {
		if i == def {
			idx = k + 1
		}
	}
	return walk(b, idx, map[ssa.Value]bool{v: true})
}

// The same discipline for resolution: an error produced while references, URIs and JSON Pointers are resolved
// (a dangling pointer, an unknown anchor, a loader failure) must make Resolve fail. Every error-typed result
// of a call in a package function of the resolution closure is looked at on every path before the function
// returns; an error that is overwritten first (one `err` shared by the $ref and the $dynamicRef step) leaves a
// reference unresolved in a schema that Resolve reports as fine.
func ruleResolveErrorsChecked(c *Ctx, rule string) {
	n := 0
	ev := c.Closure(rule, "EV")
	for _, fn := range c.Closure(rule, "RES").Sorted() {
		if !c.P.InPkg(fn) || len(fn.Blocks) == 0 || ev.Has(fn) {
			continue
		}
		per := map[string]int{}
		core.EachInstr(fn, func(i ssa.Instruction) {
			call, ok := i.(*ssa.Call)
			if !ok {
				return
			}
			res := call.Call.Signature().Results()
			if res.Len() == 0 || !isErrorType(res.At(res.Len()-1).Type()) {
				return
			}
			var errVal ssa.Value = call
			if res.Len() > 1 {
				errVal = nil
				if refs := call.Referrers(); refs != nil {
					for _, r := range *refs {
						if ex, ok := r.(*ssa.Extract); ok && ex.Index == res.Len()-1 {
							errVal = ex
						}
					}
				}
			}
			n++
			key := core.CalleeKey(&call.Call)
			if key == "dynamic" {
				// a call of a local closure: name the closure
				for _, src := range append(traceSources(call.Call.Value), call.Call.Value) {
					if mc, ok := src.(*ssa.MakeClosure); ok {
						key = core.FuncName(mc.Fn.(*ssa.Function))
					}
					if f, ok := src.(*ssa.Function); ok {
						key = core.FuncName(f)
					}
				}
			}
			per[key]++
			construct := fmt.Sprintf("%s:%s#%d", core.FuncName(fn), key, per[key])
			if errVal != nil && !valueObserved(errVal, map[ssa.Value]bool{}) {
				errVal = nil // the result is not used at all
			}
			if errVal == nil {
				// `_ =` is a visible decision of the author; the frozen exceptions are listed with their reason
				why, ok := "", false
				// the anchor registrar: its only error is "duplicate anchor", which the pinned tree ignores on purpose
				var callees []*ssa.Function
				if sc := call.Call.StaticCallee(); sc != nil {
					callees = append(callees, sc)
				} else {
					for _, src := range append(traceSources(call.Call.Value), call.Call.Value) {
						switch f := src.(type) {
						case *ssa.Function:
							callees = append(callees, f)
						case *ssa.MakeClosure:
							callees = append(callees, f.Fn.(*ssa.Function))
						}
					}
				}
				for _, callee := range callees {
					if !c.P.InPkg(callee) {
						continue
					}
					for _, cf := range core.WithAnon(callee) {
						core.EachInstr(cf, func(j ssa.Instruction) {
							if mu, isMU := j.(*ssa.MapUpdate); isMU && c.mentionsField(mu.Map, "resolvedInfo.anchors", 4) {
								why, ok = resolveErrorsIgnored["anchor-registrar"], true
							}
						})
					}
				}
				if ok {
					c.R.OKTable(rule, construct, c.pos(call), "error deliberately ignored: "+why)
					return
				}
				c.R.Bad(rule, construct, c.pos(call), "the error result of this call is discarded: a failure of this resolution step goes unreported")
				return
			}
			c.R.Check(observedOnAllPaths(errVal), rule, construct, c.pos(call), "the error is tested or returned", "the error returned here is never looked at on some path (it is overwritten or dropped before any test): Resolve succeeds although this step failed, e.g. a dangling $ref next to a valid $dynamicRef stays unresolved")
		})
	}
	c.R.Floor(rule, "error-returning calls in the resolution code", n, 10)
}

// errors of the resolution code that are ignored on purpose on the pinned tree (function:callee -> reason)
var resolveErrorsIgnored = map[string]string{
	"anchor-registrar": "the function that enters an anchor into a resource's table (setAnchor) reports a second declaration of an anchor name in one resource; the resolver keeps the first declaration (children are walked in sorted order) and goes on - no reference is left unresolved by this, and the JSON Schema specification leaves duplicate anchors undefined",
}

func init() {
	p := Properties["C05"]
	p.Rules = append(p.Rules, Rule{"C05/integer-keyword-range", ruleC05IntegerRange})
}

// The integer-valued keywords (minLength, maxItems ...) are read into an int with the same range on every platform:
// the decoder rejects exactly the values outside [MinInt32, MaxInt32]. Each comparison of the decoded number with a
// constant at one of the two ends is evaluated on the values next to that end: MaxInt32 is accepted and MaxInt32+1
// rejected, MinInt32 accepted and MinInt32-1 rejected. (`>=` for `>` makes a schema that Marshal wrote unreadable.)
func ruleC05IntegerRange(c *Ctx) {
	const rule = "C05/integer-keyword-range"
	n := 0
	for _, fn := range c.Closure(rule, "UNM").Sorted() {
		core.EachInstr(fn, func(i ssa.Instruction) {
			bo, ok := i.(*ssa.BinOp)
			if !ok {
				return
			}
			switch bo.Op {
			case token.LSS, token.GTR, token.LEQ, token.GEQ:
			default:
				return
			}
			x, kc, op := bo.X, (*ssa.Const)(nil), bo.Op
			if k, isK := bo.Y.(*ssa.Const); isK {
				kc = k
			} else if k, isK := bo.X.(*ssa.Const); isK {
				kc, x = k, bo.Y
				op = map[token.Token]token.Token{token.LSS: token.GTR, token.GTR: token.LSS, token.LEQ: token.GEQ, token.GEQ: token.LEQ}[op]
			}
			if kc == nil || kc.Value == nil || kc.Value.Kind() != constant.Int || !isIntType(x.Type()) {
				return
			}
			kv, exact := constant.Int64Val(kc.Value)
			if !exact {
				return
			}
			var end string
			var inside, outside int64
			switch {
			case kv >= math.MaxInt32-1 && kv <= math.MaxInt32+1:
				end, inside, outside = "MaxInt32", math.MaxInt32, math.MaxInt32+1
			case kv <= math.MinInt32+1 && kv >= math.MinInt32-1:
				end, inside, outside = "MinInt32", math.MinInt32, math.MinInt32-1
			default:
				return
			}
			// which outcome of the comparison rejects: the successor that returns an error
			if bo.Referrers() == nil {
				return
			}
			for _, r := range *bo.Referrers() {
				ifi, ok := r.(*ssa.If)
				if !ok {
					continue
				}
				tErr := blockReturnsErrorLocal(ifi.Block().Succs[0])
				fErr := blockReturnsErrorLocal(ifi.Block().Succs[1])
				if tErr == fErr {
					continue
				}
				n++
				holds := func(v int64) bool {
					return constant.Compare(constant.MakeInt64(v), op, constant.MakeInt64(kv))
				}
				rej := func(v int64) bool { return holds(v) == tErr }
				okEnd := !rej(inside) && rej(outside)
				c.R.Check(okEnd, rule, core.FuncName(fn)+":"+end, c.pos(bo), "the range test accepts "+end+" and rejects the next value beyond it",
					fmt.Sprintf("the range test at the %s end (x %s %d) accepts %d: %v and rejects %d: %v; it must accept the first and reject the second: an integer keyword equal to the bound, which Marshal writes, cannot be read back (or a value one beyond it is accepted on 64-bit platforms only)", end, op, kv, inside, !rej(inside), outside, rej(outside)))
			}
		})
	}
	// the same test written as a round trip through the narrower type: int64(int32(i)) != i rejects exactly the values
	// outside the 32-bit range
	for _, fn := range c.Closure(rule, "UNM").Sorted() {
		core.EachInstr(fn, func(i ssa.Instruction) {
			bo, ok := i.(*ssa.BinOp)
			if !ok || (bo.Op != token.NEQ && bo.Op != token.EQL) {
				return
			}
			for _, pair := range [][2]ssa.Value{{bo.X, bo.Y}, {bo.Y, bo.X}} {
				outer, ok := pair[0].(*ssa.Convert)
				if !ok {
					continue
				}
				inner, ok := outer.X.(*ssa.Convert)
				if !ok || inner.X != pair[1] {
					continue
				}
				if b, ok := inner.Type().Underlying().(*types.Basic); ok && b.Kind() == types.Int32 {
					n += 2
					c.R.OK(rule, core.FuncName(fn)+":round-trip-through-int32", c.pos(bo), "the value is compared with its round trip through int32: exactly the 32-bit range passes")
				}
			}
		})
	}
	c.R.Floor(rule, "range tests at the ends of the 32-bit range in the decoder", n, 2)
}

// (registered in zz_shared.go for C05, C07, C18)
// A schema document that is the JSON value true or false replaces whatever the receiver held: on every path from the
// successful decoding of a boolean to the return, the whole receiver is overwritten (`*s = Schema{}` for true as well
// as the false schema for false). Decoding `true` into a Schema that already has content - a reloaded document, a
// repeated key - otherwise leaves the old keywords in force.
func ruleBooleanSchemaOverwrites(c *Ctx, rule string) {
	fn := c.entry(rule, "(*Schema).UnmarshalJSON")
	if fn == nil || len(fn.Params) == 0 {
		return
	}
	recv := fn.Params[0]
	n := 0
	core.EachInstr(fn, func(i ssa.Instruction) {
		call, ok := i.(*ssa.Call)
		if !ok || core.CalleeKey(&call.Call) != "encoding/json.Unmarshal" {
			return
		}
		dst := peelIface(call.Call.Args[1])
		et, isPtr := isPtrTo(dst.Type())
		if !isPtr || !isBoolType(et) {
			return
		}
		sb := successBlock(call)
		if sb == nil {
			return
		}
		n++
		through := map[*ssa.BasicBlock]bool{}
		targets := map[*ssa.BasicBlock]bool{}
		for _, b := range fn.Blocks {
			for _, ins := range b.Instrs {
				if st, ok := ins.(*ssa.Store); ok && st.Addr == ssa.Value(recv) {
					through[b] = true
				}
			}
			if _, isRet := b.Instrs[len(b.Instrs)-1].(*ssa.Return); isRet && (b == sb || core.Reachable(sb, b, nil)) {
				targets[b] = true
			}
		}
		// (a second test of the same "decoded without error" cannot come out the other way)
		infeasible := map[[2]*ssa.BasicBlock]bool{}
		var firstIf *ssa.If
		for _, p := range sb.Preds {
			if ifi, ok := p.Instrs[len(p.Instrs)-1].(*ssa.If); ok {
				firstIf = ifi
			}
		}
		if firstIf != nil {
			if fb, ok := firstIf.Cond.(*ssa.BinOp); ok {
				okSucc := 0
				if firstIf.Block().Succs[1] == sb {
					okSucc = 1
				}
				for _, b := range fn.Blocks {
					ifi, isIf := b.Instrs[len(b.Instrs)-1].(*ssa.If)
					if !isIf || ifi == firstIf {
						continue
					}
					if ob, ok := ifi.Cond.(*ssa.BinOp); ok && ob.Op == fb.Op && ob.X == fb.X && sameConstOrValue(ob.Y, fb.Y) {
						infeasible[[2]*ssa.BasicBlock{b, b.Succs[1-okSucc]}] = true
					}
				}
			}
		}
		okAll := len(through) > 0 && mustPassEdges(sb, through, targets, infeasible)
		c.R.Check(okAll, rule, "boolean-document:receiver-overwritten", c.pos(call), "a boolean schema document overwrites the whole receiver, for true and for false",
			"a document that is the JSON value true (or false) can be decoded without the receiver being overwritten: a Schema that already holds keywords (a reloaded document, the second of two equal keys) keeps them, so `true` still rejects, or still marks properties as evaluated")
	})
	c.R.Floor(rule, "decodings of the document as a boolean", n, 1)
}

func sameConstOrValue(a, b ssa.Value) bool {
	if a == b {
		return true
	}
	ka, ok1 := a.(*ssa.Const)
	kb, ok2 := b.(*ssa.Const)
	if !ok1 || !ok2 {
		return false
	}
	if ka.IsNil() || kb.IsNil() {
		return ka.IsNil() && kb.IsNil()
	}
	return ka.Value != nil && kb.Value != nil && constant.Compare(ka.Value, token.EQL, kb.Value)
}

// (registered in zz_shared.go for C05 and C19)
// Two splice rules of the marshal code. (1) The bytes of the struct and of the map of unknown keywords are joined
// with a comma only when the map has members: the guard in front of the splice is a length test, a nil test lets an
// empty map produce "{...,}". (2) Nothing in the marshal closure writes text quoted the Go way (%q, strconv.Quote):
// Go's escapes (\x7f, \a, \U0001...) are not JSON's, the output would not parse.
func ruleMarshalSplices(c *Ctx, rule string) {
	n := 0
	for _, fn := range c.Closure(rule, "MAR").Sorted() {
		if !c.P.InPkg(fn) {
			continue
		}
		core.EachInstr(fn, func(i ssa.Instruction) {
			call, ok := i.(*ssa.Call)
			if !ok {
				return
			}
			key := core.CalleeKey(&call.Call)
			judgeComma := func() {
				n++
				byLen, byNil := false, false
				for _, g := range guardsOf(call) {
					isMapTest := false
					for _, v := range backSlice(g.Cond, 10) {
						if _, isMap := v.Type().Underlying().(*types.Map); isMap {
							isMapTest = true
						}
					}
					if !isMapTest {
						continue
					}
					if usesLen(g.Cond, 3) {
						byLen = true
					} else if _, k, _, ok := eqConst(g); ok && k.IsNil() {
						byNil = true
					}
				}
				c.R.Check(byLen || !byNil, rule, fmt.Sprintf("%s:comma-splice@%s", core.FuncName(originOf(fn)), strings.TrimPrefix(key, "bytes.Buffer.")), c.pos(call), "the comma between the two encodings is written only when the map has members", "the two encodings are joined with a comma under a test that the map is not nil, not that it has members: a Schema whose Extra is present but empty marshals to \"{...,}\", which is not JSON")
			}
			switch {
			case (key == "bytes.Buffer.WriteByte" || key == "bytes.Buffer.WriteRune") && len(call.Call.Args) == 2:
				if k, ok := call.Call.Args[1].(*ssa.Const); ok && k.Value != nil && k.Value.Kind() == constant.Int {
					if kv, _ := constant.Int64Val(k.Value); kv == ',' {
						judgeComma()
					}
				}
			case key == "bytes.Buffer.WriteString" && len(call.Call.Args) == 2:
				if sv, ok := constString(call.Call.Args[1]); ok && sv == "," {
					judgeComma()
				}
			case key == "builtin.append" && len(call.Call.Args) == 2:
				// append(x, ',')
				comma := false
				var elems []ssa.Value
				if sl, ok := call.Call.Args[1].(*ssa.Slice); ok {
					if al, ok := sl.X.(*ssa.Alloc); ok && al.Referrers() != nil {
						for _, r := range *al.Referrers() {
							if ia, ok := r.(*ssa.IndexAddr); ok && ia.Referrers() != nil {
								for _, r2 := range *ia.Referrers() {
									if s2, ok := r2.(*ssa.Store); ok && s2.Addr == ssa.Value(ia) {
										elems = append(elems, s2.Val)
									}
								}
							}
						}
					}
				}
				for _, v := range elems {
					if k, ok := v.(*ssa.Const); ok && k.Value != nil && k.Value.Kind() == constant.Int {
						if kv, _ := constant.Int64Val(k.Value); kv == ',' {
							comma = true
						}
					}
				}
				if !comma {
					return
				}
				n++
				byLen, byNil := false, false
				for _, g := range guardsOf(call) {
					isMapTest := false
					for _, v := range backSlice(g.Cond, 10) {
						if _, isMap := v.Type().Underlying().(*types.Map); isMap {
							isMapTest = true
						}
					}
					if !isMapTest {
						continue
					}
					if usesLen(g.Cond, 3) {
						byLen = true
					} else if _, k, _, ok := eqConst(g); ok && k.IsNil() {
						byNil = true
					}
				}
				c.R.Check(byLen || !byNil, rule, core.FuncName(originOf(fn))+":comma-splice", c.pos(call), "the comma between the two encodings is written only when the map has members", "the two encodings are joined with a comma under a test that the map is not nil, not that it has members: a Schema whose Extra is present but empty marshals to \"{...,}\", which is not JSON")
			case key == "strconv.Quote" || key == "strconv.QuoteToASCII" || key == "strconv.AppendQuote":
				n++
				c.R.Bad(rule, core.FuncName(originOf(fn))+":go-quoting:"+key, c.pos(call), "the marshal code quotes text with "+key+": Go's escape sequences are not JSON's")
			case strings.HasPrefix(key, "fmt.") && key != "fmt.Errorf":
				for _, a := range call.Call.Args {
					if f, ok := constString(a); ok && strings.Contains(f, "%q") {
						n++
						c.R.Bad(rule, core.FuncName(originOf(fn))+":go-quoting:"+key, c.pos(call), "the marshal code writes a string with the %q verb: Go quoting agrees with JSON on ordinary names only; a property name with a control character, DEL or invalid UTF-8 gets an escape (\\x7f, \\a) that JSON does not have, and Marshal fails or emits text that does not parse")
					}
				}
			}
		})
	}
	c.R.Floor(rule, "comma splices examined in the marshal closure", n, 1)
}
