package rules

func (c *Ctx) ruleOrderInsensitive(rule string, closures ...string) {
	// placeholder until the classifier is built; registers nothing
}
