package rules

import (
	"fmt"
	"go/token"
	"go/types"
	"strings"

	"golang.org/x/tools/go/ssa"

	"verif/checker/core"
)

// Order-insensitivity classifier for iterations whose order Go randomises
// (DESIGN 3.7). A loop over a map (range, reflect MapRange, reflect Seq2,
// the package's own property iterator) is order-insensitive when its body only
//   (a) inserts into / deletes from a map with a key taken from the current element, or stores a constant,
//   (b) sets flags to constants, counts, or accumulates into a slice that is sorted before use
//       or only measured / used for an error text,
//   (c) calls functions that emit nothing into an ordered sink,
//   (d) leaves early only by returning an error or a constant.
// Anything else - bytes written to a buffer or hash, an element-derived value
// assigned to an outer variable, a break that keeps the current element - is
// order-sensitive and reported.

type randLoop struct {
	fn     *ssa.Function
	at     ssa.Instruction // the Range / MapRange call / iterator call
	kind   string
	blocks map[*ssa.BasicBlock]bool // loop body blocks (same function), or nil when the body is a closure
	body   *ssa.Function            // yield closure for range-over-func
	header *ssa.BasicBlock
	elems  []ssa.Value // values that denote the current key / value
}

func (c *Ctx) randomLoops(fn *ssa.Function) []*randLoop {
	var out []*randLoop
	core.EachInstr(fn, func(i ssa.Instruction) {
		switch x := i.(type) {
		case *ssa.Range:
			if _, isMap := x.X.Type().Underlying().(*types.Map); !isMap {
				return
			}
			// the Next that consumes it
			if x.Referrers() == nil {
				return
			}
			for _, r := range *x.Referrers() {
				nx, ok := r.(*ssa.Next)
				if !ok {
					continue
				}
				l := &randLoop{fn: fn, at: x, kind: "range over map", header: nx.Block()}
				l.blocks = loopBlocks(nx.Block())
				if nx.Referrers() != nil {
					for _, r2 := range *nx.Referrers() {
						if ex, ok := r2.(*ssa.Extract); ok && ex.Index >= 1 {
							l.elems = append(l.elems, ex)
						}
					}
				}
				out = append(out, l)
			}
		case *ssa.Call:
			key := core.CalleeKey(&x.Call)
			switch {
			case key == "reflect.Value.MapRange":
				// for iter.Next() { ... }: find the Next call and its loop
				if x.Referrers() == nil {
					return
				}
				core.EachInstr(fn, func(j ssa.Instruction) {
					nc, ok := j.(*ssa.Call)
					if !ok || core.CalleeKey(&nc.Call) != "reflect.MapIter.Next" || !flowsTo(x, nc.Call.Args[0]) {
						return
					}
					l := &randLoop{fn: fn, at: x, kind: "reflect MapRange", header: nc.Block()}
					l.blocks = loopBlocks(nc.Block())
					core.EachInstr(fn, func(k ssa.Instruction) {
						if kc, ok := k.(*ssa.Call); ok {
							kk := core.CalleeKey(&kc.Call)
							if (kk == "reflect.MapIter.Key" || kk == "reflect.MapIter.Value") && flowsTo(x, kc.Call.Args[0]) {
								l.elems = append(l.elems, kc)
							}
						}
					})
					out = append(out, l)
				})
			case x.Call.StaticCallee() == nil && !x.Call.IsInvoke():
				// range-over-func: iterator(yieldClosure)
				if len(x.Call.Args) != 1 {
					return
				}
				mc, ok := x.Call.Args[0].(*ssa.MakeClosure)
				if !ok {
					return
				}
				body, ok := mc.Fn.(*ssa.Function)
				if !ok || !strings.Contains(body.Synthetic, "range-over-func") {
					return
				}
				if !c.iteratorIsRandom(x.Call.Value) {
					return
				}
				l := &randLoop{fn: fn, at: x, kind: "range over a randomised iterator", body: body}
				for _, p := range body.Params {
					l.elems = append(l.elems, p)
				}
				out = append(out, l)
			}
		}
	})
	// a loop over a slice that holds the elements of a map in iteration order:
	// slices.Collect(maps.Keys(m)), reflect.Value.MapKeys(), ... and not sorted before the loop
	seenHdr := map[*ssa.BasicBlock]bool{}
	core.EachInstr(fn, func(i ssa.Instruction) {
		ia, ok := i.(*ssa.IndexAddr)
		if !ok {
			return
		}
		if _, isSlice := ia.X.Type().Underlying().(*types.Slice); !isSlice {
			return
		}
		// index is the loop variable of a range loop: a phi, or phi+1
		var phi *ssa.Phi
		switch ix := ia.Index.(type) {
		case *ssa.Phi:
			phi = ix
		case *ssa.BinOp:
			phi, _ = ix.X.(*ssa.Phi)
		}
		if phi == nil {
			return
		}
		src := c.randomSliceSource(ia.X)
		if src == nil || c.sortedBefore(fn, src, ia) {
			return
		}
		hdr := phi.Block()
		if seenHdr[hdr] {
			return
		}
		seenHdr[hdr] = true
		l := &randLoop{fn: fn, at: src, kind: "range over a slice in map-iteration order", header: hdr}
		l.blocks = loopBlocks(hdr)
		core.EachInstr(fn, func(j ssa.Instruction) {
			if ld, ok := j.(*ssa.UnOp); ok && ld.Op == token.MUL {
				if ia2, ok := ld.X.(*ssa.IndexAddr); ok && sharesSource(ia2.X, ia.X) && l.blocks[ld.Block()] {
					l.elems = append(l.elems, ld)
				}
			}
		})
		out = append(out, l)
	})
	return out
}

// randomSliceSource: the call that produced slice v in map-iteration order, if any.
func (c *Ctx) randomSliceSource(v ssa.Value) ssa.Instruction {
	for _, s := range traceSources(v) {
		call, ok := s.(*ssa.Call)
		if !ok {
			continue
		}
		switch core.CalleeKey(&call.Call) {
		case "reflect.Value.MapKeys":
			return call
		case "slices.Collect":
			if len(call.Call.Args) == 1 && c.iteratorIsRandom(call.Call.Args[0]) {
				return call
			}
		case "slices.AppendSeq":
			if len(call.Call.Args) == 2 && c.iteratorIsRandom(call.Call.Args[1]) {
				return call
			}
		}
	}
	return nil
}

// sortedBefore: the slice produced by src is sorted by a call that dominates the use.
func (c *Ctx) sortedBefore(fn *ssa.Function, src ssa.Instruction, use ssa.Instruction) bool {
	sv, ok := src.(ssa.Value)
	if !ok {
		return false
	}
	sorted := false
	core.EachInstr(fn, func(i ssa.Instruction) {
		call, ok := i.(*ssa.Call)
		if !ok || len(call.Call.Args) == 0 {
			return
		}
		key := core.CalleeKey(&call.Call)
		if isOrderingSort(call, key) && flowsTo(sv, call.Call.Args[0]) && core.Dominates(call, use) {
			sorted = true
		}
	})
	return sorted
}

// iteratorIsRandom: the iterator value comes from reflect Seq/Seq2, maps.Keys/Values/All,
// or a package function whose own body iterates randomly and yields.
func (c *Ctx) iteratorIsRandom(v ssa.Value) bool {
	for _, s := range traceSources(v) {
		call, ok := s.(*ssa.Call)
		if !ok {
			continue
		}
		key := core.CalleeKey(&call.Call)
		switch key {
		case "reflect.Value.Seq2", "reflect.Value.Seq", "maps.Keys", "maps.Values", "maps.All":
			// ordered again when wrapped by slices.Sorted - but then it is not ranged over directly
			return true
		}
		if callee := call.Call.StaticCallee(); callee != nil && c.P.InPkg(callee) {
			for _, f := range core.WithAnon(callee) {
				if len(c.randomLoopsShallow(f)) > 0 {
					return true
				}
			}
		}
	}
	return false
}

func (c *Ctx) randomLoopsShallow(fn *ssa.Function) []ssa.Instruction {
	var out []ssa.Instruction
	core.EachInstr(fn, func(i ssa.Instruction) {
		switch x := i.(type) {
		case *ssa.Range:
			if _, isMap := x.X.Type().Underlying().(*types.Map); isMap {
				out = append(out, x)
			}
		case *ssa.Call:
			key := core.CalleeKey(&x.Call)
			if key == "reflect.Value.MapRange" || key == "reflect.Value.Seq2" || key == "reflect.Value.Seq" {
				out = append(out, x)
			}
		}
	})
	return out
}

// loopBlocks: the header plus the body region of the loop - every block
// dominated by the body entry (the successor taken while the iteration has
// elements). Blocks that always leave the loop (break, return) are part of the
// region, unlike in the natural loop.
func loopBlocks(header *ssa.BasicBlock) map[*ssa.BasicBlock]bool {
	out := map[*ssa.BasicBlock]bool{header: true}
	if len(header.Succs) != 2 {
		return out
	}
	entry := header.Succs[0]
	for _, b := range header.Parent().Blocks {
		if entry.Dominates(b) {
			out[b] = true
		}
	}
	return out
}

type orderIssue struct {
	at  ssa.Instruction
	msg string
}

func (c *Ctx) elemDerived(v ssa.Value, l *randLoop, depth int) bool {
	if depth == 0 || v == nil {
		return false
	}
	for _, e := range l.elems {
		if v == e {
			return true
		}
	}
	switch x := v.(type) {
	case *ssa.Call:
		for _, a := range x.Call.Args {
			if c.elemDerived(a, l, depth-1) {
				return true
			}
		}
	case *ssa.UnOp:
		if cell := resolveCell(x.X); cell != nil && x.Op == token.MUL {
			for _, sv := range cellStores(cell) {
				if c.elemDerived(sv, l, depth-1) {
					return true
				}
			}
			return false
		}
		return c.elemDerived(x.X, l, depth-1)
	case *ssa.BinOp:
		return c.elemDerived(x.X, l, depth-1) || c.elemDerived(x.Y, l, depth-1)
	case *ssa.Phi:
		for _, e := range x.Edges {
			if c.elemDerived(e, l, depth-1) {
				return true
			}
		}
	case *ssa.Extract:
		return c.elemDerived(x.Tuple, l, depth-1)
	case *ssa.MakeInterface:
		return c.elemDerived(x.X, l, depth-1)
	case *ssa.ChangeType:
		return c.elemDerived(x.X, l, depth-1)
	case *ssa.Convert:
		return c.elemDerived(x.X, l, depth-1)
	case *ssa.Field:
		return c.elemDerived(x.X, l, depth-1)
	case *ssa.FieldAddr:
		return c.elemDerived(x.X, l, depth-1)
	case *ssa.Lookup:
		return c.elemDerived(x.X, l, depth-1) || c.elemDerived(x.Index, l, depth-1)
	case *ssa.Index:
		return c.elemDerived(x.X, l, depth-1)
	case *ssa.IndexAddr:
		return c.elemDerived(x.X, l, depth-1)
	case *ssa.Slice:
		return c.elemDerived(x.X, l, depth-1)
	case *ssa.TypeAssert:
		return c.elemDerived(x.X, l, depth-1)
	}
	return false
}

func isErrorType(t types.Type) bool {
	return types.Identical(t, types.Universe.Lookup("error").Type())
}

// Emission analysis: does a call made by the loop body write into an ordered
// sink (bytes.Buffer, strings.Builder, hash, io.Writer) that exists outside the
// iteration? The sink receiver is followed through parameters and captured
// variables back to the loop body's call (context-sensitively, bounded depth):
// a sink allocated by a callee, or inside the loop body, is per-iteration.

// outerness of a value inside fn given which of fn's parameters / free variables are outer.
func valueIsOuter(v ssa.Value, env map[ssa.Value]bool, base func(ssa.Value) (bool, bool), depth int) bool {
	if depth == 0 || v == nil {
		return false
	}
	if o, known := env[v]; known {
		return o
	}
	if base != nil {
		if o, known := base(v); known {
			return o
		}
	}
	switch x := v.(type) {
	case *ssa.Global:
		return true
	case *ssa.Alloc, *ssa.MakeMap, *ssa.MakeSlice, *ssa.Const:
		return false
	case *ssa.FieldAddr:
		return valueIsOuter(x.X, env, base, depth-1)
	case *ssa.IndexAddr:
		return valueIsOuter(x.X, env, base, depth-1)
	case *ssa.UnOp:
		return valueIsOuter(x.X, env, base, depth-1)
	case *ssa.Phi:
		for _, e := range x.Edges {
			if valueIsOuter(e, env, base, depth-1) {
				return true
			}
		}
	case *ssa.MakeInterface:
		return valueIsOuter(x.X, env, base, depth-1)
	case *ssa.ChangeType:
		return valueIsOuter(x.X, env, base, depth-1)
	case *ssa.Parameter, *ssa.FreeVar:
		return true // unknown binding: conservatively outer
	}
	return false
}

func (c *Ctx) emitsOuter(fn *ssa.Function, env map[ssa.Value]bool, depth int, stack map[*ssa.Function]bool) (bool, string) {
	if depth == 0 || stack[fn] || !c.P.InPkg(fn) {
		return false, ""
	}
	stack[fn] = true
	defer delete(stack, fn)
	found, where := false, ""
	core.EachInstr(fn, func(i ssa.Instruction) {
		call, ok := i.(ssa.CallInstruction)
		if !ok || found {
			return
		}
		key := core.CalleeKey(call.Common())
		if isSinkWrite(key) {
			if valueIsOuter(call.Common().Args[0], env, nil, 6) {
				found, where = true, core.FuncName(fn)+" calls "+key
			}
			return
		}
		if e, w := c.callEmitsOuter(call, env, nil, depth-1, stack); e {
			found, where = true, w
		}
	})
	return found, where
}

// callEmitsOuter: the callee(s) of call write to a sink that is outer with respect to the caller's environment.
func (c *Ctx) callEmitsOuter(call ssa.CallInstruction, env map[ssa.Value]bool, base func(ssa.Value) (bool, bool), depth int, stack map[*ssa.Function]bool) (bool, string) {
	var callees []*ssa.Function
	var mc *ssa.MakeClosure
	if sc := call.Common().StaticCallee(); sc != nil {
		callees = append(callees, sc)
		for _, src := range traceSources(call.Common().Value) {
			if m, ok := src.(*ssa.MakeClosure); ok {
				mc = m
			}
		}
	} else {
		callees = core.Callees(c.G, call)
		for _, src := range traceSources(call.Common().Value) {
			if m, ok := src.(*ssa.MakeClosure); ok {
				mc = m
			}
		}
	}
	for _, callee := range callees {
		if !c.P.InPkg(callee) {
			continue
		}
		cenv := map[ssa.Value]bool{}
		args := call.Common().Args
		if len(args) == len(callee.Params) {
			for k, p := range callee.Params {
				cenv[p] = valueIsOuter(args[k], env, base, 6)
			}
		}
		if mc != nil && mc.Fn == callee {
			for k, fv := range callee.FreeVars {
				cenv[fv] = valueIsOuter(mc.Bindings[k], env, base, 6)
			}
		}
		if e, w := c.emitsOuter(callee, cenv, depth, stack); e {
			return true, w
		}
	}
	return false, ""
}

func isSinkWrite(key string) bool {
	for _, p := range []string{"bytes.Buffer.Write", "strings.Builder.Write", "hash/maphash.Hash.Write", "io.Writer.Write", "bufio.Writer.Write", "invoke.Write"} {
		if strings.HasPrefix(key, p) {
			return true
		}
	}
	return key == "fmt.Fprintf" || key == "fmt.Fprint" || key == "fmt.Fprintln" || key == "io.WriteString"
}

// classifyLoop returns the order-sensitive constructs of a randomised loop.
func (c *Ctx) classifyLoop(l *randLoop, tr *core.Tracer) []orderIssue {
	var issues []orderIssue
	inBody := func(i ssa.Instruction) bool {
		if l.body != nil {
			for f := i.Parent(); f != nil; f = f.Parent() {
				if f == l.body {
					return true
				}
			}
			return false
		}
		return i.Parent() == l.fn && l.blocks[i.Block()] && i.Block() != l.header
	}
	outerCell := func(addr ssa.Value) *ssa.Alloc {
		cell := resolveCell(addr)
		if cell == nil {
			return nil
		}
		if l.body != nil {
			for f := cell.Parent(); f != nil; f = f.Parent() {
				if f == l.body {
					return nil // declared inside the body
				}
			}
			return cell
		}
		if cell.Parent() == l.fn && l.blocks[cell.Block()] && cell.Block() != l.header {
			return nil
		}
		return cell
	}
	// outerness of values of the loop's own frame: allocated outside the loop body (or passed in) = outer
	baseOuter := func(v ssa.Value) (bool, bool) {
		switch x := v.(type) {
		case *ssa.Alloc:
			return outerCell(x) != nil, true
		case *ssa.FreeVar:
			if cell := resolveCell(x); cell != nil {
				return outerCell(x) != nil, true
			}
			return true, true
		case *ssa.Parameter:
			if l.body != nil && x.Parent() == l.body {
				return false, true // the current element
			}
			return true, true
		case *ssa.MakeMap, *ssa.MakeSlice:
			ins := v.(ssa.Instruction)
			if l.body == nil && ins.Parent() == l.fn && !(l.blocks[ins.Block()] && ins.Block() != l.header) {
				return true, true
			}
			return false, true
		}
		return false, false
	}
	var accumulators []*ssa.Alloc
	var fns []*ssa.Function
	if l.body != nil {
		fns = core.WithAnon(l.body)
	} else {
		fns = []*ssa.Function{l.fn}
	}
	nonConstOuterStore := false
	bodyEvaluates := false // the body calls a package function whose error/bool result matters
	for _, f := range fns {
		core.EachInstr(f, func(i ssa.Instruction) {
			if !inBody(i) {
				return
			}
			switch x := i.(type) {
			case *ssa.Store:
				cell := outerCell(x.Addr)
				if cell == nil {
					// a store through a pointer to outer memory (field / element)
					if fa, ok := x.Addr.(*ssa.FieldAddr); ok {
						if _, isConst := x.Val.(*ssa.Const); isConst {
							return
						}
						switch x.Val.(type) {
						case *ssa.MakeMap, *ssa.MakeSlice:
							return // lazy initialisation with a fresh container
						}
						if resolveCell(fa.X) == nil && c.elemDerived(x.Val, l, 6) && !c.elemDerived(fa.X, l, 6) {
							nonConstOuterStore = true
							issues = append(issues, orderIssue{x, "a value derived from the current element is stored into " + c.fieldName(fa.X.Type(), fa.Field) + " of an object that outlives the iteration: the last element visited wins"})
						}
					}
					return
				}
				if strings.HasPrefix(cell.Comment, "jump$") || strings.HasPrefix(cell.Comment, "#") {
					return // range-over-func control state
				}
				switch v := x.Val.(type) {
				case *ssa.Const:
					return
				case *ssa.MakeMap, *ssa.MakeSlice:
					return
				case *ssa.Call:
					if core.CalleeKey(&v.Call) == "builtin.append" {
						if ld, ok := v.Call.Args[0].(*ssa.UnOp); ok && resolveCell(ld.X) == cell {
							accumulators = append(accumulators, cell)
							return
						}
					}
				case *ssa.BinOp:
					if (v.Op == token.ADD || v.Op == token.SUB || v.Op == token.OR || v.Op == token.LOR) && (isLoadOf(v.X, cell) || isLoadOf(v.Y, cell)) {
						return // counter / accumulation by a commutative operator
					}
				case *ssa.UnOp:
					if isLoadOf(v, cell) {
						return
					}
				}
				if isErrorType(x.Val.Type()) {
					return // error propagation: the verdict is "some element fails", only the text can differ
				}
				if !c.elemDerived(x.Val, l, 8) {
					return
				}
				nonConstOuterStore = true
				issues = append(issues, orderIssue{x, "a value derived from the current element is assigned to the outer variable " + cell.Comment + ": which element wins depends on the iteration order"})
			case *ssa.MapUpdate:
				if _, isConst := x.Value.(*ssa.Const); isConst {
					return
				}
				if c.elemDerived(x.Key, l, 8) {
					if attr := c.elemAttribute(x.Key, l, 8); attr != "" && !c.elemDerived(x.Map, l, 8) {
						issues = append(issues, orderIssue{x, "a map of an object that outlives the iteration gets an entry under " + attr + " of the current element, which two elements can share: which element's entry is kept depends on the iteration order"})
					}
					return
				}
				issues = append(issues, orderIssue{x, "a map entry under a key that does not come from the current element is overwritten in every iteration: the last element visited wins"})
			case ssa.CallInstruction:
				key := core.CalleeKey(x.Common())
				if isSinkWrite(key) {
					if valueIsOuter(x.Common().Args[0], nil, baseOuter, 6) {
						issues = append(issues, orderIssue{x, "bytes are written to an ordered sink (" + key + ") inside the iteration: the output depends on the iteration order"})
					}
					return
				}
				if e, w := c.callEmitsOuter(x, nil, baseOuter, 5, map[*ssa.Function]bool{}); e {
					issues = append(issues, orderIssue{x, "the iteration calls a function that writes to an ordered sink existing outside the iteration (" + w + "): the output depends on the iteration order"})
				}
				var callees []*ssa.Function
				if sc := x.Common().StaticCallee(); sc != nil {
					callees = append(callees, sc)
				} else {
					callees = core.Callees(c.G, x)
				}
				if len(callees) == 0 {
					// a local closure called through its variable
					for _, src := range append(traceSources(x.Common().Value), x.Common().Value) {
						switch f := src.(type) {
						case *ssa.Function:
							callees = append(callees, f)
						case *ssa.MakeClosure:
							callees = append(callees, f.Fn.(*ssa.Function))
						}
					}
				}
				for _, callee := range callees {
					if !c.P.InPkg(callee) || callee == l.body {
						continue
					}
					// entries the callee makes under a key it is handed: judged like an entry made here
					for _, cf := range core.WithAnon(callee) {
						core.EachInstr(cf, func(j ssa.Instruction) {
							mu, ok := j.(*ssa.MapUpdate)
							if !ok {
								return
							}
							if _, isConst := mu.Value.(*ssa.Const); isConst {
								return
							}
							for pi, p := range callee.Params {
								if peelConv(mu.Key) != ssa.Value(p) || pi >= len(x.Common().Args) {
									continue
								}
								arg := x.Common().Args[pi]
								if attr := c.elemAttribute(arg, l, 8); attr != "" {
									issues = append(issues, orderIssue{x, "the iteration calls " + core.FuncName(callee) + ", which makes a map entry under the key it is handed - here " + attr + " of the current element, which two elements can share: which element's entry is kept depends on the iteration order"})
								}
							}
						})
					}
					if rs := callee.Signature.Results(); rs.Len() > 0 && (isErrorType(rs.At(rs.Len()-1).Type()) || tBool(rs.At(0).Type())) {
						bodyEvaluates = true
					}
					_ = callee
				}
			}
		})
	}
	// phi-carried variables of the loop header
	if l.body == nil {
		for _, ins := range l.header.Instrs {
			phi, ok := ins.(*ssa.Phi)
			if !ok {
				continue
			}
			for k, e := range phi.Edges {
				if !l.blocks[l.header.Preds[k]] {
					continue // initial value
				}
				if c.commutativeUpdate(e, phi, l, 6) {
					continue
				}
				if isErrorType(phi.Type()) {
					continue
				}
				if ac, ok := e.(*ssa.Call); ok && core.CalleeKey(&ac.Call) == "builtin.append" {
					continue // checked below through its uses
				}
				if c.elemDerived(e, l, 8) {
					nonConstOuterStore = true
					issues = append(issues, orderIssue{phi, "the loop-carried variable " + phi.Comment + " is assigned a value derived from the current element: which element wins depends on the iteration order"})
				}
			}
			// slices accumulated by append: sorted before use, or only measured
			if _, isSlice := phi.Type().Underlying().(*types.Slice); isSlice {
				if msg := c.sliceUsedUnsorted(phi, l); msg != "" {
					issues = append(issues, orderIssue{phi, msg})
				}
			}
		}
	}
	for _, cell := range accumulators {
		if msg := c.cellSliceUsedUnsorted(cell, l); msg != "" {
			issues = append(issues, orderIssue{l.at, msg})
		}
	}
	// early exits
	if l.body == nil {
		flag := func(at ssa.Instruction) {
			issues = append(issues, orderIssue{at, "the iteration is left early without a failure verdict (break, or a return that can be nil) although its body evaluates or assigns per element: only the elements met before the exit are taken into account, and which those are depends on the iteration order"})
		}
		for b := range l.blocks {
			if b == l.header {
				continue
			}
			last := b.Instrs[len(b.Instrs)-1]
			switch last.(type) {
			case *ssa.Return:
				if !exitIsVerdict(b) && (nonConstOuterStore || bodyEvaluates) {
					flag(last)
				}
				continue
			case *ssa.Panic:
				continue
			}
			for _, s := range b.Succs {
				if l.blocks[s] {
					continue // stays in the body, or continues with the next element (header)
				}
				if exitIsVerdict(s) {
					continue
				}
				if !nonConstOuterStore && !bodyEvaluates {
					continue // a break that only stops an existential search
				}
				flag(last)
			}
		}
	}
	return issues
}

func isLoadOf(v ssa.Value, cell *ssa.Alloc) bool {
	ld, ok := v.(*ssa.UnOp)
	return ok && ld.Op == token.MUL && resolveCell(ld.X) == cell
}

func (c *Ctx) commutativeUpdate(e ssa.Value, phi *ssa.Phi, l *randLoop, depth int) bool {
	if e == phi {
		return true
	}
	if depth == 0 {
		return false
	}
	switch x := e.(type) {
	case *ssa.Const:
		return true
	case *ssa.BinOp:
		if x.Op == token.ADD || x.Op == token.OR || x.Op == token.LOR || x.Op == token.SUB {
			return (c.commutativeUpdate(x.X, phi, l, depth-1) && !c.elemDerived(x.Y, l, 4)) || (c.commutativeUpdate(x.Y, phi, l, depth-1) && !c.elemDerived(x.X, l, 4)) ||
				(x.X == phi || x.Y == phi)
		}
	case *ssa.Phi:
		for _, ee := range x.Edges {
			if !c.commutativeUpdate(ee, phi, l, depth-1) {
				return false
			}
		}
		return true
	}
	return false
}

// exitIsVerdict: the code reached after leaving the loop early returns an error or constants.
func exitIsVerdict(b *ssa.BasicBlock) bool {
	// In a range-over-func body (a synthetic yield function) the returned
	// boolean is loop control, not a verdict: the exit is a verdict only if a
	// provably non-nil error was recorded on the way out.
	if fn := b.Parent(); strings.Contains(fn.Synthetic, "range-over-func") {
		cur := b
		for hops := 0; hops < 6 && cur != nil; hops++ {
			for _, ins := range cur.Instrs {
				if st, ok := ins.(*ssa.Store); ok && isErrorType(st.Val.Type()) && provablyNonNilError(st.Val, st) {
					return true
				}
			}
			if len(cur.Succs) != 1 {
				break
			}
			cur = cur.Succs[0]
		}
		// the error may have been stored just before the jump that left the loop
		for _, p := range b.Preds {
			for _, ins := range p.Instrs {
				if st, ok := ins.(*ssa.Store); ok && isErrorType(st.Val.Type()) && provablyNonNilError(st.Val, st) {
					return true
				}
			}
		}
		return false
	}
	for hops := 0; hops < 6; hops++ {
		last := b.Instrs[len(b.Instrs)-1]
		switch x := last.(type) {
		case *ssa.Return:
			for _, r := range x.Results {
				if k, isConst := r.(*ssa.Const); isConst {
					if isErrorType(r.Type()) && k.IsNil() && len(x.Results) == 1 {
						return false // `return nil`: success declared before all elements were seen
					}
					continue
				}
				if isErrorType(r.Type()) {
					if ld, ok := r.(*ssa.UnOp); ok && ld.Op == token.MUL && resolveCell(ld.X) != nil {
						// named result: judge the nearest store on the way to this return
						if sv := nearestStore(x, resolveCell(ld.X)); sv != nil {
							if !provablyNonNilError(sv.Val, sv) {
								return false
							}
							continue
						}
						return false
					}
					if !provablyNonNilError(r, x) {
						return false
					}
					continue
				}
				// named results loaded from cells
				if ld, ok := r.(*ssa.UnOp); ok && ld.Op == token.MUL {
					continue
				}
				return false
			}
			return true
		case *ssa.Panic:
			return true
		}
		if len(b.Succs) != 1 {
			return false
		}
		b = b.Succs[0]
	}
	return false
}

// sliceUsedUnsorted: a slice accumulated in the loop (phi form) must be sorted before any order-revealing use.
func (c *Ctx) sliceUsedUnsorted(phi *ssa.Phi, l *randLoop) string {
	var uses []ssa.Instruction
	seen := map[ssa.Value]bool{}
	var collect func(v ssa.Value)
	collect = func(v ssa.Value) {
		if seen[v] || v.Referrers() == nil {
			return
		}
		seen[v] = true
		for _, r := range *v.Referrers() {
			if l.blocks[r.Block()] && r.Block() != l.header {
				if ac, ok := r.(*ssa.Call); ok && core.CalleeKey(&ac.Call) == "builtin.append" {
					collect(ac)
				}
				continue
			}
			switch x := r.(type) {
			case *ssa.Phi:
				collect(x)
			default:
				uses = append(uses, r)
			}
		}
	}
	collect(phi)
	return c.judgeSliceUses(uses, func(v ssa.Value) bool { return seen[v] })
}

func (c *Ctx) cellSliceUsedUnsorted(cell *ssa.Alloc, l *randLoop) string {
	var uses []ssa.Instruction
	vals := map[ssa.Value]bool{}
	for _, fn := range core.WithAnon(cell.Parent()) {
		core.EachInstr(fn, func(i ssa.Instruction) {
			ld, ok := i.(*ssa.UnOp)
			if !ok || ld.Op != token.MUL || resolveCell(ld.X) != cell || ld.Referrers() == nil {
				return
			}
			vals[ld] = true
			for _, r := range *ld.Referrers() {
				if ac, ok := r.(*ssa.Call); ok && core.CalleeKey(&ac.Call) == "builtin.append" && ac.Call.Args[0] == ld {
					continue
				}
				uses = append(uses, r)
			}
		})
	}
	return c.judgeSliceUses(uses, func(v ssa.Value) bool { return vals[v] })
}

func (c *Ctx) judgeSliceUses(uses []ssa.Instruction, isSlice func(ssa.Value) bool) string {
	var sortCall ssa.Instruction
	for _, u := range uses {
		if call, ok := u.(*ssa.Call); ok {
			key := core.CalleeKey(&call.Call)
			if isOrderingSort(call, key) {
				sortCall = call
			}
		}
	}
	for _, u := range uses {
		switch x := u.(type) {
		case *ssa.Call:
			key := core.CalleeKey(&x.Call)
			switch {
			case key == "builtin.len" || key == "builtin.cap":
				continue
			case isOrderingSort(x, key):
				continue
			case key == "errors.Join" || strings.HasPrefix(key, "fmt.Errorf") || key == "fmt.Sprintf" || key == "strings.Join":
				// only the text of an error can depend on the order
				continue
			}
		case *ssa.MakeInterface:
			// handed to fmt for an error text
			onlyFmt := true
			if x.Referrers() != nil {
				for _, r := range *x.Referrers() {
					if st, ok := r.(*ssa.Store); ok {
						_ = st
						continue
					}
					onlyFmt = false
				}
			}
			if onlyFmt {
				continue
			}
		case *ssa.Store, *ssa.DebugRef:
			continue
		case *ssa.BinOp:
			continue // comparison with nil
		case *ssa.Return:
			if sortCall != nil && core.Dominates(sortCall, x) {
				continue
			}
			// a returned error list (errors) is fine; a returned name list is not
		}
		if sortCall != nil && core.Dominates(sortCall, u) {
			continue
		}
		return fmt.Sprintf("a slice filled in randomised order is used at %s without being sorted first", c.pos(u))
	}
	return ""
}

func (c *Ctx) ruleOrderInsensitive(rule string, closures ...string) {
	seen := map[*ssa.Function]bool{}
	n := 0
	for _, name := range closures {
		tr := c.Tracer(rule, name)
		for _, fn := range c.Closure(rule, name).Sorted() {
			if seen[fn] {
				continue
			}
			seen[fn] = true
			for k, l := range c.randomLoops(fn) {
				n++
				issues := c.classifyLoop(l, tr)
				construct := fmt.Sprintf("%s:%s#%d", core.FuncName(fn), strings.ReplaceAll(l.kind, " ", "-"), k+1)
				if len(issues) == 0 {
					c.R.OK(rule, construct, c.pos(l.at), l.kind+": the body only inserts under element keys, sets flags, counts, accumulates into a slice sorted before use, calls functions that emit nothing, and leaves early only with a verdict")
					continue
				}
				for _, is := range issues {
					c.R.Bad(rule, construct, c.pos(is.at), l.kind+" at "+c.pos(l.at)+": "+is.msg)
				}
			}
		}
	}
	c.R.Info["randomised_iterations_"+strings.Join(closures, "+")] = n
	min := map[string]int{"EV+RES+MAR": 8, "MAR": 1, "INF": 1}[strings.Join(closures, "+")]
	c.R.Floor(rule, "order-randomised iterations in "+strings.Join(closures, "+"), n, min)
}

// provablyNonNilError: the returned error is a freshly constructed error, or the return is guarded by `err != nil`.
func provablyNonNilError(v ssa.Value, at ssa.Instruction) bool {
	for _, src := range traceSources(v) {
		if call, ok := src.(*ssa.Call); ok {
			key := core.CalleeKey(&call.Call)
			if key == "fmt.Errorf" || key == "errors.New" {
				continue
			}
		}
		if mi, ok := src.(*ssa.MakeInterface); ok {
			_ = mi
			continue
		}
		guarded := false
		for _, g := range guardsOf(at) {
			x, k, equal, ok := eqConst(g)
			if ok && k.IsNil() && !equal && (x == src || x == v || sharesSource(x, v)) {
				guarded = true
			}
		}
		if !guarded {
			return false
		}
	}
	return true
}

// nearestStore: the last store to cell on the straight-line predecessor chain ending at ret.
func nearestStore(ret *ssa.Return, cell *ssa.Alloc) *ssa.Store {
	b := ret.Block()
	for hops := 0; hops < 6 && b != nil; hops++ {
		for k := len(b.Instrs) - 1; k >= 0; k-- {
			if st, ok := b.Instrs[k].(*ssa.Store); ok && resolveCell(st.Addr) == cell {
				return st
			}
		}
		if len(b.Preds) != 1 {
			return nil
		}
		b = b.Preds[0]
	}
	return nil
}

func peelConv(v ssa.Value) ssa.Value {
	for {
		switch x := v.(type) {
		case *ssa.Convert:
			v = x.X
		case *ssa.ChangeType:
			v = x.X
		default:
			return v
		}
	}
}

// elemAttribute: v is read from a field of (what) the current element (points to) - an attribute that two
// elements can have in common, unlike the element itself or a value freshly made from it. Returns a
// description of the attribute, or "".
func (c *Ctx) elemAttribute(v ssa.Value, l *randLoop, depth int) string {
	if depth == 0 || v == nil {
		return ""
	}
	switch x := v.(type) {
	case *ssa.UnOp:
		if x.Op != token.MUL {
			return ""
		}
		if fa, ok := x.X.(*ssa.FieldAddr); ok && c.elemDerived(fa.X, l, depth-1) {
			return "the field " + c.fieldName(fa.X.Type(), fa.Field)
		}
		if cell := resolveCell(x.X); cell != nil {
			for _, sv := range cellStores(cell) {
				if a := c.elemAttribute(sv, l, depth-1); a != "" {
					return a
				}
			}
		}
	case *ssa.Field:
		if c.elemDerived(x.X, l, depth-1) {
			return "the field " + c.fieldName(x.X.Type(), x.Field)
		}
	case *ssa.Convert:
		return c.elemAttribute(x.X, l, depth-1)
	case *ssa.ChangeType:
		return c.elemAttribute(x.X, l, depth-1)
	case *ssa.Phi:
		for _, e := range x.Edges {
			if a := c.elemAttribute(e, l, depth-1); a != "" {
				return a
			}
		}
	case *ssa.Call:
		// a rendering of an attribute (i.uri.String()) is shared by the elements that share the attribute
		for _, a := range x.Call.Args {
			if at := c.elemAttribute(a, l, depth-1); at != "" {
				return at + " (through " + core.CalleeKey(&x.Call) + ")"
			}
		}
	}
	return ""
}

// isOrderingSort: the call sorts its argument into an order that does not depend on the order it had: a sort by
// the natural order of the elements, or by a comparator that does not rank two different elements as equal.
// A comparator that compares a lossy image of the elements (lower-cased, trimmed, their length) leaves ties
// between different elements, and the order of tied elements is the order they had (for keys collected from a
// map: the iteration order).
func isOrderingSort(call *ssa.Call, key string) bool {
	if !(strings.HasPrefix(key, "slices.Sort") || strings.HasPrefix(key, "sort.")) {
		return false
	}
	// the comparator, if any: a function-typed argument
	var cmpArgs []ssa.Value
	for _, a := range call.Call.Args {
		if _, isFunc := a.Type().Underlying().(*types.Signature); isFunc {
			cmpArgs = append(cmpArgs, a)
		}
	}
	if len(cmpArgs) == 0 {
		return true // slices.Sort, sort.Strings, slices.Sorted ...: the natural order
	}
	for _, src := range traceSourcesAll(cmpArgs) {
		var fn *ssa.Function
		switch x := src.(type) {
		case *ssa.MakeClosure:
			fn, _ = x.Fn.(*ssa.Function)
		case *ssa.Function:
			fn = x
		}
		if fn == nil {
			continue
		}
		if lossyComparator(fn) {
			return false
		}
	}
	return true
}

var lossyImage = map[string]bool{"strings.ToLower": true, "strings.ToUpper": true, "strings.ToTitle": true, "strings.TrimSpace": true, "strings.Trim": true,
	"strings.TrimLeft": true, "strings.TrimRight": true, "strings.TrimPrefix": true, "strings.TrimSuffix": true, "strings.Fields": true, "strings.EqualFold": true,
	"builtin.len": true, "unicode.ToLower": true, "unicode.ToUpper": true, "strings.Title": true, "strings.Map": true, "path.Base": true, "strings.ReplaceAll": true}

// lossyComparator: what the comparator compares is computed from its parameters through a function that maps
// different elements to the same value.
func lossyComparator(fn *ssa.Function) bool {
	lossy := false
	core.EachInstr(fn, func(i ssa.Instruction) {
		ret, ok := i.(*ssa.Return)
		if !ok {
			return
		}
		for _, r := range ret.Results {
			for _, v := range backSlice(r, 30) {
				if call, ok := v.(*ssa.Call); ok && lossyImage[core.CalleeKey(&call.Call)] {
					lossy = true
				}
				// a part of a string (s[:n]) stands for many strings
				if sl, ok := v.(*ssa.Slice); ok && (sl.Low != nil || sl.High != nil) {
					if b, isBasic := sl.X.Type().Underlying().(*types.Basic); isBasic && b.Info()&types.IsString != 0 {
						lossy = true
					}
				}
			}
		}
	})
	return lossy
}

func traceSourcesAll(vs []ssa.Value) []ssa.Value {
	var out []ssa.Value
	for _, v := range vs {
		out = append(out, traceSources(v)...)
		out = append(out, v)
	}
	return out
}

func init() {
	for _, pid := range []string{"C14", "C19", "C12", "C03"} {
		pid := pid
		Properties[pid].Rules = append(Properties[pid].Rules, Rule{pid + "/sorts-are-total", func(c *Ctx) { ruleSortsAreTotal(c, pid+"/sorts-are-total") }})
	}
}

// A sort that is there to make the order of a map's keys deterministic must not leave ties between different keys:
// with a comparator that compares a lossy image of the keys (lower-cased, a prefix) tied keys keep the order the map
// iteration gave them. Every sort in the package whose input comes from a map (maps.Keys/Values/All, MapKeys, or a
// slice filled in a function that ranges over a map) is examined.
func ruleSortsAreTotal(c *Ctx, rule string) {
	n := 0
	for _, fn := range c.P.Funcs {
		if !c.P.InPkg(fn) || fn.Synthetic != "" {
			continue
		}
		k := 0
		core.EachInstr(fn, func(i ssa.Instruction) {
			call, ok := i.(*ssa.Call)
			if !ok || len(call.Call.Args) == 0 {
				return
			}
			key := core.CalleeKey(&call.Call)
			if !(strings.HasPrefix(key, "slices.Sort") || strings.HasPrefix(key, "sort.")) {
				return
			}
			fromMap := false
			for _, src := range append(traceSourcesDeep(call.Call.Args[0]), call.Call.Args[0]) {
				if sc, ok := src.(*ssa.Call); ok {
					switch core.CalleeKey(&sc.Call) {
					case "maps.Keys", "maps.Values", "maps.All", "reflect.Value.MapKeys":
						fromMap = true
					}
				}
			}
			top := fn
			for top.Parent() != nil {
				top = top.Parent()
			}
			for _, f := range core.WithAnon(top) {
				if len(c.randomLoopsShallow(f)) > 0 {
					fromMap = true
				}
			}
			if !fromMap {
				return
			}
			n++
			k++
			c.R.Check(isOrderingSort(call, key), rule, fmt.Sprintf("%s:sort#%d", core.FuncName(fn), k), c.pos(call), "the sort of what came out of a map orders different keys differently",
				"the comparator of this sort compares a lossy image of the elements (lower-cased, trimmed, a prefix, a length): different keys can tie, tied keys keep the order the map iteration produced, and what is built from the sorted list (the order of resolution, the hash, the output) differs from call to call")
		})
	}
	c.R.Floor(rule, "sorts of values taken from maps", n, 2)
}
