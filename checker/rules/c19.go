package rules

import (
	"fmt"
	"go/token"
	"go/types"
	"strings"

	"golang.org/x/tools/go/ssa"

	"verif/checker/core"
)

func init() {
	register(&Property{
		ID: "C19",
		Rules: []Rule{
			{"C19/order-insensitive", func(c *Ctx) { c.ruleOrderInsensitive("C19/order-insensitive", "MAR") }},
			{"C19/listed-first", ruleC19ListedFirst},
			{"C19/duplicates-rejected", ruleC19Duplicates},
			{"C19/inputs-untouched", func(c *Ctx) { c.ruleNoSharedWrites("C19/inputs-untouched", "MAR") }},
			{"C19/inferred-order-duplicate-free", func(c *Ctx) { ruleInferredOrderDedup(c, "C19/inferred-order-duplicate-free") }},
		},
		Explanation: "Decides the emission order of properties structurally: no byte is emitted from an iteration in Go's randomised map order (every such loop reachable from MarshalJSON only inserts under element keys or fills a slice that is sorted before use); in the properties emitter the listed names are emitted first, each only if it names a property and is then recorded, the unlisted remainder is collected under the negated record, sorted, and emitted on every successful path (no shortcut can skip it); the duplicate check of PropertyOrder rejects a second occurrence of any name, listed property or not, runs before any emission and MarshalJSON has a value receiver so nested schemas reach it; marshaling does not write to the schema, its PropertyOrder slice or its maps; inference always de-duplicates the order it produces. It does NOT observe byte equality of repeated marshals; encoding/json's own determinism is trusted.",
		NotDecided:  []string{"byte equality of repeated marshals as an observation", "encoding/json's own determinism"},
	})
}

func ruleC19ListedFirst(c *Ctx) {
	const rule = "C19/listed-first"
	em := c.fn("orderedProperties.MarshalJSON")
	if em == nil {
		c.R.Unresolved(rule, "orderedProperties.MarshalJSON")
		return
	}
	// emission sites: calls in em of a nested function that writes to a sink
	var emits []*ssa.Call
	core.EachInstr(em, func(i ssa.Instruction) {
		call, ok := i.(*ssa.Call)
		if !ok {
			return
		}
		writes := func(f *ssa.Function) bool {
			w := false
			core.EachInstr(f, func(j ssa.Instruction) {
				if c2, ok := j.(ssa.CallInstruction); ok && isSinkWrite(core.CalleeKey(c2.Common())) {
					w = true
				}
			})
			return w
		}
		added := false
		for _, src := range traceSources(call.Call.Value) {
			if mc, ok := src.(*ssa.MakeClosure); ok && writes(mc.Fn.(*ssa.Function)) && !added {
				emits = append(emits, call)
				added = true
			}
		}
		// ... or a package function or method that writes one entry (key and value) to the sink
		if callee := call.Call.StaticCallee(); !added && callee != nil && c.P.InPkg(callee) && callee != em && callee.Parent() == nil && writes(callee) {
			for _, a := range call.Call.Args {
				if tString(a.Type()) {
					emits = append(emits, call)
					break
				}
			}
		}
	})
	if len(emits) != 2 {
		c.R.Bad(rule, "emission-sites", c.P.Pos(em.Pos()), fmt.Sprintf("expected two emission sites in the properties emitter (listed names, then the sorted remainder); found %d", len(emits)))
		return
	}
	first, second := emits[0], emits[1]
	if core.ReachableFromInstr(second, first) && !core.ReachableFromInstr(first, second) {
		first, second = second, first
	}
	// first: key ranges over the order field, guarded by presence in props, followed by recording
	okFirst := c.mentionsField(emitName(first), "orderedProperties.order", 8)
	c.R.Check(okFirst, rule, "first-pass:ranges-over-order", c.pos(first), "the first pass emits the names of PropertyOrder in their order", "the first emission pass does not iterate PropertyOrder")
	// ... the whole of it: what is handed over as the order is Schema.PropertyOrder itself, not a part of it
	nOrd := 0
	for _, fn := range c.Closure(rule, "MAR").Sorted() {
		core.EachInstr(fn, func(i ssa.Instruction) {
			st, ok := i.(*ssa.Store)
			if !ok {
				return
			}
			fa, ok := st.Addr.(*ssa.FieldAddr)
			if !ok || c.fieldName(fa.X.Type(), fa.Field) != "orderedProperties.order" {
				return
			}
			nOrd++
			partial := ""
			for _, v := range traceSourcesKeepSlices(st.Val) {
				if sl, ok := v.(*ssa.Slice); ok && (sl.Low != nil || sl.High != nil) {
					partial = c.pos(sl)
				}
			}
			whole := partial == "" && c.mentionsField(st.Val, "Schema.PropertyOrder", 5)
			c.R.Check(whole, rule, fmt.Sprintf("order-handed-over#%d", nOrd), c.pos(st), "the order used for emission is the whole PropertyOrder", "the order used for the emission of the properties is not the whole of Schema.PropertyOrder (a slice expression at "+partial+"): listed names beyond the cut fall back to the sorted remainder, so the output no longer honours the order the caller gave")
		})
	}
	present := false
	for _, g := range guardsOf(first) {
		if ex, ok := g.Cond.(*ssa.Extract); ok && g.Pol && ex.Index == 1 {
			if lk, ok := ex.Tuple.(*ssa.Lookup); ok && c.mentionsField(lk.X, "orderedProperties.props", 4) {
				present = true
			}
		}
	}
	c.R.Check(present, rule, "first-pass:absent-names-ignored", c.pos(first), "a listed name is emitted only if it names a property", "a PropertyOrder entry is emitted without testing that it names a property: an absent name would be emitted with a null schema")
	// recording: a MapUpdate(processed, name, true) that the emission dominates, in the same loop iteration
	var processed ssa.Value
	core.EachInstr(em, func(i ssa.Instruction) {
		if mu, ok := i.(*ssa.MapUpdate); ok && core.Dominates(first, mu) && mu.Block().Dominates(mu.Block()) {
			// a set: map[string]bool with true, or map[string]struct{}
			isMember := false
			if k, ok := mu.Value.(*ssa.Const); ok && k.Value != nil && k.Value.String() == "true" {
				isMember = true
			}
			if st, ok := mu.Value.Type().Underlying().(*types.Struct); ok && st.NumFields() == 0 {
				isMember = true
			}
			if isMember && sharesSource(mu.Key, emitName(first)) {
				processed = mu.Map
			}
		}
	})
	c.R.Check(processed != nil, rule, "first-pass:recorded", c.pos(first), "every emitted listed name is recorded as processed", "an emitted listed name is not recorded: it would be emitted again with the remainder")
	// second: ranges over a slice that was filled under !processed[name] from the props map and sorted
	var remaining ssa.Value
	for _, s := range traceSourcesPhi(emitName(second)) {
		remaining = s.val
	}
	var sortCall *ssa.Call
	core.EachInstr(em, func(i ssa.Instruction) {
		if call, ok := i.(*ssa.Call); ok {
			key := core.CalleeKey(&call.Call)
			if isOrderingSort(call, key) {
				sortCall = call
			}
		}
	})
	if sortCall == nil {
		c.R.Bad(rule, "second-pass:sorted", c.pos(second), "the remaining names are not sorted before they are emitted")
		return
	}
	c.R.Check(core.Dominates(sortCall, second), rule, "second-pass:sorted", c.pos(sortCall), "the remainder is sorted before its emission", "the remainder is emitted on a path that does not pass the sort")
	_ = remaining
	// the remainder is collected under the negated processed test
	collected := false
	core.EachInstr(em, func(i ssa.Instruction) {
		call, ok := i.(*ssa.Call)
		if !ok || core.CalleeKey(&call.Call) != "builtin.append" || !core.ReachableFromInstr(call, sortCall) {
			return
		}
		for _, g := range guardsOf(call) {
			if lk, ok := g.Cond.(*ssa.Lookup); ok && !g.Pol && processed != nil && sharesSource(lk.X, processed) {
				collected = true
			}
			if ex, ok := g.Cond.(*ssa.Extract); ok && !g.Pol && ex.Index == 1 && processed != nil {
				if lk, ok := ex.Tuple.(*ssa.Lookup); ok && sharesSource(lk.X, processed) {
					collected = true
				}
			}
		}
	})
	// ... or every name of the map is gone through in sorted order and the processed ones are passed over at the emission
	for _, g := range guardsOf(second) {
		if lk, ok := g.Cond.(*ssa.Lookup); ok && !g.Pol && processed != nil && sharesSource(lk.X, processed) && sharesSource(lk.Index, emitName(second)) {
			collected = true
		}
		if ex, ok := g.Cond.(*ssa.Extract); ok && !g.Pol && ex.Index == 1 && processed != nil {
			if lk, ok := ex.Tuple.(*ssa.Lookup); ok && sharesSource(lk.X, processed) && sharesSource(lk.Index, emitName(second)) {
				collected = true
			}
		}
	}
	c.R.Check(collected, rule, "second-pass:complement-of-listed", c.pos(sortCall), "the remainder consists of the names not recorded as processed", "the remainder is not collected under the negated `processed` test: listed names would be emitted twice, or unlisted ones dropped")
	// the sort (and with it the second pass) lies on every path from entry to a successful return
	through := map[*ssa.BasicBlock]bool{sortCall.Block(): true}
	targets := map[*ssa.BasicBlock]bool{}
	core.EachInstr(em, func(i ssa.Instruction) {
		if ret, ok := i.(*ssa.Return); ok && len(ret.Results) == 2 {
			if k, ok := ret.Results[1].(*ssa.Const); ok && k.IsNil() {
				targets[ret.Block()] = true
			}
		}
	})
	okAlways := len(targets) > 0 && mustPass(em.Blocks[0], through, targets)
	c.R.Check(okAlways, rule, "second-pass:never-skipped", c.pos(sortCall), "every successful return passes through the collection and emission of the unlisted properties", "a successful return can be reached without emitting the unlisted properties (a shortcut skips the second pass): properties not named in PropertyOrder are dropped from the output")
	// the first pass goes through the whole list: the loop is left early only to report an error
	if h := loopHeaderOf(first.Block()); h != nil {
		early := ""
		for _, b := range em.Blocks {
			if b == h || !inLoopOf(h, b) {
				continue
			}
			for _, s := range b.Succs {
				if !inLoopOf(h, s) && !blockReturnsErrorDeepLocal(s) {
					early = c.pos(b.Instrs[len(b.Instrs)-1])
				}
			}
		}
		c.R.Check(early == "", rule, "first-pass:runs-to-the-end", c.pos(first), "the pass over the listed names is left early only to report an error", "the pass over the listed names can be left before the end of the list without an error (the exit at "+early+"): the listed names after that point lose their place and come out with the sorted remainder")
	}
	// order: nothing of the first pass can run after the second
	c.R.Check(!core.ReachableFromInstr(second, first), rule, "passes:listed-then-rest", c.pos(second), "no listed name can be emitted after the remainder", "a listed name can be emitted after names of the remainder")
}

func ruleC19Duplicates(c *Ctx) {
	const rule = "C19/duplicates-rejected"
	mar := c.fn("Schema.MarshalJSON")
	if mar == nil {
		c.R.Unresolved(rule, "Schema.MarshalJSON")
		return
	}
	// value receiver
	recv := mar.Signature.Recv()
	_, isPtr := recv.Type().(*types.Pointer)
	c.R.Check(!isPtr, rule, "value-receiver", c.P.Pos(mar.Pos()), "MarshalJSON has a value receiver: encoding/json calls it for nested and non-addressable schemas too", "MarshalJSON has a pointer receiver: encoding/json does not call it for schemas stored as map values or in non-addressable positions, so nested schemas bypass the ordering and the checks")
	// the checker function: callee of MarshalJSON that ranges over PropertyOrder
	var chk *ssa.Function
	var chkCall *ssa.Call
	core.EachInstr(mar, func(i ssa.Instruction) {
		if call, ok := i.(*ssa.Call); ok {
			if callee := call.Call.StaticCallee(); callee != nil && c.P.InPkg(callee) && callee.Signature.Results().Len() == 1 && isErrorType(callee.Signature.Results().At(0).Type()) {
				uses := false
				core.EachInstr(callee, func(j ssa.Instruction) {
					if fa, ok := j.(*ssa.FieldAddr); ok && c.fieldName(fa.X.Type(), fa.Field) == "Schema.PropertyOrder" {
						uses = true
					}
				})
				if uses {
					chk, chkCall = callee, call
				}
			}
		}
	})
	if chk == nil {
		c.R.Bad(rule, "check-called", c.P.Pos(mar.Pos()), "MarshalJSON does not call a check of PropertyOrder")
		return
	}
	// its error is returned and it dominates the emission (the splice helper call)
	errReturned := false
	if chkCall.Referrers() != nil {
		for _, r := range *chkCall.Referrers() {
			if bo, ok := r.(*ssa.BinOp); ok && bo.Referrers() != nil {
				for _, r2 := range *bo.Referrers() {
					if ifi, ok := r2.(*ssa.If); ok && bo.Op == token.NEQ && blockReturnsErrorDeep(ifi.Block().Succs[0]) {
						errReturned = true
					}
				}
			}
		}
	}
	c.R.Check(errReturned, rule, "check-error-returned", c.pos(chkCall), "a failed check makes MarshalJSON fail", "the error of the PropertyOrder check is not returned by MarshalJSON")
	domAll := true
	core.EachInstr(mar, func(i ssa.Instruction) {
		if call, ok := i.(*ssa.Call); ok {
			if callee := call.Call.StaticCallee(); callee != nil && callee.Origin() != nil && c.P.InPkg(callee) && !core.Dominates(chkCall, call) {
				domAll = false
			}
		}
	})
	c.R.Check(domAll, rule, "check-before-emission", c.pos(chkCall), "the check dominates the emission", "output can be produced before PropertyOrder was checked")
	// inside the check: second occurrence -> error; every name is recorded in every iteration
	var lk *ssa.Lookup
	var mu *ssa.MapUpdate
	core.EachInstr(chk, func(i ssa.Instruction) {
		switch x := i.(type) {
		case *ssa.Lookup:
			if c.elemOfField(x.Index, "Schema.PropertyOrder") {
				lk = x
			}
		case *ssa.MapUpdate:
			if c.elemOfField(x.Key, "Schema.PropertyOrder") {
				mu = x
			}
		}
	})
	if lk == nil || mu == nil {
		c.R.Bad(rule, "seen-set", c.P.Pos(chk.Pos()), "the PropertyOrder check does not keep a set of the names seen so far")
		return
	}
	// found -> error
	rejects := false
	if lk.Referrers() != nil {
		for _, r := range *lk.Referrers() {
			var cond ssa.Value = lk
			if ex, ok := r.(*ssa.Extract); ok && ex.Index == 1 {
				cond = ex
			} else if !lk.CommaOk {
				cond = lk
			} else {
				continue
			}
			for _, b := range chk.Blocks {
				if ifi, ok := b.Instrs[len(b.Instrs)-1].(*ssa.If); ok && ifi.Cond == cond && blockReturnsErrorDeep(b.Succs[0]) {
					rejects = true
				}
			}
		}
	}
	c.R.Check(rejects, rule, "second-occurrence-rejected", c.pos(lk), "a name already seen makes the check fail", "a second occurrence of a PropertyOrder name does not make the check fail")
	// ... starting with the first entry
	for _, src := range traceSources(mu.Key) {
		if ld, ok := src.(*ssa.UnOp); ok {
			if ia, ok := ld.X.(*ssa.IndexAddr); ok {
				// ... of the list itself, whatever else the schema holds
				if phi, isPhi := ia.X.(*ssa.Phi); isPhi {
					other := ""
					for _, e := range phi.Edges {
						if !c.mentionsField(e, "Schema.PropertyOrder", 4) {
							other = c.pos(phi)
						}
					}
					c.R.Check(other == "", rule, "scan:the-list-itself", c.pos(ia), "what is scanned is PropertyOrder on every path", "on some path the duplicate scan runs over something else than Schema.PropertyOrder (an empty list when the schema has no properties, say): a PropertyOrder with a repeated name is then accepted for such a schema and marshals, although the documented contract is that Marshal fails")
				}
				if start, ok := indexStart(ia.Index); ok {
					c.R.Check(start == 0, rule, "from-the-first-entry", c.pos(ia), "the scan of PropertyOrder starts at its first entry", fmt.Sprintf("the scan of PropertyOrder starts at entry %d: the entries before it are never recorded as seen, so a later repetition of one of them is accepted and the property is written twice", start))
				}
			}
		}
	}
	// the membership test and the recording happen for every element: both post-dominate the loop body entry (modulo the error return)
	var header *ssa.BasicBlock
	for d := mu.Block(); d != nil && header == nil; d = d.Idom() {
		for _, pr := range d.Preds {
			if d.Dominates(pr) && (pr == mu.Block() || core.Reachable(mu.Block(), pr, nil)) {
				header = d
			}
		}
	}
	if header == nil {
		c.R.Unknown(rule, "every-name-checked", c.pos(mu), "the recording is not in a loop")
		return
	}
	var bodyEntry *ssa.BasicBlock
	for _, s := range header.Succs {
		if header.Dominates(s) && core.Reachable(s, header, nil) {
			bodyEntry = s
		}
	}
	okEvery := bodyEntry != nil && mustPass(bodyEntry, map[*ssa.BasicBlock]bool{mu.Block(): true}, map[*ssa.BasicBlock]bool{header: true}) && lk.Block().Dominates(mu.Block()) && (bodyEntry == lk.Block() || bodyEntry.Dominates(lk.Block()) && core.Info(chk).PostDominates(lk.Block(), bodyEntry))
	c.R.Check(okEvery, rule, "every-name-checked", c.pos(mu), "every entry of PropertyOrder is tested against, and added to, the set of names seen", "some entries of PropertyOrder can skip the duplicate test or the recording (e.g. names that are not properties): a duplicate among them is accepted")
}

// elemOfField: v is an element of the slice stored in the named field.
func (c *Ctx) elemOfField(v ssa.Value, field string) bool {
	for _, s := range traceSources(v) {
		if ld, ok := s.(*ssa.UnOp); ok {
			if ia, ok := ld.X.(*ssa.IndexAddr); ok && c.mentionsField(ia.X, field, 4) {
				return true
			}
		}
		if ex, ok := s.(*ssa.Extract); ok {
			if nx, ok := ex.Tuple.(*ssa.Next); ok {
				if rg, ok := nx.Iter.(*ssa.Range); ok && c.mentionsField(rg.X, field, 4) {
					return true
				}
			}
		}
	}
	return false
}

// ruleInferredOrderDedup (C19, C16): the de-duplication of the inferred
// PropertyOrder is conditional only on there being more than one entry.
func ruleInferredOrderDedup(c *Ctx, rule string) {
	ft := c.inferFn(rule)
	if ft == nil {
		return
	}
	// appends of a name to PropertyOrder that are not decided by the name-conflict resolution (C04/json-name-conflicts):
	// a name entered by one of them can be entered again later
	var unchecked []ssa.Instruction
	c.eachFam(ft, func(i ssa.Instruction) {
		st, ok := i.(*ssa.Store)
		if !ok {
			return
		}
		fa, ok := st.Addr.(*ssa.FieldAddr)
		if !ok || c.fieldName(fa.X.Type(), fa.Field) != "Schema.PropertyOrder" {
			return
		}
		call, ok := st.Val.(*ssa.Call)
		if !ok || core.CalleeKey(&call.Call) != "builtin.append" || !c.mentionsField(call.Call.Args[0], "Schema.PropertyOrder", 3) {
			return
		}
		for _, g := range controlGuards(st) {
			if !isRangeCond(g.Cond) && sliceMentionsField(g.Cond, "Index") && (sliceMentionsField(g.Cond, "name") || sliceMentionsField(g.Cond, "Properties")) {
				return
			}
		}
		unchecked = append(unchecked, st)
	})
	// a name is appended exactly where it becomes a property: next to an entry into Schema.Properties under that name
	// (an append that also runs for a name that is a property already gives that name a second, later place, and the
	// de-duplication that follows keeps the wrong one)
	nApp := 0
	c.eachFam(ft, func(i ssa.Instruction) {
		st, ok := i.(*ssa.Store)
		if !ok {
			return
		}
		fa, ok := st.Addr.(*ssa.FieldAddr)
		if !ok || c.fieldName(fa.X.Type(), fa.Field) != "Schema.PropertyOrder" {
			return
		}
		call, ok := st.Val.(*ssa.Call)
		if !ok || core.CalleeKey(&call.Call) != "builtin.append" || !c.mentionsField(call.Call.Args[0], "Schema.PropertyOrder", 3) || len(call.Call.Args) != 2 {
			return
		}
		// the appended name: append(order, name) is append(order, []string{name}...)
		var names []ssa.Value
		for _, src := range []ssa.Value{call.Call.Args[1]} {
			if sl, ok := src.(*ssa.Slice); ok {
				if al, ok := sl.X.(*ssa.Alloc); ok && al.Referrers() != nil {
					for _, r := range *al.Referrers() {
						if ia, ok := r.(*ssa.IndexAddr); ok && ia.Referrers() != nil {
							for _, r2 := range *ia.Referrers() {
								if s2, ok := r2.(*ssa.Store); ok && s2.Addr == ssa.Value(ia) {
									names = append(names, s2.Val)
								}
							}
						}
					}
				}
			}
		}
		if len(names) != 1 {
			return
		}
		nApp++
		fi := core.Info(st.Parent())
		together := false
		core.EachInstr(st.Parent(), func(j ssa.Instruction) {
			mu, ok := j.(*ssa.MapUpdate)
			if !ok || !c.mentionsField(mu.Map, "Schema.Properties", 4) || !(mu.Key == names[0] || sameVarValue(mu.Key, names[0]) || sharesSource(mu.Key, names[0]) || sameFieldLoad(mu.Key, names[0])) {
				return
			}
			if mu.Block() == st.Block() || mu.Block().Dominates(st.Block()) && fi.PostDominates(st.Block(), mu.Block()) || st.Block().Dominates(mu.Block()) && fi.PostDominates(mu.Block(), st.Block()) {
				together = true
			}
		})
		c.R.Check(together, rule, fmt.Sprintf("%s:append#%d:where-the-property-is-entered", core.FuncName(st.Parent()), nApp), c.pos(st), "a name is appended to the order exactly where it is entered into the properties",
			"a name is appended to PropertyOrder on paths on which it is not entered into Properties (for instance for a name that is a property already): the name gets a second, later position, and the de-duplication keeps that one, so the inferred order no longer follows the fields")
	})
	// a property entered outside the name-conflict resolution (the properties of an overriding schema) never replaces
	// one that is there already: the entry is guarded by a failed lookup of the same name in the same map
	nOv := 0
	for _, fi := range c.familyInstrs(ft) {
		mu, ok := fi.I.(*ssa.MapUpdate)
		if !ok || !c.mentionsField(mu.Map, "Schema.Properties", 4) {
			continue
		}
		key := upValue(mu.Key, fi.Path)
		fromName := false
		for _, src := range append(traceSources(key), key) {
			if mentionsStructFieldNamed(src, "name", 3) {
				fromName = true
			}
		}
		if fromName {
			continue // decided by the name-conflict resolution
		}
		nOv++
		own := false
		for _, g := range famGuards(fi) {
			var lk *ssa.Lookup
			switch x := g.Cond.(type) {
			case *ssa.Extract:
				if l, ok := x.Tuple.(*ssa.Lookup); ok && x.Index == 1 {
					lk = l
				}
			case *ssa.Call:
				// hasProperty(s, name): a package predicate that answers with the ok of a lookup in its schema's properties
				if h := x.Call.StaticCallee(); h != nil && c.P.InPkg(h) && !g.Pol {
					answers := false
					core.EachInstr(h, func(j ssa.Instruction) {
						if ret, ok := j.(*ssa.Return); ok && len(ret.Results) == 1 {
							if ex, ok := ret.Results[0].(*ssa.Extract); ok && ex.Index == 1 {
								if l, ok := ex.Tuple.(*ssa.Lookup); ok && c.mentionsField(l.X, "Schema.Properties", 4) {
									if _, isParam := l.Index.(*ssa.Parameter); isParam {
										answers = true
									}
								}
							}
						}
					})
					if answers {
						for _, a := range x.Call.Args {
							if a == key || sharesSource(a, key) || a == mu.Key {
								own = true
							}
						}
					}
				}
			}
			if lk == nil || g.Pol {
				continue
			}
			sameSchema := sharesSource(lk.X, mu.Map) || sameFieldLoad(lk.X, mu.Map)
			if !sameSchema && len(fi.Path) > 0 {
				// the entry is made by a helper: its schema parameter is the schema whose properties were looked up
				if b1, b2 := baseOfFieldLoad(lk.X), baseOfFieldLoad(mu.Map); b1 != nil && b2 != nil {
					up := upValue(b2, fi.Path)
					sameSchema = up == b1 || sharesSource(up, b1)
				}
			}
			if c.mentionsField(lk.X, "Schema.Properties", 4) && sameSchema && (lk.Index == key || sharesSource(lk.Index, key) || lk.Index == mu.Key) {
				own = true
			}
		}
		c.R.Check(own, rule, fmt.Sprintf("%s:override-entry#%d:only-if-absent", core.FuncName(mu.Parent()), nOv), c.pos(mu), "a property taken from an overriding schema is entered only if the struct has no property of that name yet",
			"a property taken from an overriding schema is entered without a failed lookup of its name in the properties collected so far (the test looks somewhere else, e.g. in the table of field owners, which earlier overrides do not fill): a second overridden embedded struct replaces the property of the first, and the name moves to a later position in the inferred order")
	}
	// the store of a de-duplicated slice into Schema.PropertyOrder: value does not come from append(load PropertyOrder, ...)
	n := 0
	c.eachFam(ft, func(i ssa.Instruction) {
		st, ok := i.(*ssa.Store)
		if !ok {
			return
		}
		fa, ok := st.Addr.(*ssa.FieldAddr)
		if !ok || c.fieldName(fa.X.Type(), fa.Field) != "Schema.PropertyOrder" {
			return
		}
		if call, ok := st.Val.(*ssa.Call); ok && core.CalleeKey(&call.Call) == "builtin.append" && c.mentionsField(call.Call.Args[0], "Schema.PropertyOrder", 3) {
			return // an ordinary append of a name
		}
		if call, ok := st.Val.(*ssa.Call); ok && len(call.Call.Args) > 0 && c.mentionsField(call.Call.Args[0], "Schema.PropertyOrder", 3) {
			if k := core.CalleeKey(&call.Call); strings.HasPrefix(k, "slices.Delete") {
				return // the removal of a name adds no duplicate
			}
		}
		n++
		var extra []string
		for _, g := range guardsOf(st) {
			if usesLen(g.Cond, 4) && c.mentionsField(g.Cond, "Schema.PropertyOrder", 6) {
				continue
			}
			if c.isKindDispatch(g.Cond) {
				continue
			}
			if isErrNilTest(g.Cond) || isRangeCond(g.Cond) || !skippable(g, st) {
				continue
			}
			// a flag that is true whenever one of the unchecked appends has run
			if g.Pol && st.Parent() == ft && flagTrueAfterAll(g.Cond, unchecked, g.At.Block()) {
				continue
			}
			extra = append(extra, c.pos(g.At))
		}
		c.R.Check(len(extra) == 0, rule, "dedup:unconditional", c.pos(st), "the inferred PropertyOrder is de-duplicated whenever a name can have been entered twice", fmt.Sprintf("the de-duplication of the inferred PropertyOrder is additionally conditional (guards at %v) on something that does not follow from a name having been entered outside the name-conflict resolution: a duplicate entry can remain, and marshaling the inferred schema then fails", extra))
	})
	if n == 0 {
		if len(unchecked) == 0 {
			c.R.OK(rule, "dedup:present", c.P.Pos(ft.Pos()), "every name enters PropertyOrder through the name-conflict resolution: no duplicate can arise")
		} else {
			c.R.Bad(rule, "dedup:present", c.P.Pos(ft.Pos()), "inference never replaces PropertyOrder by a de-duplicated list although names are entered outside the name-conflict resolution")
		}
	}
}

// flagTrueAfterAll: cond is a boolean local variable (constants merged by phis) that evaluates to true at the
// block `at` on every path that passes through one of the given instructions (all in the same function).
func flagTrueAfterAll(cond ssa.Value, after []ssa.Instruction, at *ssa.BasicBlock) bool {
	web := map[*ssa.Phi]bool{}
	okWeb := true
	var collect func(v ssa.Value)
	collect = func(v ssa.Value) {
		switch x := v.(type) {
		case *ssa.Phi:
			if web[x] {
				return
			}
			web[x] = true
			for _, e := range x.Edges {
				collect(e)
			}
		case *ssa.Const:
			if !isBoolType(x.Type()) {
				okWeb = false
			}
		default:
			okWeb = false
		}
	}
	collect(cond)
	if !okWeb || len(web) == 0 {
		return false
	}
	type tri int // 0 unknown, 1 true, 2 false
	eval := func(v ssa.Value, env map[*ssa.Phi]tri) tri {
		switch x := v.(type) {
		case *ssa.Const:
			if x.Value != nil && x.Value.String() == "true" {
				return 1
			}
			return 2
		case *ssa.Phi:
			return env[x]
		}
		return 0
	}
	sig := func(b *ssa.BasicBlock, env map[*ssa.Phi]tri) string {
		s := fmt.Sprint(b.Index)
		for _, blk := range b.Parent().Blocks {
			for _, ins := range blk.Instrs {
				if p, ok := ins.(*ssa.Phi); ok && web[p] {
					s += fmt.Sprintf(",%d", env[p])
				}
			}
		}
		return s
	}
	for _, a := range after {
		if a.Parent() != at.Parent() {
			return false
		}
		seen := map[string]bool{}
		ok := true
		var walk func(pred, b *ssa.BasicBlock, env map[*ssa.Phi]tri)
		walk = func(pred, b *ssa.BasicBlock, env map[*ssa.Phi]tri) {
			if !ok {
				return
			}
			// parallel evaluation of the phis of b for the edge pred -> b
			next := map[*ssa.Phi]tri{}
			for k, v := range env {
				next[k] = v
			}
			pi := -1
			for k, p := range b.Preds {
				if p == pred {
					pi = k
				}
			}
			for _, ins := range b.Instrs {
				p, isPhi := ins.(*ssa.Phi)
				if !isPhi {
					break
				}
				if web[p] && pi >= 0 {
					next[p] = eval(p.Edges[pi], env)
				}
			}
			if b == at {
				if eval(cond, next) != 1 {
					ok = false
				}
				return
			}
			k := sig(b, next)
			if seen[k] {
				return
			}
			seen[k] = true
			for _, s := range b.Succs {
				walk(b, s, next)
			}
		}
		for _, s := range a.Block().Succs {
			walk(a.Block(), s, map[*ssa.Phi]tri{})
		}
		if !ok {
			return false
		}
	}
	return true
}

func isRangeCond(cond ssa.Value) bool {
	if ex, ok := cond.(*ssa.Extract); ok {
		if _, isNext := ex.Tuple.(*ssa.Next); isNext {
			return true
		}
	}
	if bo, ok := cond.(*ssa.BinOp); ok && (bo.Op == token.LSS || bo.Op == token.GEQ || bo.Op == token.GTR || bo.Op == token.LEQ) {
		// index loop conditions
		if _, isPhi := bo.X.(*ssa.Phi); isPhi {
			return true
		}
		if b2, ok := bo.X.(*ssa.BinOp); ok {
			if _, isPhi := b2.X.(*ssa.Phi); isPhi {
				return true
			}
		}
	}
	return false
}

func (c *Ctx) isKindDispatch(cond ssa.Value) bool {
	bo, ok := cond.(*ssa.BinOp)
	if !ok {
		return false
	}
	for _, v := range []ssa.Value{bo.X, bo.Y} {
		if call, ok := v.(*ssa.Call); ok && strings.HasSuffix(core.CalleeKey(&call.Call), ".Kind") {
			return true
		}
	}
	return false
}

// isEarlyExitGuard: the guard's other outcome leaves the function (an error return), so it does not make the guarded code optional.
func (c *Ctx) isEarlyExitGuard(g guardAtom) bool {
	ifi, ok := g.At.(*ssa.If)
	if !ok {
		return false
	}
	for _, s := range ifi.Block().Succs {
		if blockReturnsErrorDeep(s) || blockReturnsError(s) || returnsNilNil(s) {
			return true
		}
	}
	return false
}

func returnsNilNil(b *ssa.BasicBlock) bool {
	for hops := 0; hops < 3; hops++ {
		if ret, ok := b.Instrs[len(b.Instrs)-1].(*ssa.Return); ok {
			return len(ret.Results) > 0
		}
		if len(b.Succs) != 1 {
			return false
		}
		b = b.Succs[0]
	}
	return false
}

// inferFn: the recursive type-directed inference function: (reflect.Type, ...) (*Schema, error) calling itself.
func (c *Ctx) inferFn(rule string) *ssa.Function {
	if f, ok := c.roles["role:infer"]; ok {
		return f
	}
	var found []*ssa.Function
	for _, fn := range c.Closure(rule, "INF").Sorted() {
		s := fn.Signature
		// a function or method with a reflect.Type parameter that returns (*Schema, error) and recurses
		hasType := false
		for k := 0; k < s.Params().Len(); k++ {
			if isNamed(s.Params().At(k).Type(), "reflect", "Type") {
				hasType = true
			}
		}
		exported := fn.Object() != nil && fn.Object().Exported()
		if fn.Parent() == nil && !exported && hasType && s.Results().Len() == 2 && c.isPkgNamed(s.Results().At(0).Type(), "Schema") && c.callsSelf(fn) {
			found = append(found, fn)
		}
	}
	var f *ssa.Function
	if len(found) == 1 {
		f = found[0]
	} else {
		c.R.Unresolved(rule, fmt.Sprintf("inference function (found %d candidates)", len(found)))
	}
	c.roles["role:infer"] = f
	return f
}

// skippable: the other outcome of guard g can reach a return that is also
// reachable after instruction at, without executing at: the guard makes at optional.
func skippable(g guardAtom, at ssa.Instruction) bool {
	ifi, ok := g.At.(*ssa.If)
	if !ok {
		return true
	}
	other := ifi.Block().Succs[1-g.Succ]
	targets := map[*ssa.BasicBlock]bool{}
	for _, b := range at.Parent().Blocks {
		if _, isRet := b.Instrs[len(b.Instrs)-1].(*ssa.Return); isRet && (b == at.Block() || core.Reachable(at.Block(), b, nil)) {
			targets[b] = true
		}
	}
	// at in the tail of a helper (`return f(x)`): the continuation is the helper's success exit, which the other
	// outcome may reach by a `return nil` of its own
	if _, tail := at.Block().Instrs[len(at.Block().Instrs)-1].(*ssa.Return); tail {
		for _, b := range at.Parent().Blocks {
			if ret, isRet := b.Instrs[len(b.Instrs)-1].(*ssa.Return); isRet && b != at.Block() && len(ret.Results) > 0 {
				if k, ok := ret.Results[len(ret.Results)-1].(*ssa.Const); ok && k.IsNil() && isErrorType(k.Type()) {
					targets[b] = true
				}
			}
		}
	}
	return !mustPass(other, map[*ssa.BasicBlock]bool{at.Block(): true}, targets)
}

// emitName: the property name handed to an emission call (its first string argument: a method has its receiver first).
func emitName(call *ssa.Call) ssa.Value {
	for _, a := range call.Call.Args {
		if tString(a.Type()) {
			return a
		}
	}
	return call.Call.Args[0]
}

// loopHeaderOf: the header of the innermost natural loop containing b (nil: none).
func loopHeaderOf(b *ssa.BasicBlock) *ssa.BasicBlock {
	for d := b; d != nil; d = d.Idom() {
		for _, pr := range d.Preds {
			if d.Dominates(pr) && (pr == b || b == d || core.Reachable(b, pr, nil)) {
				return d
			}
		}
	}
	return nil
}

// inLoopOf: b belongs to the natural loop headed by h.
func inLoopOf(h, b *ssa.BasicBlock) bool {
	return b == h || h.Dominates(b) && core.Reachable(b, h, nil)
}

// indexStart: the first value of a loop index (i, or i+1 of a range loop's hidden counter).
func indexStart(idx ssa.Value) (int64, bool) {
	add := int64(0)
	if bo, ok := idx.(*ssa.BinOp); ok && bo.Op == token.ADD {
		if k, ok := bo.Y.(*ssa.Const); ok {
			if n, ok := constInt(k); ok {
				add, idx = n, bo.X
			}
		}
	}
	phi, ok := idx.(*ssa.Phi)
	if !ok {
		return 0, false
	}
	var init *int64
	for _, e := range phi.Edges {
		if k, ok := e.(*ssa.Const); ok {
			if n, ok := constInt(k); ok {
				if init != nil && *init != n {
					return 0, false
				}
				init = &n
			}
		}
	}
	if init == nil {
		return 0, false
	}
	return *init + add, true
}
