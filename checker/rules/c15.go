package rules

import (
	"fmt"
	"go/token"
	"go/types"
	"strings"

	"golang.org/x/tools/go/ssa"

	"verif/checker/core"
)

func init() {
	register(&Property{
		ID: "C15",
		Rules: []Rule{
			{"C15/never-required", ruleC15NeverRequired},
			{"C15/present-untouched", ruleC15PresentUntouched},
			{"C15/inserted-is-declared", ruleC15Inserted},
			{"C15/predicate-agrees", ruleC15Predicate},
			{"C15/validate-all-defaults", ruleC15ValidateAll},
		},
		Explanation: "Decides the shape of default application: every mutation of the instance is dominated by the not-required outcome of the membership test in the required set, for the same property; a default (or an empty container for nested defaults) is installed only on the missing outcome of one validity test of the looked-up value, and on the present outcome the value written back is the present value passed through the recursive call; every inserted value is a fresh per-application decode of the Default of the subschema of that very property, or a fresh container created under the has-nested-defaults predicate of that subschema; the predicate and the applier descend through the same schema fields and the predicate recurses; default validation walks the full schema tree, evaluates each decoded default against the schema that declares it, can be skipped by nothing but the absence of a default, runs under exactly the ValidateDefaults option and its error is returned. It does NOT observe idempotence, nor behaviour for typed (non-any) element types.",
		NotDecided:  []string{"idempotence as an observed law", "behaviour for typed (non-`any`) element types", "dynamic references during default validation (documented as unsupported)"},
	})
}

type defaultsModel struct {
	apply     *ssa.Function
	pred      *ssa.Function
	instParam *ssa.Parameter
	schParam  *ssa.Parameter
	muts      []*ssa.Call // SetMapIndex calls
}

func (c *Ctx) defaultsModel(rule string) *defaultsModel {
	m := &defaultsModel{}
	for _, fn := range c.Closure(rule, "DEF").Sorted() {
		if fn.Parent() != nil || !c.callsSelf(fn) {
			continue
		}
		var hv, hs bool
		for _, p := range fn.Params {
			if tReflectValue(p.Type()) {
				hv = true
			}
			if c.isPkgNamed(p.Type(), "Schema") {
				hs = true
			}
		}
		if hv && hs {
			m.apply = fn
		}
		if s := fn.Signature; s.Recv() == nil && s.Params().Len() == 1 && c.isPkgNamed(s.Params().At(0).Type(), "Schema") && s.Results().Len() == 1 && tBool(s.Results().At(0).Type()) {
			m.pred = fn
		}
	}
	if m.apply == nil {
		c.R.Unresolved(rule, "recursive default applier (reflect.Value, *Schema)")
		return nil
	}
	for _, p := range m.apply.Params {
		if tReflectValue(p.Type()) {
			m.instParam = p
		}
		if c.isPkgNamed(p.Type(), "Schema") {
			m.schParam = p
		}
	}
	core.EachInstr(m.apply, func(i ssa.Instruction) {
		if call, ok := i.(*ssa.Call); ok && core.CalleeKey(&call.Call) == "reflect.Value.SetMapIndex" {
			m.muts = append(m.muts, call)
		}
	})
	return m
}

// rangeKeyOfProperties: v is the key (index 1) or value (index 2) of the range over schema.Properties.
func (c *Ctx) rangeOverField(v ssa.Value, field string, idx int) bool {
	for _, s := range traceSources(v) {
		if ex, ok := s.(*ssa.Extract); ok && ex.Index == idx {
			if nx, ok := ex.Tuple.(*ssa.Next); ok {
				if rg, ok := nx.Iter.(*ssa.Range); ok && c.mentionsField(rg.X, field, 4) {
					return true
				}
			}
		}
	}
	return false
}

func ruleC15NeverRequired(c *Ctx) {
	const rule = "C15/never-required"
	m := c.defaultsModel(rule)
	if m == nil {
		return
	}
	for k, mut := range m.muts {
		ok := false
		for _, g := range guardsOf(mut) {
			lk, isLk := g.Cond.(*ssa.Lookup)
			if !isLk || g.Pol {
				continue
			}
			if c.mentionsField(lk.X, "resolvedInfo.isRequired", 4) && c.rangeOverField(lk.Index, "Schema.Properties", 1) {
				ok = true
			}
		}
		c.R.Check(ok, rule, fmt.Sprintf("mutation#%d", k+1), c.pos(mut), "the instance is modified only after the property was found not to be required", "an instance modification is not dominated by the not-required outcome of isRequired[prop] for the same property: a required property (or a container for one) can be filled in, which also hides the missing-required error from Validate")
	}
	// any other reflect mutator in the closure of ApplyDefaults
	n := 0
	for _, fn := range c.Closure(rule, "DEF").Sorted() {
		for _, call := range core.ReflectMutatorCalls(fn) {
			n++
			key := core.CalleeKey(call.Common())
			if key == "reflect.Value.SetMapIndex" && fn == m.apply {
				continue
			}
			if key == "reflect.Value.Set" && fn == m.apply {
				// writes into the fresh lvalue: receiver must be lvalue.Elem() of a reflect.New
				recv := call.Common().Args[0]
				fresh := false
				if ec, ok := recv.(*ssa.Call); ok && core.CalleeKey(&ec.Call) == "reflect.Value.Elem" {
					if nc, ok := ec.Call.Args[0].(*ssa.Call); ok && core.CalleeKey(&nc.Call) == "reflect.New" {
						fresh = true
					}
				}
				c.R.Check(fresh, rule, "set-into-fresh-lvalue", c.pos(call), "reflect Set writes only into a freshly allocated lvalue", "reflect.Value.Set writes into something other than a freshly allocated lvalue")
				continue
			}
			c.R.Bad(rule, "other-mutator:"+core.FuncName(fn)+":"+key, c.pos(call), "the closure of ApplyDefaults modifies the instance through "+key+" outside the guarded map insertions")
		}
	}
	c.R.Floor(rule, "instance mutations in the default applier", len(m.muts), 3)
}

func ruleC15PresentUntouched(c *Ctx) {
	const rule = "C15/present-untouched"
	m := c.defaultsModel(rule)
	if m == nil {
		return
	}
	// the looked-up value: property(instance, prop)
	// (the lookup may also report presence as a second result: (value, found))
	var val ssa.Value
	core.EachInstr(m.apply, func(i ssa.Instruction) {
		if call, ok := i.(*ssa.Call); ok {
			callee := call.Call.StaticCallee()
			if callee == nil || !c.P.InPkg(callee) || len(call.Call.Args) < 2 {
				return
			}
			one := sigIs(callee.Signature, []func(types.Type) bool{tReflectValue, tString}, []func(types.Type) bool{tReflectValue})
			two := sigIs(callee.Signature, []func(types.Type) bool{tReflectValue, tString}, []func(types.Type) bool{tReflectValue, tBool})
			if !(one || two) || !c.rangeOverField(call.Call.Args[1], "Schema.Properties", 1) {
				return
			}
			var result ssa.Value = call
			if two {
				result = nil
				if call.Referrers() != nil {
					for _, r := range *call.Referrers() {
						if ex, ok := r.(*ssa.Extract); ok && ex.Index == 0 {
							result = ex
						}
					}
				}
			}
			if result == nil || result.Referrers() == nil {
				return
			}
			// the lookup is the one whose result is tested for validity
			for _, r := range *result.Referrers() {
				if vc, ok := r.(*ssa.Call); ok && core.CalleeKey(&vc.Call) == "reflect.Value.IsValid" {
					val = result
				}
			}
		}
	})
	if val == nil {
		c.R.Unresolved(rule, "lookup of the property in the instance")
		return
	}
	nMissing, nPresent := 0, 0
	for k, mut := range m.muts {
		var pol *bool
		for _, g := range guardsOf(mut) {
			if gc, ok := g.Cond.(*ssa.Call); ok && core.CalleeKey(&gc.Call) == "reflect.Value.IsValid" && gc.Call.Args[0] == val {
				p := g.Pol
				pol = &p
			}
		}
		construct := fmt.Sprintf("mutation#%d", k+1)
		if pol == nil {
			c.R.Bad(rule, construct, c.pos(mut), "an instance modification is not decided by the validity test of the looked-up property alone (e.g. a present null is treated like a missing key): a value that is present could be replaced by a default")
			continue
		}
		if !*pol {
			nMissing++
			c.R.OK(rule, construct, c.pos(mut), "a default or container is installed only when the key is missing")
			continue
		}
		nPresent++
		// present: the written value is lvalue.Elem() with lvalue.Elem().Set(val) before
		wrote := false
		if ec, ok := mut.Call.Args[2].(*ssa.Call); ok && core.CalleeKey(&ec.Call) == "reflect.Value.Elem" {
			lv := ec.Call.Args[0]
			core.EachInstr(m.apply, func(i ssa.Instruction) {
				if sc, ok := i.(*ssa.Call); ok && core.CalleeKey(&sc.Call) == "reflect.Value.Set" && sc.Call.Args[1] == val && core.Dominates(sc, mut) {
					if e2, ok := sc.Call.Args[0].(*ssa.Call); ok && core.CalleeKey(&e2.Call) == "reflect.Value.Elem" && e2.Call.Args[0] == lv {
						wrote = true
					}
				}
			})
		}
		c.R.Check(wrote, rule, construct, c.pos(mut), "on the present path the value written back is the present value (after recursing into it)", "on the present path the value written back is not the present value")
	}
	c.R.Floor(rule, "installations on the missing path", nMissing, 2)
	c.R.Floor(rule, "write-backs on the present path", nPresent, 1)
}

func ruleC15Inserted(c *Ctx) {
	const rule = "C15/inserted-is-declared"
	m := c.defaultsModel(rule)
	if m == nil {
		return
	}
	for k, mut := range m.muts {
		construct := fmt.Sprintf("mutation#%d", k+1)
		// key is the property name
		keyOK := c.rangeOverField(mut.Call.Args[1], "Schema.Properties", 1) || c.keyFromProp(mut.Call.Args[1])
		c.R.Check(keyOK, rule, construct+":key", c.pos(mut), "the key inserted is the property being examined", "the key inserted is not the property whose subschema declares the default")
		// value: Elem() of a reflect.New in this activation
		ec, ok := mut.Call.Args[2].(*ssa.Call)
		if !ok || core.CalleeKey(&ec.Call) != "reflect.Value.Elem" {
			c.R.Bad(rule, construct+":fresh", c.pos(mut), "the inserted value is not the content of a fresh lvalue: a value kept elsewhere (e.g. a default decoded once at Resolve time) would be shared between instances and with the schema")
			continue
		}
		nc, ok := ec.Call.Args[0].(*ssa.Call)
		if !ok || core.CalleeKey(&nc.Call) != "reflect.New" {
			c.R.Bad(rule, construct+":fresh", c.pos(mut), "the inserted value does not come from a reflect.New of this application: it may be shared between instances")
			continue
		}
		c.R.OK(rule, construct+":fresh", c.pos(mut), "the inserted value is the content of an lvalue allocated by this application")
		// how the lvalue is filled
		var fill []string
		core.EachInstr(m.apply, func(i ssa.Instruction) {
			call, ok := i.(*ssa.Call)
			if !ok || !core.Dominates(call, mut) {
				return
			}
			switch core.CalleeKey(&call.Call) {
			case "encoding/json.Unmarshal":
				if ic, ok := peelIface(call.Call.Args[1]).(*ssa.Call); ok && core.CalleeKey(&ic.Call) == "reflect.Value.Interface" && ic.Call.Args[0] == nc {
					if c.mentionsField(call.Call.Args[0], "Schema.Default", 4) && c.rangeOverField(baseOfFieldLoad(call.Call.Args[0]), "Schema.Properties", 2) {
						fill = append(fill, "decode of the subschema's Default")
					} else {
						fill = append(fill, "BAD:decode of something other than this property's Default")
					}
				}
			case "reflect.Value.Set":
				if e2, ok := call.Call.Args[0].(*ssa.Call); ok && core.CalleeKey(&e2.Call) == "reflect.Value.Elem" && e2.Call.Args[0] == nc {
					fill = append(fill, "set")
				}
			}
		})
		okFill := len(fill) > 0
		for _, f := range fill {
			if strings.HasPrefix(f, "BAD:") {
				okFill = false
			}
		}
		c.R.Check(okFill, rule, construct+":content", c.pos(mut), "the lvalue is filled by "+strings.Join(fill, ", "), "the inserted value is not filled from the Default of the subschema of the same property (or from the present value / a fresh container)")
	}
	// containers for nested defaults are created only under the predicate of that subschema
	if m.pred != nil {
		n := 0
		core.EachInstr(m.apply, func(i ssa.Instruction) {
			call, ok := i.(*ssa.Call)
			if !ok {
				return
			}
			key := core.CalleeKey(&call.Call)
			isContainer := key == "reflect.MakeMap" || (key == "reflect.ValueOf" && isMapValue(call.Call.Args[0]))
			if !isContainer {
				return
			}
			n++
			guarded := false
			for _, g := range guardsOf(call) {
				if gc, ok := g.Cond.(*ssa.Call); ok && g.Pol && gc.Call.StaticCallee() == m.pred && c.rangeOverField(gc.Call.Args[0], "Schema.Properties", 2) {
					guarded = true
				}
			}
			c.R.Check(guarded, rule, fmt.Sprintf("container#%d", n), c.pos(call), "an empty container is created only when the subschema of that property has nested defaults", "an empty container is created without the has-nested-defaults predicate holding for the subschema of that property")
		})
	}
}

func (c *Ctx) keyFromProp(v ssa.Value) bool {
	// mapKey(instance, prop) or reflect.ValueOf(prop).Convert(...)
	for d := 0; d < 4; d++ {
		call, ok := v.(*ssa.Call)
		if !ok {
			return false
		}
		for _, a := range call.Call.Args {
			if c.rangeOverField(peelIface(a), "Schema.Properties", 1) {
				return true
			}
		}
		if len(call.Call.Args) == 0 {
			return false
		}
		v = call.Call.Args[0]
	}
	return false
}

func baseOfFieldLoad(v ssa.Value) ssa.Value {
	for {
		if ct, ok := v.(*ssa.ChangeType); ok {
			v = ct.X
			continue
		}
		if cv, ok := v.(*ssa.Convert); ok {
			v = cv.X
			continue
		}
		break
	}
	if ld, ok := v.(*ssa.UnOp); ok {
		if fa, ok := ld.X.(*ssa.FieldAddr); ok {
			return fa.X
		}
	}
	return v
}

func isMapValue(v ssa.Value) bool {
	v = peelIface(v)
	_, ok := v.Type().Underlying().(*types.Map)
	return ok
}

// schemaFieldsDescended: the schema-bearing fields of Schema a function recurses through.
func (c *Ctx) schemaFieldsDescended(fn *ssa.Function) map[string]bool {
	out := map[string]bool{}
	core.EachInstr(fn, func(i ssa.Instruction) {
		call, ok := i.(*ssa.Call)
		if !ok || call.Call.StaticCallee() != fn {
			return
		}
		for _, a := range call.Call.Args {
			if !(isPointer(a.Type()) && c.isPkgNamed(a.Type(), "Schema")) {
				continue
			}
			for _, f := range c.SchemaFields("") {
				if f.Shape == "schema" || f.Shape == "slice" || f.Shape == "map" {
					if c.mentionsField(a, "Schema."+f.Name, 6) || c.rangeOverField(a, "Schema."+f.Name, 2) {
						out[f.Name] = true
					}
				}
			}
		}
	})
	return out
}

func ruleC15Predicate(c *Ctx) {
	const rule = "C15/predicate-agrees"
	m := c.defaultsModel(rule)
	if m == nil {
		return
	}
	if m.pred == nil {
		c.R.Bad(rule, "predicate", c.P.Pos(m.apply.Pos()), "there is no recursive has-nested-defaults predicate: a missing parent of nested defaults cannot be decided consistently")
		return
	}
	pa, pp := c.schemaFieldsDescended(m.apply), c.schemaFieldsDescended(m.pred)
	c.R.Check(len(pp) > 0, rule, "predicate:recurses", c.P.Pos(m.pred.Pos()), "the predicate applies itself to child schemas", "the has-nested-defaults predicate does not recurse into child schemas: defaults deeper than one level never cause their parents to be created")
	same := len(pa) == len(pp)
	for k := range pa {
		if !pp[k] {
			same = false
		}
	}
	c.R.Check(same, rule, "same-fields", c.P.Pos(m.pred.Pos()), fmt.Sprintf("applier and predicate both descend through %v", sortedKeys(pa)), fmt.Sprintf("the applier descends through %v but the predicate through %v: containers are created for defaults that are never applied, or defaults are applied whose containers are never created", sortedKeys(pa), sortedKeys(pp)))
	// the predicate reports true for a schema with a Default
	readsDefault := false
	for _, fr := range c.fieldAccesses(m.pred) {
		if fr.Owner == "Schema" && !fr.Whole && fr.Field.Name() == "Default" {
			readsDefault = true
		}
	}
	c.R.Check(readsDefault, rule, "predicate:reads-default", c.P.Pos(m.pred.Pos()), "the predicate looks at the Default keyword", "the predicate never looks at the Default keyword")
}

func ruleC15ValidateAll(c *Ctx) {
	const rule = "C15/validate-all-defaults"
	E := c.Evaluator(rule)
	res := c.entry(rule, "(*Schema).Resolve")
	if E == nil || res == nil {
		return
	}
	// the default validator: the function in RES \ EV that decodes Schema.Default and calls the evaluator
	var vd *ssa.Function
	var evalCall, decode *ssa.Call
	for _, fn := range c.Closure(rule, "RES").Sorted() {
		var ec, dc *ssa.Call
		core.EachInstr(fn, func(i ssa.Instruction) {
			if call, ok := i.(*ssa.Call); ok {
				if call.Call.StaticCallee() == E && fn != E && !isNested(fn, E) {
					ec = call
				}
				if core.CalleeKey(&call.Call) == "encoding/json.Unmarshal" && c.mentionsField(call.Call.Args[0], "Schema.Default", 4) {
					dc = call
				}
			}
		})
		if ec != nil && dc != nil {
			vd, evalCall, decode = fn, ec, dc
			for vd.Parent() != nil {
				vd = vd.Parent()
			}
		}
	}
	if vd == nil {
		c.R.Bad(rule, "default-validator", c.P.Pos(res.Pos()), "no function reachable from Resolve decodes Default values and evaluates them")
		return
	}
	// same schema: the Default decoded belongs to the schema it is evaluated against
	var schArg ssa.Value
	for pi, p := range E.Params {
		if c.isPkgNamed(p.Type(), "Schema") {
			schArg = evalCall.Call.Args[pi]
		}
	}
	c.R.Check(schArg != nil && sharesSource(baseOfFieldLoad(decode.Call.Args[0]), schArg), rule, "same-schema", c.pos(evalCall), "each default is evaluated against the schema that declares it", "a default is evaluated against a schema other than the one that declares it")
	// the decoded value is what is evaluated
	okVal := false
	for pi, p := range E.Params {
		if tReflectValue(p.Type()) {
			if vo, ok := evalCall.Call.Args[pi].(*ssa.Call); ok && core.CalleeKey(&vo.Call) == "reflect.ValueOf" {
				if sharesSource(peelIface(vo.Call.Args[0]), peelIface(decode.Call.Args[1])) || flowsFromAddr(peelIface(vo.Call.Args[0]), peelIface(decode.Call.Args[1])) {
					okVal = true
				}
			}
		}
	}
	c.R.Check(okVal, rule, "decoded-value-evaluated", c.pos(evalCall), "the value evaluated is the decoded default", "the value evaluated is not the decoded default")
	// nothing but the absence of a default can skip the evaluation
	var extra []string
	for _, g := range controlGuards(evalCall) {
		if c.mentionsField(g.Cond, "Schema.Default", 4) || isErrNilTest(g.Cond) {
			continue
		}
		if !skippableInYield(g, evalCall) {
			continue
		}
		extra = append(extra, c.pos(g.At))
	}
	// the refusal of dynamic references concerns every schema of the tree, whether it has a default or not: a default
	// elsewhere is evaluated through such a schema, and the evaluation would use the lexical target only
	for _, f := range core.WithAnon(evalCall.Parent()) {
		core.EachInstr(f, func(i ssa.Instruction) {
			ifi, ok := i.(*ssa.If)
			if !ok || !c.mentionsField(ifi.Cond, "Schema.DynamicRef", 4) {
				return
			}
			var under []string
			for _, g := range guardsLocal(ifi) {
				if c.mentionsField(g.Cond, "Schema.Default", 4) {
					under = append(under, c.pos(g.At))
				}
			}
			c.R.Check(len(under) == 0, rule, "dynamic-refs-refused-everywhere", c.pos(ifi), "a schema with a $dynamicRef is refused whether or not it has a default itself",
				fmt.Sprintf("the refusal of $dynamicRef in default validation is made only for schemas that carry a default themselves (test at %v): a default whose schema reaches a $dynamicRef through a child or a $ref is validated against the lexical target, and a default that the dynamic target rejects is accepted", under))
		})
	}
	c.R.Check(len(extra) == 0, rule, "no-schema-skipped", c.pos(evalCall), "a schema with a default can skip validation of that default only by failing", fmt.Sprintf("schemas can be skipped by default validation on conditions other than having no default (guards at %v): an invalid default there is never reported, and ApplyDefaults later inserts a value that Validate rejects", extra))
	// (the per-schema work may sit in a helper of the function that walks the tree: climb to the walker)
	for hops := 0; hops < 3; hops++ {
		site := soleCaller(vd)
		if site == nil || site.Parent() == res {
			break
		}
		up := site.Parent()
		for up.Parent() != nil {
			up = up.Parent()
		}
		if up == res || !c.P.InPkg(up) {
			break
		}
		vd = up
	}
	// full-tree traversal: the iterator comes from a method whose closure is recursive
	full := false
	for _, f := range core.WithAnon(vd) {
		core.EachInstr(f, func(i ssa.Instruction) {
			call, ok := i.(*ssa.Call)
			if !ok {
				return
			}
			callee := call.Call.StaticCallee()
			if callee == nil || !c.P.InPkg(callee) || !strings.HasPrefix(callee.Signature.Results().String(), "(iter.Seq") && !strings.Contains(callee.Signature.Results().String(), "iter.Seq") {
				return
			}
			// the iterator's body statically calls a traversal that calls itself (full tree), as opposed to one level of children
			for _, f2 := range core.WithAnon(callee) {
				core.EachInstr(f2, func(j ssa.Instruction) {
					if c2, ok := j.(ssa.CallInstruction); ok {
						if tc := c2.Common().StaticCallee(); tc != nil && c.P.InPkg(tc) && c.callsSelf(tc) {
							full = true
						}
						// a local recursive function (var walk func(...); walk = func(...) { ... walk(c) ... })
						if c2.Common().StaticCallee() == nil && !c2.Common().IsInvoke() {
							for _, src := range traceSources(c2.Common().Value) {
								if mc, ok := src.(*ssa.MakeClosure); ok {
									if target, isFn := mc.Fn.(*ssa.Function); isFn && isNested(f2, target) {
										full = true // called from inside itself (possibly from the body of a loop in it)
									}
								}
							}
						}
					}
				})
			}
		})
	}
	c.R.Check(full, rule, "full-tree", c.P.Pos(vd.Pos()), "default validation iterates the full schema tree", "default validation iterates only the immediate children (or not the tree): defaults deeper in the tree are never validated")
	// called from Resolve under exactly the option, error returned
	var vdCall *ssa.Call
	core.EachInstr(res, func(i ssa.Instruction) {
		if call, ok := i.(*ssa.Call); ok && call.Call.StaticCallee() == vd {
			vdCall = call
		}
	})
	if vdCall == nil {
		c.R.Bad(rule, "called-from-resolve", c.P.Pos(res.Pos()), "Resolve does not call default validation")
		return
	}
	optGuard := false
	for _, g := range guardsOf(vdCall) {
		if g.Pol && c.mentionsField(g.Cond, "ResolveOptions.ValidateDefaults", 4) {
			optGuard = true
		}
	}
	c.R.Check(optGuard, rule, "under-option", c.pos(vdCall), "default validation runs exactly when ValidateDefaults is set", "default validation is not guarded by the ValidateDefaults option")
	errRet := false
	if vdCall.Referrers() != nil {
		for _, r := range *vdCall.Referrers() {
			if bo, ok := r.(*ssa.BinOp); ok && bo.Op == token.NEQ && bo.Referrers() != nil {
				for _, r2 := range *bo.Referrers() {
					if ifi, ok := r2.(*ssa.If); ok && blockReturnsErrorDeep(ifi.Block().Succs[0]) {
						errRet = true
					}
				}
			}
		}
	}
	c.R.Check(errRet, rule, "error-returned", c.pos(vdCall), "a failing default makes Resolve fail", "the error of default validation is not returned by Resolve")
}

func isNested(fn, in *ssa.Function) bool {
	for f := fn; f != nil; f = f.Parent() {
		if f == in {
			return true
		}
	}
	return false
}

func flowsFromAddr(v, addr ssa.Value) bool {
	// v is a load of the variable whose address is addr
	if ld, ok := v.(*ssa.UnOp); ok && ld.Op == token.MUL {
		return ld.X == addr || resolveCell(ld.X) != nil && resolveCell(ld.X) == resolveCell(addr)
	}
	return false
}

func (c *Ctx) callsSelfTransitively(fn *ssa.Function) bool {
	cl := c.P.Closure("self", c.G, fn)
	for f := range cl.Set {
		found := false
		core.EachInstr(f, func(i ssa.Instruction) {
			if call, ok := i.(ssa.CallInstruction); ok && call.Common().StaticCallee() == fn {
				found = true
			}
		})
		if found {
			return true
		}
	}
	return false
}

// skippableInYield: like skippable, but in a range-over-func body "continue" (return true) is the common continuation.
func skippableInYield(g guardAtom, at ssa.Instruction) bool {
	fn := at.Parent()
	if !strings.Contains(fn.Synthetic, "range-over-func") {
		return skippable(g, at)
	}
	ifi, ok := g.At.(*ssa.If)
	if !ok {
		return true
	}
	other := ifi.Block().Succs[1-g.Succ]
	targets := map[*ssa.BasicBlock]bool{}
	for _, b := range fn.Blocks {
		if ret, isRet := b.Instrs[len(b.Instrs)-1].(*ssa.Return); isRet && len(ret.Results) == 1 {
			if k, ok := ret.Results[0].(*ssa.Const); ok && k.Value != nil && k.Value.String() == "true" {
				targets[b] = true
			}
		}
	}
	return !mustPass(other, map[*ssa.BasicBlock]bool{at.Block(): true}, targets)
}
