package rules

import (
	"fmt"
	"go/types"

	"golang.org/x/tools/go/ssa"

	"verif/checker/core"
)

// Clauses added after the eleventh (half) round of seeded changes.
func init() {
	for _, pid := range []string{"C10", "C04", "C16"} {
		pid := pid
		Properties[pid].Rules = append(Properties[pid].Rules, Rule{pid + "/typeof-may-be-nil", func(c *Ctx) { ruleTypeOfMayBeNil(c, pid+"/typeof-may-be-nil") }})
	}
}

// reflect.TypeOf answers nil for a nil interface value. Where its argument is an interface value, or the zero value
// of a type parameter (which is the nil interface when the parameter is instantiated with an interface type:
// For[any]), the result is tested for nil before it is used; reflect.TypeFor[T]() has no such hole. Zero such calls
// are expected in the inference closure; each is judged.
func ruleTypeOfMayBeNil(c *Ctx, rule string) {
	n := 0
	seen := map[*ssa.Function]bool{}
	consider := func(fn *ssa.Function) {
		if fn == nil || seen[fn] || !c.P.InPkg(fn) {
			return
		}
		seen[fn] = true
		core.EachInstr(fn, func(i ssa.Instruction) {
			call, ok := i.(*ssa.Call)
			if !ok || core.CalleeKey(&call.Call) != "reflect.TypeOf" || len(call.Call.Args) != 1 {
				return
			}
			mayBeNil := true
			if mi, ok := call.Call.Args[0].(*ssa.MakeInterface); ok {
				t := mi.X.Type()
				_, isTP := t.(*types.TypeParam)
				if !isTP && !types.IsInterface(t) {
					mayBeNil = false // a concrete value always has a type
				}
			}
			if !mayBeNil {
				return
			}
			n++
			tested := false
			if refs := call.Referrers(); refs != nil {
				for _, r := range *refs {
					if bo, ok := r.(*ssa.BinOp); ok {
						if k, ok := bo.Y.(*ssa.Const); ok && k.IsNil() {
							tested = true
						}
						if k, ok := bo.X.(*ssa.Const); ok && k.IsNil() {
							tested = true
						}
					}
				}
			}
			c.R.Check(tested, rule, fmt.Sprintf("%s:TypeOf#%d", core.FuncName(fn), n), c.pos(call), "the result is tested for nil", "reflect.TypeOf is applied to a value that can be the nil interface (the zero value of a type parameter instantiated with an interface type: For[any]) and its result is used without a nil test: the nil reflect.Type is dereferenced and the call panics; reflect.TypeFor[T]() answers the interface type itself")
		})
	}
	for _, fn := range c.Closure(rule, "INF").Sorted() {
		consider(fn)
		consider(fn.Origin())
	}
	// the generic entry points themselves (their bodies exist once, uninstantiated)
	for _, fn := range c.P.Funcs {
		if c.P.InPkg(fn) && fn.TypeParams().Len() > 0 {
			consider(fn)
		}
	}
	c.R.OK(rule, "typeof-uses-examined", "", fmt.Sprintf("%d uses of reflect.TypeOf on a possibly nil interface in the inference code", n))
}

func init() {
	for _, pid := range []string{"C17", "C03"} {
		pid := pid
		Properties[pid].Rules = append(Properties[pid].Rules,
			Rule{pid + "/unknown-keyword-is-no-field", func(c *Ctx) { ruleUnknownKeywordNoField(c, pid+"/unknown-keyword-is-no-field") }},
			Rule{pid + "/unescape-whenever-escaped", func(c *Ctx) { ruleUnescapeWhenever(c, pid+"/unescape-whenever-escaped") }})
	}
	for _, pid := range []string{"C01", "C07"} {
		pid := pid
		Properties[pid].Rules = append(Properties[pid].Rules, Rule{pid + "/contains-from-the-first-item", func(c *Ctx) { ruleContainsFromFirst(c, pid+"/contains-from-the-first-item") }})
	}
}

// In the function that maps a pointer token to a field of Schema, a field is selected by an index path only where
// the token was found in the table of schema fields: the index path comes from a comma-ok lookup whose ok guards
// the selection. (The zero StructField has an empty index path, and FieldByIndex of an empty path is the struct
// itself: an unknown token would be skipped silently.)
func ruleUnknownKeywordNoField(c *Ctx, rule string) {
	lf := c.pointerFieldLookup(rule)
	if lf == nil {
		return
	}
	n := 0
	core.EachInstr(lf, func(i ssa.Instruction) {
		call, ok := i.(*ssa.Call)
		if !ok || core.CalleeKey(&call.Call) != "reflect.Value.FieldByIndex" || len(call.Call.Args) < 2 {
			return
		}
		var lk *ssa.Lookup
		for _, v := range append(backSlice(call.Call.Args[1], 10), call.Call.Args[1]) {
			if l, ok := v.(*ssa.Lookup); ok {
				if _, isMap := l.X.Type().Underlying().(*types.Map); isMap {
					lk = l
				}
			}
		}
		if lk == nil {
			return
		}
		n++
		guarded := false
		if lk.CommaOk {
			for _, g := range guardsLocal(call) {
				if ex, ok := g.Cond.(*ssa.Extract); ok && g.Pol && ex.Tuple == ssa.Value(lk) && ex.Index == 1 {
					guarded = true
				}
			}
		}
		c.R.Check(guarded, rule, fmt.Sprintf("%s:field-by-index#%d", core.FuncName(lf), n), c.pos(call), "a field is selected only where the token was found in the table", "a field of Schema is selected with the index path of a table entry without knowing that the token is in the table: for an unknown token the zero entry has an empty index path, FieldByIndex answers the schema itself, and the token is silently skipped, so \"#/nosuch/$defs/a\" resolves to /$defs/a instead of making Resolve fail")
	})
	c.R.Floor(rule, "selections of a schema field by a table entry's index path", n, 1)
}

// Every token of a JSON Pointer is unescaped whenever the pointer contains the escape character: the only test
// that may stand before the unescaping is one of presence (strings.Contains, an Index result compared with zero or
// minus one); a test that does arithmetic on the position leaves out escapes at the very end (the keys "/" and "~").
func ruleUnescapeWhenever(c *Ctx, rule string) {
	n := 0
	for _, fn := range c.Closure(rule, "RES").Minus(c.Closure(rule, "EV")).Sorted() {
		if !c.P.InPkg(fn) {
			continue
		}
		core.EachInstr(fn, func(i ssa.Instruction) {
			call, ok := i.(*ssa.Call)
			if !ok {
				return
			}
			h := call.Call.StaticCallee()
			if h == nil || !c.P.InPkg(h) || len(h.Params) != 1 || !tString(h.Params[0].Type()) || h.Signature.Results().Len() != 1 || !tString(h.Signature.Results().At(0).Type()) {
				return
			}
			// the helper applies a Replacer held in a package variable to its argument
			uses := false
			core.EachInstr(h, func(j ssa.Instruction) {
				if hc, ok := j.(*ssa.Call); ok && core.CalleeKey(&hc.Call) == "strings.Replacer.Replace" {
					uses = true
				}
			})
			if !uses || fn == h {
				return
			}
			// only the decoding direction is of interest: callers that split a pointer
			splits := false
			core.EachInstr(fn, func(j ssa.Instruction) {
				if sc, ok := j.(*ssa.Call); ok && core.CalleeKey(&sc.Call) == "strings.Split" {
					splits = true
				}
			})
			if !splits {
				return
			}
			n++
			arith := ""
			for _, g := range guardsLocal(call) {
				for _, v := range append(backSlice(g.Cond, 10), g.Cond) {
					bo, ok := v.(*ssa.BinOp)
					if !ok || (bo.Op.String() != "+" && bo.Op.String() != "-") {
						continue
					}
					for _, w := range append(backSlice(bo, 6), bo) {
						if ic, ok := w.(*ssa.Call); ok {
							if k := core.CalleeKey(&ic.Call); len(k) > 13 && k[:13] == "strings.Index" || k == "strings.LastIndex" || k == "strings.LastIndexByte" {
								arith = c.pos(g.At)
							}
						}
					}
				}
			}
			c.R.Check(arith == "", rule, fmt.Sprintf("%s:unescape#%d", core.FuncName(fn), n), c.pos(call), "the tokens are unescaped whenever the pointer contains the escape character", "whether the tokens of a pointer are unescaped depends on where the first escape character stands (arithmetic on its position, test at "+arith+"): an escape at the very end of the pointer is left as it is, so \"#/$defs/~1\" (the key \"/\") fails, or selects a schema stored under the raw text \"~1\"")
		})
	}
	c.R.Floor(rule, "unescapings of pointer tokens", n, 1)
}

// `contains` looks at every item of the array, the ones a prefixItems of the same schema object evaluated included:
// the loop that evaluates the items against the contains subschema starts at index 0.
func ruleContainsFromFirst(c *Ctx, rule string) {
	m := c.EvalModel(rule)
	if m == nil {
		return
	}
	n := 0
	for _, s := range m.Sites {
		isContains := false
		for _, src := range s.SchemaSrc {
			if src == "Schema.Contains" {
				isContains = true
			}
		}
		if !isContains {
			continue
		}
		site, ok := s.siteInstr().(*ssa.Call)
		if !ok {
			continue
		}
		for _, a := range site.Call.Args {
			ic, ok := a.(*ssa.Call)
			if !ok || core.CalleeKey(&ic.Call) != "reflect.Value.Index" || len(ic.Call.Args) < 2 {
				continue
			}
			start, known := indexStart(ic.Call.Args[1])
			if !known {
				// the counter may start from a variable: that is the case to report
				if phi, isPhi := ic.Call.Args[1].(*ssa.Phi); isPhi {
					n++
					c.R.Bad(rule, "contains:from-the-first-item", c.pos(phi), "the loop that evaluates the items against `contains` does not start at a constant index (it starts where some earlier keyword stopped): items that prefixItems evaluated are never offered to `contains`, so an array whose only matching item lies in the prefix fails, and minContains/maxContains count too few")
				}
				continue
			}
			n++
			c.R.Check(start == 0, rule, "contains:from-the-first-item", c.pos(ic), "`contains` looks at the items from index 0", fmt.Sprintf("the loop that evaluates the items against `contains` starts at index %d", start))
		}
	}
	c.R.Floor(rule, "item loops of `contains`", n, 1)
}
