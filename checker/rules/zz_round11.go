package rules

import (
	"fmt"
	"go/types"

	"golang.org/x/tools/go/ssa"

	"verif/checker/core"
)

// Clauses added after the eleventh (half) round of seeded changes.
func init() {
	for _, pid := range []string{"C10", "C04", "C16"} {
		pid := pid
		Properties[pid].Rules = append(Properties[pid].Rules, Rule{pid + "/typeof-may-be-nil", func(c *Ctx) { ruleTypeOfMayBeNil(c, pid+"/typeof-may-be-nil") }})
	}
}

// reflect.TypeOf answers nil for a nil interface value. Where its argument is an interface value, or the zero value
// of a type parameter (which is the nil interface when the parameter is instantiated with an interface type:
// For[any]), the result is tested for nil before it is used; reflect.TypeFor[T]() has no such hole. Zero such calls
// are expected in the inference closure; each is judged.
func ruleTypeOfMayBeNil(c *Ctx, rule string) {
	n := 0
	seen := map[*ssa.Function]bool{}
	consider := func(fn *ssa.Function) {
		if fn == nil || seen[fn] || !c.P.InPkg(fn) {
			return
		}
		seen[fn] = true
		core.EachInstr(fn, func(i ssa.Instruction) {
			call, ok := i.(*ssa.Call)
			if !ok || core.CalleeKey(&call.Call) != "reflect.TypeOf" || len(call.Call.Args) != 1 {
				return
			}
			mayBeNil := true
			if mi, ok := call.Call.Args[0].(*ssa.MakeInterface); ok {
				t := mi.X.Type()
				_, isTP := t.(*types.TypeParam)
				if !isTP && !types.IsInterface(t) {
					mayBeNil = false // a concrete value always has a type
				}
			}
			if !mayBeNil {
				return
			}
			n++
			tested := false
			if refs := call.Referrers(); refs != nil {
				for _, r := range *refs {
					if bo, ok := r.(*ssa.BinOp); ok {
						if k, ok := bo.Y.(*ssa.Const); ok && k.IsNil() {
							tested = true
						}
						if k, ok := bo.X.(*ssa.Const); ok && k.IsNil() {
							tested = true
						}
					}
				}
			}
			c.R.Check(tested, rule, fmt.Sprintf("%s:TypeOf#%d", core.FuncName(fn), n), c.pos(call), "the result is tested for nil", "reflect.TypeOf is applied to a value that can be the nil interface (the zero value of a type parameter instantiated with an interface type: For[any]) and its result is used without a nil test: the nil reflect.Type is dereferenced and the call panics; reflect.TypeFor[T]() answers the interface type itself")
		})
	}
	for _, fn := range c.Closure(rule, "INF").Sorted() {
		consider(fn)
		consider(fn.Origin())
	}
	// the generic entry points themselves (their bodies exist once, uninstantiated)
	for _, fn := range c.P.Funcs {
		if c.P.InPkg(fn) && fn.TypeParams().Len() > 0 {
			consider(fn)
		}
	}
	c.R.OK(rule, "typeof-uses-examined", "", fmt.Sprintf("%d uses of reflect.TypeOf on a possibly nil interface in the inference code", n))
}
