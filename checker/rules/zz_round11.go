package rules

import (
	"fmt"
	"go/types"

	"golang.org/x/tools/go/ssa"

	"verif/checker/core"
)

// Clauses added after the eleventh (half) round of seeded changes.
func init() {
	for _, pid := range []string{"C10", "C04", "C16"} {
		pid := pid
		Properties[pid].Rules = append(Properties[pid].Rules, Rule{pid + "/typeof-may-be-nil", func(c *Ctx) { ruleTypeOfMayBeNil(c, pid+"/typeof-may-be-nil") }})
	}
}

// reflect.TypeOf answers nil for a nil interface value. Where its argument is an interface value, or the zero value
// of a type parameter (which is the nil interface when the parameter is instantiated with an interface type:
// For[any]), the result is tested for nil before it is used; reflect.TypeFor[T]() has no such hole. Zero such calls
// are expected in the inference closure; each is judged.
func ruleTypeOfMayBeNil(c *Ctx, rule string) {
	n := 0
	seen := map[*ssa.Function]bool{}
	consider := func(fn *ssa.Function) {
		if fn == nil || seen[fn] || !c.P.InPkg(fn) {
			return
		}
		seen[fn] = true
		core.EachInstr(fn, func(i ssa.Instruction) {
			call, ok := i.(*ssa.Call)
			if !ok || core.CalleeKey(&call.Call) != "reflect.TypeOf" || len(call.Call.Args) != 1 {
				return
			}
			mayBeNil := true
			if mi, ok := call.Call.Args[0].(*ssa.MakeInterface); ok {
				t := mi.X.Type()
				_, isTP := t.(*types.TypeParam)
				if !isTP && !types.IsInterface(t) {
					mayBeNil = false // a concrete value always has a type
				}
			}
			if !mayBeNil {
				return
			}
			n++
			tested := false
			if refs := call.Referrers(); refs != nil {
				for _, r := range *refs {
					if bo, ok := r.(*ssa.BinOp); ok {
						if k, ok := bo.Y.(*ssa.Const); ok && k.IsNil() {
							tested = true
						}
						if k, ok := bo.X.(*ssa.Const); ok && k.IsNil() {
							tested = true
						}
					}
				}
			}
			c.R.Check(tested, rule, fmt.Sprintf("%s:TypeOf#%d", core.FuncName(fn), n), c.pos(call), "the result is tested for nil", "reflect.TypeOf is applied to a value that can be the nil interface (the zero value of a type parameter instantiated with an interface type: For[any]) and its result is used without a nil test: the nil reflect.Type is dereferenced and the call panics; reflect.TypeFor[T]() answers the interface type itself")
		})
	}
	for _, fn := range c.Closure(rule, "INF").Sorted() {
		consider(fn)
		consider(fn.Origin())
	}
	// the generic entry points themselves (their bodies exist once, uninstantiated)
	for _, fn := range c.P.Funcs {
		if c.P.InPkg(fn) && fn.TypeParams().Len() > 0 {
			consider(fn)
		}
	}
	c.R.OK(rule, "typeof-uses-examined", "", fmt.Sprintf("%d uses of reflect.TypeOf on a possibly nil interface in the inference code", n))
}

func init() {
	for _, pid := range []string{"C17", "C03"} {
		pid := pid
		Properties[pid].Rules = append(Properties[pid].Rules,
			Rule{pid + "/unknown-keyword-is-no-field", func(c *Ctx) { ruleUnknownKeywordNoField(c, pid+"/unknown-keyword-is-no-field") }},
			Rule{pid + "/unescape-whenever-escaped", func(c *Ctx) { ruleUnescapeWhenever(c, pid+"/unescape-whenever-escaped") }})
	}
	for _, pid := range []string{"C01", "C07"} {
		pid := pid
		Properties[pid].Rules = append(Properties[pid].Rules, Rule{pid + "/contains-from-the-first-item", func(c *Ctx) { ruleContainsFromFirst(c, pid+"/contains-from-the-first-item") }})
	}
}

// In the function that maps a pointer token to a field of Schema, a field is selected by an index path only where
// the token was found in the table of schema fields: the index path comes from a comma-ok lookup whose ok guards
// the selection. (The zero StructField has an empty index path, and FieldByIndex of an empty path is the struct
// itself: an unknown token would be skipped silently.)
func ruleUnknownKeywordNoField(c *Ctx, rule string) {
	lf := c.pointerFieldLookup(rule)
	if lf == nil {
		return
	}
	n := 0
	core.EachInstr(lf, func(i ssa.Instruction) {
		call, ok := i.(*ssa.Call)
		if !ok || core.CalleeKey(&call.Call) != "reflect.Value.FieldByIndex" || len(call.Call.Args) < 2 {
			return
		}
		var lk *ssa.Lookup
		for _, v := range append(backSlice(call.Call.Args[1], 10), call.Call.Args[1]) {
			if l, ok := v.(*ssa.Lookup); ok {
				if _, isMap := l.X.Type().Underlying().(*types.Map); isMap {
					lk = l
				}
			}
		}
		if lk == nil {
			return
		}
		n++
		guarded := false
		if lk.CommaOk {
			for _, g := range guardsLocal(call) {
				if ex, ok := g.Cond.(*ssa.Extract); ok && g.Pol && ex.Tuple == ssa.Value(lk) && ex.Index == 1 {
					guarded = true
				}
			}
		}
		c.R.Check(guarded, rule, fmt.Sprintf("%s:field-by-index#%d", core.FuncName(lf), n), c.pos(call), "a field is selected only where the token was found in the table", "a field of Schema is selected with the index path of a table entry without knowing that the token is in the table: for an unknown token the zero entry has an empty index path, FieldByIndex answers the schema itself, and the token is silently skipped, so \"#/nosuch/$defs/a\" resolves to /$defs/a instead of making Resolve fail")
	})
	c.R.Floor(rule, "selections of a schema field by a table entry's index path", n, 1)
}

// Every token of a JSON Pointer is unescaped whenever the pointer contains the escape character: the only test
// that may stand before the unescaping is one of presence (strings.Contains, an Index result compared with zero or
// minus one); a test that does arithmetic on the position leaves out escapes at the very end (the keys "/" and "~").
func ruleUnescapeWhenever(c *Ctx, rule string) {
	n := 0
	for _, fn := range c.Closure(rule, "RES").Minus(c.Closure(rule, "EV")).Sorted() {
		if !c.P.InPkg(fn) {
			continue
		}
		core.EachInstr(fn, func(i ssa.Instruction) {
			call, ok := i.(*ssa.Call)
			if !ok {
				return
			}
			if core.CalleeKey(&call.Call) != "strings.Replacer.Replace" {
				h := call.Call.StaticCallee()
				if h == nil || !c.P.InPkg(h) || len(h.Params) != 1 || !tString(h.Params[0].Type()) || h.Signature.Results().Len() != 1 || !tString(h.Signature.Results().At(0).Type()) {
					return
				}
				// the helper applies a Replacer held in a package variable to its argument
				uses := false
				core.EachInstr(h, func(j ssa.Instruction) {
					if hc, ok := j.(*ssa.Call); ok && core.CalleeKey(&hc.Call) == "strings.Replacer.Replace" {
						uses = true
					}
				})
				if !uses || fn == h {
					return
				}
			}
			// only the decoding direction is of interest: callers that split a pointer
			splits := false
			core.EachInstr(fn, func(j ssa.Instruction) {
				if sc, ok := j.(*ssa.Call); ok && core.CalleeKey(&sc.Call) == "strings.Split" {
					splits = true
				}
			})
			if !splits {
				return
			}
			n++
			arith := ""
			for _, g := range guardsLocal(call) {
				hasIndex, hasArith := false, false
				for _, v := range append(backSlice(g.Cond, 12), g.Cond) {
					if bo, ok := v.(*ssa.BinOp); ok && (bo.Op.String() == "+" || bo.Op.String() == "-") {
						hasArith = true
					}
					if ic, ok := v.(*ssa.Call); ok {
						if k := core.CalleeKey(&ic.Call); len(k) > 13 && k[:13] == "strings.Index" || k == "strings.LastIndex" || k == "strings.LastIndexByte" {
							hasIndex = true
						}
					}
				}
				if hasIndex && hasArith {
					arith = c.pos(g.At)
				}
			}
			c.R.Check(arith == "", rule, fmt.Sprintf("%s:unescape#%d", core.FuncName(fn), n), c.pos(call), "the tokens are unescaped whenever the pointer contains the escape character", "whether the tokens of a pointer are unescaped depends on where the first escape character stands (arithmetic on its position, test at "+arith+"): an escape at the very end of the pointer is left as it is, so \"#/$defs/~1\" (the key \"/\") fails, or selects a schema stored under the raw text \"~1\"")
		})
	}
	c.R.Floor(rule, "unescapings of pointer tokens", n, 1)
}

// `contains` looks at every item of the array, the ones a prefixItems of the same schema object evaluated included:
// the loop that evaluates the items against the contains subschema starts at index 0.
func ruleContainsFromFirst(c *Ctx, rule string) {
	m := c.EvalModel(rule)
	if m == nil {
		return
	}
	n := 0
	// the recursive evaluations against the contains subschema, in the evaluator or in a helper that holds its
	// array section
	var sites []*ssa.Call
	for _, fi := range c.familyInstrs(m.E) {
		call, ok := fi.I.(*ssa.Call)
		if !ok || call.Call.StaticCallee() != m.E {
			continue
		}
		for _, a := range call.Call.Args {
			if c.mentionsField(a, "Schema.Contains", 4) {
				sites = append(sites, call)
				break
			}
		}
	}
	for _, site := range sites {
		for _, a := range site.Call.Args {
			ic, ok := a.(*ssa.Call)
			if !ok || core.CalleeKey(&ic.Call) != "reflect.Value.Index" || len(ic.Call.Args) < 2 {
				continue
			}
			start, known := indexStart(ic.Call.Args[1])
			if !known {
				// the counter may start from a variable: that is the case to report
				if phi, isPhi := ic.Call.Args[1].(*ssa.Phi); isPhi {
					n++
					c.R.Bad(rule, "contains:from-the-first-item", c.pos(phi), "the loop that evaluates the items against `contains` does not start at a constant index (it starts where some earlier keyword stopped): items that prefixItems evaluated are never offered to `contains`, so an array whose only matching item lies in the prefix fails, and minContains/maxContains count too few")
				}
				continue
			}
			n++
			c.R.Check(start == 0, rule, "contains:from-the-first-item", c.pos(ic), "`contains` looks at the items from index 0", fmt.Sprintf("the loop that evaluates the items against `contains` starts at index %d", start))
		}
	}
	c.R.Floor(rule, "item loops of `contains`", n, 1)
}

func init() {
	for _, pid := range []string{"C01", "C08"} {
		pid := pid
		Properties[pid].Rules = append(Properties[pid].Rules, Rule{pid + "/classifier-ignores-nilness", func(c *Ctx) { ruleClassifierIgnoresNilness(c, pid+"/classifier-ignores-nilness") }})
	}
	for _, pid := range []string{"C17", "C03", "C02"} {
		pid := pid
		Properties[pid].Rules = append(Properties[pid].Rules, Rule{pid + "/digit-range-constants", func(c *Ctx) { ruleDigitRangeConstants(c, pid+"/digit-range-constants") }})
	}
	for _, pid := range []string{"C01", "C02", "C18"} {
		pid := pid
		Properties[pid].Rules = append(Properties[pid].Rules, Rule{pid + "/keyword-preparations-independent", func(c *Ctx) { ruleKeywordPreparationsIndependent(c, pid+"/keyword-preparations-independent") }})
	}
}

// The JSON type of a Go value is read off its kind: a nil slice is an array and a nil map an object for every other
// keyword (maxItems, properties ...), so the classifier must not call them null. It never asks IsNil.
func ruleClassifierIgnoresNilness(c *Ctx, rule string) {
	cls := c.TypeClassifier(rule)
	if cls == nil {
		return
	}
	n := 0
	for _, fi := range c.familyInstrs(cls) {
		n++
		if call, ok := fi.I.(*ssa.Call); ok && core.CalleeKey(&call.Call) == "reflect.Value.IsNil" {
			c.R.Bad(rule, core.FuncName(cls)+":IsNil", c.pos(call), "the type classifier asks whether the value is nil: a nil slice or map is then \"null\" for `type` while every other keyword still treats it as the empty array or object, so {\"type\":\"array\",\"maxItems\":0} rejects a nil []any and {\"type\":\"null\"} accepts it")
		}
	}
	c.R.OK(rule, "classifier-examined", "", fmt.Sprintf("%d instructions of the type classifier examined: no IsNil", n))
}

// Where a byte of a pointer token is compared by order with a character constant, the constant is an end of the
// digit range ('0' as lower end, '9' as upper end). (`seg[0] <= '1'` for "has a leading zero" refuses 10..19.)
func ruleDigitRangeConstants(c *Ctx, rule string) {
	w := c.pointerWalker(rule)
	if w == nil {
		return
	}
	n := 0
	for _, fi := range c.familyInstrs(w) {
		bo, ok := fi.I.(*ssa.BinOp)
		if !ok {
			continue
		}
		switch bo.Op.String() {
		case "<", "<=", ">", ">=":
		default:
			continue
		}
		k, isK := bo.Y.(*ssa.Const)
		if !isK {
			continue
		}
		// the other side is a byte of a string
		isByte := false
		for _, v := range append(backSlice(bo.X, 4), bo.X) {
			switch x := v.(type) {
			case *ssa.Index:
				isByte = tString(x.X.Type())
			case *ssa.Lookup:
				isByte = isByte || tString(x.X.Type())
			}
		}
		kv, okv := constInt(k)
		if !isByte || !okv {
			continue
		}
		n++
		okEnd := (bo.Op.String() == "<" && kv == '0') || (bo.Op.String() == ">=" && kv == '0') || (bo.Op.String() == ">" && kv == '9') || (bo.Op.String() == "<=" && kv == '9')
		c.R.Check(okEnd, rule, fmt.Sprintf("%s:byte-compared#%d", core.FuncName(bo.Parent()), n), c.pos(bo), "the constant is an end of the digit range", fmt.Sprintf("a byte of a pointer token is compared by order with %q, which is not an end of the digit range: array indexes beginning with some digits (10..19 for `<= '1'`) are refused as having leading zeroes, so a $ref into a long tuple fails", rune(kv)))
	}
	c.R.OK(rule, "byte-comparisons-examined", "", fmt.Sprintf("%d ordered comparisons of a token byte with a constant", n))
}

// What Resolve prepares for one keyword (the compiled pattern, the compiled patternProperties, the set of required
// names) depends on that keyword alone: in the function that stores the compiled pattern, no store into the side
// record is guarded by tests of two different Schema fields. (`else if` between independent keywords leaves the
// second unprepared when both are present, and the evaluator then skips it.)
func ruleKeywordPreparationsIndependent(c *Ctx, rule string) {
	n := 0
	for _, fn := range c.Closure(rule, "RES").Minus(c.Closure(rule, "EV")).Sorted() {
		if !c.P.InPkg(fn) {
			continue
		}
		core.EachInstr(fn, func(i ssa.Instruction) {
			st, ok := i.(*ssa.Store)
			if !ok {
				return
			}
			fa, ok := st.Addr.(*ssa.FieldAddr)
			if !ok {
				return
			}
			name := c.fieldName(fa.X.Type(), fa.Field)
			if name != "resolvedInfo.pattern" && name != "resolvedInfo.patternProperties" && name != "resolvedInfo.isRequired" {
				return
			}
			n++
			fields := map[string]bool{}
			// (the store may sit in a helper called for this keyword: what holds at its only call holds here)
			var gs []guardAtom
			var at ssa.Instruction = st
			for hops := 0; hops < 3 && at != nil; hops++ {
				gs = append(gs, guardsLocal(at)...)
				at = soleCaller(at.Parent())
			}
			for _, g := range gs {
				for f := range c.schemaFieldsIn(g.Cond) {
					fields[f] = true
				}
			}
			c.R.Check(len(fields) <= 1, rule, core.FuncName(fn)+":"+name, c.pos(st), "prepared under tests of one keyword only", fmt.Sprintf("whether %s is prepared depends on tests of several keywords %v: where both are present the later one of an else-if chain is left unprepared, and the evaluator silently skips it (patternProperties beside pattern)", name, sortedKeys(fields)))
		})
	}
	c.R.Floor(rule, "stores into the side record in the local-checks function", n, 2)
}

func init() {
	for _, pid := range []string{"C18", "C05"} {
		pid := pid
		Properties[pid].Rules = append(Properties[pid].Rules, Rule{pid + "/retry-result-decides", func(c *Ctx) { ruleRetryResultDecides(c, pid+"/retry-result-decides") }})
	}
	for _, pid := range []string{"C11", "C12", "C14", "C08"} {
		pid := pid
		Properties[pid].Rules = append(Properties[pid].Rules, Rule{pid + "/fields-to-the-last", func(c *Ctx) { ruleFieldsToTheLast(c, pid+"/fields-to-the-last") }})
	}
	for _, pid := range []string{"C05", "C14"} {
		pid := pid
		Properties[pid].Rules = append(Properties[pid].Rules, Rule{pid + "/exclusive-pairs-by-presence", func(c *Ctx) { ruleExclusivePairsByPresence(c, pid+"/exclusive-pairs-by-presence") }})
	}
}

// Where a value is decoded a second time with UseNumber, the outcome of that second decode decides: its failure is
// returned as an error and its success as the value. (A test hoisted into a boolean with the comparison inverted
// returns the first error for every number the retry was made for.)
func ruleRetryResultDecides(c *Ctx, rule string) {
	n := 0
	for _, fn := range c.Closure(rule, "UNM").Sorted() {
		if !c.P.InPkg(fn) {
			continue
		}
		uses := false
		core.EachInstr(fn, func(i ssa.Instruction) {
			if call, ok := i.(ssa.CallInstruction); ok && core.CalleeKey(call.Common()) == "encoding/json.Decoder.UseNumber" {
				uses = true
			}
		})
		if !uses {
			continue
		}
		core.EachInstr(fn, func(i ssa.Instruction) {
			call, ok := i.(*ssa.Call)
			if !ok || core.CalleeKey(&call.Call) != "encoding/json.Decoder.Decode" || call.Referrers() == nil {
				return
			}
			for _, b := range fn.Blocks {
				ifi, ok := b.Instrs[len(b.Instrs)-1].(*ssa.If)
				if !ok {
					continue
				}
				cond, pol := ssa.Value(ifi.Cond), true
				for {
					if u, ok := cond.(*ssa.UnOp); ok && u.Op.String() == "!" {
						cond, pol = u.X, !pol
						continue
					}
					break
				}
				bo, ok := cond.(*ssa.BinOp)
				if !ok || !isErrNilTest(bo) || (bo.X != ssa.Value(call) && bo.Y != ssa.Value(call)) {
					continue
				}
				// successor taken when the decode failed
				failedOnTrue := (bo.Op.String() == "!=") == pol
				failing, succeeding := b.Succs[1], b.Succs[0]
				if failedOnTrue {
					failing, succeeding = b.Succs[0], b.Succs[1]
				}
				n++
				c.R.Check(blockReturnsErrorDeepLocal(failing) && !blockReturnsErrorDeepLocal(succeeding), rule, fmt.Sprintf("%s:retry#%d", core.FuncName(fn), n), c.pos(ifi), "the failure of the retry is an error, its success the value", "after the retry with UseNumber the branches are the wrong way round: where the retry succeeded the first attempt's error is returned, so a document with a number beyond the float64 range inside an unknown keyword or an example is rejected (and where it failed, a value is returned)")
			}
		})
	}
	c.R.Floor(rule, "tests of a UseNumber retry", n, 1)
}

// A loop over the fields of a struct runs to the last one: NumField() is not reduced by a constant anywhere in
// equality, the hasher or the property helpers. Zero such expressions are expected; each is reported.
func ruleFieldsToTheLast(c *Ctx, rule string) {
	n := 0
	for _, fn := range c.P.Funcs {
		if !c.P.InPkg(fn) {
			continue
		}
		core.EachInstr(fn, func(i ssa.Instruction) {
			bo, ok := i.(*ssa.BinOp)
			if !ok || bo.Op.String() != "-" {
				return
			}
			call, ok := bo.X.(*ssa.Call)
			if !ok {
				return
			}
			isNumField := core.CalleeKey(&call.Call) == "reflect.Value.NumField" || (call.Call.IsInvoke() && call.Call.Method.Name() == "NumField")
			if !isNumField {
				return
			}
			n++
			c.R.Bad(rule, core.FuncName(fn)+":NumField-minus", c.pos(bo), "the number of fields of a struct is reduced before it bounds a loop: the last field is never compared (or hashed, or listed), so two struct values that differ only there are equal for enum, const and uniqueItems while their JSON encodings differ")
		})
	}
	c.R.OK(rule, "field-loops-examined", "", fmt.Sprintf("%d subtractions from NumField()", n))
}

// The checks that refuse two keywords together (Items and ItemsArray, Type and Types ...) test for presence the way
// MarshalJSON and the evaluator do: by nil (or the empty string), not by length. An empty but non-nil list is
// present: `"items": []` beside a single-schema Items must be refused, or Validate and Marshal disagree about it.
func ruleExclusivePairsByPresence(c *Ctx, rule string) {
	n := 0
	for _, fn := range c.Closure(rule, "MAR").Sorted() {
		if !c.P.InPkg(fn) || fn.Signature.Results().Len() == 0 || !isErrorType(fn.Signature.Results().At(fn.Signature.Results().Len()-1).Type()) {
			continue
		}
		for _, b := range fn.Blocks {
			if len(b.Instrs) == 0 || !blockReturnsErrorDeepLocal(b) {
				continue
			}
			if _, isRet := b.Instrs[len(b.Instrs)-1].(*ssa.Return); !isRet {
				continue
			}
			// the condition that leads here: the test right before the block and the chain of `&&` operands before it
			var gs []guardAtom
			if len(b.Preds) != 1 {
				continue
			}
			for q := b.Preds[0]; q != nil; {
				ifi, ok := q.Instrs[len(q.Instrs)-1].(*ssa.If)
				if !ok {
					break
				}
				gs = append(gs, guardAtom{Cond: ifi.Cond, Pol: true, At: ifi})
				if len(q.Preds) == 1 && q.Comment == "cond.true" {
					q = q.Preds[0]
					continue
				}
				break
			}
			fields := map[string]bool{}
			byLen := ""
			for _, g := range gs {
				fs := c.schemaFieldsIn(g.Cond)
				for f := range fs {
					fields[f] = true
				}
				if len(fs) > 0 && usesLen(g.Cond, 4) {
					byLen = c.pos(g.At)
				}
			}
			if len(fields) != 2 {
				continue
			}
			n++
			ks := sortedKeys(fields)
			c.R.Check(byLen == "", rule, fmt.Sprintf("%s:%s+%s", core.FuncName(fn), ks[0], ks[1]), c.pos(b.Instrs[0]), "the two keywords are tested for presence, not for length", "the refusal of "+ks[0]+" together with "+ks[1]+" tests a length (at "+byLen+"): an empty but non-nil list is present for MarshalJSON and for the evaluator, so a schema with both passes the check, Validate looks at one and Marshal writes the other, and the verdict changes across a round trip")
		}
	}
	c.R.Floor(rule, "refusals of two keywords together", n, 2)
}
