package rules

import (
	"fmt"
	"go/token"
	"go/types"
	"sort"
	"strings"

	"golang.org/x/tools/go/ssa"

	"verif/checker/core"
)

func init() {
	register(&Property{
		ID: "C17",
		Rules: []Rule{
			{"C17/registry-exhaustive", func(c *Ctx) { ruleRegistryExhaustive(c, "C17/registry-exhaustive") }},
			{"C17/ambiguous-names-special-cased", ruleC17Ambiguous},
			{"C17/escape-tables", ruleC17Escape},
			{"C17/no-wrong-target", ruleC17NoWrongTarget},
		},
		Explanation: "Decides the table side of JSON-Pointer addressing: every Schema field whose type contains *Schema has one of the three handled shapes and enters the reflection registry (by JSON name, or by the explicit name switch for fields tagged `-`); JSON names that map to more than one Go field (items, dependencies) or to a field pair without registry entry (type) are decided by explicit comparisons before the last-writer-wins map is consulted, and `dependencies` selects the schema-bearing field; the escape and unescape replacers are, as sets of pairs, exactly RFC 6901's and are single-pass; the pointer walker returns a schema only from a checked type assertion and turns every failed lookup into an error, with both index bounds tested. It does NOT decide percent-decoding (net/url) nor which subschema a concrete pointer selects.",
		NotDecided:  []string{"percent-decoding of the fragment (net/url)", "that a concrete pointer string selects a concrete subschema", "segment splitting on '/' (killed by the suite when broken)"},
	})
	register(&Property{
		ID: "C20",
		Rules: []Rule{
			{"C20/registry-exhaustive", func(c *Ctx) { ruleRegistryExhaustive(c, "C20/registry-exhaustive") }},
			{"C20/three-shapes-everywhere", ruleC20ThreeShapes},
			{"C20/no-skip", ruleC20NoSkip},
			{"C20/fresh-containers", ruleC20Fresh},
			{"C20/tree-check", ruleC20TreeCheck},
		},
		Explanation: "Decides that the clone loop is total over the schema-bearing fields: the reflection registry contains every field whose type contains *Schema (recomputed from the type), the traversals sharing the registry (clone, child iteration, structure check) each handle all three shapes, inside the clone loop the three Set operations depend only on the shape dispatch, every container written back is freshly allocated and every element stored into it is the result of a recursive clone, the returned struct is a fresh copy, and the structure check rejects a second visit of one Schema object (which makes sharing detectable at Resolve). It does NOT observe equality of marshaled output of original and clone.",
		NotDecided:  []string{"equality of the marshaled output of original and clone as an observation", "that every element of a cloned container is overwritten (loop bounds)"},
	})
}

// registryModel describes the reflection registry built in init().
type registryModel struct {
	initFn     *ssa.Function
	nameConsts map[string]bool // constants compared with the field name
	jsonConsts map[string]bool // constants stored as jsonName
	infosVar   *ssa.Global     // the slice of field infos
	mapVar     *ssa.Global     // map from JSON name to field
}

// registry locates the init function that ranges over reflect.VisibleFields of Schema.
func (c *Ctx) registry(rule string) *registryModel {
	rm := &registryModel{nameConsts: map[string]bool{}, jsonConsts: map[string]bool{}}
	for _, m := range c.P.SSAPkg.Members {
		fn, ok := m.(*ssa.Function)
		if !ok || !strings.HasPrefix(fn.Name(), "init#") {
			continue
		}
		uses := false
		for _, f := range c.initFamily(fn) {
			core.EachInstr(f, func(i ssa.Instruction) {
				if call, ok := i.(*ssa.Call); ok && core.CalleeKey(&call.Call) == "reflect.VisibleFields" {
					uses = true
				}
			})
		}
		if uses {
			rm.initFn = fn
		}
	}
	if rm.initFn == nil {
		c.R.Unresolved(rule, "init function building the schema field registry (reflect.VisibleFields)")
		return nil
	}
	for _, fn := range c.initFamily(rm.initFn) {
		core.EachInstr(fn, func(i ssa.Instruction) {
			switch x := i.(type) {
			case *ssa.BinOp:
				if x.Op == token.EQL || x.Op == token.NEQ {
					for _, pair := range [][2]ssa.Value{{x.X, x.Y}, {x.Y, x.X}} {
						if s, ok := constString(pair[1]); ok && isFieldNameValue(pair[0]) {
							rm.nameConsts[s] = true
						}
					}
				}
			case *ssa.Store:
				if fa, ok := x.Addr.(*ssa.FieldAddr); ok {
					if core.CanonFieldOf(fa.X.Type(), fa.Field) == "jsonName" {
						for _, src := range traceSources(x.Val) {
							if s, ok := constString(src); ok {
								rm.jsonConsts[s] = true
							}
						}
					}
				}
				if g, ok := x.Addr.(*ssa.Global); ok {
					if _, isSlice := derefType(g.Type()).Underlying().(*types.Slice); isSlice {
						rm.infosVar = g
					}
				}
			case *ssa.MapUpdate:
				if g := loadedFromGlobal(x.Map); g != nil {
					rm.mapVar = g
				}
			}
		})
	}
	return rm
}

// isFieldNameValue: v is the Name of a reflect.StructField.
func isFieldNameValue(v ssa.Value) bool {
	switch x := v.(type) {
	case *ssa.Field:
		return core.CanonFieldOf(x.X.Type(), x.Field) == "Name" && isNamed(x.X.Type(), "reflect", "StructField")
	case *ssa.UnOp:
		if fa, ok := x.X.(*ssa.FieldAddr); ok {
			return core.CanonFieldOf(fa.X.Type(), fa.Field) == "Name" && isNamed(fa.X.Type(), "reflect", "StructField")
		}
	}
	return false
}

func ruleRegistryExhaustive(c *Ctx, rule string) {
	rm := c.registry(rule)
	if rm == nil {
		return
	}
	fields := c.SchemaFields(rule)
	byName := map[string]FieldInfo{}
	n := 0
	for _, f := range fields {
		byName[f.Name] = f
		bearing := f.Shape == "schema" || f.Shape == "slice" || f.Shape == "map" || f.Shape == "other-containing-schema"
		if !bearing {
			continue
		}
		n++
		pos := c.P.Pos(f.Var.Pos())
		if f.Shape == "other-containing-schema" {
			c.R.Bad(rule, "shape:"+f.Name, pos, fmt.Sprintf("Schema.%s has type %s, which contains *Schema but is none of *Schema, []*Schema, map[string]*Schema: clone, traversal, structure check and pointer lookup do not descend into it", f.Name, shortTypeName(f.Var.Type())))
			continue
		}
		if !f.Var.Exported() {
			c.R.Bad(rule, "unexported:"+f.Name, pos, "an unexported schema-bearing field is omitted from the registry")
			continue
		}
		if f.JSONName != "" {
			c.R.OKTable(rule, "registered:"+f.Name, pos, "enters the registry under its JSON name \""+f.JSONName+"\" ("+f.Shape+")")
		} else if rm.nameConsts[f.Name] {
			c.R.OK(rule, "registered:"+f.Name, pos, "tagged `-`; entered by the explicit name switch in init ("+f.Shape+")")
		} else {
			c.R.Bad(rule, "registered:"+f.Name, pos, fmt.Sprintf("Schema.%s holds subschemas (%s) but is tagged `-` and is not named in the registry's name switch: CloneSchemas would share it, the tree check and reference resolution would not see its subschemas, and JSON Pointers could not reach them", f.Name, f.Shape))
		}
	}
	c.R.Floor(rule, "schema-bearing fields of Schema", n, 23)
	for _, k := range sortedKeys(rm.nameConsts) {
		_, ok := byName[k]
		c.R.Check(ok, rule, "name-switch:"+k, c.P.Pos(rm.initFn.Pos()), "names an existing field of Schema", "the registry's name switch mentions \""+k+"\", which is not a field of Schema (renamed?): the intended field is no longer registered")
	}
	// the manual entries carry the keyword names of the two unions
	for _, kw := range []string{"items", "dependencies"} {
		c.R.Check(rm.jsonConsts[kw], rule, "manual-json-name:"+kw, c.P.Pos(rm.initFn.Pos()), "manual registry entries use the keyword name \""+kw+"\"", "no manual registry entry is given the JSON name \""+kw+"\": paths and pointers through that keyword break")
	}
}

// ---- C17 ----

// lookupFn: func(reflect.Value, string) reflect.Value in the resolver closure.
func (c *Ctx) pointerFieldLookup(rule string) *ssa.Function {
	if f, ok := c.roles["role:pointer-field-lookup"]; ok {
		return f
	}
	w := c.pointerWalker(rule)
	var found []*ssa.Function
	if w != nil {
		seen := map[*ssa.Function]bool{}
		for _, fi := range c.familyInstrs(w) {
			if call, ok := fi.I.(*ssa.Call); ok {
				if callee := call.Call.StaticCallee(); callee != nil && c.P.InPkg(callee) && !seen[callee] &&
					sigIs(callee.Signature, []func(types.Type) bool{tReflectValue, tString}, []func(types.Type) bool{tReflectValue}) {
					seen[callee] = true
					found = append(found, callee)
				}
			}
		}
	}
	var f *ssa.Function
	if len(found) == 1 {
		f = found[0]
	} else {
		c.R.Unresolved(rule, fmt.Sprintf("pointer-field-lookup (%d candidates called by the pointer walker)", len(found)))
	}
	c.roles["role:pointer-field-lookup"] = f
	return f
}

func (c *Ctx) pointerWalker(rule string) *ssa.Function {
	return c.bySignature(rule, "pointer-walker", "RES", func(s *types.Signature) bool {
		return sigIs(s, []func(types.Type) bool{tPtrNamed("", "Schema"), tString}, []func(types.Type) bool{tPtrNamed("", "Schema"), func(t types.Type) bool { return t.String() == "error" }})
	})
}

func ruleC17Ambiguous(c *Ctx) {
	const rule = "C17/ambiguous-names-special-cased"
	lf := c.pointerFieldLookup(rule)
	rm := c.registry(rule)
	if lf == nil || rm == nil {
		return
	}
	fields := c.SchemaFields(rule)
	byName := map[string]FieldInfo{}
	// JSON names that designate more than one Go field in the registry
	multi := map[string][]string{}
	for _, f := range fields {
		byName[f.Name] = f
	}
	manual := map[string]string{"Items": "items", "ItemsArray": "items", "DependencySchemas": "dependencies", "DependencyStrings": "dependencies"}
	for _, f := range fields {
		if f.JSONName != "" {
			multi[f.JSONName] = append(multi[f.JSONName], f.Name)
		} else if rm.nameConsts[f.Name] {
			multi[manual[f.Name]] = append(multi[manual[f.Name]], f.Name)
		}
	}
	ambiguous := map[string][]string{"type": {"Type", "Types"}}
	for k, v := range multi {
		if len(v) > 1 {
			ambiguous[k] = v
		}
	}
	namePar := lf.Params[1]
	fi := core.Info(lf)
	// the block that consults the generic map
	var mapLookup ssa.Instruction
	core.EachInstr(lf, func(i ssa.Instruction) {
		if lk, ok := i.(*ssa.Lookup); ok {
			if g := loadedFromGlobal(lk.X); g != nil {
				mapLookup = lk
			}
		}
	})
	if mapLookup == nil {
		c.R.OK(rule, "no-generic-map", "", "the field lookup does not consult a last-writer-wins map")
	}
	// FieldByName constants under each special case
	type special struct {
		consts []string
		pos    string
	}
	specials := map[string]*special{}
	core.EachInstr(lf, func(i ssa.Instruction) {
		call, ok := i.(*ssa.Call)
		if !ok || core.CalleeKey(&call.Call) != "reflect.Value.FieldByName" {
			return
		}
		k, ok := constString(call.Call.Args[1])
		if !ok {
			c.R.Unknown(rule, "FieldByName:non-constant", c.pos(call), "FieldByName with a non-constant name")
			return
		}
		_, exists := byName[k]
		c.R.Check(exists, rule, "FieldByName:"+k, c.pos(call), "names an existing field of Schema", "FieldByName(\""+k+"\"): Schema has no such field; the result is the invalid Value and IsZero/IsNil on it panics or the keyword silently resolves to nothing")
		for _, br := range fi.DomGuards(call.Block()) {
			cond, pol := br.Cond()
			if bo, ok := cond.(*ssa.BinOp); ok && bo.Op == token.EQL && pol {
				for _, pair := range [][2]ssa.Value{{bo.X, bo.Y}, {bo.Y, bo.X}} {
					if s, ok := constString(pair[1]); ok && pair[0] == namePar {
						if specials[s] == nil {
							specials[s] = &special{pos: c.pos(call)}
						}
						specials[s].consts = append(specials[s].consts, k)
					}
				}
			}
		}
	})
	for _, name := range sortedKeys(ambiguous) {
		gofields := ambiguous[name]
		sp := specials[name]
		if sp == nil {
			c.R.Bad(rule, "special-case:"+name, c.P.Pos(lf.Pos()), fmt.Sprintf("the JSON name %q designates %v, but the field lookup has no explicit case for it: the generic map keeps whichever field was registered last (the registry sort is unstable)", name, gofields))
			continue
		}
		// the generic lookup must not be reachable when name == this constant
		if mapLookup != nil {
			excluded := false
			for _, br := range fi.DomGuards(mapLookup.Block()) {
				cond, pol := br.Cond()
				if bo, ok := cond.(*ssa.BinOp); ok && bo.Op == token.EQL && !pol {
					for _, pair := range [][2]ssa.Value{{bo.X, bo.Y}, {bo.Y, bo.X}} {
						if s, ok := constString(pair[1]); ok && pair[0] == namePar && s == name {
							excluded = true
						}
					}
				}
			}
			c.R.Check(excluded, rule, "before-generic-map:"+name, sp.pos, "decided before the generic map is consulted", "the generic last-writer-wins map can still be consulted for \""+name+"\"")
		}
		// selected fields: schema-bearing ones among the designated Go fields
		sort.Strings(sp.consts)
		var wantBearing []string
		for _, g := range gofields {
			sh := byName[g].Shape
			if sh == "schema" || sh == "slice" || sh == "map" {
				wantBearing = append(wantBearing, g)
			}
		}
		if name == "type" {
			wantBearing = gofields
		}
		sort.Strings(wantBearing)
		c.R.Check(strings.Join(uniq(sp.consts), ",") == strings.Join(wantBearing, ","), rule, "special-case:"+name, sp.pos,
			fmt.Sprintf("selects %v", uniq(sp.consts)),
			fmt.Sprintf("the case for %q selects %v; a JSON Pointer through it must reach the schema-bearing field(s) %v", name, uniq(sp.consts), wantBearing))
	}
}

func uniq(in []string) []string {
	seen := map[string]bool{}
	var out []string
	for _, s := range in {
		if !seen[s] {
			seen[s] = true
			out = append(out, s)
		}
	}
	sort.Strings(out)
	return out
}

func ruleC17Escape(c *Ctx) {
	const rule = "C17/escape-tables"
	// replacers: package-level variables initialised with strings.NewReplacer(constants...)
	type repl struct {
		g     *ssa.Global
		pairs map[string]string
		pos   string
	}
	var repls []*repl
	initFn := c.P.SSAPkg.Func("init")
	if initFn == nil {
		c.R.Unresolved(rule, "package initialiser")
		return
	}
	core.EachInstr(initFn, func(i ssa.Instruction) {
		st, ok := i.(*ssa.Store)
		if !ok {
			return
		}
		g, ok := st.Addr.(*ssa.Global)
		if !ok {
			return
		}
		call, ok := st.Val.(*ssa.Call)
		if !ok || core.CalleeKey(&call.Call) != "strings.NewReplacer" {
			return
		}
		// varargs: a slice of an array alloc with constant stores
		var consts []string
		if sl, ok := call.Call.Args[0].(*ssa.Slice); ok {
			if arr, ok := sl.X.(*ssa.Alloc); ok {
				byIdx := map[int64]string{}
				if refs := arr.Referrers(); refs != nil {
					for _, r := range *refs {
						if ia, ok := r.(*ssa.IndexAddr); ok {
							idx, _ := ia.Index.(*ssa.Const)
							if irefs := ia.Referrers(); irefs != nil && idx != nil {
								for _, rr := range *irefs {
									if s2, ok := rr.(*ssa.Store); ok {
										if cs, ok := constString(s2.Val); ok {
											byIdx[idx.Int64()] = cs
										}
									}
								}
							}
						}
					}
				}
				for k := int64(0); k < int64(len(byIdx)); k++ {
					consts = append(consts, byIdx[k])
				}
			}
		}
		if len(consts)%2 != 0 || len(consts) == 0 {
			c.R.Unknown(rule, "replacer-args:"+g.Name(), c.pos(st), "cannot read the constant arguments of strings.NewReplacer")
			return
		}
		r := &repl{g: g, pairs: map[string]string{}, pos: c.pos(st)}
		for k := 0; k < len(consts); k += 2 {
			r.pairs[consts[k]] = consts[k+1]
		}
		repls = append(repls, r)
	})
	wantUn := map[string]string{"~0": "~", "~1": "/"}
	wantEsc := map[string]string{"~": "~0", "/": "~1"}
	eq := func(a, b map[string]string) bool {
		if len(a) != len(b) {
			return false
		}
		for k, v := range a {
			if b[k] != v {
				return false
			}
		}
		return true
	}
	// which replacer does the pointer parser use, which one the path builder?
	users := map[*ssa.Global][]string{}
	for _, fn := range c.P.Funcs {
		core.EachInstr(fn, func(i ssa.Instruction) {
			if call, ok := i.(*ssa.Call); ok && core.CalleeKey(&call.Call) == "strings.Replacer.Replace" {
				if g := loadedFromGlobal(call.Call.Args[0]); g != nil {
					users[g] = append(users[g], core.FuncName(fn))
				}
			}
		})
	}
	var un, esc *repl
	parse := c.bySignature(rule, "pointer-parser", "RES", func(s *types.Signature) bool {
		if s.Recv() != nil || s.Params().Len() != 1 || s.Results().Len() != 2 || !tString(s.Params().At(0).Type()) {
			return false
		}
		sl, ok := s.Results().At(0).Type().Underlying().(*types.Slice)
		return ok && tString(sl.Elem())
	})
	res := c.Closure(rule, "RES")
	reach := func(from *ssa.Function, g *ssa.Global) bool {
		if from == nil {
			return false
		}
		cl := c.P.Closure("tmp", c.G, from)
		for _, u := range users[g] {
			for f := range cl.Set {
				if core.FuncName(f) == u {
					return true
				}
			}
		}
		return false
	}
	for _, r := range repls {
		if reach(parse, r.g) {
			un = r
		} else if len(users[r.g]) > 0 {
			inRes := false
			for f := range res.Set {
				for _, u := range users[r.g] {
					if core.FuncName(f) == u {
						inRes = true
					}
				}
			}
			if inRes {
				esc = r
			}
		}
	}
	// a shortcut that skips unescaping must test for a substring common to every escape sequence
	if un != nil && parse != nil {
		for _, fn := range core.WithAnon(parse) {
			fi := core.Info(fn)
			core.EachInstr(fn, func(i ssa.Instruction) {
				call, ok := i.(*ssa.Call)
				if !ok {
					return
				}
				callee := call.Call.StaticCallee()
				if callee == nil || !reachesReplacer(c, callee, un.g, users) {
					return
				}
				for _, br := range fi.DomGuards(call.Block()) {
					cond, pol := br.Cond()
					cc, ok := cond.(*ssa.Call)
					if !ok || !pol {
						continue
					}
					key := core.CalleeKey(&cc.Call)
					if key != "strings.Contains" && key != "strings.ContainsRune" && key != "strings.ContainsAny" && key != "strings.IndexByte" {
						continue
					}
					k, isStr := constString(cc.Call.Args[1])
					if !isStr {
						if kc, ok := cc.Call.Args[1].(*ssa.Const); ok && kc.Value != nil {
							k, isStr = string(rune(kc.Int64())), true
						}
					}
					if !isStr {
						continue
					}
					okAll := true
					for old := range un.pairs {
						if key == "strings.ContainsAny" {
							if !strings.ContainsAny(old, k) {
								okAll = false
							}
						} else if !strings.Contains(old, k) {
							okAll = false
						}
					}
					c.R.Check(okAll, rule, "unescape-shortcut", c.pos(cc), fmt.Sprintf("unescaping is skipped only when %q is absent, which every escape sequence contains", k),
						fmt.Sprintf("unescaping is skipped when the pointer does not contain %q, but not every escape sequence contains it: some escaped segments stay escaped", k))
				}
			})
		}
	}
	if un == nil {
		// sequential ReplaceAll form is not modelled
		c.R.Unknown(rule, "unescaper", "", "the JSON Pointer parser does not unescape through a strings.Replacer built from constants; another form is not modelled")
	} else {
		c.R.Check(eq(un.pairs, wantUn), rule, "unescaper:pairs", un.pos, "single-pass replacer with exactly {~0→~, ~1→/}", fmt.Sprintf("the unescape table is %v, RFC 6901 requires {~0→~, ~1→/} applied in a single pass", un.pairs))
	}
	if esc == nil {
		c.R.Unknown(rule, "escaper", "", "no strings.Replacer built from constants is used to escape path segments")
	} else {
		c.R.Check(eq(esc.pairs, wantEsc), rule, "escaper:pairs", esc.pos, "single-pass replacer with exactly {~→~0, /→~1}", fmt.Sprintf("the escape table is %v, RFC 6901 requires {~→~0, /→~1}", esc.pairs))
	}
}

func ruleC17NoWrongTarget(c *Ctx) {
	const rule = "C17/no-wrong-target"
	w := c.pointerWalker(rule)
	if w == nil {
		return
	}
	fi := core.Info(w)
	errT := types.Universe.Lookup("error").Type()
	_ = errT
	// 1. successful returns come from a checked assertion to *Schema
	nOK := 0
	isNilErr := func(v ssa.Value) bool {
		for _, s := range traceSources(v) {
			if k, ok := s.(*ssa.Const); !ok || !k.IsNil() {
				return false
			}
		}
		return true
	}
	// the function has a named error result with a deferred wrapper: results are loads of cells
	core.EachInstr(w, func(i ssa.Instruction) {
		st, ok := i.(*ssa.Store)
		if !ok {
			return
		}
		_ = st
	})
	// find type assertions to *Schema
	var asserts []*ssa.TypeAssert
	core.EachInstr(w, func(i ssa.Instruction) {
		if ta, ok := i.(*ssa.TypeAssert); ok && c.isPkgNamed(ta.AssertedType, "Schema") {
			asserts = append(asserts, ta)
		}
	})
	for _, ta := range asserts {
		c.R.Check(ta.CommaOk, rule, "assertion-checked", c.pos(ta), "the final assertion to *Schema is the two-result form", "single-result type assertion to *Schema: a pointer that ends on a non-schema value panics instead of failing")
	}
	c.R.Floor(rule, "type assertions to *Schema in the pointer walker", len(asserts), 1)
	// every block that stores/returns a non-nil *Schema result with a nil error must be guarded by the ok of an assertion
	core.EachInstr(w, func(i ssa.Instruction) {
		ret, ok := i.(*ssa.Return)
		if !ok || len(ret.Results) != 2 {
			return
		}
		_ = isNilErr
		_ = ret
	})
	// success paths: blocks that assign a value derived from the assertion to the result
	for _, ta := range asserts {
		if !ta.CommaOk {
			continue
		}
		var okVal, sVal ssa.Value
		if refs := ta.Referrers(); refs != nil {
			for _, r := range *refs {
				if ex, ok := r.(*ssa.Extract); ok {
					if ex.Index == 0 {
						sVal = ex
					} else {
						okVal = ex
					}
				}
			}
		}
		guarded := false
		if sVal != nil && okVal != nil {
			if refs := sVal.Referrers(); refs != nil {
				for _, r := range *refs {
					for _, br := range fi.DomGuards(r.Block()) {
						cond, pol := br.Cond()
						if cond == okVal && pol {
							guarded = true
						}
					}
				}
			}
		}
		if guarded {
			nOK++
		}
		// a typed nil (the pointer ended at an absent single-schema keyword) must not be returned as success
		nonNil := false
		if sVal != nil {
			core.EachInstr(w, func(i ssa.Instruction) {
				ret, ok := i.(*ssa.Return)
				if !ok || len(ret.Results) == 0 || !flowsTo(sVal, ret.Results[0]) && ret.Results[0] != sVal {
					return
				}
				for _, g := range guardsOf(ret) {
					x, k, equal, ok := eqConst(g)
					if ok && k.IsNil() && !equal && (x == sVal || flowsTo(sVal, x)) {
						nonNil = true
					}
				}
			})
			// named results: the value is stored to the result cell instead
			if refs := sVal.Referrers(); refs != nil && !nonNil {
				for _, r := range *refs {
					if st, ok := r.(*ssa.Store); ok {
						for _, g := range guardsOf(st) {
							x, k, equal, ok := eqConst(g)
							if ok && k.IsNil() && !equal && (x == sVal || flowsTo(sVal, x)) {
								nonNil = true
							}
						}
					}
				}
			}
		}
		c.R.Check(nonNil, rule, "success-non-nil", c.pos(ta), "the asserted *Schema is returned only when it is not nil", "the pointer walker can succeed with a nil *Schema (a pointer ending at an absent keyword such as /not): Resolve succeeds and Validate dereferences the nil target")
		c.R.Check(guarded, rule, "success-from-assertion", c.pos(ta), "the returned schema is used only when the assertion succeeded", "the result of the assertion is used without testing its ok flag")
	}
	// 2. every lookup result is tested for validity and the failure leads to an error return
	lookups := 0
	core.EachInstr(w, func(i ssa.Instruction) {
		call, ok := i.(*ssa.Call)
		if !ok {
			return
		}
		key := core.CalleeKey(&call.Call)
		callee := call.Call.StaticCallee()
		isLookup := key == "reflect.Value.MapIndex" || (callee != nil && c.P.InPkg(callee) && callee == c.roles["role:pointer-field-lookup"]) || key == "reflect.Value.Elem"
		if lf := c.pointerFieldLookup(rule); lf != nil && callee == lf {
			isLookup = true
		}
		if !isLookup {
			return
		}
		lookups++
		// the value is stored to the walker's cursor cell; find an IsValid test on a load of it that follows
		tested := false
		core.EachInstr(w, func(j ssa.Instruction) {
			c2, ok := j.(*ssa.Call)
			if !ok || core.CalleeKey(&c2.Call) != "reflect.Value.IsValid" {
				return
			}
			if !core.ReachableFromInstr(call, c2) || core.ReachableFromInstr(c2, call) && !sameLoopIteration(call, c2) {
				// must follow the lookup
			}
			if !core.Dominates(call, c2) {
				return
			}
			// the tested value is the lookup result (directly or through the cursor cell)
			arg := c2.Call.Args[0]
			if arg != call {
				ld, ok := arg.(*ssa.UnOp)
				if !ok {
					return
				}
				stored := false
				for _, sv := range cellStoresIn(w, ld.X) {
					if sv == call {
						stored = true
					}
				}
				if !stored {
					return
				}
			}
			// its false outcome must lead to a non-nil error
			if refs := c2.Referrers(); refs != nil {
				for _, r := range *refs {
					var ifi *ssa.If
					pol := true
					switch x := r.(type) {
					case *ssa.If:
						ifi = x
					case *ssa.UnOp:
						if x.Op == token.NOT {
							if rr := x.Referrers(); rr != nil {
								for _, r2 := range *rr {
									if i2, ok := r2.(*ssa.If); ok {
										ifi, pol = i2, false
									}
								}
							}
						}
					}
					if ifi == nil {
						continue
					}
					failSucc := ifi.Block().Succs[1]
					if !pol {
						failSucc = ifi.Block().Succs[0]
					}
					if blockReturnsError(failSucc) {
						tested = true
					}
				}
			}
		})
		c.R.Check(tested, rule, "lookup-checked:"+key+"@"+strings.TrimPrefix(c.pos(call), "json_pointer.go:"), c.pos(call), "the lookup result is tested with IsValid and the failure returns an error", "the result of "+key+" is not tested for validity (or the failure does not return an error): a pointer that names nothing would continue with an invalid value or select another schema")
	})
	c.R.Floor(rule, "lookups in the pointer walker", lookups, 3)
	// 3. both index bounds
	var idxCall *ssa.Call
	core.EachInstr(w, func(i ssa.Instruction) {
		if call, ok := i.(*ssa.Call); ok && core.CalleeKey(&call.Call) == "reflect.Value.Index" {
			idxCall = call
		}
	})
	if idxCall == nil {
		c.R.Unknown(rule, "index-bounds", "", "no reflect.Value.Index call in the pointer walker")
	} else {
		n := idxCall.Call.Args[1]
		isLenCall := func(v ssa.Value) bool {
			call, ok := v.(*ssa.Call)
			return ok && core.CalleeKey(&call.Call) == "reflect.Value.Len"
		}
		lower, upper := boundsFrom(guardsOf(idxCall), n, isLenCall)
		// the index may be produced by a helper that validates it: (n, err) := h(seg, v.Len()); every
		// success return of h is then guarded by both bounds against the parameter that receives the length
		for _, src := range traceSources(n) {
			ex, ok := src.(*ssa.Extract)
			if !ok || ex.Index != 0 {
				continue
			}
			hc, ok := ex.Tuple.(*ssa.Call)
			if !ok {
				continue
			}
			h := hc.Call.StaticCallee()
			if h == nil || !c.transparent(h) || h.Signature.Results().Len() != 2 {
				continue
			}
			// the access happens only when the helper reported success
			succeeded := false
			for _, g := range guardsOf(idxCall) {
				if x, k, equal, ok := eqConst(g); ok && k.IsNil() && equal {
					if e2, ok := x.(*ssa.Extract); ok && e2.Tuple == hc && e2.Index == 1 {
						succeeded = true
					}
				}
				if e2, ok := g.Cond.(*ssa.Extract); ok && g.Pol && e2.Tuple == hc && e2.Index == 1 && isBoolType(e2.Type()) {
					succeeded = true
				}
			}
			if !succeeded {
				continue
			}
			isLenParam := func(v ssa.Value) bool {
				p, ok := v.(*ssa.Parameter)
				if !ok || p.Parent() != h {
					return false
				}
				for k, q := range h.Params {
					if q == p && k < len(hc.Call.Args) {
						return isLenCall(hc.Call.Args[k])
					}
				}
				return false
			}
			allLower, allUpper, nSucc := true, true, 0
			core.EachInstr(h, func(i ssa.Instruction) {
				ret, ok := i.(*ssa.Return)
				if !ok || len(ret.Results) != 2 {
					return
				}
				if k, ok := ret.Results[1].(*ssa.Const); ok && (k.IsNil() && !isBoolType(k.Type()) || isBoolType(k.Type()) && k.Value != nil && k.Value.String() == "true") {
					nSucc++
					lo, up := boundsFrom(guardsOf(ret), ret.Results[0], isLenParam)
					allLower = allLower && lo
					allUpper = allUpper && up
				} else if !ok && !knownNonNilError(ret, ret.Results[1]) {
					// a second result that may or may not report success: success cannot be told apart
					allLower, allUpper = false, false
				}
			})
			if nSucc > 0 {
				lower = lower || allLower
				upper = upper || allUpper
			}
		}
		c.R.Check(lower, rule, "index-bounds:lower", c.pos(idxCall), "the index is known to be >= 0 at the access", "the array index is not checked against 0 before reflect.Value.Index (strconv.Atoi accepts \"-1\"): panic")
		c.R.Check(upper, rule, "index-bounds:upper", c.pos(idxCall), "the index is known to be < Len at the access", "the array index is not checked against the length before reflect.Value.Index: panic or wrong target")
	}
}

func sameLoopIteration(a, b ssa.Instruction) bool { return true }

func sameLoadSource(a, b ssa.Value) bool {
	la, ok1 := a.(*ssa.UnOp)
	lb, ok2 := b.(*ssa.UnOp)
	return ok1 && ok2 && la.X == lb.X
}

func cellStoresIn(fn *ssa.Function, addr ssa.Value) []ssa.Value {
	cell := resolveCell(addr)
	if cell == nil {
		return nil
	}
	return cellStores(cell)
}

// blockReturnsError: every path from b reaches a return whose error result is not the nil constant,
// within a few straight-line blocks.
func blockReturnsError(b *ssa.BasicBlock) bool {
	return blockReturnsErrorLocal(b) && errorReachesCaller(b.Parent())
}

// errorReachesCaller: when fn is a helper with a single call site, the error it returns makes
// its caller return an error too (all the way up through such helpers).
func errorReachesCaller(fn *ssa.Function) bool {
	site := soleCaller(fn)
	if site == nil {
		return true
	}
	return errorPropagated(site)
}

func blockReturnsErrorLocal(b *ssa.BasicBlock) bool {
	for hops := 0; hops < 4; hops++ {
		last := b.Instrs[len(b.Instrs)-1]
		if ret, ok := last.(*ssa.Return); ok {
			if len(ret.Results) == 0 {
				return false
			}
			e := ret.Results[len(ret.Results)-1]
			// named results with deferred wrapper: a load of the error cell; find the last store in this chain
			if k, ok := e.(*ssa.Const); ok {
				return !k.IsNil()
			}
			return errCellNonNil(ret)
		}
		if len(b.Succs) != 1 {
			return false
		}
		b = b.Succs[0]
	}
	return false
}

// errCellNonNil: the return reads the error result cell; the nearest preceding store in the
// straight-line predecessor chain stores a non-constant (a constructed error).
func errCellNonNil(ret *ssa.Return) bool {
	e, ok := ret.Results[len(ret.Results)-1].(*ssa.UnOp)
	if !ok {
		return true
	}
	cell := resolveCell(e.X)
	b := ret.Block()
	for hops := 0; hops < 4 && b != nil; hops++ {
		for k := len(b.Instrs) - 1; k >= 0; k-- {
			if st, ok := b.Instrs[k].(*ssa.Store); ok && resolveCell(st.Addr) == cell {
				kk, isConst := st.Val.(*ssa.Const)
				return !(isConst && kk.IsNil())
			}
		}
		if len(b.Preds) != 1 {
			return false
		}
		b = b.Preds[0]
	}
	return false
}

// ---- C20 ----

func (c *Ctx) shapeGlobals(rule string) map[*ssa.Global]string {
	out := map[*ssa.Global]string{}
	initFn := c.P.SSAPkg.Func("init")
	if initFn == nil {
		return out
	}
	core.EachInstr(initFn, func(i ssa.Instruction) {
		st, ok := i.(*ssa.Store)
		if !ok {
			return
		}
		g, ok := st.Addr.(*ssa.Global)
		if !ok {
			return
		}
		call, ok := st.Val.(*ssa.Call)
		if !ok {
			return
		}
		callee := call.Call.StaticCallee()
		if callee == nil || callee.Origin() == nil || callee.Origin().Name() != "TypeFor" || len(callee.TypeArgs()) != 1 {
			return
		}
		t := callee.TypeArgs()[0]
		switch {
		case isPointer(t) && c.isPkgNamed(t, "Schema"):
			out[g] = "schema"
		case isSliceOf(t, func(e types.Type) bool { return isPointer(e) && c.isPkgNamed(e, "Schema") }):
			out[g] = "slice"
		case isMapOf(t, tString, func(e types.Type) bool { return isPointer(e) && c.isPkgNamed(e, "Schema") }):
			out[g] = "map"
		}
	})
	if len(out) != 3 {
		c.R.Unresolved(rule, fmt.Sprintf("the three shape type variables (found %d)", len(out)))
	}
	return out
}

// shapeDispatch returns, for fn, the shape globals its comparisons mention.
func shapeComparisons(fn *ssa.Function, shapes map[*ssa.Global]string) map[string]bool {
	out := map[string]bool{}
	for _, f := range core.WithAnon(fn) {
		core.EachInstr(f, func(i ssa.Instruction) {
			// a type switch on the field's value dispatches on the same three shapes
			if ta, ok := i.(*ssa.TypeAssert); ok && ta.CommaOk {
				if s := schemaShapeOf(ta.AssertedType); s != "" {
					out[s] = true
				}
				return
			}
			bo, ok := i.(*ssa.BinOp)
			if !ok || (bo.Op != token.EQL && bo.Op != token.NEQ) {
				return
			}
			for _, v := range []ssa.Value{bo.X, bo.Y} {
				if g := loadedFromGlobal(v); g != nil {
					if s, ok := shapes[g]; ok {
						out[s] = true
					}
				}
			}
		})
	}
	return out
}

func ruleC20ThreeShapes(c *Ctx) {
	const rule = "C20/three-shapes-everywhere"
	shapes := c.shapeGlobals(rule)
	rm := c.registry(rule)
	if rm == nil || rm.infosVar == nil {
		c.R.Unresolved(rule, "registry slice")
		return
	}
	n := 0
	for _, fn := range c.P.Funcs {
		if fn.Parent() != nil {
			continue
		}
		usesRegistry := false
		for _, f := range core.WithAnon(fn) {
			core.EachInstr(f, func(i ssa.Instruction) {
				if ld, ok := i.(*ssa.UnOp); ok && ld.X == rm.infosVar {
					usesRegistry = true
				}
			})
		}
		if !usesRegistry || fn == rm.initFn {
			continue
		}
		got := shapeComparisons(fn, shapes)
		if len(got) == 0 {
			c.R.OKTable(rule, core.FuncName(fn)+":no-shape-dispatch", c.P.Pos(fn.Pos()), "iterates the registry without dispatching on the shape")
			continue
		}
		n++
		var missing []string
		for _, s := range []string{"schema", "slice", "map"} {
			if !got[s] {
				missing = append(missing, s)
			}
		}
		c.R.Check(len(missing) == 0, rule, core.FuncName(fn)+":shapes", c.P.Pos(fn.Pos()), "handles *Schema, []*Schema and map[string]*Schema", fmt.Sprintf("%s dispatches on the field shape but has no arm for %v: those subschemas are skipped", core.FuncName(fn), missing))
	}
	c.R.Floor(rule, "registry traversals that dispatch on shape", n, 3)
}

func ruleC20NoSkip(c *Ctx) {
	const rule = "C20/no-skip"
	cl := c.entry(rule, "(*Schema).CloneSchemas")
	if cl == nil {
		return
	}
	shapes := c.shapeGlobals(rule)
	fi := core.Info(cl)
	n := 0
	core.EachInstr(cl, func(i ssa.Instruction) {
		call, ok := i.(*ssa.Call)
		if !ok || core.CalleeKey(&call.Call) != "reflect.Value.Set" {
			return
		}
		n++
		var extra []string
		shape := ""
		for _, br := range fi.Guards(call.Block()) {
			cond, _ := br.Cond()
			okGuard := false
			switch x := cond.(type) {
			case *ssa.BinOp:
				for _, v := range []ssa.Value{x.X, x.Y} {
					if g := loadedFromGlobal(v); g != nil {
						if s, ok := shapes[g]; ok {
							okGuard = true
							if pol := br.Succ == 0; pol == (x.Op == token.EQL) {
								shape = s
							}
						}
					}
				}
				// receiver nil test at function entry
				if k, ok := x.Y.(*ssa.Const); ok && k.IsNil() {
					if _, isParam := x.X.(*ssa.Parameter); isParam {
						okGuard = true
					}
				}
			case *ssa.Extract:
				if _, isNext := x.Tuple.(*ssa.Next); isNext {
					okGuard = true
				}
				// a case of a type switch on the field's value
				if ta, isTA := x.Tuple.(*ssa.TypeAssert); isTA && x.Index == 1 {
					if s := schemaShapeOf(ta.AssertedType); s != "" {
						okGuard = true
						if br.Succ == 0 {
							shape = s
						}
					}
				}
			}
			if bo, ok := cond.(*ssa.BinOp); ok && !okGuard {
				// range-over-slice loop condition: index < len
				if bo.Op == token.LSS {
					okGuard = true
				}
			}
			if !okGuard {
				extra = append(extra, c.pos(br.Block.Instrs[len(br.Block.Instrs)-1]))
			}
		}
		c.R.Check(len(extra) == 0, rule, "set:"+shape, c.pos(call), "the write-back of the cloned "+shape+" depends only on the shape dispatch",
			fmt.Sprintf("the write-back of the cloned %s field is additionally conditional (guards at %v): some schema-bearing field can keep sharing its subschemas with the original", shape, extra))
	})
	c.R.Floor(rule, "reflect Set calls in the clone loop", n, 3)
}

func ruleC20Fresh(c *Ctx) {
	const rule = "C20/fresh-containers"
	cl := c.entry(rule, "(*Schema).CloneSchemas")
	if cl == nil {
		return
	}
	tr := c.Tracer(rule, "CLN")
	clo := c.Closure(rule, "CLN")
	isSelfCall := func(v ssa.Value) bool {
		call, ok := v.(*ssa.Call)
		return ok && call.Call.StaticCallee() == cl
	}
	// returned struct is fresh
	core.EachInstr(cl, func(i ssa.Instruction) {
		ret, ok := i.(*ssa.Return)
		if !ok {
			return
		}
		for _, rv := range ret.Results {
			if k, ok := rv.(*ssa.Const); ok && k.IsNil() {
				continue
			}
			fresh := true
			for l := range tr.Obj(rv) {
				if !(l.Root.Kind == core.RFresh && clo.Has(l.Root.Fn) && l.Path == "") {
					fresh = false
				}
			}
			c.R.Check(fresh, rule, "return-fresh", c.pos(ret), "the returned *Schema is a fresh copy", "CloneSchemas can return memory that is not a fresh allocation")
		}
	})
	n := 0
	seenI := map[ssa.Instruction]bool{}
	var famIs []ssa.Instruction
	for _, fi := range c.familyInstrs(cl) {
		if !seenI[fi.I] {
			seenI[fi.I] = true
			famIs = append(famIs, fi.I)
		}
	}
	each := func(f func(i ssa.Instruction)) {
		for _, i := range famIs {
			f(i)
		}
	}
	each(func(i ssa.Instruction) {
		switch x := i.(type) {
		case *ssa.Store:
			ia, ok := x.Addr.(*ssa.IndexAddr)
			if !ok || !(isPointer(x.Val.Type()) && c.isPkgNamed(x.Val.Type(), "Schema")) {
				return
			}
			n++
			c.R.Check(isSelfCall(x.Val), rule, "slice-element", c.pos(x), "every element stored into the cloned slice is a recursive clone", "an element stored into the cloned slice is not the result of CloneSchemas: the clone shares that subschema with the original")
			freshC := true
			for l := range tr.Obj(ia.X) {
				if !(l.Root.Kind == core.RFresh && clo.Has(l.Root.Fn)) {
					freshC = false
				}
			}
			c.R.Check(freshC, rule, "slice-container", c.pos(x), "the slice written to is a fresh copy (slices.Clone / make)", "elements are stored into the original's slice, not into a copy: CloneSchemas would modify its input")
		case *ssa.MapUpdate:
			if !(isPointer(x.Value.Type()) && c.isPkgNamed(x.Value.Type(), "Schema")) {
				return
			}
			n++
			c.R.Check(isSelfCall(x.Value), rule, "map-element", c.pos(x), "every value stored into the cloned map is a recursive clone", "a value stored into the cloned map is not the result of CloneSchemas")
			freshC := true
			for l := range tr.Obj(x.Map) {
				if !(l.Root.Kind == core.RFresh && clo.Has(l.Root.Fn)) {
					freshC = false
				}
			}
			c.R.Check(freshC, rule, "map-container", c.pos(x), "the map written to is a fresh copy (maps.Clone / make)", "values are stored into the original's map, not into a copy: CloneSchemas would modify its input")
		case *ssa.Call:
			if core.CalleeKey(&x.Call) != "reflect.Value.Set" {
				return
			}
			// the value set: reflect.ValueOf(v) with v a self call or a fresh container
			vo, ok := x.Call.Args[1].(*ssa.Call)
			if !ok || core.CalleeKey(&vo.Call) != "reflect.ValueOf" {
				c.R.Unknown(rule, "set-value", c.pos(x), "the value written back is not a reflect.ValueOf(...) expression")
				return
			}
			v := peelIface(vo.Call.Args[0])
			okV := isSelfCall(v)
			if !okV {
				okV = true
				objs := tr.Obj(v)
				if len(objs) == 0 {
					okV = false
				}
				for l := range objs {
					if !(l.Root.Kind == core.RFresh && clo.Has(l.Root.Fn)) {
						okV = false
					}
				}
			}
			// nil-ness and emptiness must be preserved: a container rebuilt with append turns an empty non-nil container into nil
			if okV && !isSelfCall(v) {
				for l := range tr.Obj(v) {
					if call, ok := l.Root.V.(*ssa.Call); ok && core.CalleeKey(&call.Call) == "builtin.append" {
						okV = false
						c.R.Bad(rule, "set-value-preserves-empty:"+shortTypeName(v.Type()), c.pos(x), "the cloned container is rebuilt with append: an empty but non-nil "+shortTypeName(v.Type())+" (e.g. anyOf: []) becomes nil in the clone, which marshals and validates differently")
					}
				}
			}
			n++
			c.R.Check(okV, rule, "set-value:"+shortTypeName(v.Type()), c.pos(x), "the field is overwritten with a recursive clone or a freshly allocated container", "the field is written back with memory shared with the original ("+shortTypeName(v.Type())+")")
		}
	})
	c.R.Floor(rule, "clone write-backs and element stores", n, 5)
}

func ruleC20TreeCheck(c *Ctx) {
	const rule = "C20/tree-check"
	// the structure check: the function in RES that has a map[*Schema]*resolvedInfo lookup with found -> error, and a self-recursive closure
	res := c.Closure(rule, "RES")
	found := false
	for _, fn := range res.Sorted() {
		if !c.P.InPkg(fn) || (fn.Parent() == nil && (fn.Object() == nil || fn.Object().Exported())) {
			continue
		}
		// a self-recursive function (closure, function or method) taking a reflect.Value
		hasValueParam := false
		for _, p := range fn.Params {
			if tReflectValue(p.Type()) {
				hasValueParam = true
			}
		}
		if !hasValueParam {
			continue
		}
		fi := core.Info(fn)
		var lk *ssa.Lookup
		var mu *ssa.MapUpdate
		var rec []ssa.Instruction
		for _, fam := range c.familyInstrs(fn) {
			i := fam.I
			switch x := i.(type) {
			case *ssa.Lookup:
				if m, ok := x.X.Type().Underlying().(*types.Map); ok && isPointer(m.Key()) && c.isPkgNamed(m.Key(), "Schema") && x.CommaOk && x.Parent() == fn {
					lk = x
				}
			case *ssa.MapUpdate:
				if m, ok := x.Map.Type().Underlying().(*types.Map); ok && isPointer(m.Key()) && c.isPkgNamed(m.Key(), "Schema") && x.Parent() == fn {
					mu = x
				}
			case *ssa.Call:
				if x.Call.StaticCallee() == fn {
					rec = append(rec, x)
				}
				if x.Call.StaticCallee() == nil && !x.Call.IsInvoke() {
					for _, callee := range core.Callees(c.G, x) {
						if callee == fn {
							rec = append(rec, x)
						}
					}
				}
			}
		}
		if lk == nil || mu == nil || len(rec) == 0 {
			continue
		}
		found = true
		// found -> error return
		var okVal ssa.Value
		if refs := lk.Referrers(); refs != nil {
			for _, r := range *refs {
				if ex, ok := r.(*ssa.Extract); ok && ex.Index == 1 {
					okVal = ex
				}
			}
		}
		rejects := false
		for _, b := range fn.Blocks {
			if ifi, ok := b.Instrs[len(b.Instrs)-1].(*ssa.If); ok && ifi.Cond == okVal {
				if blockReturnsErrorDeep(b.Succs[0]) {
					rejects = true
				}
			}
		}
		c.R.Check(rejects, rule, core.FuncName(fn)+":second-visit-rejected", c.pos(lk), "a schema already in the seen table makes the structure check fail", "a second visit of the same *Schema no longer fails the structure check: shared subschemas (original + clone aliasing, cycles) are accepted and a cycle recurses without bound")
		// a nil schema is rejected unconditionally before its fields are visited
		nilRejected := false
		c.eachFam(fn, func(i ssa.Instruction) {
			fb, ok := i.(*ssa.Call)
			if !ok || core.CalleeKey(&fb.Call) != "reflect.Value.FieldByIndex" {
				return
			}
			for _, g := range guardsOf(fb) {
				if x, k, equal, ok := eqConst(g); ok && k.IsNil() && !equal && isPointer(x.Type()) && c.isPkgNamed(x.Type(), "Schema") {
					if ifi, ok := g.At.(*ssa.If); ok && (blockReturnsErrorDeep(ifi.Block().Succs[1-g.Succ]) || blockReturnsError(ifi.Block().Succs[1-g.Succ])) {
						nilRejected = true
					}
				}
			}
		})
		c.R.Check(nilRejected, rule, core.FuncName(fn)+":nil-subschema-rejected", c.pos(lk), "a nil subschema is rejected, whatever its position, before its fields are visited", "the fields of a schema are visited without an unconditional test that the schema is not nil (or the test does not return an error): a nil child somewhere in the tree makes Resolve panic")
		allDom := true
		for _, r := range rec {
			if !dominatesFam(mu, r) || !dominatesFam(lk, r) {
				allDom = false
			}
		}
		c.R.Check(allDom, rule, core.FuncName(fn)+":mark-before-descend", c.pos(mu), "the seen test and the insertion dominate every recursive descent", "the schema is not marked as seen before the check descends into its children: a cyclic schema graph recurses without bound")
		_ = fi
	}
	if !found {
		c.R.Unresolved(rule, "structure check (recursive closure with a seen table keyed by *Schema)")
	}
}

func blockReturnsErrorDeep(b *ssa.BasicBlock) bool {
	return blockReturnsErrorDeepLocal(b) && errorReachesCaller(b.Parent())
}

func blockReturnsErrorDeepLocal(b *ssa.BasicBlock) bool {
	seen := map[*ssa.BasicBlock]bool{}
	for hops := 0; hops < 8 && b != nil && !seen[b]; hops++ {
		seen[b] = true
		last := b.Instrs[len(b.Instrs)-1]
		if ret, ok := last.(*ssa.Return); ok {
			if len(ret.Results) == 0 {
				return false
			}
			k, isConst := ret.Results[len(ret.Results)-1].(*ssa.Const)
			if isConst && isRangeFuncBody(b.Parent()) && k.Value != nil && k.Value.String() == "true" {
				return false // `continue` in the body of a range-over-func loop
			}
			return !(isConst && k.IsNil())
		}
		if len(b.Succs) != 1 {
			return false
		}
		b = b.Succs[0]
	}
	return false
}

func reachesReplacer(c *Ctx, fn *ssa.Function, g *ssa.Global, users map[*ssa.Global][]string) bool {
	if !c.P.InPkg(fn) {
		return false
	}
	cl := c.P.Closure("tmp", c.G, fn)
	for f := range cl.Set {
		for _, u := range users[g] {
			if core.FuncName(f) == u {
				return true
			}
		}
	}
	return false
}

func init() {
	p := Properties["C17"]
	p.Rules = append(p.Rules, Rule{"C17/no-second-decoding", ruleC17NoSecondDecoding}, Rule{"C17/keys-from-parsed-segments", ruleC17KeysFromSegments}, Rule{"C17/special-cases-select-own-keyword", ruleC17SpecialOwnKeyword})
}

// The fragment arrives percent-decoded from net/url; the pointer code must not decode again.
func ruleC17NoSecondDecoding(c *Ctx) {
	const rule = "C17/no-second-decoding"
	w := c.pointerWalker(rule)
	if w == nil {
		return
	}
	cl := c.P.Closure("PTR", c.G, w)
	bad := 0
	for _, fn := range cl.Sorted() {
		core.EachInstr(fn, func(i ssa.Instruction) {
			if call, ok := i.(ssa.CallInstruction); ok {
				key := core.CalleeKey(call.Common())
				switch key {
				case "net/url.PathUnescape", "net/url.QueryUnescape", "net/url.Parse", "net/url.ParseRequestURI":
					bad++
					c.R.Bad(rule, core.FuncName(fn)+":"+key, c.pos(i), "the JSON Pointer code calls "+key+": the fragment was already percent-decoded by net/url, so a key containing a literal escape such as \"%41\" or \"50%25\" would be decoded twice and select another key")
				}
			}
		})
	}
	// the same for the code that hands the fragment to the walker: url.URL.Fragment is the decoded form
	res := c.Closure(rule, "RES")
	nres := 0
	if res != nil {
		for _, fn := range res.Sorted() {
			if !c.P.InPkg(fn) {
				continue
			}
			nres++
			core.EachInstr(fn, func(i ssa.Instruction) {
				call, ok := i.(ssa.CallInstruction)
				if !ok {
					return
				}
				key := core.CalleeKey(call.Common())
				if key == "net/url.QueryUnescape" {
					bad++
					c.R.Bad(rule, core.FuncName(fn)+":"+key, c.pos(i), "the resolver decodes (part of) a reference with url.QueryUnescape, which also turns '+' into a space: \"#/$defs/a+b\" would select the key \"a b\"; fragments are decoded by net/url's parser (or PathUnescape)")
					return
				}
				if key != "net/url.PathUnescape" && key != "net/url.QueryUnescape" || len(call.Common().Args) == 0 {
					return
				}
				fromFragment := false
				for _, src := range append(traceSources(call.Common().Args[0]), call.Common().Args[0]) {
					if c.mentionsNamedField(src, "Fragment", 6) {
						fromFragment = true
					}
				}
				if fromFragment {
					bad++
					c.R.Bad(rule, core.FuncName(fn)+":"+key+"(URL.Fragment)", c.pos(i), "url.URL.Fragment is already percent-decoded; decoding it again makes \"#/$defs/50%2525\" select the key \"50%\" instead of \"50%25\"")
				}
			})
		}
	}
	if bad == 0 {
		c.R.OK(rule, "resolver:fragment-decoded-once", "", fmt.Sprintf("no unescape call applied to url.URL.Fragment in the %d package functions of the resolver's closure", nres))
		c.R.OK(rule, "pointer-code:no-url-decoding", "", fmt.Sprintf("no URL decoding in the %d functions of the pointer walker's closure", len(cl.Set)))
	}
}

// Every string used to select a field, a map entry or an index in the walker
// is an element of the parser's result, not a piece of the raw pointer text.
func ruleC17KeysFromSegments(c *Ctx) {
	const rule = "C17/keys-from-parsed-segments"
	w := c.pointerWalker(rule)
	if w == nil {
		return
	}
	var parserCall *ssa.Call
	core.EachInstr(w, func(i ssa.Instruction) {
		if call, ok := i.(*ssa.Call); ok {
			if callee := call.Call.StaticCallee(); callee != nil && c.P.InPkg(callee) && callee.Signature.Results().Len() == 2 {
				if sl, ok := callee.Signature.Results().At(0).Type().Underlying().(*types.Slice); ok && tString(sl.Elem()) {
					parserCall = call
				}
			}
		}
	})
	if parserCall == nil {
		c.R.Unresolved(rule, "call of the pointer parser in the walker")
		return
	}
	fromSegments := func(v ssa.Value) bool {
		for _, s := range traceSources(v) {
			ok := false
			switch x := s.(type) {
			case *ssa.UnOp: // load of an element of the segments slice
				if ia, isIA := x.X.(*ssa.IndexAddr); isIA {
					for _, src := range traceSources(ia.X) {
						if ex, isEx := src.(*ssa.Extract); isEx && ex.Tuple == parserCall {
							ok = true
						}
					}
				}
			case *ssa.Extract:
				if nx, isNx := x.Tuple.(*ssa.Next); isNx {
					if rg, isRg := nx.Iter.(*ssa.Range); isRg {
						for _, src := range traceSources(rg.X) {
							if ex, isEx := src.(*ssa.Extract); isEx && ex.Tuple == parserCall {
								ok = true
							}
						}
					}
				}
			}
			if !ok {
				return false
			}
		}
		return true
	}
	n := 0
	var sParam *ssa.Parameter
	for _, p := range w.Params {
		if tString(p.Type()) {
			sParam = p
		}
	}
	c.pointerFieldLookup(rule) // a role anchor: not part of the walker's family
	for _, fi := range c.familyInstrs(w) {
		i := fi.I
		var key ssa.Value
		what := ""
		switch x := i.(type) {
		case *ssa.Lookup:
			if _, isMap := x.X.Type().Underlying().(*types.Map); isMap && tString(x.Index.Type()) && len(fi.Path) == 0 {
				key, what = x.Index, "a map lookup"
			}
		case *ssa.Call:
			k := core.CalleeKey(&x.Call)
			callee := x.Call.StaticCallee()
			switch {
			case k == "reflect.Value.MapIndex":
				if vo, ok := x.Call.Args[1].(*ssa.Call); ok && core.CalleeKey(&vo.Call) == "reflect.ValueOf" {
					key, what = peelIface(vo.Call.Args[0]), "MapIndex"
				}
			case k == "strconv.Atoi":
				key, what = x.Call.Args[0], "the array index"
			case callee != nil && callee == c.pointerFieldLookup(rule):
				key, what = x.Call.Args[1], "the field lookup"
			case k == "reflect.Value.FieldByName":
				key, what = x.Call.Args[1], "FieldByName"
			}
		}
		if key == nil {
			continue
		}
		n++
		ok := fromSegments(upValue(key, fi.Path))
		_ = sParam
		c.R.Check(ok, rule, fmt.Sprintf("key#%d:%s", n, what), c.pos(i), "the selector of "+what+" is an element of the parsed (unescaped) segment list",
			"the selector of "+what+" is not an element of the parser's segment list (e.g. a piece of the raw, still escaped pointer text): '~0'/'~1' in a key would be matched literally and a pointer could select a key spelled like the escaped form of another")
	}
	c.R.Floor(rule, "selectors in the pointer walker", n, 3)
}

// A special case in the field lookup may only map a keyword to the Go fields that carry that keyword.
func ruleC17SpecialOwnKeyword(c *Ctx) {
	const rule = "C17/special-cases-select-own-keyword"
	lf := c.pointerFieldLookup(rule)
	if lf == nil {
		return
	}
	kw := map[string]string{"Type": "type", "Types": "type", "Items": "items", "ItemsArray": "items", "DependencySchemas": "dependencies", "DependencyStrings": "dependencies"}
	for _, f := range c.SchemaFields(rule) {
		if f.JSONName != "" {
			kw[f.Name] = f.JSONName
		}
	}
	namePar := lf.Params[1]
	n := 0
	core.EachInstr(lf, func(i ssa.Instruction) {
		call, ok := i.(*ssa.Call)
		if !ok {
			return
		}
		var fieldName string
		switch core.CalleeKey(&call.Call) {
		case "reflect.Value.FieldByName":
			fieldName, _ = constString(call.Call.Args[1])
		default:
			return
		}
		if fieldName == "" {
			return
		}
		// may-semantics: the selection can execute when name == n (|| chains included)
		for _, g := range controlGuards(call) {
			x, k, equal, ok := eqConst(g)
			if !ok || !equal || x != namePar {
				continue
			}
			name, isStr := constString(k)
			if !isStr {
				continue
			}
			n++
			c.R.Check(kw[fieldName] == name, rule, "case:"+name+"->"+fieldName, c.pos(call), "the special case for \""+name+"\" selects a field that carries that keyword",
				fmt.Sprintf("the special case for %q returns Schema.%s, which carries the keyword %q: a pointer through %q would resolve although the document has no such location (or reach the wrong subschema)", name, fieldName, kw[fieldName], name))
		}
	})
	c.R.Floor(rule, "special-cased field selections", n, 5)
}

// boundsFrom: which of `n >= 0` and `n < length` the guards establish, where isLen recognises the length value.
func boundsFrom(guards []guardAtom, n ssa.Value, isLen func(ssa.Value) bool) (lower, upper bool) {
	uses := func(v ssa.Value) bool { return v == n || dependsOn(v, []ssa.Value{n}, 2) || sameLoadSource(v, n) }
	isZero := func(v ssa.Value) bool {
		k, ok := v.(*ssa.Const)
		return ok && k.Value != nil && k.Value.String() == "0"
	}
	for _, g := range guards {
		bo, ok := g.Cond.(*ssa.BinOp)
		if !ok {
			continue
		}
		pol := g.Pol
		switch {
		case uses(bo.X) && isZero(bo.Y) && ((bo.Op == token.LSS && !pol) || (bo.Op == token.GEQ && pol)):
			lower = true
		case uses(bo.X) && isLen(bo.Y) && ((bo.Op == token.GEQ && !pol) || (bo.Op == token.LSS && pol)):
			upper = true
		case isZero(bo.X) && uses(bo.Y) && ((bo.Op == token.GTR && !pol) || (bo.Op == token.LEQ && pol)):
			lower = true
		case isLen(bo.X) && uses(bo.Y) && ((bo.Op == token.LEQ && !pol) || (bo.Op == token.GTR && pol)):
			upper = true
		}
	}
	return
}

// knownNonNilError: v, returned at ret, is a freshly built error or is known to be non-nil there.
func knownNonNilError(ret *ssa.Return, v ssa.Value) bool {
	for _, g := range guardsOf(ret) {
		if x, k, equal, ok := eqConst(g); ok && k.IsNil() && !equal && x == v {
			return true
		}
	}
	for _, src := range traceSources(v) {
		call, ok := src.(*ssa.Call)
		if !ok {
			return false
		}
		switch core.CalleeKey(&call.Call) {
		case "fmt.Errorf", "errors.New":
		default:
			return false
		}
	}
	return true
}

// schemaShapeOf: "schema", "slice" or "map" for *Schema, []*Schema, map[string]*Schema (of the analysed package); else "".
func schemaShapeOf(t types.Type) string {
	isSchemaPtr := func(t types.Type) bool {
		p, ok := t.(*types.Pointer)
		if !ok {
			return false
		}
		n, ok := types.Unalias(p.Elem()).(*types.Named)
		return ok && n.Obj().Name() == "Schema" && curCtx != nil && n.Obj().Pkg() == curCtx.P.Types
	}
	switch x := t.Underlying().(type) {
	case *types.Pointer:
		if isSchemaPtr(t) {
			return "schema"
		}
	case *types.Slice:
		if isSchemaPtr(x.Elem()) {
			return "slice"
		}
	case *types.Map:
		if isSchemaPtr(x.Elem()) {
			return "map"
		}
	}
	return ""
}

func init() {
	p := Properties["C20"]
	p.Rules = append(p.Rules, Rule{"C20/nil-only-for-nil", ruleC20NilOnlyForNil})
}

// A clone is equal to its original: an empty but non-nil list or map of subschemas (anyOf: [] rejects
// everything, items: [] hands every element to additionalItems) must not become nil in the clone. In the clone
// family, a nil container of subschemas is produced only under a test that the original container is nil -
// never under a length test.
func ruleC20NilOnlyForNil(c *Ctx) {
	const rule = "C20/nil-only-for-nil"
	cl := c.entry(rule, "(*Schema).CloneSchemas")
	if cl == nil {
		return
	}
	isSchemaContainer := func(t types.Type) bool {
		switch u := t.Underlying().(type) {
		case *types.Slice:
			return c.isPkgNamed(derefType(u.Elem()), "Schema")
		case *types.Map:
			return c.isPkgNamed(derefType(u.Elem()), "Schema")
		}
		return false
	}
	nilTested := func(at ssa.Instruction, t types.Type) bool {
		for _, g := range guardsOf(at) {
			bo, ok := g.Cond.(*ssa.BinOp)
			if !ok {
				continue
			}
			for _, pair := range [][2]ssa.Value{{bo.X, bo.Y}, {bo.Y, bo.X}} {
				k, isK := pair[1].(*ssa.Const)
				if !isK || !k.IsNil() || !types.Identical(pair[0].Type(), t) {
					continue
				}
				if (bo.Op == token.EQL && g.Pol) || (bo.Op == token.NEQ && !g.Pol) {
					return true
				}
			}
		}
		return false
	}
	n := 0
	for _, fn := range c.familyFuncs(cl) {
		fn := fn
		core.EachInstr(fn, func(i ssa.Instruction) {
			var vals []ssa.Value
			switch x := i.(type) {
			case *ssa.Return:
				for k := range x.Results {
					vals = append(vals, returnedValue(x, k))
				}
			case *ssa.Call:
				if core.CalleeKey(&x.Call) == "reflect.ValueOf" {
					vals = append(vals, peelIface(x.Call.Args[0]))
				}
			case *ssa.Store:
				vals = append(vals, x.Val)
			}
			for _, v := range vals {
				if v == nil || !isSchemaContainer(v.Type()) {
					continue
				}
				// nil constants that can arrive here, with the place where the choice was made
				var walk func(v ssa.Value, at ssa.Instruction, seen map[ssa.Value]bool)
				walk = func(v ssa.Value, at ssa.Instruction, seen map[ssa.Value]bool) {
					if seen[v] {
						return
					}
					seen[v] = true
					switch x := v.(type) {
					case *ssa.Const:
						if x.IsNil() {
							n++
							c.R.Check(nilTested(at, x.Type()), rule, fmt.Sprintf("%s:nil-%s", core.FuncName(fn), shortTypeName(x.Type())), c.pos(at),
								"a nil container is produced only where the original container was found nil",
								"a nil list/map of subschemas is produced without a test that the original is nil (e.g. under a length test): an empty but present anyOf / oneOf / items [] of the original is absent in the clone, which then accepts what the original rejects and marshals differently")
						}
					case *ssa.Phi:
						for k, e := range x.Edges {
							pred := x.Block().Preds[k]
							walk(e, pred.Instrs[len(pred.Instrs)-1], seen)
						}
					case *ssa.Call:
						// slices.Clone / maps.Clone return nil exactly for a nil argument
						if k := core.CalleeKey(&x.Call); (strings.HasPrefix(k, "slices.Clone") || strings.HasPrefix(k, "maps.Clone")) && len(x.Call.Args) == 1 {
							walk(x.Call.Args[0], at, seen)
						}
					}
				}
				walk(v, i, map[ssa.Value]bool{})
			}
		})
	}
	if n == 0 {
		c.R.OK(rule, "none", c.P.Pos(cl.Pos()), "the clone family produces no nil container of subschemas")
	}
}

func init() {
	p := Properties["C17"]
	p.Rules = append(p.Rules, Rule{"C17/one-leading-slash", ruleC17OneLeadingSlash})
}

// A JSON Pointer is "/" tok "/" tok ...: the parser removes exactly the first character before it splits at "/".
// Empty tokens are tokens ("//a" names the member "" and then "a"); a function that removes every leading slash
// (TrimLeft, Trim) makes "//$defs/A" mean "/$defs/A".
func ruleC17OneLeadingSlash(c *Ctx) {
	const rule = "C17/one-leading-slash"
	parse := c.bySignature(rule, "pointer-parser", "RES", func(s *types.Signature) bool {
		if s.Recv() != nil || s.Params().Len() != 1 || s.Results().Len() != 2 || !tString(s.Params().At(0).Type()) {
			return false
		}
		sl, ok := s.Results().At(0).Type().Underlying().(*types.Slice)
		return ok && tString(sl.Elem())
	})
	if parse == nil {
		c.R.Unresolved(rule, "JSON Pointer parser (func(string) ([]string, error))")
		return
	}
	n := 0
	for _, fi := range c.familyInstrs(parse) {
		call, ok := fi.I.(*ssa.Call)
		if !ok {
			continue
		}
		key := core.CalleeKey(&call.Call)
		if key != "strings.Split" && key != "strings.SplitSeq" && key != "strings.SplitN" {
			continue
		}
		if sep, ok := constString(call.Call.Args[1]); !ok || sep != "/" {
			continue
		}
		n++
		okOne, how := false, "the whole pointer"
		for _, src := range append(traceSources(call.Call.Args[0]), call.Call.Args[0]) {
			switch x := src.(type) {
			case *ssa.Slice:
				// ptr[1:]
				lo, isConst := x.Low.(*ssa.Const)
				if isConst && lo.Value != nil && lo.Value.String() == "1" && x.High == nil {
					okOne = true
				} else {
					how = "a slice of the pointer other than [1:]"
				}
			case *ssa.Call:
				switch k := core.CalleeKey(&x.Call); k {
				case "strings.TrimPrefix":
					if s, ok := constString(x.Call.Args[1]); ok && s == "/" {
						okOne = true
					}
				case "strings.TrimLeft", "strings.Trim", "strings.TrimLeftFunc", "strings.TrimFunc", "strings.TrimRight", "strings.TrimSuffix":
					how = k + " (which removes every such character, or the wrong end)"
				}
			case *ssa.Extract:
				if cc, ok := x.Tuple.(*ssa.Call); ok && core.CalleeKey(&cc.Call) == "strings.CutPrefix" && x.Index == 0 {
					if s, ok := constString(cc.Call.Args[1]); ok && s == "/" {
						okOne = true
					}
				}
			}
		}
		c.R.Check(okOne, rule, fmt.Sprintf("%s:split#%d", core.FuncName(parse), n), c.pos(call), "exactly the first character of the pointer is removed before it is split at \"/\"",
			"the pointer is split at \"/\" after removing "+how+" instead of exactly its first character: an empty first token is lost, so \"#//$defs/A\" (member \"\" of the root, which is no subschema) resolves to \"/$defs/A\"")
	}
	c.R.Floor(rule, "splits of the pointer at \"/\"", n, 1)
	// only the empty pointer denotes the whole document: a success exit that does not come after the split is taken
	// under the test `ptr == ""` and nothing else ("/" has one, empty, token)
	core.EachInstr(parse, func(i ssa.Instruction) {
		ret, ok := i.(*ssa.Return)
		if !ok || len(ret.Results) != 2 {
			return
		}
		if k, isConst := ret.Results[1].(*ssa.Const); !isConst || !k.IsNil() {
			return
		}
		afterSplit := false
		core.EachInstr(parse, func(j ssa.Instruction) {
			if call, ok := j.(*ssa.Call); ok && strings.HasPrefix(core.CalleeKey(&call.Call), "strings.Split") && call.Block().Dominates(ret.Block()) {
				afterSplit = true
			}
		})
		if afterSplit {
			return
		}
		onlyEmpty := false
		for _, g := range guardsLocal(ret) {
			if x, k, equal, ok := eqConst(g); ok && equal && x == ssa.Value(parse.Params[0]) {
				if sv, isStr := constString(k); isStr && sv == "" {
					onlyEmpty = true
				}
			}
		}
		c.R.Check(onlyEmpty, rule, core.FuncName(parse)+":whole-document-exit", c.pos(ret), "the parser answers \"no tokens\" only for the empty pointer", "the parser answers \"no tokens\" (the whole document) on a path that is not guarded by `pointer == \"\"` alone: the pointer \"/\" has one empty token and names the member \"\" of the root, which is no subschema, but a reference \"#/\" then resolves to the root instead of failing")
	})
}

func init() {
	p := Properties["C17"]
	p.Rules = append(p.Rules, Rule{"C17/index-rules-for-arrays-only", ruleC17IndexRulesForArrays})
}

// The rules for array indexes (no leading zero, "-" unsupported, a decimal number) apply to a token only where the
// value walked is a list of schemas. A key of $defs or properties such as "007" or "01" is an ordinary key.
func ruleC17IndexRulesForArrays(c *Ctx) {
	const rule = "C17/index-rules-for-arrays-only"
	n := 0
	kindSubject := func(fn *ssa.Function) ssa.Value {
		var subject ssa.Value
		core.EachInstr(fn, func(i ssa.Instruction) {
			if call, ok := i.(*ssa.Call); ok && core.CalleeKey(&call.Call) == "reflect.Value.Kind" {
				subject = call.Call.Args[0]
			}
		})
		return subject
	}
	for _, fn := range c.Closure(rule, "RES").Sorted() {
		core.EachInstr(fn, func(i ssa.Instruction) {
			atoi, ok := i.(*ssa.Call)
			if !ok || core.CalleeKey(&atoi.Call) != "strconv.Atoi" {
				return
			}
			// the walker: this function, or the one that calls the helper the parse sits in
			var at ssa.Instruction = atoi
			walker := fn
			for hops := 0; hops < 4 && kindSubject(walker) == nil; hops++ {
				site := soleCaller(walker)
				if site == nil {
					break
				}
				at, walker = site, site.Parent()
			}
			subject := kindSubject(walker)
			if subject == nil {
				return
			}
			n++
			ks, _ := c.kindsAt(walker, subject, at)
			c.R.Check(ks != 0 && ks.SubsetOf(Kinds(kArray, kSlice)), rule, fmt.Sprintf("%s:index-rule#%d", core.FuncName(fn), n), c.pos(at), "the token is read as an array index only where the value walked is an array or slice",
				fmt.Sprintf("a token of the pointer is examined as an array index (its characters, or its value as a number) where the value walked can have kind %s: a key of a map of schemas that looks like a number with a leading zero (\"007\", \"01\") is refused although it names a subschema", ks))
			// the other index rules (leading zero ...) read characters of the same token in the walker itself
			if walker == fn {
				seg := atoi.Call.Args[0]
				core.EachInstr(fn, func(j ssa.Instruction) {
					ix, ok := j.(*ssa.Index)
					if !ok || !(ix.X == seg || sharesSource(ix.X, seg)) {
						return
					}
					n++
					ks, _ := c.kindsAt(fn, subject, j)
					c.R.Check(ks != 0 && ks.SubsetOf(Kinds(kArray, kSlice)), rule, fmt.Sprintf("%s:index-rule#%d", core.FuncName(fn), n), c.pos(j), "the token is read as an array index only where the value walked is an array or slice",
						fmt.Sprintf("a character of a pointer token is examined under the rules for array indexes where the value walked can have kind %s: a key of a map of schemas such as \"007\" or \"01\" is refused although it names a subschema", ks))
				})
			}
		})
	}
	c.R.Floor(rule, "readings of a pointer token as an array index", n, 1)
}

// initFamily: an init function, its closures, and the package helpers it calls that nothing else calls (the table
// building split into buildFieldInfos / sortFieldInfos).
func (c *Ctx) initFamily(initFn *ssa.Function) []*ssa.Function {
	out := core.WithAnon(initFn)
	seen := map[*ssa.Function]bool{initFn: true}
	for k := 0; k < len(out) && len(out) < 12; k++ {
		core.EachInstr(out[k], func(i ssa.Instruction) {
			call, ok := i.(ssa.CallInstruction)
			if !ok {
				return
			}
			h := call.Common().StaticCallee()
			if h == nil || seen[h] || !c.P.InPkg(h) || h.Parent() != nil || len(h.Blocks) == 0 || !c.P.OnlyStaticCallers(h) {
				return
			}
			for _, site := range c.P.CallIndex().Sites[h] {
				top := site.Parent()
				for top.Parent() != nil {
					top = top.Parent()
				}
				if !seen[top] {
					return
				}
			}
			seen[h] = true
			out = append(out, core.WithAnon(h)...)
		})
	}
	return out
}
