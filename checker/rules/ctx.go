// Package rules holds the property-specific static rules.
package rules

import (
	"fmt"
	"go/types"
	"sort"
	"strings"

	"golang.org/x/tools/go/callgraph"
	"golang.org/x/tools/go/ssa"

	"verif/checker/core"
)

// Ctx is what a rule sees: one build configuration, one call graph.
type Ctx struct {
	P     *core.Prog
	R     *core.Report
	G     *callgraph.Graph
	Graph string // "vta" or "cha"
	Tier  string

	closures map[string]*core.Closure
	tracers  map[string]*core.Tracer
	roles    map[string]*ssa.Function

	transparentCache map[*ssa.Function]bool
	structFam        map[*ssa.Function]bool
	rolesResolved    bool
	aliases          map[string]string
}

func NewCtx(p *core.Prog, r *core.Report, graph, tier string) *Ctx {
	c := &Ctx{P: p, R: r, Graph: graph, Tier: tier, closures: map[string]*core.Closure{}, tracers: map[string]*core.Tracer{}, roles: map[string]*ssa.Function{}, transparentCache: map[*ssa.Function]bool{}}
	c.G = p.VTA
	if graph == "cha" {
		c.G = p.CHA
	}
	curCtx = c
	return c
}

// Rule is one static rule of a property.
type Rule struct {
	ID  string
	Run func(c *Ctx)
}

// Property describes the rules and evidence text of one property.
type Property struct {
	ID          string
	Rules       []Rule
	Explanation string
	NotDecided  []string
}

var Properties = map[string]*Property{}

func register(p *Property) { Properties[p.ID] = p }

var TrustedBase = []string{
	"go/types and go/ssa (golang.org/x/tools v0.29.0) represent /repo's working tree faithfully",
	"the VTA call graph (seeded by CHA) over-approximates calls between package functions; the thorough tier repeats closure rules on the CHA graph",
	"methods the standard library calls by reflection (String, Error, MarshalJSON, UnmarshalJSON) are added to a closure when a value whose static type can contain their receiver type is passed to fmt or encoding/json",
	"standard-library functions outside the mutator table (core/effects.go) do not write through their arguments; pointer-receiver methods of standard-library types are treated as writing their receiver unless listed pure or documented safe for concurrent use",
	"reflect's documented panic preconditions are complete; a reflect.Value variable is not reassigned between a kind guard and its use unless the checker sees the assignment",
	"no use of package unsafe or of assembly in the analysed package (checked: imports)",
}

// ---- entry points and closures ----

func (c *Ctx) fn(name string) *ssa.Function {
	if f, ok := c.roles[name]; ok {
		return f
	}
	f := c.P.FuncNamed(name)
	c.roles[name] = f
	return f
}

// entry resolves an exported entry point; a missing one is an unresolved anchor.
func (c *Ctx) entry(rule, name string) *ssa.Function {
	f := c.fn(name)
	if f == nil {
		c.R.Unresolved(rule, name)
	}
	return f
}

var closureEntries = map[string][]string{
	"EV":  {"(*Resolved).Validate"},
	"RES": {"(*Schema).Resolve"},
	"DEF": {"(*Resolved).ApplyDefaults"},
	"MAR": {"Schema.MarshalJSON", "orderedProperties.MarshalJSON"},
	"UNM": {"(*Schema).UnmarshalJSON", "(*integer).UnmarshalJSON"},
	"INF": {"For", "ForType"},
	"CLN": {"(*Schema).CloneSchemas"},
	"EQ":  {"Equal"},
}

// Closure returns the package-local closure of a named entry set.
func (c *Ctx) Closure(rule, name string) *core.Closure {
	if cl, ok := c.closures[name]; ok {
		return cl
	}
	var entries []*ssa.Function
	for _, n := range closureEntries[name] {
		f := c.fn(n)
		if f == nil {
			// generic entry points exist only as instantiations
			inst := c.P.Instantiations(n)
			if len(inst) == 0 {
				if n == "For" {
					// For is generic: with no instantiation in the package its body is analysed through ForType's sibling rule
					if o := c.P.SSAPkg.Func("For"); o != nil {
						entries = append(entries, o)
						continue
					}
				}
				c.R.Unresolved(rule, n)
				continue
			}
			entries = append(entries, inst...)
			continue
		}
		entries = append(entries, f)
	}
	cl := c.P.Closure(name, c.G, entries...)
	c.closures[name] = cl
	return cl
}

func (c *Ctx) Tracer(rule, name string) *core.Tracer {
	if t, ok := c.tracers[name]; ok {
		return t
	}
	t := core.NewTracer(c.P, c.Closure(rule, name), c.G)
	c.tracers[name] = t
	return t
}

func (c *Ctx) pos(i ssa.Instruction) string { return c.P.Pos(core.InstrPos(i)) }

// ---- roles (anchors resolved by type and reachability, DESIGN 2.3) ----

func isNamed(t types.Type, pkgPath, name string) bool {
	if p, ok := t.(*types.Pointer); ok {
		t = p.Elem()
	}
	n, ok := types.Unalias(t).(*types.Named)
	if !ok || n.Obj().Pkg() == nil {
		return false
	}
	return n.Obj().Name() == name && (pkgPath == "" || n.Obj().Pkg().Path() == pkgPath)
}

func (c *Ctx) isPkgNamed(t types.Type, name string) bool {
	if p, ok := t.(*types.Pointer); ok {
		t = p.Elem()
	}
	n, ok := types.Unalias(t).(*types.Named)
	return ok && n.Obj().Pkg() == c.P.Types && core.CanonType(n.Obj().Name()) == name
}

func isPtrTo(t types.Type) (types.Type, bool) {
	p, ok := t.Underlying().(*types.Pointer)
	if !ok {
		return nil, false
	}
	return p.Elem(), true
}

// Evaluator: the unique self-recursive function reachable from Validate with
// parameters of types reflect.Value, *Schema and *annotations.
func (c *Ctx) Evaluator(rule string) *ssa.Function {
	if f, ok := c.roles["role:evaluator"]; ok {
		return f
	}
	var found []*ssa.Function
	for _, fn := range c.Closure(rule, "EV").Sorted() {
		if fn.Parent() != nil {
			continue
		}
		var hasV, hasS, hasA bool
		for _, p := range fn.Params {
			switch {
			case isNamed(p.Type(), "reflect", "Value"):
				hasV = true
			case c.isPkgNamed(p.Type(), "Schema"):
				hasS = true
			case c.isPkgNamed(p.Type(), "annotations"):
				hasA = true
			}
		}
		if hasV && hasS && hasA && c.callsSelf(fn) {
			found = append(found, fn)
		}
	}
	var f *ssa.Function
	if len(found) == 1 {
		f = found[0]
	} else {
		c.R.Unresolved(rule, fmt.Sprintf("evaluator (found %d candidates)", len(found)))
	}
	c.roles["role:evaluator"] = f
	return f
}

func (c *Ctx) callsSelf(fn *ssa.Function) bool {
	self := false
	for _, f := range core.WithAnon(fn) {
		core.EachInstr(f, func(i ssa.Instruction) {
			if call, ok := i.(ssa.CallInstruction); ok && call.Common().StaticCallee() == fn {
				self = true
			}
		})
	}
	return self
}

// bySignature finds the unique package-level function in a closure whose
// signature matches pred.
func (c *Ctx) bySignature(rule, role, closure string, pred func(*types.Signature) bool) *ssa.Function {
	key := "role:" + role
	if f, ok := c.roles[key]; ok {
		return f
	}
	var found []*ssa.Function
	for _, fn := range c.Closure(rule, closure).Sorted() {
		if fn.Parent() == nil && fn.Synthetic == "" && pred(fn.Signature) {
			found = append(found, fn)
		}
	}
	if len(found) > 1 {
		// several functions of that shape: the role is played by the one called from outside the group;
		// the others are its helpers (called only by members of the group)
		cand := map[*ssa.Function]bool{}
		for _, x := range found {
			cand[x] = true
		}
		var entry []*ssa.Function
		for _, x := range found {
			outside := !c.P.OnlyStaticCallers(x)
			for _, site := range c.P.CallIndex().Sites[x] {
				caller := site.Parent()
				for caller.Parent() != nil {
					caller = caller.Parent()
				}
				if !cand[caller] {
					outside = true
				}
			}
			if outside {
				entry = append(entry, x)
			}
		}
		if len(entry) == 1 {
			found = entry
		}
	}
	var f *ssa.Function
	if len(found) == 1 {
		f = found[0]
	} else {
		var names []string
		for _, x := range found {
			names = append(names, core.FuncName(x))
		}
		c.R.Unresolved(rule, fmt.Sprintf("%s (candidates: %v)", role, names))
	}
	c.roles[key] = f
	return f
}

func sigIs(s *types.Signature, params []func(types.Type) bool, results []func(types.Type) bool) bool {
	if s.Recv() != nil || s.Params().Len() != len(params) || s.Results().Len() != len(results) {
		return false
	}
	for i, p := range params {
		if !p(s.Params().At(i).Type()) {
			return false
		}
	}
	for i, r := range results {
		if !r(s.Results().At(i).Type()) {
			return false
		}
	}
	return true
}

func tReflectValue(t types.Type) bool {
	_, isPtr := t.(*types.Pointer)
	return !isPtr && isNamed(t, "reflect", "Value")
}
func tBool(t types.Type) bool {
	b, ok := t.Underlying().(*types.Basic)
	return ok && b.Kind() == types.Bool
}
func tString(t types.Type) bool {
	b, ok := t.Underlying().(*types.Basic)
	return ok && b.Kind() == types.String
}
func tPtrNamed(pkg, name string) func(types.Type) bool {
	return func(t types.Type) bool {
		_, isPtr := t.(*types.Pointer)
		return isPtr && isNamed(t, pkg, name)
	}
}

// NumberExtractor: func(reflect.Value) (*big.Rat, bool).
func (c *Ctx) NumberExtractor(rule string) *ssa.Function {
	return c.bySignature(rule, "number-extractor", "EV", func(s *types.Signature) bool {
		return sigIs(s, []func(types.Type) bool{tReflectValue}, []func(types.Type) bool{tPtrNamed("math/big", "Rat"), tBool})
	})
}

// TypeClassifier: func(reflect.Value) (string, bool).
func (c *Ctx) TypeClassifier(rule string) *ssa.Function {
	return c.bySignature(rule, "type-classifier", "EV", func(s *types.Signature) bool {
		return sigIs(s, []func(types.Type) bool{tReflectValue}, []func(types.Type) bool{tString, tBool})
	})
}

// Equality: func(reflect.Value, reflect.Value) bool reachable from Equal.
func (c *Ctx) Equality(rule string) *ssa.Function {
	return c.bySignature(rule, "equality", "EQ", func(s *types.Signature) bool {
		return sigIs(s, []func(types.Type) bool{tReflectValue, tReflectValue}, []func(types.Type) bool{tBool})
	})
}

// Hasher: func(*maphash.Hash, reflect.Value).
func (c *Ctx) Hasher(rule string) *ssa.Function {
	return c.bySignature(rule, "hasher", "EV", func(s *types.Signature) bool {
		return sigIs(s, []func(types.Type) bool{tPtrNamed("hash/maphash", "Hash"), tReflectValue}, nil)
	})
}

// ---- Schema field model (DESIGN 3.1) ----

type FieldInfo struct {
	Var       *types.Var
	Index     int
	Name      string
	JSONName  string // "" when tagged "-" or untagged-unexported
	Dash      bool
	OmitEmpty bool
	Shape     string // schema, slice, map, other-containing-schema, scalar, slice-other, map-other
	Class     string
}

// keyword classification, frozen, keyed by Go field name; one reason each.
var fieldClass = map[string]string{
	// identifiers: name and locate schemas, never assert
	"ID": "identifier", "Schema": "identifier", "Anchor": "identifier", "DynamicAnchor": "identifier", "Vocabulary": "identifier",
	// reference hops: evaluated in place at the same instance location
	"Ref": "applicator-inplace", "DynamicRef": "applicator-inplace",
	// containers of reusable definitions: only reached through references
	"Defs": "container", "Definitions": "container",
	// annotations and documented non-asserting keywords
	"Comment": "non-asserting", "Title": "non-asserting", "Description": "non-asserting", "Default": "non-asserting", "Deprecated": "non-asserting",
	"ReadOnly": "non-asserting", "WriteOnly": "non-asserting", "Examples": "non-asserting", "Format": "non-asserting",
	"ContentEncoding": "non-asserting", "ContentMediaType": "non-asserting", "ContentSchema": "non-asserting",
	// assertions on the instance itself
	"Type": "assert", "Types": "assert", "Enum": "assert", "Const": "assert", "MultipleOf": "assert", "Minimum": "assert", "Maximum": "assert",
	"ExclusiveMinimum": "assert", "ExclusiveMaximum": "assert", "MinLength": "assert", "MaxLength": "assert", "Pattern": "assert",
	"MinItems": "assert", "MaxItems": "assert", "UniqueItems": "assert", "MinContains": "assert", "MaxContains": "assert",
	"MinProperties": "assert", "MaxProperties": "assert", "Required": "assert", "DependentRequired": "assert", "DependencyStrings": "assert",
	// applicators evaluated at the same instance location
	"AllOf": "applicator-inplace", "AnyOf": "applicator-inplace", "OneOf": "applicator-inplace", "Not": "applicator-inplace",
	"If": "applicator-inplace", "Then": "applicator-inplace", "Else": "applicator-inplace",
	"DependentSchemas": "applicator-inplace", "DependencySchemas": "applicator-inplace",
	// applicators evaluated at child instance locations
	"Properties": "applicator-child", "PatternProperties": "applicator-child", "AdditionalProperties": "applicator-child",
	"PropertyNames": "applicator-child", "PrefixItems": "applicator-child", "Items": "applicator-child", "ItemsArray": "applicator-child",
	"AdditionalItems": "applicator-child", "Contains": "applicator-child", "UnevaluatedItems": "applicator-child", "UnevaluatedProperties": "applicator-child",
	// not keywords
	"Extra": "meta", "PropertyOrder": "meta",
}

func (c *Ctx) containsSchemaPtr(t types.Type, seen map[types.Type]bool) bool {
	if seen[t] {
		return false
	}
	seen[t] = true
	switch x := t.(type) {
	case *types.Pointer:
		if c.isPkgNamed(x.Elem(), "Schema") {
			return true
		}
		return c.containsSchemaPtr(x.Elem(), seen)
	case *types.Named:
		if c.isPkgNamed(x, "Schema") {
			return true
		}
		return c.containsSchemaPtr(x.Underlying(), seen)
	case *types.Alias:
		return c.containsSchemaPtr(types.Unalias(x), seen)
	case *types.Slice:
		return c.containsSchemaPtr(x.Elem(), seen)
	case *types.Array:
		return c.containsSchemaPtr(x.Elem(), seen)
	case *types.Map:
		return c.containsSchemaPtr(x.Key(), seen) || c.containsSchemaPtr(x.Elem(), seen)
	case *types.Struct:
		for i := 0; i < x.NumFields(); i++ {
			if c.containsSchemaPtr(x.Field(i).Type(), seen) {
				return true
			}
		}
	}
	return false
}

// SchemaFields computes the field table of Schema from its type.
func (c *Ctx) SchemaFields(rule string) []FieldInfo {
	st := c.P.Struct("Schema")
	if st == nil {
		c.R.Unresolved(rule, "type Schema")
		return nil
	}
	var out []FieldInfo
	for i := 0; i < st.NumFields(); i++ {
		f := st.Field(i)
		fi := FieldInfo{Var: f, Index: i, Name: f.Name(), Class: fieldClass[f.Name()]}
		name, opts, dash := parseJSONTag(st.Tag(i), f)
		fi.JSONName, fi.Dash = name, dash
		fi.OmitEmpty = opts["omitempty"]
		t := f.Type()
		switch {
		case c.isPkgNamed(t, "Schema") && isPointer(t):
			fi.Shape = "schema"
		case isSliceOf(t, func(e types.Type) bool { return isPointer(e) && c.isPkgNamed(e, "Schema") }):
			fi.Shape = "slice"
		case isMapOf(t, tString, func(e types.Type) bool { return isPointer(e) && c.isPkgNamed(e, "Schema") }):
			fi.Shape = "map"
		case c.containsSchemaPtr(t, map[types.Type]bool{}):
			fi.Shape = "other-containing-schema"
		default:
			switch t.Underlying().(type) {
			case *types.Slice:
				fi.Shape = "slice-other"
			case *types.Map:
				fi.Shape = "map-other"
			default:
				fi.Shape = "scalar"
			}
		}
		if fi.Class == "" {
			c.R.Bad(rule, "unclassified-field:"+f.Name(), c.P.Pos(f.Pos()), "field "+f.Name()+" of Schema is not in the checker's keyword classification; classify it (assert / applicator-inplace / applicator-child / identifier / container / non-asserting / meta) before the rules can certify anything about it")
		}
		out = append(out, fi)
	}
	return out
}

func isPointer(t types.Type) bool { _, ok := t.(*types.Pointer); return ok }

func isSliceOf(t types.Type, elem func(types.Type) bool) bool {
	s, ok := t.Underlying().(*types.Slice)
	return ok && elem(s.Elem())
}

func isMapOf(t types.Type, key, elem func(types.Type) bool) bool {
	m, ok := t.Underlying().(*types.Map)
	return ok && key(m.Key()) && elem(m.Elem())
}

// parseJSONTag applies encoding/json's rules to a struct tag.
func parseJSONTag(tag string, f *types.Var) (name string, opts map[string]bool, dash bool) {
	opts = map[string]bool{}
	if !f.Exported() && !f.Embedded() {
		return "", opts, true
	}
	val, ok := lookupTag(tag, "json")
	name = f.Name()
	if !ok {
		return name, opts, false
	}
	parts := strings.Split(val, ",")
	if parts[0] == "-" && len(parts) == 1 {
		return "", opts, true
	}
	if parts[0] != "" {
		name = parts[0]
	}
	for _, o := range parts[1:] {
		opts[o] = true
	}
	return name, opts, false
}

func lookupTag(tag, key string) (string, bool) {
	// reflect.StructTag.Lookup, reimplemented on the tag literal's value
	for tag != "" {
		i := 0
		for i < len(tag) && tag[i] == ' ' {
			i++
		}
		tag = tag[i:]
		if tag == "" {
			break
		}
		i = 0
		for i < len(tag) && tag[i] > ' ' && tag[i] != ':' && tag[i] != '"' && tag[i] != 0x7f {
			i++
		}
		if i == 0 || i+1 >= len(tag) || tag[i] != ':' || tag[i+1] != '"' {
			break
		}
		name := tag[:i]
		tag = tag[i+1:]
		i = 1
		for i < len(tag) && tag[i] != '"' {
			if tag[i] == '\\' {
				i++
			}
			i++
		}
		if i >= len(tag) {
			break
		}
		q := tag[:i+1]
		tag = tag[i+1:]
		if name == key {
			// unquote (tags here contain no escapes beyond \")
			v := q[1 : len(q)-1]
			v = strings.ReplaceAll(v, `\"`, `"`)
			return v, true
		}
	}
	return "", false
}

func sortedKeys[V any](m map[string]V) []string {
	var ks []string
	for k := range m {
		ks = append(ks, k)
	}
	sort.Strings(ks)
	return ks
}
