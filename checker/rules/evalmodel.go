package rules

import (
	"fmt"
	"go/types"
	"sort"

	"golang.org/x/tools/go/ssa"

	"verif/checker/core"
)

// evalModel describes the evaluator (the recursive validate function) and its
// recursive evaluation sites (DESIGN 3.9, C07/R1).
type evalModel struct {
	E           *ssa.Function
	Nest        []*ssa.Function // E and every function nested in it
	instParam   *ssa.Parameter
	schemaParam *ssa.Parameter
	annsParam   *ssa.Parameter
	instCell    *ssa.Alloc // cell of the instance variable when captured by closures
	frameAnns   *ssa.Alloc // the per-activation annotations variable
	Sites       []*evalSite
	problems    []string
}

type evalSite struct {
	Call      ssa.CallInstruction
	Fn        *ssa.Function
	Via       ssa.CallInstruction // call of the enclosing closure through which the arguments arrive, if any
	Inst      ssa.Value
	Schema    ssa.Value
	Anns      ssa.Value
	Loc       string            // same | child | ?
	SchemaSrc []string          // e.g. Schema.AllOf, resolvedInfo.resolvedRef
	AnnsKind  string            // frame | nil | caller | ?
	Levels    []ssa.Instruction // the call itself, then the call sites (of helpers or of the closure) that lead to it, innermost first
}

func (s *evalSite) key() string {
	src := "?"
	if len(s.SchemaSrc) > 0 {
		src = fmt.Sprint(s.SchemaSrc)
	}
	return core.FuncName(s.Fn) + ":" + src + ":" + s.Loc
}

var evalCache = map[*core.Prog]*evalModel{}

func (c *Ctx) EvalModel(rule string) *evalModel {
	if m, ok := evalCache[c.P]; ok {
		return m
	}
	E := c.Evaluator(rule)
	if E == nil {
		return nil
	}
	c.preResolveRoles()
	// the methods of the annotation record are role anchors (the rules reason about calls to them), not helpers to see through
	if an := c.P.Named("annotations"); an != nil {
		for _, fn := range c.P.Funcs {
			if fn.Parent() == nil && fn.Signature.Recv() != nil && c.isPkgNamed(fn.Signature.Recv().Type(), "annotations") {
				c.roles["role:annotations-method:"+fn.Name()] = fn
			}
		}
	}
	m := &evalModel{E: E, Nest: core.WithAnon(E)}
	defer func() { m.Nest = c.familyFuncs(E) }()
	for _, p := range E.Params {
		switch {
		case isNamed(p.Type(), "reflect", "Value"):
			m.instParam = p
		case c.isPkgNamed(p.Type(), "Schema"):
			m.schemaParam = p
		case c.isPkgNamed(p.Type(), "annotations"):
			m.annsParam = p
		}
	}
	// cells
	core.EachInstr(E, func(i ssa.Instruction) {
		switch x := i.(type) {
		case *ssa.Store:
			if a, ok := x.Addr.(*ssa.Alloc); ok && x.Val == m.instParam {
				m.instCell = a
			}
		case *ssa.Alloc:
			if et, ok := isPtrTo(x.Type()); ok && c.isPkgNamed(et, "annotations") && !isPointer(et) {
				if m.frameAnns != nil {
					m.problems = append(m.problems, "more than one annotations variable in the evaluator frame")
				}
				m.frameAnns = x
			}
		}
	})
	if m.frameAnns == nil {
		m.problems = append(m.problems, "no per-activation annotations variable (an Alloc of type annotations) in the evaluator")
	}
	// sites: calls of the evaluator in its own body, in its closures and in the transparent helpers it calls
	// (a helper's parameters are replaced by the arguments of the call path that leads there)
	for _, fi := range c.familyInstrs(E) {
		i := fi.I
		call, ok := i.(ssa.CallInstruction)
		if !ok || call.Common().StaticCallee() != E {
			continue
		}
		args := call.Common().Args
		if len(args) != len(E.Params) {
			m.problems = append(m.problems, "evaluation site with unexpected argument count at "+c.pos(i))
			continue
		}
		var inst, sch, anns ssa.Value
		for pi, p := range E.Params {
			switch p {
			case m.instParam:
				inst = upValue(args[pi], fi.Path)
			case m.schemaParam:
				sch = upValue(args[pi], fi.Path)
			case m.annsParam:
				anns = upValue(args[pi], fi.Path)
			}
		}
		levels := []ssa.Instruction{call}
		for k := len(fi.Path) - 1; k >= 0; k-- {
			levels = append(levels, fi.Path[k])
		}
		fn := fi.Top().Parent()
		var via ssa.CallInstruction
		if len(fi.Path) > 0 {
			via = fi.Path[0]
		}
		// expand closure parameters through the direct calls of the closure
		expanded := false
		if fn != E {
			callers := m.directCallsOf(c, fn)
			needs := false
			for _, v := range []ssa.Value{inst, sch, anns} {
				if p, ok := v.(*ssa.Parameter); ok && p.Parent() == fn {
					needs = true
				}
			}
			if needs && len(callers) > 0 {
				expanded = true
				for _, cs := range callers {
					sub := func(v ssa.Value) ssa.Value {
						if p, ok := v.(*ssa.Parameter); ok && p.Parent() == fn {
							for pi, pp := range fn.Params {
								if pp == p && pi < len(cs.Common().Args) {
									return cs.Common().Args[pi]
								}
							}
						}
						return v
					}
					m.Sites = append(m.Sites, &evalSite{Call: call, Fn: cs.Parent(), Via: cs, Inst: sub(inst), Schema: sub(sch), Anns: sub(anns), Levels: append(append([]ssa.Instruction{}, levels...), cs)})
				}
			}
		}
		if !expanded {
			m.Sites = append(m.Sites, &evalSite{Call: call, Fn: fn, Via: via, Inst: inst, Schema: sch, Anns: anns, Levels: levels})
		}
	}
	for _, s := range m.Sites {
		s.Loc = m.instLoc(c, s.Inst, map[ssa.Value]bool{})
		s.SchemaSrc = m.schemaSources(c, s.Schema)
		s.AnnsKind = m.annsKind(c, s.Anns)
	}
	sort.SliceStable(m.Sites, func(i, j int) bool {
		return core.InstrPos(m.Sites[i].siteInstr()) < core.InstrPos(m.Sites[j].siteInstr())
	})
	evalCache[c.P] = m
	return m
}

func (s *evalSite) siteInstr() ssa.Instruction {
	if s.Via != nil {
		return s.Via
	}
	return s.Call
}

// directCallsOf: call sites inside the evaluator nest whose callee value is the closure fn.
func (m *evalModel) directCallsOf(c *Ctx, fn *ssa.Function) []ssa.CallInstruction {
	var out []ssa.CallInstruction
	for _, f := range m.Nest {
		core.EachInstr(f, func(i ssa.Instruction) {
			call, ok := i.(ssa.CallInstruction)
			if !ok || call.Common().IsInvoke() {
				return
			}
			for _, src := range traceSources(call.Common().Value) {
				if mc, ok := src.(*ssa.MakeClosure); ok && mc.Fn == fn {
					out = append(out, call)
				}
			}
		})
	}
	return out
}

// resolveCell maps an address value to the Alloc it denotes, following captured variables.
func resolveCell(v ssa.Value) *ssa.Alloc {
	for depth := 0; depth < 6; depth++ {
		switch x := v.(type) {
		case *ssa.Alloc:
			return x
		case *ssa.FreeVar:
			fn := x.Parent()
			idx := -1
			for i, fv := range fn.FreeVars {
				if fv == x {
					idx = i
				}
			}
			par := fn.Parent()
			if par == nil || idx < 0 {
				return nil
			}
			var next ssa.Value
			core.EachInstr(par, func(i ssa.Instruction) {
				if mc, ok := i.(*ssa.MakeClosure); ok && mc.Fn == fn {
					next = mc.Bindings[idx]
				}
			})
			if next == nil {
				return nil
			}
			v = next
		default:
			return nil
		}
	}
	return nil
}

// cellStores returns the values stored to a cell anywhere in the nest of its function.
func cellStores(a *ssa.Alloc) []ssa.Value {
	var out []ssa.Value
	for _, fn := range core.WithAnon(a.Parent()) {
		core.EachInstr(fn, func(i ssa.Instruction) {
			if st, ok := i.(*ssa.Store); ok && resolveCell(st.Addr) == a {
				out = append(out, st.Val)
			}
		})
	}
	return out
}

// instLoc: does v denote the evaluator's own instance location ("same") or a
// value derived from it at a child location ("child")?
func (m *evalModel) instLoc(c *Ctx, v ssa.Value, seen map[ssa.Value]bool) string {
	if seen[v] {
		return "same" // cycle through the stripping loop
	}
	seen[v] = true
	switch x := v.(type) {
	case *ssa.Parameter:
		if x == m.instParam {
			return "same"
		}
		// the parameter of a transparent helper denotes what its callers pass
		if x.Parent() != m.E && c.transparent(x.Parent()) {
			if args := c.P.ArgsFor(x); len(args) > 0 {
				res := ""
				for _, a := range args {
					r := m.instLoc(c, a, seen)
					if res == "" {
						res = r
					} else if res != r {
						return "?"
					}
				}
				return res
			}
		}
		return "child"
	case *ssa.UnOp:
		if x.Op.String() == "*" {
			if cell := resolveCell(x.X); cell != nil {
				if cell == m.instCell {
					// every store to the instance cell must itself be the same location
					for _, sv := range cellStores(cell) {
						if m.instLoc(c, sv, seen) != "same" {
							return "child"
						}
					}
					return "same"
				}
				res := ""
				for _, sv := range cellStores(cell) {
					r := m.instLoc(c, sv, seen)
					if res == "" {
						res = r
					} else if res != r {
						return "?"
					}
				}
				if res == "" {
					return "?"
				}
				return res
			}
		}
		return "child"
	case *ssa.Phi:
		res := ""
		for _, e := range x.Edges {
			r := m.instLoc(c, e, seen)
			if res == "" {
				res = r
			} else if res != r {
				return "?"
			}
		}
		return res
	case *ssa.Call:
		key := core.CalleeKey(&x.Call)
		if key == "reflect.Value.Elem" || key == "reflect.Indirect" {
			return m.instLoc(c, x.Call.Args[0], seen)
		}
		return "child"
	}
	return "child"
}

// schemaSources names the fields a schema argument is read from.
func (m *evalModel) schemaSources(c *Ctx, v ssa.Value) []string {
	set := map[string]bool{}
	seen := map[ssa.Value]bool{}
	var walk func(v ssa.Value)
	fieldOf := func(base types.Type, idx int) string {
		if c.ownerName(base) == "" {
			return "struct." + core.CanonFieldOf(base, idx)
		}
		return c.fieldName(base, idx)
	}
	walk = func(v ssa.Value) {
		if v == nil || seen[v] {
			return
		}
		seen[v] = true
		switch x := v.(type) {
		case *ssa.UnOp:
			if x.Op.String() != "*" {
				set["?"+x.Op.String()] = true
				return
			}
			switch a := x.X.(type) {
			case *ssa.FieldAddr:
				set[fieldOf(a.X.Type(), a.Field)] = true
			case *ssa.IndexAddr:
				walk(a.X)
			default:
				if cell := resolveCell(x.X); cell != nil {
					for _, sv := range cellStores(cell) {
						walk(sv)
					}
				} else {
					walk(x.X)
				}
			}
		case *ssa.Field:
			set[fieldOf(x.X.Type(), x.Field)] = true
		case *ssa.Lookup:
			walk(x.X)
		case *ssa.Index:
			walk(x.X)
		case *ssa.Extract:
			switch t := x.Tuple.(type) {
			case *ssa.Next:
				if r, ok := t.Iter.(*ssa.Range); ok {
					walk(r.X)
				}
			case *ssa.Lookup:
				walk(t.X)
			case *ssa.Call:
				// the result of a transparent helper: what the helper returns
				if h := t.Call.StaticCallee(); h != nil && c.transparent(h) {
					core.EachInstr(h, func(i ssa.Instruction) {
						if ret, ok := i.(*ssa.Return); ok && x.Index < len(ret.Results) {
							walk(ret.Results[x.Index])
						}
					})
				} else {
					set["?extract"] = true
				}
			default:
				set["?extract"] = true
			}
		case *ssa.Call:
			if h := x.Call.StaticCallee(); h != nil && c.transparent(h) && h.Signature.Results().Len() == 1 {
				core.EachInstr(h, func(i ssa.Instruction) {
					if ret, ok := i.(*ssa.Return); ok && len(ret.Results) == 1 {
						walk(ret.Results[0])
					}
				})
			} else {
				set[fmt.Sprintf("?%T", v)] = true
			}
		case *ssa.Phi:
			for _, e := range x.Edges {
				walk(e)
			}
		case *ssa.Parameter:
			if x == m.schemaParam {
				set["param:schema"] = true
			} else if srcs := c.paramSources(x); len(srcs) > 0 && x.Parent() != m.E {
				for _, a := range srcs {
					walk(a)
				}
			} else {
				set["param:"+x.Name()] = true
			}
		case *ssa.Const:
			// nil: contributes nothing
		case *ssa.ChangeType:
			walk(x.X)
		case *ssa.Slice:
			walk(x.X)
		default:
			set[fmt.Sprintf("?%T", v)] = true
		}
	}
	walk(v)
	return sortedKeys(set)
}

func (m *evalModel) annsKind(c *Ctx, v ssa.Value) string {
	switch x := v.(type) {
	case *ssa.Const:
		if x.IsNil() {
			return "nil"
		}
	case *ssa.Parameter:
		if x == m.annsParam {
			return "caller"
		}
	case *ssa.UnOp:
		if x.Op.String() == "*" {
			if cell := resolveCell(x.X); cell != nil {
				kinds := map[string]bool{}
				for _, sv := range cellStores(cell) {
					kinds[m.annsKind(c, sv)] = true
				}
				if len(kinds) == 1 {
					for k := range kinds {
						return k
					}
				}
			}
		}
	case *ssa.Phi:
		kinds := map[string]bool{}
		for _, e := range x.Edges {
			kinds[m.annsKind(c, e)] = true
		}
		if len(kinds) == 1 {
			for k := range kinds {
				return k
			}
		}
		return "?"
	}
	if cell := resolveCell(v); cell != nil && cell == m.frameAnns {
		return "frame"
	}
	return "?"
}

// preResolveRoles resolves the role anchors that families must not swallow (equality, hasher, extractor,
// classifier, reference and document resolver, pointer walker) before any family is enumerated; failures
// are reported by the rules that need the role, not here.
func (c *Ctx) preResolveRoles() {
	if c.rolesResolved {
		return
	}
	c.rolesResolved = true
	saved := c.R
	c.R = core.NewReport(saved.Property, saved.Tier)
	defer func() { c.R = saved }()
	const rule = "roles"
	c.Equality(rule)
	c.NumberExtractor(rule)
	c.TypeClassifier(rule)
	if h := c.Hasher(rule); h != nil {
		c.hashWriter(h)
	}
	c.resolverModel(rule)
	c.pointerWalker(rule)
	c.pointerFieldLookup(rule)
}
