package rules

import (
	"os"
	"path/filepath"
	"sort"
	"strings"

	"verif/checker/core"
)

// CheckFilesCovered asserts that every non-test .go file of the package
// directory was parsed in at least one analysed build configuration, so a
// build-tagged file cannot hide a writer or a handler.
func CheckFilesCovered(r *core.Report, prop, repo string, seen map[string]bool) {
	dir := filepath.Join(repo, "jsonschema")
	ents, err := os.ReadDir(dir)
	if err != nil {
		r.Bad(prop+"/load", "readdir", "", err.Error())
		return
	}
	var missing, all []string
	for _, e := range ents {
		n := e.Name()
		if !strings.HasSuffix(n, ".go") || strings.HasSuffix(n, "_test.go") {
			continue
		}
		all = append(all, n)
		if !seen[n] {
			missing = append(missing, n)
		}
	}
	sort.Strings(all)
	r.Info["files_analysed"] = all
	if len(missing) > 0 {
		r.Bad(prop+"/load", "files-not-analysed", "", "source files excluded by build constraints in every analysed configuration: "+strings.Join(missing, ", "))
	}
}

// SelfTest is replaced in selftest.go.
