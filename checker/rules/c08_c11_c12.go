package rules

import (
	"fmt"
	"go/token"
	"go/types"
	"strings"

	"golang.org/x/tools/go/ssa"

	"verif/checker/core"
)

func init() {
	register(&Property{
		ID: "C08",
		Rules: []Rule{
			{"C08/numeric-siblings", ruleC08NumericSiblings},
			{"C08/exact-extraction", func(c *Ctx) { ruleExactExtraction(c, "C08/exact-extraction") }},
			{"C08/strip-both", ruleC08StripBoth},
			{"C08/key-assignable", func(c *Ctx) { ruleKeyAssignable(c, "C08/key-assignable") }},
			{"C08/kind-groups", ruleC08KindGroups},
			{"C11/normalise-before-dispatch", func(c *Ctx) { ruleC11Normalise(c, "C08/equality-normalises") }},
		},
		Explanation: "Decides representation independence structurally: the type classifier and the number extractor recognise the same numeric sources (CanInt, CanUint, CanFloat, json.Number); each source is extracted with its own accessor and exact setter with no numeric conversion and no float parsing of decimal text; the evaluator strips pointers and interfaces in one loop so that afterwards the instance kind is neither; every reflect map access with a key built from a Go string, or taken from another map, converts the key to the map's key type; the string, array and object keyword groups run only under the kinds String, {Array,Slice} and Map; equality strips wrappers on both sides before comparing kinds. It does NOT compare verdicts of concrete values across representations.",
		NotDecided:  []string{"verdict equality for a concrete value in a concrete representation", "float32 rounding", "struct instances (outside the property's domain)"},
	})
	register(&Property{
		ID: "C11",
		Rules: []Rule{
			{"C11/numbers-first-exact", ruleC11NumbersFirst},
			{"C11/normalise-before-dispatch", func(c *Ctx) { ruleC11Normalise(c, "C11/normalise-before-dispatch") }},
			{"C11/case-coverage", ruleC11CaseCoverage},
			{"C11/exact-extraction", func(c *Ctx) { ruleExactExtraction(c, "C11/exact-extraction") }},
			{"C11/key-assignable", func(c *Ctx) { ruleKeyAssignable(c, "C11/key-assignable") }},
		},
		Explanation: "Decides the structure of Equal: both operands are stripped of pointers and interfaces before any comparison (kind sets at the kind-mismatch exit exclude Pointer and Interface), numbers are decided first by exact rational comparison through the shared extractor with no float or integer extraction anywhere in the closure of Equal, a number never equals a non-number, an Array/Slice kind mismatch is compared element-wise, every composite arm compares lengths before elements, identity shortcuts come after the length test, a missing key is tested with IsValid before recursing, and the kind dispatch panics only on kinds outside the JSON-shaped domain. It does NOT prove reflexivity, symmetry or transitivity as algebraic laws.",
		NotDecided:  []string{"reflexivity/symmetry/transitivity as laws over values", "correctness of each arm beyond the listed structural clauses"},
	})
	register(&Property{
		ID: "C12",
		Rules: []Rule{
			{"C12/decided-by-equal", ruleC12DecidedByEqual},
			{"C12/hash-respects-equal", ruleC12Hash},
			{"C12/one-seed-per-call", ruleC12Seed},
			{"C12/equality-clauses", func(c *Ctx) {
				ruleC11NumbersFirst2(c, "C12/equality-clauses")
				ruleC11Normalise(c, "C12/equality-clauses")
				ruleC11CaseCoverage2(c, "C12/equality-clauses")
				ruleExactExtraction(c, "C12/equality-clauses")
			}},
		},
		Explanation: "Decides that enum, const and uniqueItems are decided by the equality function: the enum/const failure exits depend only on its results on (keyword value, instance); the uniqueItems failure is guarded by equality of two items, every item is recorded in its hash bucket on every non-failing path and is compared with every member of its bucket; the hasher is consistent with equality (numbers only through the shared extractor, wrappers invisible, Array and Slice in one arm with an unconditional length prefix, no write depending on Type or Kind, map entries hashed after a sort of the keys); the per-call seed is drawn once outside the item loop and flows only into SetSeed. The equality clauses of C11 are re-checked here because enum/const/uniqueItems inherit them. It does NOT decide collision behaviour of maphash.",
		NotDecided:  []string{"collision behaviour of hash/maphash", "that unequal values are told apart by the hash (only a quality property)"},
	})
}

// ---- shared helpers ----

// subjectSet: values of fn that denote parameter p, possibly after stripping wrappers with Elem.
func subjectSet(fn *ssa.Function, p *ssa.Parameter) map[ssa.Value]bool {
	set := map[ssa.Value]bool{p: true}
	// a parameter captured by a closure (a range-over-func body, say) lives in a cell: the loads of that cell,
	// in the function and in its closures, denote the same value as long as every store into the cell is the
	// parameter itself or the stripping of a wrapper from it
	var cell *ssa.Alloc
	core.EachInstr(fn, func(i ssa.Instruction) {
		if st, ok := i.(*ssa.Store); ok && st.Val == p {
			if a, ok := st.Addr.(*ssa.Alloc); ok {
				cell = a
			}
		}
	})
	if cell != nil {
		okCell := true
		var loads []ssa.Value
		for _, f := range core.WithAnon(fn) {
			core.EachInstr(f, func(i ssa.Instruction) {
				switch x := i.(type) {
				case *ssa.UnOp:
					if x.Op == token.MUL && resolveCell(x.X) == cell {
						loads = append(loads, x)
					}
				case *ssa.Store:
					if resolveCell(x.Addr) == cell && x.Val != p {
						// v = v.Elem(): stripping
						c, isCall := x.Val.(*ssa.Call)
						if !isCall || !(core.CalleeKey(&c.Call) == "reflect.Value.Elem" || core.CalleeKey(&c.Call) == "reflect.Indirect") {
							okCell = false
							return
						}
						if ld, isLd := c.Call.Args[0].(*ssa.UnOp); !isLd || resolveCell(ld.X) != cell {
							okCell = false
						}
					}
				}
			})
		}
		if okCell {
			for _, l := range loads {
				set[l] = true
			}
		}
	}
	changed := true
	for changed {
		changed = false
		core.EachInstr(fn, func(i ssa.Instruction) {
			switch x := i.(type) {
			case *ssa.Phi:
				if set[x] {
					return
				}
				all := true
				for _, e := range x.Edges {
					if !set[e] {
						if c, ok := e.(*ssa.Call); ok && (core.CalleeKey(&c.Call) == "reflect.Value.Elem" || core.CalleeKey(&c.Call) == "reflect.Indirect") && (set[c.Call.Args[0]] || c.Call.Args[0] == x) {
							continue
						}
						all = false
					}
				}
				if all {
					set[x] = true
					changed = true
				}
			}
		})
	}
	return set
}

// guardedNotNumber: instruction at runs only where the instance is known not to be a json.Number: under a test of
// its type against the json.Number type, under a failed number extraction, or under the classifier's answer "string".
func (c *Ctx) guardedNotNumber(at ssa.Instruction, isInst func(ssa.Value) bool) bool {
	jng := c.jsonNumberTypeGlobals()
	ext := c.NumberExtractor("C08/kind-groups")
	cls := c.TypeClassifier("C08/kind-groups")
	for _, g := range guardsOf(at) {
		for _, v := range append(backSlice(g.Cond, 6), g.Cond) {
			switch x := v.(type) {
			case *ssa.BinOp:
				if x.Op != token.EQL && x.Op != token.NEQ {
					continue
				}
				for _, pair := range [][2]ssa.Value{{x.X, x.Y}, {x.Y, x.X}} {
					// instance.Type() != jsonNumberType
					if g2 := loadedFromGlobal(pair[1]); g2 != nil && jng[g2] {
						if tc, ok := pair[0].(*ssa.Call); ok && core.CalleeKey(&tc.Call) == "reflect.Value.Type" && isInst(tc.Call.Args[0]) && v == g.Cond && g.Pol == (x.Op == token.NEQ) {
							return true
						}
					}
					// jsonType(instance) == "string"
					if k, ok := constString(pair[1]); ok && k == "string" && cls != nil && v == g.Cond && g.Pol == (x.Op == token.EQL) {
						for _, src := range append(traceSources(pair[0]), pair[0]) {
							if ex, ok := src.(*ssa.Extract); ok {
								if cc, ok := ex.Tuple.(*ssa.Call); ok && cc.Call.StaticCallee() == cls && isInst(cc.Call.Args[0]) {
									return true
								}
							}
						}
					}
				}
			case *ssa.Call:
				// !isJSONNumber(instance)
				if len(x.Call.Args) == 1 && isInst(x.Call.Args[0]) && v == g.Cond && !g.Pol && c.isJSONNumberPredicate(x.Call.StaticCallee()) {
					return true
				}
			case *ssa.Extract:
				// _, isNum := jsonNumber(instance); !isNum
				if cc, ok := x.Tuple.(*ssa.Call); ok && ext != nil && cc.Call.StaticCallee() == ext && x.Index == 1 && isInst(cc.Call.Args[0]) && v == g.Cond && !g.Pol && len(guardsOf(cc)) == 0 {
					return true
				}
			}
		}
	}
	return false
}

// isJSONNumberPredicate: fn is a package predicate on a reflect.Value that answers true only where the value's type
// has been found to be json.Number (func isJSONNumber(v) bool { return v.IsValid() && v.Type() == jsonNumberType }).
func (c *Ctx) isJSONNumberPredicate(fn *ssa.Function) bool {
	if fn == nil || !c.P.InPkg(fn) || len(fn.Params) != 1 || !tReflectValue(fn.Params[0].Type()) || fn.Signature.Results().Len() != 1 || !isBoolType(fn.Signature.Results().At(0).Type()) {
		return false
	}
	jng := c.jsonNumberTypeGlobals()
	isTypeTest := func(v ssa.Value) bool {
		bo, ok := v.(*ssa.BinOp)
		if !ok || bo.Op != token.EQL {
			return false
		}
		for _, pair := range [][2]ssa.Value{{bo.X, bo.Y}, {bo.Y, bo.X}} {
			if g := loadedFromGlobal(pair[1]); g != nil && jng[g] {
				if tc, ok := pair[0].(*ssa.Call); ok && core.CalleeKey(&tc.Call) == "reflect.Value.Type" && tc.Call.Args[0] == ssa.Value(fn.Params[0]) {
					return true
				}
			}
		}
		return false
	}
	good, n := true, 0
	var judge func(v ssa.Value, depth int) bool
	judge = func(v ssa.Value, depth int) bool {
		if depth == 0 {
			return false
		}
		switch x := v.(type) {
		case *ssa.Const:
			return x.Value != nil && x.Value.String() == "false"
		case *ssa.Phi:
			for _, e := range x.Edges {
				if !judge(e, depth-1) {
					return false
				}
			}
			return true
		}
		return isTypeTest(v)
	}
	core.EachInstr(fn, func(i ssa.Instruction) {
		if ret, ok := i.(*ssa.Return); ok && len(ret.Results) == 1 {
			n++
			if !judge(ret.Results[0], 4) {
				good = false
			}
		}
	})
	return good && n > 0
}

func (c *Ctx) jsonNumberTypeGlobals() map[*ssa.Global]bool {
	out := map[*ssa.Global]bool{}
	initFn := c.P.SSAPkg.Func("init")
	if initFn == nil {
		return out
	}
	core.EachInstr(initFn, func(i ssa.Instruction) {
		st, ok := i.(*ssa.Store)
		if !ok {
			return
		}
		g, ok := st.Addr.(*ssa.Global)
		if !ok {
			return
		}
		call, ok := st.Val.(*ssa.Call)
		if !ok {
			return
		}
		callee := call.Call.StaticCallee()
		if callee != nil && callee.Origin() != nil && callee.Origin().Name() == "TypeFor" && len(callee.TypeArgs()) == 1 && isNamed(callee.TypeArgs()[0], "encoding/json", "Number") {
			out[g] = true
		}
	})
	return out
}

// recognisers lists how fn recognises numbers in its parameter: CanInt, CanUint, CanFloat, json.Number.
func (c *Ctx) recognisers(fn *ssa.Function, extractor *ssa.Function, depth int) map[string]bool {
	out := map[string]bool{}
	if fn == nil || len(fn.Params) == 0 {
		return out
	}
	subj := subjectSet(fn, fn.Params[0])
	jng := c.jsonNumberTypeGlobals()
	core.EachInstr(fn, func(i ssa.Instruction) {
		switch x := i.(type) {
		case *ssa.Call:
			key := core.CalleeKey(&x.Call)
			if strings.HasPrefix(key, "reflect.Value.Can") && len(x.Call.Args) > 0 && subj[x.Call.Args[0]] {
				out[strings.TrimPrefix(key, "reflect.Value.")] = true
			}
			if len(x.Call.Args) == 1 && subj[x.Call.Args[0]] && c.isJSONNumberPredicate(x.Call.StaticCallee()) {
				out["json.Number"] = true
			}
			// the json.Number arm moved into a helper that is handed the value: ratFromJSONNumber(v, r)
			if h := x.Call.StaticCallee(); h != nil && h != fn && h != extractor && c.P.InPkg(h) && len(h.Blocks) > 0 {
				for ai, a := range x.Call.Args {
					if !subj[a] || ai >= len(h.Params) {
						continue
					}
					hs := subjectSet(h, h.Params[ai])
					core.EachInstr(h, func(j ssa.Instruction) {
						if ta, ok := j.(*ssa.TypeAssert); ok && isNamed(ta.AssertedType, "encoding/json", "Number") {
							if ic, ok := ta.X.(*ssa.Call); ok && core.CalleeKey(&ic.Call) == "reflect.Value.Interface" && hs[ic.Call.Args[0]] {
								out["json.Number"] = true
							}
						}
					})
				}
			}
			if depth > 0 && x.Call.StaticCallee() == extractor && extractor != fn && len(x.Call.Args) > 0 && subj[x.Call.Args[0]] && len(guardsOf(x)) == 0 {
				for k := range c.recognisers(extractor, extractor, depth-1) {
					out[k+"(via extractor)"] = true
					out[k] = true
				}
			}
		case *ssa.TypeAssert:
			if isNamed(x.AssertedType, "encoding/json", "Number") {
				out["json.Number"] = true
			}
		case *ssa.BinOp:
			if x.Op == token.EQL || x.Op == token.NEQ {
				for _, v := range []ssa.Value{x.X, x.Y} {
					if g := loadedFromGlobal(v); g != nil && jng[g] {
						out["json.Number"] = true
					}
				}
			}
		}
	})
	return out
}

func ruleC08NumericSiblings(c *Ctx) {
	const rule = "C08/numeric-siblings"
	cls, ext := c.TypeClassifier(rule), c.NumberExtractor(rule)
	if cls == nil || ext == nil {
		return
	}
	rc, re := c.recognisers(cls, ext, 1), c.recognisers(ext, ext, 0)
	// the same recognition written as a dispatch on the kind: a return of "integer" / "number" that is reached
	// exactly for (a set containing) all signed, unsigned or float kinds
	{
		subj := subjectSet(cls, cls.Params[0])
		kf := KindFlow(cls, func(v ssa.Value) bool { return subj[v] }, nil)
		var numeric KindSet
		core.EachInstr(cls, func(i ssa.Instruction) {
			ret, ok := i.(*ssa.Return)
			if !ok || len(ret.Results) == 0 {
				return
			}
			for _, src := range append(traceSources(returnedValue(ret, 0)), returnedValue(ret, 0)) {
				if s, ok := constString(src); ok && (s == "integer" || s == "number") {
					if ks := kf.At(ret); ks != AllKinds && ks&Kinds(kString, kInvalid) == 0 {
						numeric |= ks
					}
				}
			}
		})
		for k, set := range map[string]KindSet{"CanInt": intKinds, "CanUint": uintKinds, "CanFloat": floatKinds} {
			if numeric&set == set {
				rc[k] = true
			}
		}
	}
	// ... and in the extractor: the kinds for which it can succeed
	{
		subj := c.subjectsDeep(ext, ext.Params[0])
		kf := c.kindFlowWithTypeTests(ext, func(v ssa.Value) bool { return subj[v] }, nil)
		var got KindSet
		core.EachInstr(ext, func(i ssa.Instruction) {
			ret, ok := i.(*ssa.Return)
			if !ok || len(ret.Results) != 2 {
				return
			}
			for _, src := range append(traceSources(ret.Results[1]), ret.Results[1]) {
				if k, ok := src.(*ssa.Const); ok && k.Value != nil && k.Value.String() == "true" {
					if ks := kf.At(ret); ks != AllKinds {
						got |= ks
					}
				}
			}
		})
		for k, set := range map[string]KindSet{"CanInt": intKinds, "CanUint": uintKinds, "CanFloat": floatKinds} {
			if got&set == set {
				re[k] = true
			}
		}
	}
	for _, k := range []string{"CanInt", "CanUint", "CanFloat", "json.Number"} {
		c.R.Check(re[k], rule, "extractor:"+k, c.P.Pos(ext.Pos()), "the number extractor recognises "+k, "the number extractor does not recognise "+k+": such instances are not numbers for minimum/maximum/multipleOf, enum and const")
		c.R.Check(rc[k], rule, "classifier:"+k, c.P.Pos(cls.Pos()), "the type classifier recognises "+k, "the type classifier does not recognise "+k+" although the number extractor does: an instance carried that way gets a different `type` verdict than the canonical decoding of the same JSON number")
	}
	// a json.Number's integrality must be decided by the exact rational, not by a lossy parse
	core.EachInstr(cls, func(i ssa.Instruction) {
		if call, ok := i.(*ssa.Call); ok {
			key := core.CalleeKey(&call.Call)
			if key == "encoding/json.Number.Int64" || key == "encoding/json.Number.Float64" || strings.HasPrefix(key, "strconv.Parse") || key == "strconv.Atoi" {
				c.R.Bad(rule, "classifier:lossy-json-number:"+key, c.pos(call), "the type classifier decides about a json.Number with "+key+": spellings such as 1.0, 1e2 or integers beyond int64 are integers as JSON numbers but fail that conversion, so the verdict differs from the float64 decoding")
			}
		}
	})
}

// ruleExactExtraction: in the number extractor each recogniser is paired with
// its accessor and exact setter; no numeric conversion and no float parsing.
func ruleExactExtraction(c *Ctx, rule string) {
	ext := c.NumberExtractor(rule)
	if ext == nil {
		return
	}
	subj := subjectSet(ext, ext.Params[0])
	want := map[string][2]string{ // setter -> accessor, recogniser
		"math/big.Rat.SetInt64":   {"reflect.Value.Int", "CanInt"},
		"math/big.Rat.SetUint64":  {"reflect.Value.Uint", "CanUint"},
		"math/big.Rat.SetFloat64": {"reflect.Value.Float", "CanFloat"},
		"math/big.Rat.SetString":  {"encoding/json.Number.String", ""},
	}
	seen := map[string]bool{}
	var extInstrs []ssa.Instruction
	for _, fi := range c.familyInstrs(ext) {
		extInstrs = append(extInstrs, fi.I)
	}
	eachExt := func(f func(ssa.Instruction)) {
		for _, i := range extInstrs {
			f(i)
		}
	}
	eachExt(func(i ssa.Instruction) {
		call, ok := i.(*ssa.Call)
		if !ok {
			return
		}
		key := core.CalleeKey(&call.Call)
		if strings.HasPrefix(key, "strconv.Parse") || key == "encoding/json.Number.Float64" || key == "encoding/json.Number.Int64" || key == "math/big.Rat.SetFrac64" || key == "math/big.Float.SetString" {
			c.R.Bad(rule, "extractor:lossy:"+key, c.pos(call), "the number extractor uses "+key+": a decimal such as 0.1 would become the nearest binary float (or an integer beyond 2^63 would fail), so equal JSON numbers in different spellings or representations compare unequal")
			return
		}
		w, isSetter := want[key]
		if !isSetter {
			return
		}
		seen[key] = true
		if key == "math/big.Rat.SetString" {
			// SetString reports failure in its second result (and leaves the receiver in an unspecified state)
			examined := false
			if call.Referrers() != nil {
				for _, r := range *call.Referrers() {
					if ex, ok := r.(*ssa.Extract); ok && ex.Index == 1 && ex.Referrers() != nil {
						for _, r2 := range *ex.Referrers() {
							switch r2.(type) {
							case *ssa.If, *ssa.UnOp, *ssa.BinOp, *ssa.Phi, *ssa.Return:
								examined = true
							}
						}
					}
				}
			}
			// ... on every way to a successful return: no path from the conversion to `return r, true` avoids the
			// outcome "accepted" of a test of that result
			if examined && call.Parent() == ext {
				okEdge := map[[2]*ssa.BasicBlock]bool{}
				for _, r := range *call.Referrers() {
					ex, isEx := r.(*ssa.Extract)
					if !isEx || ex.Index != 1 || ex.Referrers() == nil {
						continue
					}
					var conds []ssa.Value
					conds = append(conds, ex)
					for _, r2 := range *ex.Referrers() {
						if u, ok := r2.(*ssa.UnOp); ok && u.Op == token.NOT {
							conds = append(conds, u)
						}
					}
					for _, b := range ext.Blocks {
						ifi, ok := b.Instrs[len(b.Instrs)-1].(*ssa.If)
						if !ok {
							continue
						}
						if ifi.Cond == ssa.Value(ex) {
							okEdge[[2]*ssa.BasicBlock{b, b.Succs[0]}] = true
						}
						for _, cv := range conds[1:] {
							if ifi.Cond == cv {
								okEdge[[2]*ssa.BasicBlock{b, b.Succs[1]}] = true
							}
						}
					}
				}
				if len(okEdge) > 0 {
					escaped := ""
					seenB := map[*ssa.BasicBlock]bool{}
					var walk func(b *ssa.BasicBlock)
					walk = func(b *ssa.BasicBlock) {
						if seenB[b] || escaped != "" {
							return
						}
						seenB[b] = true
						if ret, ok := b.Instrs[len(b.Instrs)-1].(*ssa.Return); ok && len(ret.Results) == 2 {
							for _, src := range append(traceSources(ret.Results[1]), ret.Results[1]) {
								if k, ok := src.(*ssa.Const); ok && k.Value != nil && k.Value.String() == "true" {
									escaped = c.pos(ret)
								}
							}
						}
						for _, sc := range b.Succs {
							if !okEdge[[2]*ssa.BasicBlock{b, sc}] {
								walk(sc)
							}
						}
					}
					walk(call.Block())
					c.R.Check(escaped == "", rule, "extractor:SetString:failure-gives-up", c.pos(call), "every successful return after the conversion lies behind the outcome \"accepted\"", "the extractor can return success (at "+escaped+") after big.Rat.SetString without having found that the text was accepted: the test of its result is tied to another condition (`!isNumber && !ok`), so for a json.Number the result is not looked at, and a number it refuses (1e9999999) is reported as a number with whatever was parsed so far")
				}
			}
			c.R.Check(examined, rule, "extractor:SetString:failure-examined", c.pos(call), "whether big.Rat accepted the number's text is examined", "the number extractor ignores whether big.Rat.SetString accepted the text: for a number it refuses (an exponent beyond its limit) the rational keeps whatever was parsed so far, and 1e9999999 is silently treated as 1 by minimum/maximum, enum and const")
		}
		arg := call.Call.Args[1]
		ac, isCall := arg.(*ssa.Call)
		okArg := isCall && core.CalleeKey(&ac.Call) == w[0] && (w[1] == "" || subj[ac.Call.Args[0]])
		c.R.Check(okArg, rule, "extractor:"+strings.TrimPrefix(key, "math/big.Rat."), c.pos(call), "fed directly by "+w[0]+" with no conversion",
			fmt.Sprintf("%s is not fed directly by %s (found %s): a numeric conversion in between is not exact for every value (e.g. int64(uint64) wraps at 2^63)", key, w[0], describeValue(arg)))
		if w[1] != "" {
			guarded := false
			for _, g := range guardsOf(call) {
				if gc, ok := g.Cond.(*ssa.Call); ok && g.Pol && core.CalleeKey(&gc.Call) == "reflect.Value."+w[1] && subj[gc.Call.Args[0]] {
					guarded = true
				}
			}
			// the same guard written as a test of the kind (a range of kinds, a switch): the kinds that reach the setter
			if !guarded && call.Parent() == ext {
				set := map[string]KindSet{"CanInt": intKinds, "CanUint": uintKinds, "CanFloat": floatKinds}[w[1]]
				kfx := c.kindFlowWithTypeTests(ext, func(v ssa.Value) bool { return subj[v] }, nil)
				if ks := kfx.At(call); ks != 0 && ks.SubsetOf(set) {
					guarded = true
				}
			}
			c.R.Check(guarded, rule, "extractor:"+strings.TrimPrefix(key, "math/big.Rat.")+":guard", c.pos(call), "executed only under "+w[1], key+" is not guarded by "+w[1]+" on the same value")
		}
	})
	for k := range want {
		c.R.Check(seen[k], rule, "extractor:has:"+strings.TrimPrefix(k, "math/big.Rat."), c.P.Pos(ext.Pos()), "exact setter present", "the number extractor has no "+k+": one numeric representation is not converted exactly")
	}
	// no Convert between numeric types anywhere in the extractor
	core.EachInstr(ext, func(i ssa.Instruction) {
		if cv, ok := i.(*ssa.Convert); ok {
			if isNumeric(cv.X.Type()) && isNumeric(cv.Type()) {
				c.R.Bad(rule, "extractor:numeric-convert", c.pos(cv), fmt.Sprintf("numeric conversion %s -> %s in the number extractor", shortTypeName(cv.X.Type()), shortTypeName(cv.Type())))
			}
		}
	})
}

func isNumeric(t types.Type) bool {
	b, ok := t.Underlying().(*types.Basic)
	return ok && b.Info()&types.IsNumeric != 0
}

func describeValue(v ssa.Value) string {
	switch x := v.(type) {
	case *ssa.Call:
		return "a call of " + core.CalleeKey(&x.Call)
	case *ssa.Convert:
		return fmt.Sprintf("a conversion %s(%s)", shortTypeName(x.Type()), describeValue(x.X))
	}
	return fmt.Sprintf("%T", v)
}

func ruleC08StripBoth(c *Ctx) {
	const rule = "C08/strip-both"
	m := c.EvalModel(rule)
	if m == nil {
		return
	}
	kf := m.instanceKindFlow(c, m.E)
	n := 0
	bad := ""
	// at every place where the evaluator inspects or hands on its own instance after the stripping loop
	check := func(i ssa.Instruction) {
		ks := kf.At(i)
		n++
		if ks&Kinds(kPointer, kInterface) != 0 {
			bad = fmt.Sprintf("%s (possible kinds %s)", c.pos(i), ks&Kinds(kPointer, kInterface))
		}
	}
	for _, s := range m.Sites {
		if f := s.Call.Parent(); f == m.E || (f.Parent() == nil && c.transparent(f)) {
			check(s.Call)
		}
	}
	c.eachFamOwn(m.E, func(i ssa.Instruction) {
		if call, ok := i.(*ssa.Call); ok {
			callee := call.Call.StaticCallee()
			if callee != nil && (callee == c.roles["role:type-classifier"] || callee == c.roles["role:number-extractor"] || callee == c.roles["role:equality"]) {
				check(call)
			}
		}
	})
	c.TypeClassifier(rule)
	c.R.Floor(rule, "uses of the instance after normalisation", n, 15)
	c.R.Check(bad == "", rule, "instance:neither-pointer-nor-interface", c.P.Pos(m.E.Pos()), "at every recursive evaluation and classification the instance kind can be neither Pointer nor Interface (one loop strips both, in any nesting)",
		"the instance can still be a pointer or an interface at "+bad+": wrappers are not stripped in every nesting (e.g. a pointer to an interface), so kind-guarded keyword groups are silently skipped")
}

// mapAccessKeyOK decides whether the key of a reflect map access is assignable to the map's key type.
func (c *Ctx) mapAccessKeyOK(call *ssa.Call, recv, key ssa.Value) (bool, string) {
	for _, s := range traceSourcesPhi(key) {
		// the key of a map iteration written as `for k, v := range m.Seq2()`: a key taken from map m
		if p, isP := s.val.(*ssa.Parameter); isP {
			if mv := reflectSeqOf(p); mv != nil {
				if sameMapValue(mv, recv) || sharesSource(mv, recv) {
					continue
				}
				if s.pred != nil && c.edgeGuardedByTypeEquality(s.pred, p, recv) {
					continue
				}
				if c.instrGuardedByTypeEquality(call, p, recv) {
					continue
				}
				return false, "a key of another map, used without converting it to this map's key type"
			}
		}
		sc, ok := s.val.(*ssa.Call)
		if !ok {
			return false, fmt.Sprintf("%T", s.val)
		}
		k := core.CalleeKey(&sc.Call)
		switch {
		case k == "reflect.Value.Convert":
			// converted to the key type of the map that is accessed
			if m := keyTypeOfMap(sc.Call.Args[1]); m != nil && !(m == recv || sharesSource(m, recv)) {
				return false, "a key converted to the key type of another map"
			}
			continue
		case k == "reflect.ValueOf":
			return false, "reflect.ValueOf of a Go string: its type is string, not the map's key type"
		case k == "reflect.MapIter.Key" || k == "reflect.Value.MapKeys":
			// a key taken from a map: fine if it is the same map, or if the edge is guarded by type equality
			if sameMapValue(sc.Call.Args[0], recv) {
				continue
			}
			if s.pred != nil && c.edgeGuardedByTypeEquality(s.pred, sc, recv) {
				continue
			}
			if c.instrGuardedByTypeEquality(call, sc, recv) {
				continue
			}
			return false, "a key of another map, used without converting it to this map's key type"
		default:
			if callee := sc.Call.StaticCallee(); callee != nil && c.P.InPkg(callee) {
				allConv := true
				core.EachInstr(callee, func(i ssa.Instruction) {
					if ret, ok := i.(*ssa.Return); ok {
						for _, rv := range ret.Results {
							rc, ok := rv.(*ssa.Call)
							if !ok || core.CalleeKey(&rc.Call) != "reflect.Value.Convert" {
								allConv = false
							}
						}
					}
				})
				if allConv {
					continue
				}
			}
			// element of a MapKeys slice
			return false, "the result of " + k
		}
	}
	return true, ""
}

type srcEdge struct {
	val  ssa.Value
	pred *ssa.BasicBlock // predecessor block of the phi edge the value arrives through, if any
}

func traceSourcesPhi(v ssa.Value) []srcEdge {
	var out []srcEdge
	seen := map[ssa.Value]bool{}
	var walk func(v ssa.Value, pred *ssa.BasicBlock)
	walk = func(v ssa.Value, pred *ssa.BasicBlock) {
		if seen[v] {
			return
		}
		seen[v] = true
		if phi, ok := v.(*ssa.Phi); ok {
			for k, e := range phi.Edges {
				walk(e, phi.Block().Preds[k])
			}
			return
		}
		if ld, ok := v.(*ssa.UnOp); ok && ld.Op == token.MUL {
			if ia, ok := ld.X.(*ssa.IndexAddr); ok {
				// element of a slice: trace the slice (MapKeys result)
				walk(ia.X, pred)
				return
			}
			if cell := resolveCell(ld.X); cell != nil {
				for _, sv := range cellStores(cell) {
					walk(sv, pred)
				}
				return
			}
		}
		if ex, ok := v.(*ssa.Extract); ok {
			if nx, ok := ex.Tuple.(*ssa.Next); ok {
				if rg, ok := nx.Iter.(*ssa.Range); ok {
					walk(rg.X, pred)
					return
				}
			}
		}
		out = append(out, srcEdge{v, pred})
	}
	walk(v, nil)
	return out
}

func sameMapValue(a, b ssa.Value) bool {
	if a == b {
		return true
	}
	// MapIter from x.MapRange(): compare x
	if call, ok := a.(*ssa.Call); ok && core.CalleeKey(&call.Call) == "reflect.Value.MapRange" {
		return sameMapValue(call.Call.Args[0], b)
	}
	for _, s := range traceSources(a) {
		if call, ok := s.(*ssa.Call); ok && core.CalleeKey(&call.Call) == "reflect.Value.MapRange" && call.Call.Args[0] == b {
			return true
		}
		if s == b {
			return true
		}
	}
	return false
}

func (c *Ctx) isTypeEqualityTest(cond ssa.Value, key ssa.Value, recv ssa.Value) bool {
	bo, ok := cond.(*ssa.BinOp)
	if !ok || (bo.Op != token.EQL && bo.Op != token.NEQ) {
		return false
	}
	isKeyType := func(v ssa.Value) bool {
		call, ok := v.(*ssa.Call)
		return ok && core.CalleeKey(&call.Call) == "reflect.Value.Type" && (call.Call.Args[0] == key || sharesSource(call.Call.Args[0], key))
	}
	isMapKeyType := func(v ssa.Value) bool {
		// the key type of the map that is accessed (not of the map the key was taken from)
		m := keyTypeOfMap(v)
		return m != nil && (m == recv || sharesSource(m, recv))
	}
	if (isKeyType(bo.X) && isMapKeyType(bo.Y)) || (isKeyType(bo.Y) && isMapKeyType(bo.X)) {
		return true
	}
	// the key types of the two maps compared: every key of a map has that map's key type
	km := mapOfKey(key)
	ma, mb := keyTypeOfMap(bo.X), keyTypeOfMap(bo.Y)
	if km == nil || ma == nil || mb == nil {
		return false
	}
	return (sharesSource(ma, km) && sharesSource(mb, recv)) || (sharesSource(mb, km) && sharesSource(ma, recv))
}

// keyTypeOfMap: v is M.Type().Key() for a reflect.Value M; returns M.
func keyTypeOfMap(v ssa.Value) ssa.Value {
	for _, s := range traceSources(v) {
		call, ok := s.(*ssa.Call)
		if !ok || !strings.HasSuffix(core.CalleeKey(&call.Call), ".Key") {
			continue
		}
		var tv ssa.Value
		if call.Call.IsInvoke() {
			tv = call.Call.Value
		} else if len(call.Call.Args) > 0 {
			tv = call.Call.Args[0]
		}
		for _, ts := range traceSources(tv) {
			if tc, ok := ts.(*ssa.Call); ok && core.CalleeKey(&tc.Call) == "reflect.Value.Type" {
				return tc.Call.Args[0]
			}
		}
	}
	return nil
}

// mapOfKey: the reflect map value a key was taken from (by MapRange/MapKeys or Seq2).
func mapOfKey(key ssa.Value) ssa.Value {
	if p, ok := key.(*ssa.Parameter); ok {
		return reflectSeqOf(p)
	}
	if call, ok := key.(*ssa.Call); ok {
		switch core.CalleeKey(&call.Call) {
		case "reflect.Value.MapKeys":
			return call.Call.Args[0]
		case "reflect.MapIter.Key":
			for _, s := range traceSources(call.Call.Args[0]) {
				if mr, ok := s.(*ssa.Call); ok && core.CalleeKey(&mr.Call) == "reflect.Value.MapRange" {
					return mr.Call.Args[0]
				}
			}
		}
	}
	return nil
}

func (c *Ctx) edgeGuardedByTypeEquality(pred *ssa.BasicBlock, key ssa.Value, recv ssa.Value) bool {
	last := pred.Instrs[len(pred.Instrs)-1]
	if ifi, ok := last.(*ssa.If); ok {
		if cond, _ := normCond(ifi.Cond, true); c.isTypeEqualityTest(cond, key, recv) {
			return true
		}
	}
	for _, g := range guardsOf(last) {
		if c.isTypeEqualityTest(g.Cond, key, recv) {
			return true
		}
	}
	return false
}

func (c *Ctx) instrGuardedByTypeEquality(i ssa.Instruction, key ssa.Value, recv ssa.Value) bool {
	for _, g := range guardsOf(i) {
		if c.isTypeEqualityTest(g.Cond, key, recv) {
			return true
		}
	}
	return false
}

func ruleKeyAssignable(c *Ctx, rule string) {
	closures := []string{"EV", "DEF", "EQ"}
	if strings.HasPrefix(rule, "C11") {
		closures = []string{"EQ"}
	}
	n := 0
	seenFn := map[*ssa.Function]bool{}
	for _, cn := range closures {
		for _, fn := range c.Closure(rule, cn).Sorted() {
			if seenFn[fn] {
				continue
			}
			seenFn[fn] = true
			core.EachInstr(fn, func(i ssa.Instruction) {
				call, ok := i.(*ssa.Call)
				if !ok {
					return
				}
				key := core.CalleeKey(&call.Call)
				if key != "reflect.Value.MapIndex" && key != "reflect.Value.SetMapIndex" {
					return
				}
				n++
				ok2, why := c.mapAccessKeyOK(call, call.Call.Args[0], call.Call.Args[1])
				construct := fmt.Sprintf("%s:%s#%d", core.FuncName(fn), strings.TrimPrefix(key, "reflect.Value."), n)
				c.R.Check(ok2, rule, construct, c.pos(call), "the key is converted to the map's key type (or comes from the same map)",
					key+" is called with "+why+": maps whose key type is a named string type are admitted (the guard tests the key's kind), but reflect panics when the key is not assignable to the exact key type")
			})
		}
	}
	min := 6
	if strings.HasPrefix(rule, "C11") {
		min = 1
	}
	c.R.Floor(rule, "reflect map accesses", n, min)
}

func ruleC08KindGroups(c *Ctx) {
	const rule = "C08/kind-groups"
	m := c.EvalModel(rule)
	if m == nil {
		return
	}
	kf := m.instanceKindFlow(c, m.E)
	isSame := func(v ssa.Value) bool { return m.instLoc(c, v, map[ssa.Value]bool{}) == "same" }
	n := 0
	c.eachFamOwn(m.E, func(i ssa.Instruction) {
		call, ok := i.(*ssa.Call)
		if !ok || len(call.Call.Args) == 0 || !isSame(call.Call.Args[0]) {
			return
		}
		key := core.CalleeKey(&call.Call)
		var allowed KindSet
		what := ""
		switch key {
		case "reflect.Value.Index":
			allowed, what = Kinds(kArray, kSlice), "array keywords"
		case "reflect.Value.Len":
			allowed, what = Kinds(kArray, kSlice, kMap, kString), "length"
		case "reflect.Value.String":
			// String() never panics, but as the subject of the string keywords it must be a string
			if refs := call.Referrers(); refs != nil {
				for _, r := range *refs {
					if rc, ok := r.(*ssa.Call); ok && strings.HasPrefix(core.CalleeKey(&rc.Call), "unicode/utf8.RuneCount") {
						allowed, what = Kinds(kString), "string keywords"
					}
				}
			}
		default:
			callee := call.Call.StaticCallee()
			if callee != nil && c.P.InPkg(callee) && (core.FuncName(callee) == "property" || core.FuncName(callee) == "properties" || core.FuncName(callee) == "numPropertiesBounds") {
				allowed, what = Kinds(kMap, kStruct), "object keywords"
			}
		}
		if what == "" {
			return
		}
		n++
		ks := kf.At(call)
		// the group runs for every instance of those kinds: no test of the instance's Go type decides whether it does
		// (the string group's "not a json.Number" and the object group's "string-kinded keys" apart)
		if what == "array keywords" || what == "object keywords" {
			byType := ""
			atoms := guardsLocal(call)
			// a section entered through a short-circuit condition (A || B && C): every test of the cluster
			for d := call.Block(); d != nil; d = d.Idom() {
				if len(d.Preds) < 2 || d.Comment != "if.then" {
					continue
				}
				allIf := true
				for _, p := range d.Preds {
					if _, isIf := p.Instrs[len(p.Instrs)-1].(*ssa.If); !isIf {
						allIf = false
					}
				}
				if !allIf {
					continue
				}
				for _, p := range d.Preds {
					ifi := p.Instrs[len(p.Instrs)-1].(*ssa.If)
					succ := 0
					if p.Succs[0] != d {
						succ = 1
					}
					atoms = append(atoms, guardAtom{Cond: ifi.Cond, Pol: p.Succs[0] == d, At: ifi, Succ: succ})
				}
			}
			for _, g := range atoms {
				onType, keyKind := false, false
				for _, x := range sliceWithReceivers(g.Cond, 24) {
					cc, ok := x.(*ssa.Call)
					if !ok {
						continue
					}
					if core.CalleeKey(&cc.Call) == "reflect.Value.Type" && len(cc.Call.Args) > 0 && isSame(cc.Call.Args[0]) {
						onType = true
					}
					if cc.Call.IsInvoke() && cc.Call.Method.Name() == "Key" {
						keyKind = true
					}
				}
				// a test whose other outcome is an error return refuses the instance, it does not pass over the keywords
				// (the branch is looked up from the condition: an atom obtained by expanding a boolean variable carries the
				// position of the test of the variable)
				refuses := false
				if refs := g.Cond.Referrers(); refs != nil {
					for _, r := range *refs {
						ifi, ok := r.(*ssa.If)
						if !ok || ifi.Parent() != call.Parent() {
							continue
						}
						for _, sc := range ifi.Block().Succs {
							if sc != call.Block() && !sc.Dominates(call.Block()) && blockReturnsErrorDeepLocal(sc) {
								refuses = true
							}
						}
					}
				}
				if refuses {
					continue
				}
				if onType && !keyKind {
					byType = c.pos(g.At)
				}
			}
			c.R.Check(byType == "", rule, fmt.Sprintf("%s@%s:whatever-the-go-type", strings.TrimPrefix(key, "reflect.Value."), what), c.pos(call), "no test of the instance's Go type decides whether the "+what+" run",
				"whether the "+what+" run depends on a test of the instance's Go type (at "+byType+"), not only on its kind: an instance of the excluded type (a []byte, say, which the classifier still calls an array) skips items, contains, uniqueItems, minItems and unevaluatedItems altogether while the same JSON decoded into []any does not")
		}
		// (inside a helper, a branch can be dead for every kind the evaluator calls it with: an empty set is fine there)
		c.R.Check(ks.SubsetOf(allowed) && (ks != 0 || call.Parent() != m.E), rule, fmt.Sprintf("%s@%s", strings.TrimPrefix(key, "reflect.Value."), what), c.pos(call), fmt.Sprintf("%s run only for instance kinds %s", what, ks),
			fmt.Sprintf("the %s access the instance with %s while its kind can be %s (expected a subset of %s)", what, key, ks, allowed))
	})
	// closures of the evaluator that touch the instance (hasProperty etc.) run inside the object block: checked through their creation site
	for _, fn := range m.Nest[1:] {
		uses := false
		core.EachInstr(fn, func(i ssa.Instruction) {
			if call, ok := i.(*ssa.Call); ok {
				callee := call.Call.StaticCallee()
				if callee != nil && c.P.InPkg(callee) && (core.FuncName(callee) == "property" || core.FuncName(callee) == "properties") && len(call.Call.Args) > 0 && isSame(call.Call.Args[0]) {
					uses = true
				}
			}
		})
		if !uses || fn.Parent() != m.E {
			continue
		}
		c.eachFamOwn(m.E, func(i ssa.Instruction) {
			if mc, ok := i.(*ssa.MakeClosure); ok && mc.Fn == fn {
				n++
				ks := kf.At(mc)
				c.R.Check(ks.SubsetOf(Kinds(kMap, kStruct)) && ks != 0, rule, "closure:"+core.FuncName(fn), c.pos(mc), fmt.Sprintf("created where the instance kind is %s", ks),
					fmt.Sprintf("a helper that accesses the instance's properties is created where the instance kind can be %s", ks))
			}
		})
	}
	// the object keywords run only for maps whose key kind is String: a test of instance.Type().Key().Kind() that
	// returns an error dominates every keyed access
	var keyKindTest ssa.Instruction
	for _, fi := range c.familyInstrs(m.E) {
		ifi, ok := fi.I.(*ssa.If)
		if !ok {
			continue
		}
		bo, ok := ifi.Cond.(*ssa.BinOp)
		if !ok || (bo.Op != token.NEQ && bo.Op != token.EQL) {
			continue
		}
		k, isK := bo.Y.(*ssa.Const)
		kv, okv := constInt(k)
		if !isK || !okv || kv != kString {
			continue
		}
		kc, ok := bo.X.(*ssa.Call)
		if !ok || !kc.Call.IsInvoke() || kc.Call.Method.Name() != "Kind" {
			continue
		}
		// receiver: instance.Type().Key()  (the test may sit in a helper: its parameter is the instance on this call path)
		if keyc, ok := kc.Call.Value.(*ssa.Call); ok && keyc.Call.IsInvoke() && keyc.Call.Method.Name() == "Key" {
			if tc, ok := upValue(keyc.Call.Value, fi.Path).(*ssa.Call); ok && core.CalleeKey(&tc.Call) == "reflect.Value.Type" && (isSame(tc.Call.Args[0]) || isSame(upValue(tc.Call.Args[0], fi.Path))) {
				failSucc := ifi.Block().Succs[0]
				if bo.Op == token.EQL {
					failSucc = ifi.Block().Succs[1]
				}
				if blockReturnsErrorLocal(failSucc) || blockReturnsErrorDeepLocal(failSucc) {
					okProp := true
					for _, site := range fi.Path {
						if !errorPropagated(site) {
							okProp = false
						}
					}
					if okProp {
						keyKindTest = fi.Top()
					}
				}
			}
		}
	}
	if keyKindTest == nil {
		c.R.Bad(rule, "object-group:string-keys-only", c.P.Pos(m.E.Pos()), "the evaluator does not refuse maps whose key kind is not string before the object keywords: the keyed access converts a string to the map's key type and reflect panics for, e.g., map[int]any")
	} else {
		okDom := true
		c.eachFamOwn(m.E, func(i ssa.Instruction) {
			if call, ok := i.(*ssa.Call); ok {
				callee := call.Call.StaticCallee()
				if callee != nil && c.P.InPkg(callee) && (core.FuncName(callee) == "property" || core.FuncName(callee) == "properties") && len(call.Call.Args) > 0 && isSame(call.Call.Args[0]) {
					if !dominatesFam(keyKindTest, call) {
						okDom = false
					}
				}
			}
		})
		c.R.Check(okDom, rule, "object-group:string-keys-only", c.pos(keyKindTest), "maps with a non-string key kind are refused before any keyed access", "a keyed access to the instance is reachable without passing the test of the map's key kind")
	}
	// the string keywords are applied to every value of kind String: the counted string is instance.String(),
	// not the result of a type assertion (which excludes defined string types)
	c.eachFamOwn(m.E, func(i ssa.Instruction) {
		call, ok := i.(*ssa.Call)
		if !ok || !strings.HasPrefix(core.CalleeKey(&call.Call), "unicode/utf8.RuneCount") {
			return
		}
		okSrc := true
		for _, src := range traceSources(call.Call.Args[0]) {
			sc, isCall := src.(*ssa.Call)
			if !isCall || core.CalleeKey(&sc.Call) != "reflect.Value.String" || !isSame(sc.Call.Args[0]) {
				okSrc = false
			}
		}
		n++
		c.R.Check(okSrc, rule, "string-group:subject-is-instance.String()", c.pos(call), "the string keywords measure instance.String() for every value of kind String", "the string measured for minLength/maxLength/pattern is not reflect.Value.String() of the instance (e.g. the result of a type assertion to string): values of a defined string type silently skip the string keywords although `type` reports \"string\"")
		ks := kf.At(call)
		c.R.Check(Kinds(kString).SubsetOf(ks) && ks.SubsetOf(Kinds(kString)), rule, "coverage:string-group", c.pos(call), "the string keywords run exactly for kind String", fmt.Sprintf("the string keywords run for instance kinds %s, expected exactly {String}", ks))
		// ... except for a json.Number, which has kind String and is a number
		c.R.Check(c.guardedNotNumber(call, isSame), rule, "string-group:not-for-json.Number", c.pos(call), "the string keywords are not applied to a json.Number", "the string keywords are applied to every instance of kind String, json.Number included: a number decoded with UseNumber is measured and matched as text, so {\"maxLength\":3} rejects 12345 carried as a json.Number and accepts it as a float64")
	})
	// coverage: the array keywords run for Go arrays and slices alike, the object keywords for maps, the string keywords for strings
	for _, s := range m.Sites {
		if s.Call.Parent() != m.E || s.Loc != "child" {
			continue
		}
		for _, src := range s.SchemaSrc {
			var need KindSet
			switch src {
			case "Schema.PrefixItems", "Schema.Items", "Schema.ItemsArray", "Schema.AdditionalItems", "Schema.Contains", "Schema.UnevaluatedItems":
				need = Kinds(kArray, kSlice)
			case "Schema.Properties", "Schema.PropertyNames":
				need = Kinds(kMap)
			default:
				continue
			}
			ks := kf.At(s.Call)
			c.R.Check(need.SubsetOf(ks), rule, "coverage:"+src, c.pos(s.Call), fmt.Sprintf("%s is applied for every kind in %s", src, need),
				fmt.Sprintf("%s is applied only for instance kinds %s, not for all of %s: a JSON array carried as a Go array (or slice) would skip the keyword", src, ks, need))
		}
	}
	c.R.Floor(rule, "kind-dependent accesses to the instance", n, 20)
}

// ---- C11 ----

func ruleC11NumbersFirst(c *Ctx) { ruleC11NumbersFirst2(c, "C11/numbers-first-exact") }

func ruleC11NumbersFirst2(c *Ctx, rule string) {
	eq, ext := c.Equality(rule), c.NumberExtractor(rule)
	if eq == nil || ext == nil {
		return
	}
	sx, sy := subjectSet(eq, eq.Params[0]), subjectSet(eq, eq.Params[1])
	var cx, cy *ssa.Call
	core.EachInstr(eq, func(i ssa.Instruction) {
		if call, ok := i.(*ssa.Call); ok && call.Call.StaticCallee() == ext {
			if sx[call.Call.Args[0]] {
				cx = call
			}
			if sy[call.Call.Args[0]] {
				cy = call
			}
		}
	})
	if cx == nil || cy == nil {
		c.R.Bad(rule, "both-extracted", c.P.Pos(eq.Pos()), "the equality function does not apply the number extractor to both operands")
		return
	}
	okOf := func(call *ssa.Call) ssa.Value {
		if refs := call.Referrers(); refs != nil {
			for _, r := range *refs {
				if ex, ok := r.(*ssa.Extract); ok && ex.Index == 1 {
					return ex
				}
			}
		}
		return nil
	}
	ok1, ok2 := okOf(cx), okOf(cy)
	// Cmp == 0 under ok1 && ok2
	var cmpRet *ssa.Return
	core.EachInstr(eq, func(i ssa.Instruction) {
		ret, ok := i.(*ssa.Return)
		if !ok || len(ret.Results) != 1 {
			return
		}
		bo, ok := returnedValue(ret, 0).(*ssa.BinOp)
		if !ok || bo.Op != token.EQL {
			return
		}
		call, ok := bo.X.(*ssa.Call)
		if !ok || core.CalleeKey(&call.Call) != "math/big.Rat.Cmp" {
			return
		}
		if k, ok := bo.Y.(*ssa.Const); ok {
			if kv, ok := constInt(k); ok && kv == 0 {
				cmpRet = ret
			}
		}
	})
	if cmpRet == nil {
		c.R.Bad(rule, "numbers:cmp-zero", c.P.Pos(eq.Pos()), "two numbers are not decided by `Cmp == 0` on their exact rationals")
	} else {
		g1, g2 := false, false
		for _, g := range guardsOf(cmpRet) {
			if g.Cond == ok1 && g.Pol {
				g1 = true
			}
			if g.Cond == ok2 && g.Pol {
				g2 = true
			}
		}
		c.R.Check(g1 && g2, rule, "numbers:cmp-zero", c.pos(cmpRet), "when both operands are numbers the result is Cmp == 0 on the exact rationals", "the rational comparison is not guarded by both operands being numbers")
	}
	// a number never equals a non-number: return false under ok1 != ok2
	mixed := false
	core.EachInstr(eq, func(i ssa.Instruction) {
		ret, ok := i.(*ssa.Return)
		if !ok || len(ret.Results) != 1 {
			return
		}
		k, isConst := returnedValue(ret, 0).(*ssa.Const)
		if !isConst || k.Value == nil || k.Value.String() != "false" {
			return
		}
		for _, g := range guardsOf(ret) {
			if bo, ok := g.Cond.(*ssa.BinOp); ok && g.Pol && bo.Op == token.NEQ && ((bo.X == ok1 && bo.Y == ok2) || (bo.X == ok2 && bo.Y == ok1)) {
				mixed = true
			}
			if bo, ok := g.Cond.(*ssa.BinOp); ok && !g.Pol && bo.Op == token.EQL && ((bo.X == ok1 && bo.Y == ok2) || (bo.X == ok2 && bo.Y == ok1)) {
				mixed = true
			}
		}
	})
	c.R.Check(mixed, rule, "numbers:number-vs-non-number", c.P.Pos(eq.Pos()), "a number and a non-number are unequal before kinds are compared", "nothing makes a number unequal to a non-number before the kind comparison: a json.Number (kind string) equals the string with the same text")
	// the number decision precedes the kind comparison
	var kindTest ssa.Instruction
	core.EachInstr(eq, func(i ssa.Instruction) {
		if bo, ok := i.(*ssa.BinOp); ok && (bo.Op == token.NEQ || bo.Op == token.EQL) {
			a, ok1 := bo.X.(*ssa.Call)
			b, ok2 := bo.Y.(*ssa.Call)
			if ok1 && ok2 && core.CalleeKey(&a.Call) == "reflect.Value.Kind" && core.CalleeKey(&b.Call) == "reflect.Value.Kind" {
				kindTest = bo
			}
		}
	})
	if kindTest != nil {
		c.R.Check(core.Dominates(cx, kindTest) && core.Dominates(cy, kindTest), rule, "numbers:before-kinds", c.pos(kindTest), "numbers are extracted before kinds are compared", "kinds are compared before numbers are extracted: 1 (int) and 1.0 (float64) have different kinds")
	}
	// exactness lint over the closure of Equal
	for _, fn := range c.Closure(rule, "EQ").Sorted() {
		if fn == ext {
			continue
		}
		core.EachInstr(fn, func(i ssa.Instruction) {
			switch x := i.(type) {
			case *ssa.Call:
				key := core.CalleeKey(&x.Call)
				switch key {
				case "reflect.Value.Float", "reflect.Value.Int", "reflect.Value.Uint", "math/big.Rat.Float64", "math/big.Rat.Float32", "math/big.Float.Float64":
					c.R.Bad(rule, "exactness:"+core.FuncName(fn)+":"+key, c.pos(x), "the closure of Equal extracts a machine number with "+key+" outside the exact extractor: integers beyond 2^53 and numbers that differ in the last bit would compare equal")
				}
			case *ssa.BinOp:
				if (x.Op == token.EQL || x.Op == token.NEQ) && isFloat(x.X.Type()) && !exactBasicComparison(x) {
					c.R.Bad(rule, "exactness:"+core.FuncName(fn)+":float-compare", c.pos(x), "floating-point comparison in the closure of Equal")
				}
			}
		})
	}
	c.R.OK(rule, "exactness:no-machine-numbers", "", "no float/int extraction and no float comparison in the closure of Equal outside the exact extractor")
}

func isFloat(t types.Type) bool {
	b, ok := t.Underlying().(*types.Basic)
	return ok && b.Info()&types.IsFloat != 0
}

func ruleC11Normalise(c *Ctx, rule string) {
	eq := c.Equality(rule)
	if eq == nil {
		return
	}
	for pi, name := range []string{"x", "y"} {
		p := eq.Params[pi]
		subj := subjectSet(eq, p)
		kf := KindFlow(eq, func(v ssa.Value) bool { return subj[v] }, nil)
		// every Kind()/Len()/recursion on this operand other than the stripping tests themselves
		bad := ""
		n := 0
		core.EachInstr(eq, func(i ssa.Instruction) {
			bo, ok := i.(*ssa.BinOp)
			if !ok || (bo.Op != token.NEQ && bo.Op != token.EQL) {
				return
			}
			a, ok1 := bo.X.(*ssa.Call)
			b, ok2 := bo.Y.(*ssa.Call)
			if ok1 && ok2 && core.CalleeKey(&a.Call) == "reflect.Value.Kind" && core.CalleeKey(&b.Call) == "reflect.Value.Kind" {
				n++
				ks := kf.At(bo)
				if ks&Kinds(kPointer, kInterface) != 0 {
					bad = c.pos(bo)
				}
			}
		})
		if n == 0 {
			c.R.OK(rule, "operand-"+name+":no-kind-comparison", "", "the equality function does not compare the kinds of its operands")
			continue
		}
		c.R.Check(bad == "", rule, "operand-"+name+":stripped-before-kind-comparison", c.P.Pos(eq.Pos()), "when kinds are compared, operand "+name+" can be neither a pointer nor an interface",
			"kinds are compared ("+bad+") while operand "+name+" can still be a pointer or an interface: a value held in an interface or behind a pointer never equals the same JSON value held directly ([]any{1.0} vs []float64{1})")
	}
	// Array vs Slice: the kind-mismatch region compares element-wise instead of failing
	var mismatch *ssa.If
	core.EachInstr(eq, func(i ssa.Instruction) {
		ifi, ok := i.(*ssa.If)
		if !ok {
			return
		}
		bo, ok := ifi.Cond.(*ssa.BinOp)
		if !ok || bo.Op != token.NEQ {
			return
		}
		a, ok1 := bo.X.(*ssa.Call)
		b, ok2 := bo.Y.(*ssa.Call)
		if ok1 && ok2 && core.CalleeKey(&a.Call) == "reflect.Value.Kind" && core.CalleeKey(&b.Call) == "reflect.Value.Kind" {
			mismatch = ifi
		}
	})
	if mismatch != nil {
		elementwise := false
		for _, fi := range c.familyInstrs(eq) {
			call, ok := fi.I.(*ssa.Call)
			if !ok || call.Call.StaticCallee() != eq {
				continue
			}
			if !inRegion(fi, mismatch.Block().Succs[0]) {
				continue
			}
			a, ok1 := call.Call.Args[0].(*ssa.Call)
			b, ok2 := call.Call.Args[1].(*ssa.Call)
			if ok1 && ok2 && core.CalleeKey(&a.Call) == "reflect.Value.Index" && core.CalleeKey(&b.Call) == "reflect.Value.Index" {
				elementwise = true
			}
		}
		c.R.Check(elementwise, rule, "array-vs-slice:element-wise", c.pos(mismatch), "under a kind mismatch, a Go array and a Go slice are compared element-wise", "a kind mismatch always yields false: a Go array never equals the slice holding the same JSON array")
	}
}

func ruleC11CaseCoverage(c *Ctx) { ruleC11CaseCoverage2(c, "C11/case-coverage") }

func ruleC11CaseCoverage2(c *Ctx, rule string) {
	eq := c.Equality(rule)
	if eq == nil {
		return
	}
	sx, sy := c.subjectsDeep(eq, eq.Params[0]), c.subjectsDeep(eq, eq.Params[1])
	kfx := KindFlow(eq, func(v ssa.Value) bool { return sx[v] }, nil)
	// explicit panics: only for kinds outside the JSON-shaped domain
	jsonShaped := Kinds(kBool, kString, kSlice, kArray, kMap, kStruct, kInterface, kPointer, kInvalid)
	core.EachInstr(eq, func(i ssa.Instruction) {
		p, ok := i.(*ssa.Panic)
		if !ok || !p.Pos().IsValid() {
			return
		}
		ks := kfx.At(p)
		c.R.Check(ks&jsonShaped == 0, rule, "panic@"+strings.TrimPrefix(c.pos(p), "util.go:"), c.pos(p), fmt.Sprintf("reached only for kinds %s, outside the JSON-shaped domain", ks),
			fmt.Sprintf("the equality function can panic for operand kinds %s, which are JSON-shaped", ks&jsonShaped))
	})
	// Go's own notions of equality are not JSON equality: reflect.Value.Equal / reflect.DeepEqual / == on interface
	// values compare pointers by address, numbers by Go type and json.Numbers by spelling. Inside the equality
	// function they may decide only for kinds where the two notions coincide (bool, string).
	for _, fi := range c.familyInstrs(eq) {
		call, ok := fi.I.(*ssa.Call)
		if !ok {
			continue
		}
		key := core.CalleeKey(&call.Call)
		if key != "reflect.Value.Equal" && key != "reflect.DeepEqual" {
			continue
		}
		ks := kfx.At(call)
		safe := Kinds(kBool, kString)
		c.R.Check(ks != 0 && ks.SubsetOf(safe), rule, "go-equality@"+core.FuncName(call.Parent()), c.pos(call), "Go equality decides only for kinds where it is JSON equality",
			fmt.Sprintf("the equality function lets %s decide for operand kinds %s: Go equality compares pointers by address, 1 and 1.0 (or json.Number 10 and 1e1) as different, and looks at unexported fields - values that are equal as JSON come out unequal", key, ks))
	}
	// recursion on elements: lengths first, missing keys tested
	n, nElems, nMembers, nRec := 0, 0, 0, 0
	for _, fi := range c.familyInstrs(eq) {
		fi := fi
		call, ok := fi.I.(*ssa.Call)
		if !ok || call.Call.StaticCallee() != eq {
			continue
		}
		// whatever is compared, one side comes out of x and the other out of y
		nRec++
		sideA, sideB := containerSide(call.Call.Args[0], sx, sy, 8), containerSide(call.Call.Args[1], sx, sy, 8)
		if sideA != 0 && sideA == sideB && (sideA == 1 || sideA == 2) {
			c.R.Bad(rule, fmt.Sprintf("recursion#%d:x-against-y", nRec), c.pos(call), "the equality function compares two parts of the same operand with each other (both arguments of the recursive call are taken out of "+map[int]string{1: "the first", 2: "the second"}[sideA]+" operand): the other operand's part is never looked at, so values that differ there compare equal")
		} else if sideA != 0 && sideB != 0 {
			c.R.OK(rule, fmt.Sprintf("recursion#%d:x-against-y", nRec), c.pos(call), "a part of one operand is compared with a part of the other")
		}
		// (an argument can also be the value handed to the body of a range-over-func loop: not a call)
		a, _ := call.Call.Args[0].(*ssa.Call)
		b, _ := call.Call.Args[1].(*ssa.Call)
		ka, kb := "", ""
		if a != nil {
			ka = core.CalleeKey(&a.Call)
		}
		if b != nil {
			kb = core.CalleeKey(&b.Call)
		}
		switch {
		case ka == "reflect.Value.Index" && kb == "reflect.Value.Index":
			n++
			nElems++
			c.R.Check(guardedByLenEqualityFam(fi, sx, sy), rule, fmt.Sprintf("elements#%d:length-first", n), c.pos(call), "elements are compared only after the lengths were found equal", "array elements are compared without a preceding test that the lengths are equal: a shorter array equals a longer one with the same prefix (or Index panics)")
		case kb == "reflect.Value.MapIndex" || ka == "reflect.Value.MapIndex":
			n++
			nMembers++
			mi := b
			if ka == "reflect.Value.MapIndex" {
				mi = a
			}
			valid := false
			for _, g := range famGuards(fi) {
				if gc, ok := g.Cond.(*ssa.Call); ok && g.Pol && core.CalleeKey(&gc.Call) == "reflect.Value.IsValid" && gc.Call.Args[0] == mi {
					valid = true
				}
			}
			c.R.Check(valid, rule, fmt.Sprintf("members#%d:missing-key-tested", n), c.pos(call), "a key missing from the other object makes the objects unequal (IsValid tested before recursing)", "the value looked up in the other object is compared without testing that the key exists: a missing key compares like null, so {\"a\":null} equals {\"b\":null}")
			missingFalse := false
			if refs := mi.Referrers(); refs != nil {
				for _, r := range *refs {
					vc, ok := r.(*ssa.Call)
					if !ok || core.CalleeKey(&vc.Call) != "reflect.Value.IsValid" || vc.Referrers() == nil {
						continue
					}
					for _, r2 := range *vc.Referrers() {
						var ifi *ssa.If
						neg := false
						switch y := r2.(type) {
						case *ssa.If:
							ifi = y
						case *ssa.UnOp:
							if y.Op == token.NOT && y.Referrers() != nil {
								for _, r3 := range *y.Referrers() {
									if i3, ok := r3.(*ssa.If); ok {
										ifi, neg = i3, true
									}
								}
							}
						}
						if ifi == nil {
							continue
						}
						invalid := ifi.Block().Succs[1]
						if neg {
							invalid = ifi.Block().Succs[0]
						}
						if blockReturnsConst(invalid, "false") {
							missingFalse = true
						}
					}
				}
			}
			c.R.Check(missingFalse, rule, fmt.Sprintf("members#%d:missing-key-unequal", n), c.pos(call), "a key missing from the other object yields false", "when the key is missing from the other object the comparison does not return false: objects of the same size with different key sets compare equal")
			c.R.Check(guardedByLenEqualityFam(fi, sx, sy), rule, fmt.Sprintf("members#%d:length-first", n), c.pos(call), "members are compared only after the sizes were found equal", "object members are compared without a preceding size test: an object equals any superset of it")
		}
	}
	// one element recursion (arrays and slices may share it) and one member recursion at least
	c.R.Floor(rule, "element/member recursions", n, 2)
	c.R.Floor(rule, "element recursions (Index, Index)", nElems, 1)
	c.R.Floor(rule, "member recursions (value, MapIndex)", nMembers, 1)
	// identity shortcuts only after the length test
	core.EachInstr(eq, func(i ssa.Instruction) {
		ret, ok := i.(*ssa.Return)
		if !ok || len(ret.Results) != 1 {
			return
		}
		k, isConst := returnedValue(ret, 0).(*ssa.Const)
		if !isConst || k.Value == nil || k.Value.String() != "true" {
			return
		}
		for _, g := range guardsOf(ret) {
			bo, ok := g.Cond.(*ssa.BinOp)
			if !ok || !g.Pol || bo.Op != token.EQL {
				continue
			}
			a, ok1 := bo.X.(*ssa.Call)
			b, ok2 := bo.Y.(*ssa.Call)
			if ok1 && ok2 && strings.HasSuffix(core.CalleeKey(&a.Call), "Pointer") && strings.HasSuffix(core.CalleeKey(&b.Call), "Pointer") {
				// pointers proper (kind Pointer) have no length; slices and maps do
				ks := kfx.At(ret)
				if ks&Kinds(kSlice, kMap) != 0 {
					c.R.Check(guardedByLenEquality(ret, sx, sy), rule, "identity-shortcut@"+strings.TrimPrefix(c.pos(ret), "util.go:"), c.pos(ret), "the same-backing-store shortcut is taken only after the lengths were found equal", "two slices (or maps) are declared equal because they share their backing store before their lengths are compared: s[:2] equals s[:3]")
				}
			}
		}
	})
}

func guardedByLenEquality(i ssa.Instruction, sx, sy map[ssa.Value]bool) bool {
	return guardedByLenEqualityFam(famInstr{I: i}, sx, sy)
}

func guardedByLenEqualityFam(fi famInstr, sx, sy map[ssa.Value]bool) bool {
	for _, g := range famGuards(fi) {
		bo, ok := g.Cond.(*ssa.BinOp)
		if !ok {
			continue
		}
		a, ok1 := bo.X.(*ssa.Call)
		b, ok2 := bo.Y.(*ssa.Call)
		if !ok1 || !ok2 || core.CalleeKey(&a.Call) != "reflect.Value.Len" || core.CalleeKey(&b.Call) != "reflect.Value.Len" {
			continue
		}
		if !((sx[a.Call.Args[0]] && sy[b.Call.Args[0]]) || (sy[a.Call.Args[0]] && sx[b.Call.Args[0]])) {
			continue
		}
		if (bo.Op == token.NEQ && !g.Pol) || (bo.Op == token.EQL && g.Pol) {
			return true
		}
	}
	return false
}

// ---- C12 ----

func ruleC12DecidedByEqual(c *Ctx) {
	const rule = "C12/decided-by-equal"
	m := c.EvalModel(rule)
	eq := c.Equality(rule)
	if m == nil || eq == nil {
		return
	}
	isSame := func(v ssa.Value) bool { return m.instLoc(c, v, map[ssa.Value]bool{}) == "same" }
	// enum and const: calls of equality with the instance, keyword value from Schema.Enum / Schema.Const
	for _, kw := range []string{"Schema.Enum", "Schema.Const"} {
		var call *ssa.Call
		var callFI famInstr
		for _, fi := range c.familyInstrs(m.E) {
			cl, ok := fi.I.(*ssa.Call)
			if !ok || cl.Call.StaticCallee() != eq {
				continue
			}
			var other ssa.Value
			if isSame(cl.Call.Args[0]) {
				other = cl.Call.Args[1]
			} else if isSame(cl.Call.Args[1]) {
				other = cl.Call.Args[0]
			} else {
				continue
			}
			if vo, ok := other.(*ssa.Call); ok && core.CalleeKey(&vo.Call) == "reflect.ValueOf" && c.mentionsField(vo.Call.Args[0], kw, 8) {
				call, callFI = cl, fi
			}
		}
		_ = callFI
		if call == nil {
			c.R.Bad(rule, kw+":uses-equality", c.P.Pos(m.E.Pos()), kw+" is not decided by the equality function applied to the keyword value and the instance")
			continue
		}
		c.R.OK(rule, kw+":uses-equality", c.pos(call), "decided by the equality function on (keyword value, instance)")
		// the comparison is made whatever the instance: no test of the instance itself (its validity, kind, nilness)
		// stands before it, only tests of the schema
		{
			onInst := ""
			atoms := guardsLocal(call)
			for d := call.Block(); d != nil; d = d.Idom() {
				if len(d.Preds) < 2 || d.Comment != "if.then" {
					continue
				}
				for _, p := range d.Preds {
					if ifi, ok := p.Instrs[len(p.Instrs)-1].(*ssa.If); ok {
						atoms = append(atoms, guardAtom{Cond: ifi.Cond, Pol: p.Succs[0] == d, At: ifi})
					}
				}
			}
			for _, g := range atoms {
				if g.At.Parent() != call.Parent() {
					continue
				}
				for _, v := range append(backSlice(g.Cond, 8), g.Cond) {
					cc, ok := v.(*ssa.Call)
					if !ok || len(cc.Call.Args) == 0 || !isSame(cc.Call.Args[0]) {
						continue
					}
					switch core.CalleeKey(&cc.Call) {
					case "reflect.Value.IsValid", "reflect.Value.IsNil", "reflect.Value.IsZero", "reflect.Value.Len":
						// (the kind tests of the wrapper-stripping loop stand before everything and are left out)
						onInst = c.pos(cc)
					}
				}
			}
			c.R.Check(onInst == "", rule, kw+":compared-whatever-the-instance", c.pos(call), "no test of the instance stands before the comparison", "whether "+kw+" is compared with the instance at all depends on a test of the instance (at "+onInst+"): for the instances that fail the test (null, say) the keyword is passed over, so `const: 5` accepts null")
		}
		// the failure exit of the keyword: error returns control dependent on the keyword's presence test must depend on the equality result
		okDep := false
		c.eachFamOwn(m.E, func(i ssa.Instruction) {
			ifi, ok := i.(*ssa.If)
			if !ok {
				return
			}
			if dependsOn(ifi.Cond, []ssa.Value{call}, 6) || condViaFlag(ifi.Cond, call) {
				for si, s := range ifi.Block().Succs {
					if blockReturnsError(s) {
						okDep = true
					}
					// in a helper that decides the keyword alone: a match returns nil at once, and what is left when
					// the list is exhausted is the failure
					if ifi.Parent() != m.E && returnsNilError(s) {
						other := ifi.Block().Succs[1-si]
						for _, b := range ifi.Parent().Blocks {
							if (b == other || core.Reachable(other, b, nil)) && blockReturnsErrorDeepLocal(b) {
								if _, isRet := b.Instrs[len(b.Instrs)-1].(*ssa.Return); isRet {
									okDep = true
								}
							}
						}
					}
				}
			}
		})
		// the list may be searched by a predicate (inEnum(values, instance) bool) that answers true at the first
		// match; the failure exit then hangs on the predicate's answer
		if h := call.Parent(); !okDep && h != m.E && h.Signature.Results().Len() == 1 && isBoolType(h.Signature.Results().At(0).Type()) {
			matches := false
			core.EachInstr(h, func(i ssa.Instruction) {
				ifi, ok := i.(*ssa.If)
				if !ok || !(dependsOn(ifi.Cond, []ssa.Value{call}, 6) || condViaFlag(ifi.Cond, call)) {
					return
				}
				for _, sc := range ifi.Block().Succs {
					if ret, ok := sc.Instrs[len(sc.Instrs)-1].(*ssa.Return); ok && len(ret.Results) == 1 {
						if k, ok := ret.Results[0].(*ssa.Const); ok && k.Value != nil && k.Value.String() == "true" {
							matches = true
						}
					}
				}
			})
			if matches {
				for _, site := range c.P.CallIndex().Sites[h] {
					sv, ok := site.(*ssa.Call)
					if !ok {
						continue
					}
					core.EachInstr(sv.Parent(), func(i ssa.Instruction) {
						ifi, ok := i.(*ssa.If)
						if !ok || !(dependsOn(ifi.Cond, []ssa.Value{sv}, 6) || condViaFlag(ifi.Cond, sv)) {
							return
						}
						for _, sc := range ifi.Block().Succs {
							if blockReturnsError(sc) {
								okDep = true
							}
						}
					})
				}
			}
		}
		c.R.Check(okDep, rule, kw+":failure-depends-on-equality", c.pos(call), "the keyword fails exactly on the equality outcome", "no failure exit of "+kw+" depends on the result of the equality function")
		// no other comparison decides a match inside the keyword's region
		var region *ssa.BasicBlock
		c.eachFamOwn(m.E, func(i ssa.Instruction) {
			if ifi, ok := i.(*ssa.If); ok {
				if x, k, equal, isEq := eqConst(guardAtom{Cond: ifi.Cond, Pol: true}); isEq && k.IsNil() && !equal && c.mentionsField(x, kw, 3) {
					region = ifi.Block().Succs[0]
				}
			}
		})
		if region != nil {
			c.eachFamOwn(m.E, func(i ssa.Instruction) {
				// a membership test in a table keyed by a representation of the instance
				if lk, isLk := i.(*ssa.Lookup); isLk && domIn(region, lk) {
					if dependsOnCallNamed(lk.Index, []string{"reflect.Value.String", "reflect.Value.Float", "reflect.Value.Int", "reflect.Value.Interface"}, 4) {
						c.R.Bad(rule, kw+":direct-comparison", c.pos(lk), kw+" looks a representation of the instance up in a table instead of going through the equality function: a json.Number (kind string) matches the string with the same text, so enum [\"200\",\"404\"] accepts the number 404 decoded with UseNumber")
					}
					return
				}
				bo, ok := i.(*ssa.BinOp)
				if !ok || (bo.Op != token.EQL && bo.Op != token.NEQ) || !region.Dominates(bo.Block()) {
					return
				}
				if tString(bo.X.Type()) || isNumeric(bo.X.Type()) && !isIntType(bo.X.Type()) {
					if dependsOnCallNamed(bo.X, []string{"reflect.Value.String", "reflect.Value.Float", "reflect.Value.Int"}, 4) || dependsOnCallNamed(bo.Y, []string{"reflect.Value.String", "reflect.Value.Float", "reflect.Value.Int"}, 4) {
						c.R.Bad(rule, kw+":direct-comparison", c.pos(bo), kw+" compares a representation of the instance directly (strings or machine numbers) instead of through the equality function: a json.Number is compared as text, so enum [1,2,3] rejects the number 2 decoded with UseNumber")
					}
				}
			})
		}
	}
	// uniqueItems
	var region *ssa.If
	c.eachFamOwn(m.E, func(i ssa.Instruction) {
		if ifi, ok := i.(*ssa.If); ok && c.isDirectFieldLoad(ifi.Cond, "Schema.UniqueItems") {
			region = ifi
		}
	})
	if region == nil {
		c.R.Unresolved(rule, "uniqueItems region (test of Schema.UniqueItems)")
		return
	}
	body := region.Block().Succs[0]
	// the hash table is filled either in the evaluator itself or in a helper called from the keyword's region
	var bucketUpdate *ssa.MapUpdate
	for _, fi := range c.familyInstrs(m.E) {
		if mu, ok := fi.I.(*ssa.MapUpdate); ok && inRegion(fi, body) {
			bucketUpdate = mu
		}
	}
	if bucketUpdate == nil {
		c.R.Bad(rule, "uniqueItems:buckets", c.pos(region), "items are not recorded in a hash table")
		return
	}
	F := bucketUpdate.Parent()
	inReg := func(b *ssa.BasicBlock) bool { return F != m.E || body.Dominates(b) }
	nFail := 0
	core.EachInstr(F, func(i ssa.Instruction) {
		ret, ok := i.(*ssa.Return)
		if !ok || !inReg(ret.Block()) || ret.Block() == F.Recover {
			return
		}
		if F != m.E && !blockReturnsError(ret.Block()) && !blockReturnsErrorDeep(ret.Block()) {
			return // the helper's success exit
		}
		nFail++
		byEq := false
		var selfCompared, firstOnly []string
		guards := guardsOf(ret)
		// the search of the bucket may be a helper that answers "found" only under the equality function's yes
		for _, g := range guardsOf(ret) {
			ex, ok := g.Cond.(*ssa.Extract)
			if !ok || !g.Pol || !isBoolType(ex.Type()) {
				continue
			}
			hc, ok := ex.Tuple.(*ssa.Call)
			if !ok {
				continue
			}
			h := hc.Call.StaticCallee()
			if h == nil || !c.P.InPkg(h) || h == eq {
				continue
			}
			all, any := true, false
			var inner []guardAtom
			core.EachInstr(h, func(j ssa.Instruction) {
				hr, ok := j.(*ssa.Return)
				if !ok || ex.Index >= len(hr.Results) {
					return
				}
				if k, isConst := hr.Results[ex.Index].(*ssa.Const); isConst && k.Value != nil && k.Value.String() == "false" {
					return
				}
				byEq := false
				for _, hg := range guardsLocal(hr) {
					if gc, ok := hg.Cond.(*ssa.Call); ok && hg.Pol && gc.Call.StaticCallee() == eq {
						byEq = true
						inner = append(inner, hg)
					}
				}
				any = true
				if !byEq {
					all = false
				}
			})
			if all && any {
				guards = append(guards, inner...)
			}
		}
		// the search of the bucket may be slices.IndexFunc / slices.ContainsFunc with a predicate that is the equality
		// function applied to the item and the member
		for _, g := range guards {
			var sc *ssa.Call
			if cc, ok := g.Cond.(*ssa.Call); ok && g.Pol {
				sc = cc
			}
			if bo, ok := g.Cond.(*ssa.BinOp); ok {
				if cc, ok := bo.X.(*ssa.Call); ok {
					if k, ok := bo.Y.(*ssa.Const); ok {
						if kv, ok := constInt(k); ok && (g.Pol && (bo.Op == token.GEQ && kv == 0 || bo.Op == token.NEQ && kv == -1 || bo.Op == token.GTR && kv == -1) || !g.Pol && (bo.Op == token.LSS && kv == 0 || bo.Op == token.EQL && kv == -1)) {
							sc = cc
						}
					}
				}
			}
			if sc == nil || len(sc.Call.Args) != 2 {
				continue
			}
			if key := core.CalleeKey(&sc.Call); !strings.HasPrefix(key, "slices.IndexFunc") && !strings.HasPrefix(key, "slices.ContainsFunc") {
				continue
			}
			for _, src := range append(traceSources(sc.Call.Args[1]), sc.Call.Args[1]) {
				mc, ok := src.(*ssa.MakeClosure)
				if !ok {
					continue
				}
				pf := mc.Fn.(*ssa.Function)
				all, any := true, false
				core.EachInstr(pf, func(j ssa.Instruction) {
					pr, ok := j.(*ssa.Return)
					if !ok || len(pr.Results) != 1 {
						return
					}
					any = true
					ec, ok := pr.Results[0].(*ssa.Call)
					if !ok || ec.Call.StaticCallee() != eq {
						all = false
					}
				})
				if all && any {
					byEq = true
				}
			}
		}
		for _, g := range guards {
			if gc, ok := g.Cond.(*ssa.Call); ok && g.Pol && gc.Call.StaticCallee() == eq {
				a, b := gc.Call.Args[0], gc.Call.Args[1]
				ia, ok1 := a.(*ssa.Call)
				ib, ok2 := b.(*ssa.Call)
				if ok1 && ok2 && core.CalleeKey(&ia.Call) == "reflect.Value.Index" || isIndexDerived(a) && isIndexDerived(b) {
					byEq = true
				}
				_ = ib
				// every member of the bucket: the position taken from the bucket is the variable of a loop over it, not
				// one fixed element
				for _, side := range []ssa.Value{a, b} {
					for _, pos := range indexPositions(side) {
						if ld, ok := pos.(*ssa.UnOp); ok && ld.Op == token.MUL {
							if ia, ok := ld.X.(*ssa.IndexAddr); ok {
								if _, fixed := ia.Index.(*ssa.Const); fixed {
									firstOnly = append(firstOnly, c.pos(gc))
								}
							}
						}
					}
				}
				// two different items: the positions are not one and the same variable
				for _, pa := range indexPositions(a) {
					for _, pb := range indexPositions(b) {
						if pa == pb {
							if _, isConst := pa.(*ssa.Const); !isConst {
								selfCompared = append(selfCompared, c.pos(gc))
							}
						}
					}
				}
			}
		}
		c.R.Check(len(firstOnly) == 0, rule, "uniqueItems:whole-bucket", c.pos(ret), "an item is compared with every member of its hash bucket", fmt.Sprintf("the item is compared with one fixed member of its hash bucket only (at %v): the hasher gives unequal values the same hash (false and null, [] and {}), so a duplicate of the second of two colliding items is never compared with it and the array passes", firstOnly))
		c.R.Check(len(selfCompared) == 0, rule, "uniqueItems:two-different-items", c.pos(ret), "the equality function is given two different positions of the array", fmt.Sprintf("the equality call that decides uniqueItems (at %v) is given the same position of the array twice: an item is compared with itself, so every two items whose hashes collide are reported as duplicates", selfCompared))
		c.R.Check(byEq, rule, "uniqueItems:failure-guarded-by-equality", c.pos(ret), "uniqueItems fails only when the equality function says two items are equal", "uniqueItems can fail (or its verdict is taken) without the equality function having compared the two items: equal hashes of unequal items would be reported as duplicates")
	})
	c.R.Floor(rule, "failure exits of uniqueItems", nFail, 1)
	// every item is recorded in its bucket on every non-failing path through the loop body, and compared with every bucket member
	mt, _ := bucketUpdate.Map.Type().Underlying().(*types.Map)
	_, isSlice := mt.Elem().Underlying().(*types.Slice)
	c.R.Check(isSlice, rule, "uniqueItems:bucket-is-list", c.pos(bucketUpdate), "each hash value maps to the list of all items with that hash", "a hash value maps to a single item ("+shortTypeName(mt.Elem())+"): a later item is compared only with the first item of its hash, so a duplicate of a second colliding item is missed")
	// loop header of the item loop
	var header *ssa.BasicBlock
	for d := bucketUpdate.Block(); d != nil && header == nil; d = d.Idom() {
		for _, pr := range d.Preds {
			// (the loop the recording belongs to: the recording reaches the back edge without leaving through the header)
			if d.Dominates(pr) && (pr == bucketUpdate.Block() || d == bucketUpdate.Block() || core.Reachable(bucketUpdate.Block(), pr, map[*ssa.BasicBlock]bool{d: true})) {
				header = d
			}
		}
	}
	if header == nil {
		c.R.Unknown(rule, "uniqueItems:item-loop", c.pos(bucketUpdate), "the recording of items is not in a loop")
		return
	}
	// from the body entry every path back to the header passes through the recording
	// (a loop over an integer range is rotated: its header is the first block of the body and may branch itself, so
	// every successor inside the loop is a way into the rest of the body)
	var bodyEntries []*ssa.BasicBlock
	for _, s := range header.Succs {
		if header.Dominates(s) && core.Reachable(s, header, nil) {
			bodyEntries = append(bodyEntries, s)
		}
	}
	if len(bodyEntries) > 0 {
		ok := true
		for _, be := range bodyEntries {
			if bucketUpdate.Block() != header && !mustPass(be, map[*ssa.BasicBlock]bool{bucketUpdate.Block(): true}, map[*ssa.BasicBlock]bool{header: true}) {
				ok = false
			}
		}
		c.R.Check(ok, rule, "uniqueItems:every-item-recorded", c.pos(bucketUpdate), "every item that is not a duplicate is recorded in its bucket before the next item is examined", "an item can be skipped by the bucket recording (a path through the loop body avoids it): a later duplicate of that item is not detected")
	}
}

// containerSide: which operand (1: in sx, 2: in sy, 3: both) the container a value was taken out of belongs to,
// following receivers of reflect accessors, iterators, cells and phis. 0 when unknown.
func containerSide(v ssa.Value, sx, sy map[ssa.Value]bool, depth int) int {
	if v == nil || depth == 0 {
		return 0
	}
	if sx[v] {
		return 1
	}
	if sy[v] {
		return 2
	}
	switch x := v.(type) {
	case *ssa.Call:
		key := core.CalleeKey(&x.Call)
		switch key {
		case "reflect.Value.Index", "reflect.Value.MapIndex", "reflect.Value.Field", "reflect.Value.FieldByIndex", "reflect.Value.FieldByName", "reflect.Value.Elem", "reflect.MapIter.Value", "reflect.MapIter.Key", "reflect.Value.MapRange", "reflect.Indirect":
			return containerSide(x.Call.Args[0], sx, sy, depth-1)
		}
	case *ssa.Parameter:
		if mv := reflectSeqOf(x); mv != nil {
			return containerSide(mv, sx, sy, depth-1)
		}
	case *ssa.Phi:
		r := 0
		for _, e := range x.Edges {
			r |= containerSide(e, sx, sy, depth-1)
		}
		return r
	case *ssa.UnOp:
		if x.Op == token.MUL {
			if cell := resolveCell(x.X); cell != nil {
				r := 0
				for _, sv := range cellStores(cell) {
					r |= containerSide(sv, sx, sy, depth-1)
				}
				return r
			}
		}
	case *ssa.Extract:
		return containerSide(x.Tuple, sx, sy, depth-1)
	}
	return 0
}

// indexPositions: the index arguments of the reflect.Value.Index calls v comes from.
func indexPositions(v ssa.Value) []ssa.Value {
	var out []ssa.Value
	for _, s := range append(traceSourcesDeep(v), v) {
		if call, ok := s.(*ssa.Call); ok && core.CalleeKey(&call.Call) == "reflect.Value.Index" && len(call.Call.Args) == 2 {
			out = append(out, call.Call.Args[1])
		}
	}
	return out
}

func isIndexDerived(v ssa.Value) bool {
	for _, s := range traceSourcesDeep(v) {
		if call, ok := s.(*ssa.Call); ok && core.CalleeKey(&call.Call) == "reflect.Value.Index" {
			return true
		}
	}
	return false
}

// condViaFlag: cond tests a boolean variable that is set to true under the equality call's true outcome.
func condViaFlag(cond ssa.Value, call *ssa.Call) bool {
	v := cond
	if u, ok := v.(*ssa.UnOp); ok && u.Op == token.NOT {
		v = u.X
	}
	phi, ok := v.(*ssa.Phi)
	if !ok {
		if ld, isLd := v.(*ssa.UnOp); isLd && ld.Op == token.MUL {
			if cell := resolveCell(ld.X); cell != nil {
				for _, fn := range core.WithAnon(cell.Parent()) {
					found := false
					core.EachInstr(fn, func(i ssa.Instruction) {
						if st, ok := i.(*ssa.Store); ok && resolveCell(st.Addr) == cell {
							for _, g := range guardsOf(st) {
								if g.Cond == call {
									found = true
								}
							}
						}
					})
					if found {
						return true
					}
				}
			}
		}
		return false
	}
	for k := range phi.Edges {
		pred := phi.Block().Preds[k]
		last := pred.Instrs[len(pred.Instrs)-1]
		if ifi, ok := last.(*ssa.If); ok && ifi.Cond == call {
			return true
		}
		for _, g := range guardsOf(last) {
			if g.Cond == call {
				return true
			}
		}
	}
	return false
}

func ruleC12Hash(c *Ctx) {
	const rule = "C12/hash-respects-equal"
	h, ext := c.Hasher(rule), c.NumberExtractor(rule)
	if h == nil || ext == nil {
		return
	}
	nest := core.WithAnon(h)
	// the recursive writer: the nested function taking a reflect.Value that calls itself
	w := c.hashWriter(h)
	if w != h {
		for _, f := range core.WithAnon(outermost(w)) {
			dup := false
			for _, g := range nest {
				if g == f {
					dup = true
				}
			}
			if !dup {
				nest = append(nest, f)
			}
		}
	}
	var subjParam *ssa.Parameter
	for _, p := range w.Params {
		if tReflectValue(p.Type()) {
			subjParam = p
		}
	}
	subj := subjectSet(w, subjParam)
	kf := KindFlow(w, func(v ssa.Value) bool { return subj[v] }, nil)
	isWrite := func(call *ssa.Call) bool {
		key := core.CalleeKey(&call.Call)
		if strings.HasPrefix(key, "hash/maphash.Hash.Write") {
			return true
		}
		// helper functions of the hasher that write (writeUint as a package function)
		if callee := call.Call.StaticCallee(); callee != nil && callee != w && callee != h && c.P.InPkg(callee) {
			wr := false
			core.EachInstr(callee, func(i ssa.Instruction) {
				if c2, ok := i.(*ssa.Call); ok && strings.HasPrefix(core.CalleeKey(&c2.Call), "hash/maphash.Hash.Write") {
					wr = true
				}
			})
			if wr {
				return true
			}
		}
		// helper closures of the hasher that write (writeUint)
		for _, src := range traceSources(call.Call.Value) {
			if mc, ok := src.(*ssa.MakeClosure); ok {
				wr := false
				core.EachInstr(mc.Fn.(*ssa.Function), func(i ssa.Instruction) {
					if c2, ok := i.(*ssa.Call); ok && strings.HasPrefix(core.CalleeKey(&c2.Call), "hash/maphash.Hash.Write") {
						wr = true
					}
				})
				if wr && mc.Fn != w {
					return true
				}
			}
		}
		return false
	}
	// (i) numbers first through the extractor
	var extCall *ssa.Call
	core.EachInstr(w, func(i ssa.Instruction) {
		if call, ok := i.(*ssa.Call); ok && call.Call.StaticCallee() == ext && subj[call.Call.Args[0]] {
			extCall = call
		}
	})
	c.R.Check(extCall != nil, rule, "numbers:through-extractor", c.P.Pos(w.Pos()), "numbers are hashed through the shared exact extractor", "the hasher does not pass values through the number extractor: 1 and 1.0 hash differently although they are equal")
	firstKind := true
	core.EachInstr(w, func(i ssa.Instruction) {
		if call, ok := i.(*ssa.Call); ok && extCall != nil {
			key := core.CalleeKey(&call.Call)
			if key == "reflect.Value.Kind" && subj[call.Call.Args[0]] && !core.Dominates(extCall, call) {
				firstKind = false
			}
			switch key {
			case "reflect.Value.Float", "reflect.Value.Int", "reflect.Value.Uint", "math/big.Rat.Float64", "math.Float64bits":
				if key == "math.Float64bits" {
					// allowed only for the components of a complex number
					if !c.argFromComplex(call.Call.Args[0]) {
						c.R.Bad(rule, "numbers:bits:"+key, c.pos(call), "the hasher writes IEEE-754 bits of a number: -0.0 and 0 are equal but have different bits, and 1 (int) would hash differently from 1.0")
					}
					return
				}
				c.R.Bad(rule, "numbers:machine:"+key, c.pos(call), "the hasher extracts a machine number with "+key+" instead of hashing the normalised rational: equal numbers in different representations (or -0.0 and 0) hash differently, so uniqueItems misses the duplicate")
			}
		}
	})
	c.R.Check(firstKind, rule, "numbers:first", c.P.Pos(w.Pos()), "the number test precedes the kind dispatch", "the kind dispatch can run before the number test")
	// (ii)/(iii)/(iv) per write site: kinds at the site
	nWrites := 0
	core.EachInstr(w, func(i ssa.Instruction) {
		call, ok := i.(*ssa.Call)
		if !ok || !isWrite(call) {
			return
		}
		nWrites++
		ks := kf.At(call)
		pos := c.pos(call)
		if ks != 0 && ks.SubsetOf(Kinds(kInterface, kPointer)) {
			c.R.Bad(rule, "wrapper-writes@"+pos, pos, "the hasher writes something for an interface or pointer wrapper itself: a wrapped value would hash differently from the bare value it equals")
		}
		if ks != 0 && ks.SubsetOf(Kinds(kArray, kSlice)) && ks != Kinds(kArray, kSlice) {
			c.R.Bad(rule, "array-slice-asymmetric@"+pos, pos, fmt.Sprintf("a hash write in the array arm happens only for kind %s: a Go array and the slice holding the same JSON array hash differently although they are equal", ks))
		}
		for _, a := range call.Call.Args {
			if dependsOnCallNamed(a, []string{"reflect.Value.Kind", "reflect.Value.Type", "reflect.Value.Cap", "reflect.Value.Pointer", "reflect.Value.UnsafePointer"}, 5) {
				c.R.Bad(rule, "writes-representation@"+pos, pos, "the hasher writes a value derived from Kind, Type, capacity or address: equal values in different representations hash differently")
			}
		}
	})
	c.R.Floor(rule, "hash write sites", nWrites, 8)
	c.R.OK(rule, "writes:representation-independent", "", fmt.Sprintf("%d write sites: none is specific to a wrapper kind, to one of Array/Slice, or derived from Kind/Type/capacity/address", nWrites))
	// array arm: length prefix unconditional in the {Array,Slice} arm
	// (v) maps: keys sorted before they are hashed; no raw map iteration
	var keysCalls []*ssa.Call
	for _, fn := range nest {
		core.EachInstr(fn, func(i ssa.Instruction) {
			switch x := i.(type) {
			case *ssa.Call:
				key := core.CalleeKey(&x.Call)
				switch key {
				case "reflect.Value.MapRange", "reflect.Value.Seq2", "reflect.Value.Seq":
					c.R.Bad(rule, "map:raw-iteration:"+key, c.pos(x), "the hasher iterates a map in Go's randomised order ("+key+"): the bytes written, and so the hash of equal objects, differ from call to call")
				case "reflect.Value.MapKeys":
					keysCalls = append(keysCalls, x)
				}
			case *ssa.Range:
				if _, isMap := x.X.Type().Underlying().(*types.Map); isMap {
					c.R.Bad(rule, "map:raw-range", c.pos(x), "the hasher ranges over a Go map in randomised order")
				}
			}
		})
	}
	if len(keysCalls) > 0 {
		for ki, keysCall := range keysCalls {
			var sortCall *ssa.Call
			core.EachInstr(keysCall.Parent(), func(i ssa.Instruction) {
				if call, ok := i.(*ssa.Call); ok {
					key := core.CalleeKey(&call.Call)
					if isOrderingSort(call, key) && len(call.Call.Args) > 0 && flowsTo(keysCall, call.Call.Args[0]) {
						sortCall = call
					}
				}
			})
			sorted := sortCall != nil
			if sortCall != nil {
				// every element read of the keys slice is dominated by the sort
				core.EachInstr(keysCall.Parent(), func(i ssa.Instruction) {
					if ia, ok := i.(*ssa.IndexAddr); ok && flowsTo(keysCall, ia.X) && !core.Dominates(sortCall, ia) {
						sorted = false
					}
				})
			}
			c.R.Check(sorted, rule, fmt.Sprintf("map:keys-sorted#%d", ki+1), c.pos(keysCall), "map keys are sorted before any of them is hashed", "the keys of a map are hashed without (or before) being sorted: equal objects hash differently depending on map iteration order")
		}
	} else {
		c.R.Unknown(rule, "map:keys-sorted", "", "the hasher does not obtain map keys through MapKeys; another form is not modelled")
	}
}

func (c *Ctx) argFromComplex(v ssa.Value) bool {
	for d := 0; d < 4; d++ {
		switch x := v.(type) {
		case *ssa.Call:
			key := core.CalleeKey(&x.Call)
			if key == "builtin.real" || key == "builtin.imag" {
				return true
			}
			return false
		case *ssa.Convert:
			v = x.X
		default:
			return false
		}
	}
	return false
}

func dependsOnCallNamed(v ssa.Value, names []string, depth int) bool {
	if v == nil || depth == 0 {
		return false
	}
	switch x := v.(type) {
	case *ssa.Call:
		key := core.CalleeKey(&x.Call)
		for _, n := range names {
			if key == n {
				return true
			}
		}
		for _, a := range x.Call.Args {
			if dependsOnCallNamed(a, names, depth-1) {
				return true
			}
		}
	case *ssa.BinOp:
		return dependsOnCallNamed(x.X, names, depth-1) || dependsOnCallNamed(x.Y, names, depth-1)
	case *ssa.UnOp:
		return dependsOnCallNamed(x.X, names, depth-1)
	case *ssa.Convert:
		return dependsOnCallNamed(x.X, names, depth-1)
	case *ssa.ChangeType:
		return dependsOnCallNamed(x.X, names, depth-1)
	case *ssa.MakeInterface:
		return dependsOnCallNamed(x.X, names, depth-1)
	case *ssa.Phi:
		for _, e := range x.Edges {
			if dependsOnCallNamed(e, names, depth-1) {
				return true
			}
		}
	case *ssa.Extract:
		return dependsOnCallNamed(x.Tuple, names, depth-1)
	case *ssa.TypeAssert:
		return dependsOnCallNamed(x.X, names, depth-1)
	}
	return false
}

func ruleC12Seed(c *Ctx) {
	const rule = "C12/one-seed-per-call"
	m := c.EvalModel(rule)
	if m == nil {
		return
	}
	var make_, set *ssa.Call
	for _, fi := range c.familyInstrs(m.E) {
		if call, ok := fi.I.(*ssa.Call); ok {
			switch core.CalleeKey(&call.Call) {
			case "hash/maphash.MakeSeed":
				make_ = call
			case "hash/maphash.Hash.SetSeed":
				set = call
			}
		}
	}
	if make_ != nil && set != nil && make_.Parent() != set.Parent() {
		c.R.Unknown(rule, "seed", c.pos(make_), "the seed is drawn and used in different functions; the flow between them is not modelled")
		return
	}
	if make_ == nil || set == nil {
		c.R.Unknown(rule, "seed", "", "the evaluator does not use maphash.MakeSeed/SetSeed; another hashing scheme is not modelled")
		return
	}
	c.R.Check(flowsTo(make_, set.Call.Args[1]), rule, "seed:flows-to-SetSeed", c.pos(set), "every per-item hash is seeded with the seed drawn for this call", "the per-item hash is not seeded with the seed drawn for this call")
	inLoop := core.Reachable(make_.Block(), make_.Block(), nil)
	c.R.Check(!inLoop && core.Dominates(make_, set), rule, "seed:drawn-once", c.pos(make_), "the seed is drawn once, outside the item loop", "the seed is drawn inside the item loop: two equal items are hashed with different seeds and land in different buckets, so the duplicate is missed")
	if bad := seedEscapes(make_); bad != "" {
		c.R.Bad(rule, "seed:only-SetSeed", c.pos(make_), "the random seed flows into "+bad)
	} else {
		c.R.OK(rule, "seed:only-SetSeed", c.pos(make_), "the seed flows only into SetSeed")
	}
}

// blockReturnsConst: the block (through straight-line successors) returns the given boolean constant.
func blockReturnsConst(b *ssa.BasicBlock, val string) bool {
	for hops := 0; hops < 4; hops++ {
		last := b.Instrs[len(b.Instrs)-1]
		if ret, ok := last.(*ssa.Return); ok {
			if len(ret.Results) != 1 {
				return false
			}
			k, ok := returnedValue(ret, 0).(*ssa.Const)
			return ok && k.Value != nil && k.Value.String() == val
		}
		if len(b.Succs) != 1 {
			return false
		}
		b = b.Succs[0]
	}
	return false
}

// sameRegionBefore: a is in a block from which the call is reachable (it belongs to the same keyword's code).
func sameRegionBefore(a ssa.Instruction, call ssa.Instruction, fn *ssa.Function) bool {
	return core.Reachable(a.Block(), call.Block(), nil) || a.Block() == call.Block()
}

// hashWriter: the function that does the recursive hashing on behalf of hasher h: a closure of h taking
// the value, or a self-recursive package function or method with a reflect.Value parameter that h calls; else h itself.
func (c *Ctx) hashWriter(h *ssa.Function) *ssa.Function {
	for _, fn := range core.WithAnon(h) {
		if fn != h && len(fn.Params) == 1 && tReflectValue(fn.Params[0].Type()) {
			return fn
		}
	}
	var w *ssa.Function
	for _, fi := range c.familyInstrs(h) {
		call, ok := fi.I.(ssa.CallInstruction)
		if !ok {
			continue
		}
		callee := call.Common().StaticCallee()
		if callee == nil || callee == h || !c.P.InPkg(callee) || !selfRecursive(callee) {
			continue
		}
		for _, p := range callee.Params {
			if tReflectValue(p.Type()) {
				w = callee
			}
		}
	}
	if w != nil {
		c.roles["role:hash-writer"] = w
		return w
	}
	return h
}

// returnedValue: result k of ret; when the function spills its results to cells (deferred calls, range-over-func
// bodies that return) the value stored last on the straight-line path to the return.
func returnedValue(ret *ssa.Return, k int) ssa.Value {
	if k >= len(ret.Results) {
		return nil
	}
	v := ret.Results[k]
	if ld, ok := v.(*ssa.UnOp); ok && ld.Op == token.MUL {
		if cell := resolveCell(ld.X); cell != nil {
			if st := nearestStore(ret, cell); st != nil {
				return st.Val
			}
		}
	}
	return v
}

func init() {
	p := Properties["C11"]
	p.Rules = append(p.Rules, Rule{"C11/equal-is-equality", ruleC11EqualIsEquality})
}

// The exported Equal is the equality function applied to the two values: every return of Equal returns the
// result of that one call, and nothing decides the answer before it (a "fast path" comparing two values of the
// same Go type with == compares json.Numbers by spelling).
func ruleC11EqualIsEquality(c *Ctx) {
	const rule = "C11/equal-is-equality"
	eq := c.Equality(rule)
	E := c.fn("Equal")
	if eq == nil || E == nil {
		if E == nil {
			c.R.Unresolved(rule, "exported function Equal")
		}
		return
	}
	n := 0
	for _, fi := range c.familyInstrs(E) {
		ret, ok := fi.I.(*ssa.Return)
		if !ok || len(fi.Path) > 0 || ret.Parent() != E || len(ret.Results) != 1 {
			continue
		}
		n++
		okAll := true
		for _, src := range traceSourcesDeep(returnedValue(ret, 0)) {
			if call, isCall := src.(*ssa.Call); isCall && call.Call.StaticCallee() == eq {
				continue
			}
			// a shortcut for two values of exactly the same basic Go type (x.(string) == y.(string), nil == nil):
			// for those, == is JSON equality; a defined type such as json.Number is not matched by the assertion
			if exactBasicComparison(src) {
				continue
			}
			okAll = false
		}
		c.R.Check(okAll, rule, fmt.Sprintf("Equal:return#%d", n), c.pos(ret), "Equal returns the result of the equality function", "Equal can return an answer that is not the result of the equality function (a shortcut before it): values the shortcut compares by their Go representation (two json.Numbers, by spelling) get an answer that differs from JSON equality")
	}
	c.R.Floor(rule, "returns of Equal", n, 1)
}

// exactBasicComparison: v is a constant, or `a == b` where both operands are the results of type assertions to one
// and the same unnamed basic type (string, bool, float64 ...), or a comparison of the interface arguments with nil.
func exactBasicComparison(v ssa.Value) bool {
	if k, ok := v.(*ssa.Const); ok {
		_ = k
		return true
	}
	bo, ok := v.(*ssa.BinOp)
	if !ok || (bo.Op != token.EQL && bo.Op != token.NEQ) {
		return false
	}
	asserted := func(x ssa.Value) types.Type {
		for _, src := range traceSources(x) {
			switch y := src.(type) {
			case *ssa.TypeAssert:
				return y.AssertedType
			case *ssa.Extract:
				if ta, ok := y.Tuple.(*ssa.TypeAssert); ok && y.Index == 0 {
					return ta.AssertedType
				}
			}
		}
		return nil
	}
	tx, ty := asserted(bo.X), asserted(bo.Y)
	if tx != nil && ty != nil {
		bx, ok1 := tx.(*types.Basic)
		by, ok2 := ty.(*types.Basic)
		return ok1 && ok2 && bx.Kind() == by.Kind()
	}
	// interface == nil
	if k, ok := bo.Y.(*ssa.Const); ok && k.IsNil() {
		_, isIface := bo.X.Type().Underlying().(*types.Interface)
		return isIface
	}
	if k, ok := bo.X.(*ssa.Const); ok && k.IsNil() {
		_, isIface := bo.Y.Type().Underlying().(*types.Interface)
		return isIface
	}
	return false
}

func init() {
	p := Properties["C08"]
	p.Rules = append(p.Rules, Rule{"C08/property-names-are-strings", ruleC08PropertyNames})
}

// The names handed to the propertyNames subschema are JSON strings whatever the Go type of the map's keys: the
// instance of that evaluation is reflect.ValueOf of a Go string. A key taken from the map as it is keeps its Go
// type - a key of type json.Number would be evaluated as a number.
func ruleC08PropertyNames(c *Ctx) {
	const rule = "C08/property-names-are-strings"
	m := c.EvalModel(rule)
	if m == nil {
		return
	}
	n := 0
	for _, s := range m.Sites {
		isPN := false
		for _, src := range s.SchemaSrc {
			if src == "Schema.PropertyNames" {
				isPN = true
			}
		}
		if !isPN {
			continue
		}
		n++
		okStr, why := false, "the instance is not built by reflect.ValueOf"
		converted := false
		for _, src := range append(traceSourcesDeep(s.Inst), s.Inst) {
			if call, ok := src.(*ssa.Call); ok && core.CalleeKey(&call.Call) == "reflect.Value.Convert" {
				converted = true
			}
		}
		for _, src := range append(traceSourcesDeep(s.Inst), s.Inst) {
			call, ok := src.(*ssa.Call)
			if !ok {
				continue
			}
			switch core.CalleeKey(&call.Call) {
			case "reflect.ValueOf":
				t := peelIface(call.Call.Args[0]).Type()
				if b, isBasic := t.Underlying().(*types.Basic); isBasic && b.Info()&types.IsString != 0 && !isNamed(t, "encoding/json", "Number") {
					okStr = true
				} else {
					why = "reflect.ValueOf is applied to a " + t.String()
				}
			case "reflect.Value.Convert":
				okStr, why = false, "the name is converted to another type (the map's key type) before it is evaluated"
			}
		}
		if converted {
			okStr, why = false, "the name is converted to another type (the map's key type) before it is evaluated"
		}
		if !okStr && !converted {
			for _, src := range append(traceSourcesDeep(s.Inst), s.Inst) {
				if p, ok := src.(*ssa.Parameter); ok {
					why = "the instance is the value " + p.Name() + " handed over by an iterator (a map key with its Go type)"
				}
				if call, ok := src.(*ssa.Call); ok && strings.HasPrefix(core.CalleeKey(&call.Call), "reflect.MapIter.Key") {
					why = "the instance is the map key as stored"
				}
			}
		}
		c.R.Check(okStr, rule, s.key(), c.pos(s.siteInstr()), "property names are evaluated as Go strings", "the property name evaluated against propertyNames is not a Go string built from the name ("+why+"): a map keyed by json.Number (or another string-kind type with its own meaning) has its keys judged as numbers, the same object decoded into map[string]any as strings")
	}
	c.R.Floor(rule, "evaluations of propertyNames", n, 1)
}

func init() {
	for _, pid := range []string{"C12", "C08"} {
		pid := pid
		p := Properties[pid]
		p.Rules = append(p.Rules, Rule{pid + "/nilness-agrees", func(c *Ctx) { ruleNilnessAgrees(c, pid+"/nilness-agrees") }})
	}
}

// Equal values must hash alike (uniqueItems compares only within a hash bucket). If the hasher distinguishes a
// nil container from an empty one (a branch on IsNil for maps or slices), equality must distinguish them too;
// otherwise a nil map and an empty map are equal for enum/const but land in different buckets.
func ruleNilnessAgrees(c *Ctx, rule string) {
	h, eq := c.Hasher(rule), c.Equality(rule)
	if h == nil || eq == nil {
		return
	}
	nilKinds := func(root *ssa.Function) KindSet {
		var out KindSet
		for _, fn := range c.familyFuncs(root) {
			var subjParam *ssa.Parameter
			for _, p := range fn.Params {
				if tReflectValue(p.Type()) && subjParam == nil {
					subjParam = p
				}
			}
			if subjParam == nil {
				// a closure of the hasher working on a captured value: use the enclosing function's flow
				continue
			}
			subj := subjectSet(fn, subjParam)
			kf := KindFlow(fn, func(v ssa.Value) bool { return subj[v] }, nil)
			core.EachInstr(fn, func(i ssa.Instruction) {
				call, ok := i.(*ssa.Call)
				if !ok || core.CalleeKey(&call.Call) != "reflect.Value.IsNil" || !subj[call.Call.Args[0]] {
					return
				}
				// only a test whose outcome selects different behaviour counts: it must feed a branch or a comparison
				used := false
				if refs := call.Referrers(); refs != nil {
					for _, r := range *refs {
						switch r.(type) {
						case *ssa.If, *ssa.BinOp, *ssa.UnOp, *ssa.Phi:
							used = true
						}
					}
				}
				if used {
					out |= kf.At(call) & Kinds(kMap, kSlice)
				}
			})
		}
		return out
	}
	// the hasher's recursive writer may be a closure: look at the whole nest of the hasher
	hk := nilKinds(h)
	if w := c.hashWriter(h); w != nil && w != h {
		hk |= nilKinds(outermost(w))
		for _, f := range core.WithAnon(outermost(w)) {
			if f != outermost(w) {
				hk |= nilKinds(f)
			}
		}
	}
	ek := nilKinds(eq)
	for _, k := range []struct {
		name string
		set  KindSet
	}{{"map", Kinds(kMap)}, {"slice", Kinds(kSlice)}} {
		if hk&k.set == 0 {
			c.R.OK(rule, "hash:"+k.name, c.P.Pos(h.Pos()), "the hasher does not tell a nil "+k.name+" from an empty one")
			continue
		}
		c.R.Check(ek&k.set != 0, rule, "hash:"+k.name, c.P.Pos(h.Pos()), "equality also compares the nilness of a "+k.name,
			"the hasher writes something else for a nil "+k.name+" than for an empty one, but the equality function does not compare nilness for that kind: a nil and an empty "+k.name+" are equal for enum and const and hash differently, so uniqueItems never compares them")
	}
}

func init() {
	p := Properties["C08"]
	p.Rules = append(p.Rules,
		Rule{"C08/zero-means-missing-only-for-structs", ruleC08ZeroMissing},
		Rule{"C08/instance-facts-unconditional", ruleC08InstanceFacts})
}

// "An optional property with the zero value counts as missing" is a rule for Go struct instances (a struct field
// always exists). For a map instance the entry is there because the document has it: {"count":0} in a
// map[string]int is the same JSON document as in a map[string]any. So a test of IsZero on a property value may
// influence the evaluator only where the instance is a struct.
func ruleC08ZeroMissing(c *Ctx) {
	const rule = "C08/zero-means-missing-only-for-structs"
	m := c.EvalModel(rule)
	if m == nil {
		return
	}
	kf := m.instanceKindFlow(c, m.E)
	isSame := func(v ssa.Value) bool { return m.instLoc(c, v, map[ssa.Value]bool{}) == "same" }
	n := 0
	c.eachFamOwn(m.E, func(i ssa.Instruction) {
		call, ok := i.(*ssa.Call)
		if !ok || core.CalleeKey(&call.Call) != "reflect.Value.IsZero" || isSame(call.Call.Args[0]) {
			return
		}
		// only property values of the instance (values reached from it), not schema fields
		derived := false
		for _, x := range backSlice(call.Call.Args[0], 30) {
			if isSame(x) {
				derived = true
			}
			if p, isP := x.(*ssa.Parameter); isP && isRangeFuncBody(p.Parent()) {
				if at := rangeFuncCall(p.Parent()); at != nil {
					if rc, ok := at.(ssa.CallInstruction); ok {
						for _, y := range backSlice(rc.Common().Value, 30) {
							if isSame(y) {
								derived = true
							}
						}
					}
				}
			}
		}
		if !derived {
			return
		}
		n++
		ks := kf.At(call)
		c.R.Check(ks.SubsetOf(Kinds(kStruct)), rule, fmt.Sprintf("%s:IsZero#%d", core.FuncName(call.Parent()), n), c.pos(call), "the zero test of a property value is made for struct instances only",
			fmt.Sprintf("a property value is tested for being the zero value while the instance can have kind %s: for a typed map (map[string]int) the entry {\"count\":0} is then treated as missing - its subschema is skipped and it is not marked evaluated - although the same document in a map[string]any is validated", ks))
	})
	if n == 0 {
		c.R.OK(rule, "none", c.P.Pos(m.E.Pos()), "the evaluator does not test property values for being zero")
	}
}

// What the evaluator finds out about the instance (is it a number, what is its length ...) must not depend on
// which keywords the schema happens to have. A boolean that is the result of a test of the instance on one path
// and a constant on the other, where the path is chosen by the presence of keywords, and that guards another
// keyword group, makes that group's verdict depend on unrelated keywords and on the Go representation.
func ruleC08InstanceFacts(c *Ctx) {
	const rule = "C08/instance-facts-unconditional"
	m := c.EvalModel(rule)
	if m == nil {
		return
	}
	isSame := func(v ssa.Value) bool { return m.instLoc(c, v, map[ssa.Value]bool{}) == "same" }
	fromInstance := func(v ssa.Value) bool {
		for _, x := range backSlice(v, 30) {
			if call, ok := x.(*ssa.Call); ok {
				for _, a := range call.Call.Args {
					if isSame(a) {
						return true
					}
				}
			}
		}
		return false
	}
	readsSchema := func(v ssa.Value) bool {
		for _, x := range backSlice(v, 30) {
			if fa, ok := x.(*ssa.FieldAddr); ok && c.fieldOwner(fa) == "Schema" {
				return true
			}
		}
		return false
	}
	n := 0
	c.eachFamOwn(m.E, func(i ssa.Instruction) {
		phi, ok := i.(*ssa.Phi)
		if !ok || !isBoolType(phi.Type()) {
			return
		}
		var hasConst, hasFact bool
		for _, e := range phi.Edges {
			if _, isK := e.(*ssa.Const); isK {
				hasConst = true
			} else if fromInstance(e) {
				hasFact = true
			}
		}
		if !hasConst || !hasFact {
			return
		}
		// is the choice between "compute the fact" and "take the constant" made by the presence of keywords? There must be
		// a branch on a schema condition one outcome of which leads to where the fact is computed, while the constant
		// arrives by a path that avoids that outcome.
		bySchema := ""
		for k, e := range phi.Edges {
			if _, isK := e.(*ssa.Const); !isK {
				continue
			}
			constPred := phi.Block().Preds[k]
			for k2, e2 := range phi.Edges {
				if k2 == k {
					continue
				}
				if _, isK := e2.(*ssa.Const); isK || !fromInstance(e2) {
					continue
				}
				def, ok := e2.(ssa.Instruction)
				if !ok {
					continue
				}
				for _, b := range phi.Parent().Blocks {
					ifi, isIf := b.Instrs[len(b.Instrs)-1].(*ssa.If)
					if !isIf || len(b.Succs) != 2 || !readsSchema(ifi.Cond) || fromInstance(ifi.Cond) || !b.Dominates(constPred) {
						continue
					}
					for _, sT := range b.Succs {
						if sT.Dominates(def.Block()) && !sT.Dominates(constPred) && sT != constPred {
							bySchema = c.pos(ifi)
						}
					}
				}
			}
		}
		if bySchema == "" {
			return
		}
		// does the merged value guard something (a branch), beyond the block it was computed for?
		guards := false
		var walk func(v ssa.Value, depth int)
		walk = func(v ssa.Value, depth int) {
			if depth == 0 || v.Referrers() == nil {
				return
			}
			for _, r := range *v.Referrers() {
				switch x := r.(type) {
				case *ssa.If:
					guards = true
				case *ssa.UnOp:
					walk(x, depth-1)
				case *ssa.Phi:
					walk(x, depth-1)
				case *ssa.BinOp:
					walk(x, depth-1)
				}
			}
		}
		walk(phi, 4)
		if !guards {
			return
		}
		n++
		c.R.Bad(rule, fmt.Sprintf("%s:conditional-fact#%d", core.FuncName(phi.Parent()), n), c.pos(phi),
			fmt.Sprintf("a fact about the instance (%s) is computed only when certain keywords are present (test at %s) and is a constant otherwise, and it guards a later branch: e.g. `is a number` known only next to minimum/maximum lets a json.Number be treated as a string by maxLength when no numeric keyword is there, while the float64 decoding of the same document is not", phi.Comment, bySchema))
	})
	if n == 0 {
		c.R.OK(rule, "none", c.P.Pos(m.E.Pos()), "no fact about the instance is computed under a keyword-presence test and used to guard another keyword group")
	}
}

func init() {
	for _, pid := range []string{"C11", "C12"} {
		pid := pid
		Properties[pid].Rules = append(Properties[pid].Rules, Rule{pid + "/number-extraction-total", func(c *Ctx) { ruleNumberExtractionTotal(c, pid+"/number-extraction-total") }})
	}
}

// ruleNumberExtractionTotal: the number extractor says "not a number" only for values that are not numbers. A
// `return _, false` that is reached although the value has been recognised as a json.Number makes that number a
// non-number for the equality function, which then compares it by its other traits (a json.Number has kind string).
func ruleNumberExtractionTotal(c *Ctx, rule string) {
	ext := c.NumberExtractor(rule)
	if ext == nil {
		return
	}
	n := 0
	for _, fn := range core.WithAnon(ext) {
		core.EachInstr(fn, func(i ssa.Instruction) {
			ret, ok := i.(*ssa.Return)
			if !ok || fn != ext || len(ret.Results) != 2 {
				return
			}
			for _, rv := range append(traceSources(ret.Results[1]), ret.Results[1]) {
				k, isConst := rv.(*ssa.Const)
				if !isConst || k.Value == nil || k.Value.String() != "false" {
					continue
				}
				n++
				recognised := ""
				afterSetString := false
				for _, g := range guardsOf(ret) {
					if ex, ok := g.Cond.(*ssa.Extract); ok && !g.Pol && ex.Index == 1 {
						if sc, ok := ex.Tuple.(*ssa.Call); ok && core.CalleeKey(&sc.Call) == "math/big.Rat.SetString" {
							afterSetString = true
						}
					}
					if ex, ok := g.Cond.(*ssa.Extract); ok && g.Pol && ex.Index == 1 {
						if ta, ok := ex.Tuple.(*ssa.TypeAssert); ok && isNamed(ta.AssertedType, "encoding/json", "Number") {
							recognised = "json.Number"
						}
					}
					if gc, ok := g.Cond.(*ssa.Call); ok && g.Pol {
						switch core.CalleeKey(&gc.Call) {
						case "reflect.Value.CanInt", "reflect.Value.CanUint", "reflect.Value.CanFloat":
							recognised = strings.TrimPrefix(core.CalleeKey(&gc.Call), "reflect.Value.")
						}
					}
				}
				if recognised == "" {
					c.R.OK(rule, fmt.Sprintf("extractor:not-a-number#%d", n), c.pos(ret), "\"not a number\" is answered for a value not recognised as a number")
					continue
				}
				// (the construct says why: the one exit the pinned tree has is the failure of the exact conversion; any
				// other way of giving up on a recognised number is a different finding)
				why := fmt.Sprintf(":other#%d", n)
				if afterSetString {
					why = ""
				}
				c.R.Bad(rule, "extractor:gives-up-on:"+recognised+why, c.pos(ret), "the number extractor answers \"not a number\" for a value it has recognised as a "+recognised+" (the exact conversion failed): such a number is then compared by its other traits - a json.Number has kind string, so it equals the string with the same spelling, and `const`/`enum` accept it for that string")
				break
			}
		})
	}
	c.R.Floor(rule, "\"not a number\" exits of the number extractor", n, 2)
}

func init() {
	for _, pid := range []string{"C08", "C01"} {
		pid := pid
		Properties[pid].Rules = append(Properties[pid].Rules, Rule{pid + "/classifier-covers-kinds", func(c *Ctx) { ruleClassifierCoversKinds(c, pid+"/classifier-covers-kinds") }})
	}
}

// The type classifier names every Go kind that carries a JSON value: "array" for Array and Slice, "object" for Map
// and Struct, "string" for String, "boolean" for Bool - the same kinds for which the evaluator runs the array, object
// and string keyword groups. A kind dropped from one arm falls into the "not a JSON value" default: `type` rejects
// a Go array, and under not/anyOf/if the verdict flips silently.
func ruleClassifierCoversKinds(c *Ctx, rule string) {
	cls := c.TypeClassifier(rule)
	if cls == nil {
		return
	}
	subj := c.subjectsDeep(cls, cls.Params[0])
	kf := c.kindFlowWithTypeTests(cls, func(v ssa.Value) bool { return subj[v] }, nil)
	got := map[string]KindSet{}
	for _, fn := range core.WithAnon(cls) {
		core.EachInstr(fn, func(i ssa.Instruction) {
			ret, ok := i.(*ssa.Return)
			if !ok || fn != cls || len(ret.Results) == 0 {
				return
			}
			for _, src := range append(traceSources(ret.Results[0]), ret.Results[0]) {
				if s, ok := constString(src); ok && s != "" {
					got[s] |= kf.At(ret)
				}
				// the name looked up in a package-level table from kinds to names
				var lk *ssa.Lookup
				switch x := src.(type) {
				case *ssa.Lookup:
					lk = x
				case *ssa.Extract:
					lk, _ = x.Tuple.(*ssa.Lookup)
				}
				if lk == nil {
					continue
				}
				kc, isKind := lk.Index.(*ssa.Call)
				if !isKind || core.CalleeKey(&kc.Call) != "reflect.Value.Kind" || !subj[kc.Call.Args[0]] {
					continue
				}
				if g := loadedFromGlobal(lk.X); g != nil {
					for kind, name := range c.globalKindTable(g) {
						if kind >= 0 && kind < nKinds {
							got[name] |= Kinds(kind) & kf.At(ret)
						}
					}
				}
			}
		})
	}
	// numbers: every numeric kind is answered "integer" or "number"
	numeric := intKinds | uintKinds | floatKinds
	gotNum := got["integer"] | got["number"]
	c.R.Check(numeric.SubsetOf(gotNum), rule, "classifier:number", c.P.Pos(cls.Pos()), fmt.Sprintf("\"integer\" or \"number\" is answered for every kind in %s", numeric),
		fmt.Sprintf("the type classifier answers \"integer\" or \"number\" only for the kinds %s, not for all of %s: an instance of the missing kind is \"not a JSON value\" for the `type` keyword although the numeric keywords, enum and const still treat it as a number", gotNum&numeric, numeric))
	want := map[string]KindSet{"array": Kinds(kArray, kSlice), "object": Kinds(kMap, kStruct), "string": Kinds(kString), "boolean": Kinds(kBool)}
	for _, name := range []string{"array", "boolean", "object", "string"} {
		w := want[name]
		c.R.Check(w.SubsetOf(got[name]), rule, "classifier:"+name, c.P.Pos(cls.Pos()), fmt.Sprintf("%q is answered for every kind in %s", name, w),
			fmt.Sprintf("the type classifier answers %q only for the kinds %s, not for all of %s: an instance of the missing kind is \"not a JSON value\" for the `type` keyword although the %s keywords still apply to it, so `type` rejects it and not/anyOf/if built on `type` flip", name, got[name]&w, w, name))
	}
}

func init() {
	for _, pid := range []string{"C12", "C08", "C11"} {
		pid := pid
		Properties[pid].Rules = append(Properties[pid].Rules, Rule{pid + "/struct-fields-agree", func(c *Ctx) { ruleStructFieldsAgree(c, pid+"/struct-fields-agree") }})
	}
}

// Equality and the hasher look at the same fields of a struct: if one of them passes over unexported fields
// (a guard on StructField.IsExported around the member recursion) the other one does too. Otherwise two structs that
// are equal hash differently (the duplicate is never compared), or the other way round.
func ruleStructFieldsAgree(c *Ctx, rule string) {
	eq := c.Equality(rule)
	h := c.Hasher(rule)
	if eq == nil || h == nil {
		return
	}
	// member recursion: a call (of the function itself, or of a local closure that does its work) whose argument is a
	// field taken out of the subject with Field/FieldByIndex/FieldByName
	filters := map[*ssa.Function]map[string]bool{}
	guarded := func(root *ssa.Function) (n int, exportedOnly, all bool) {
		all = true
		filters[root] = map[string]bool{}
		for _, fi := range c.familyInstrs(root) {
			call, ok := fi.I.(*ssa.Call)
			if !ok {
				continue
			}
			member := false
			for _, a := range call.Call.Args {
				if fc, ok := a.(*ssa.Call); ok {
					switch core.CalleeKey(&fc.Call) {
					case "reflect.Value.Field", "reflect.Value.FieldByIndex", "reflect.Value.FieldByName":
						member = true
					}
				}
			}
			if !member || (call.Call.StaticCallee() != root && call.Call.StaticCallee() != nil && !isNested(call.Call.StaticCallee(), root)) {
				continue
			}
			n++
			g := false
			for _, ga := range famGuards(fi) {
				if gc, ok := ga.Cond.(*ssa.Call); ok && ga.Pol && core.CalleeKey(&gc.Call) == "reflect.StructField.IsExported" {
					g = true
					continue
				}
				// any other test of the field's description (its tag, its name, whether it is embedded)
				for _, v := range append(backSlice(ga.Cond, 10), ga.Cond) {
					switch x := v.(type) {
					case *ssa.Call:
						for _, a := range x.Call.Args {
							if isNamed(a.Type(), "reflect", "StructField") || isNamed(a.Type(), "reflect", "StructTag") {
								if k := core.CalleeKey(&x.Call); k != "reflect.StructField.IsExported" {
									filters[root][k] = true
								}
							}
						}
					case *ssa.Field:
						if isNamed(x.X.Type(), "reflect", "StructField") {
							if nm := c.fieldName(x.X.Type(), x.Field); nm != "StructField.Index" && nm != "StructField.Type" {
								filters[root][nm] = true
							}
						}
					}
				}
			}
			if g {
				exportedOnly = true
			} else {
				all = false
			}
		}
		return n, exportedOnly, all && exportedOnly
	}
	nEq, eqSome, eqAll := guarded(eq)
	nH, hSome, hAll := guarded(h)
	if nEq == 0 || nH == 0 {
		c.R.OK(rule, "no-struct-recursion", "", fmt.Sprintf("member recursions on struct fields: equality %d, hasher %d: nothing to compare", nEq, nH))
		return
	}
	fe, fh := sortedKeys(filters[eq]), sortedKeys(filters[h])
	c.R.Check(strings.Join(fe, ",") == strings.Join(fh, ","), rule, "same-field-filter", c.P.Pos(eq.Pos()), "equality and the hasher pass over the same struct fields",
		fmt.Sprintf("equality decides which struct fields to pass over by %v, the hasher by %v: a field one of them ignores and the other does not makes two structs equal that hash differently (uniqueItems misses the duplicate) or the other way round; and a filter on the tag name alone also drops the field tagged `json:\"-,\"`, which encoding/json does emit (under the name \"-\")", fe, fh))
	c.R.Check(eqSome == hSome && eqAll == hAll, rule, "exported-fields-only", c.P.Pos(h.Pos()), "equality and the hasher agree on whether unexported struct fields count",
		fmt.Sprintf("equality passes over unexported struct fields: %v; the hasher does: %v: two structs that differ only in a field one of the two functions ignores are equal but hash differently (uniqueItems never compares them), or hash alike and compare unequal", eqAll, hAll))
}

// globalKindTable: the constant entries (reflect.Kind -> string) with which package initialisation fills the map
// stored in global g.
func (c *Ctx) globalKindTable(g *ssa.Global) map[int]string {
	out := map[int]string{}
	initFn := c.P.SSAPkg.Func("init")
	if initFn == nil {
		return out
	}
	var table ssa.Value
	core.EachInstr(initFn, func(i ssa.Instruction) {
		if st, ok := i.(*ssa.Store); ok && st.Addr == ssa.Value(g) {
			table = st.Val
		}
	})
	if table == nil {
		return out
	}
	core.EachInstr(initFn, func(i ssa.Instruction) {
		mu, ok := i.(*ssa.MapUpdate)
		if !ok || mu.Map != table {
			return
		}
		k, ok1 := mu.Key.(*ssa.Const)
		v, ok2 := constString(mu.Value)
		if ok1 && ok2 && k.Value != nil {
			if kv, ok := constInt(k); ok {
				out[int(kv)] = v
			}
		}
	})
	return out
}

// sliceWithReceivers: backSlice that also follows the receiver of interface method calls (v.Type().Elem().Kind()).
func sliceWithReceivers(v ssa.Value, limit int) []ssa.Value {
	seen := map[ssa.Value]bool{}
	var out []ssa.Value
	var walk func(v ssa.Value)
	walk = func(v ssa.Value) {
		if v == nil || seen[v] || len(out) >= limit {
			return
		}
		seen[v] = true
		out = append(out, v)
		for _, x := range backSlice(v, 12) {
			if !seen[x] {
				seen[x] = true
				out = append(out, x)
			}
			if cc, ok := x.(*ssa.Call); ok && cc.Call.IsInvoke() {
				walk(cc.Call.Value)
			}
		}
	}
	walk(v)
	return out
}
