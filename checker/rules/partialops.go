package rules

import (
	"fmt"
	"go/constant"
	"go/token"
	"go/types"
	"sort"
	"strings"

	"golang.org/x/tools/go/ssa"

	"verif/checker/core"
)

// Partial-operation guard (DESIGN 3.8): reflect operations that panic outside
// a kind precondition must be dominated by kind tests implying it, or the
// function's callers must guarantee it (checked at every call site), or the
// site is exempted with a reason.

var reflectPre = map[string]KindSet{
	"Elem":          Kinds(kPointer, kInterface),
	"IsNil":         nilable,
	"Len":           Kinds(kArray, kChan, kMap, kSlice, kString),
	"Index":         Kinds(kArray, kSlice, kString),
	"MapIndex":      Kinds(kMap),
	"MapKeys":       Kinds(kMap),
	"MapRange":      Kinds(kMap),
	"SetMapIndex":   Kinds(kMap),
	"Seq2":          Kinds(kArray, kPointer, kSlice, kString, kMap, kFunc),
	"Field":         Kinds(kStruct),
	"FieldByIndex":  Kinds(kStruct),
	"FieldByName":   Kinds(kStruct),
	"NumField":      Kinds(kStruct),
	"Int":           intKinds,
	"Uint":          uintKinds,
	"Float":         floatKinds,
	"Bool":          Kinds(kBool),
	"Complex":       Kinds(kComplex64, kComplex128),
	"Bytes":         Kinds(kSlice, kArray),
	"UnsafePointer": Kinds(kChan, kFunc, kMap, kPointer, kSlice, kUnsafePointer, kString),
	"Pointer":       Kinds(kChan, kFunc, kMap, kPointer, kSlice, kUnsafePointer),
	"Type":          AllKinds &^ Kinds(kInvalid),
	"IsZero":        AllKinds &^ Kinds(kInvalid),
	"Interface":     AllKinds &^ Kinds(kInvalid),
}

// kinds of the fields of Schema by Go field name (filled per program); FieldByName with such a constant yields a valid Value of that kind.
var schemaFieldKinds = map[string]KindSet{}

func kindOfStaticType(t types.Type) KindSet {
	switch x := t.Underlying().(type) {
	case *types.Pointer:
		return Kinds(kPointer)
	case *types.Struct:
		return Kinds(kStruct)
	case *types.Map:
		return Kinds(kMap)
	case *types.Slice:
		return Kinds(kSlice)
	case *types.Array:
		return Kinds(kArray)
	case *types.Chan:
		return Kinds(kChan)
	case *types.Signature:
		return Kinds(kFunc)
	case *types.Interface:
		return AllKinds
	case *types.Basic:
		switch {
		case x.Kind() == types.String:
			return Kinds(kString)
		case x.Kind() == types.Bool:
			return Kinds(kBool)
		case x.Info()&types.IsInteger != 0 && x.Info()&types.IsUnsigned == 0:
			return intKinds
		case x.Info()&types.IsUnsigned != 0:
			return uintKinds
		case x.Info()&types.IsFloat != 0:
			return floatKinds
		case x.Info()&types.IsComplex != 0:
			return Kinds(kComplex64, kComplex128)
		}
	}
	return AllKinds
}

// staticKinds: what is known about the kind of a reflect.Value from how it was produced.
func staticKinds(v ssa.Value, depth int) KindSet {
	if depth == 0 {
		return AllKinds
	}
	switch x := v.(type) {
	case *ssa.Call:
		key := core.CalleeKey(&x.Call)
		switch key {
		case "reflect.ValueOf":
			return kindOfStaticType(peelIface(x.Call.Args[0]).Type())
		case "reflect.New":
			return Kinds(kPointer)
		case "reflect.MakeMap", "reflect.MakeMapWithSize":
			return Kinds(kMap)
		case "reflect.MakeSlice":
			return Kinds(kSlice)
		case "reflect.Value.Elem":
			// Elem of ValueOf(x) with x of static type *T
			if vo, ok := x.Call.Args[0].(*ssa.Call); ok && core.CalleeKey(&vo.Call) == "reflect.ValueOf" {
				if pt, ok := peelIface(vo.Call.Args[0]).Type().Underlying().(*types.Pointer); ok {
					return kindOfStaticType(pt.Elem())
				}
			}
		case "reflect.Value.Convert", "reflect.Value.Addr":
			if key == "reflect.Value.Addr" {
				return Kinds(kPointer)
			}
			return AllKinds &^ Kinds(kInvalid)
		case "reflect.Value.Field", "reflect.Value.FieldByIndex", "reflect.Value.Index", "reflect.MapIter.Key", "reflect.MapIter.Value":
			// always a valid Value when the operation itself succeeds
			return AllKinds &^ Kinds(kInvalid)
		case "reflect.Value.FieldByName":
			if name, ok := constString(x.Call.Args[1]); ok {
				if ks, ok := schemaFieldKinds[name]; ok {
					return ks
				}
			}
		}
	case *ssa.Phi:
		var s KindSet
		for _, e := range x.Edges {
			if e == x {
				continue
			}
			s |= staticKinds(e, depth-1)
		}
		return s
	case *ssa.Parameter:
		// the key or value of a reflect map/sequence iteration written as range-over-func: always a valid Value
		if reflectSeqOf(x) != nil {
			return AllKinds &^ Kinds(kInvalid)
		}
	}
	return AllKinds
}

// reflectSeqOf: p is a parameter of the body of `for k, v := range X.Seq2()` (or Seq): returns X.
func reflectSeqOf(p *ssa.Parameter) ssa.Value {
	body := p.Parent()
	if body == nil || body.Parent() == nil || !strings.Contains(body.Synthetic, "range-over-func") {
		return nil
	}
	var recv ssa.Value
	core.EachInstr(body.Parent(), func(i ssa.Instruction) {
		call, ok := i.(*ssa.Call)
		if !ok || call.Call.StaticCallee() != nil || call.Call.IsInvoke() || len(call.Call.Args) != 1 {
			return
		}
		mc, ok := call.Call.Args[0].(*ssa.MakeClosure)
		if !ok || mc.Fn != body {
			return
		}
		for _, src := range traceSources(call.Call.Value) {
			if sc, ok := src.(*ssa.Call); ok {
				if k := core.CalleeKey(&sc.Call); k == "reflect.Value.Seq2" || k == "reflect.Value.Seq" {
					recv = sc.Call.Args[0]
				}
			}
		}
	})
	return recv
}

type partialSite struct {
	fn      *ssa.Function
	call    ssa.Instruction
	op      string
	recv    ssa.Value
	allowed KindSet
	got     KindSet
	param   *ssa.Parameter // the parameter the receiver denotes, if any
}

// subjectOf: the predicate identifying "the same reflect.Value" as recv in fn, and what kills the knowledge.
func (c *Ctx) subjectOf(fn *ssa.Function, recv ssa.Value) (func(ssa.Value) bool, func(ssa.Instruction) bool, *ssa.Parameter) {
	// a captured / reassigned local: loads of one cell
	if ld, ok := recv.(*ssa.UnOp); ok && ld.Op == token.MUL {
		if cell := resolveCell(ld.X); cell != nil {
			s, k := cellSubject(cell, nil)
			var p *ssa.Parameter
			for _, sv := range cellStores(cell) {
				if pp, ok := sv.(*ssa.Parameter); ok {
					p = pp
				}
			}
			return s, k, p
		}
	}
	for _, p := range fn.Params {
		if !tReflectValue(p.Type()) {
			continue
		}
		set := subjectSet(fn, p)
		if set[recv] {
			return func(v ssa.Value) bool { return set[v] }, nil, p
		}
	}
	// free variable holding a reflect.Value (closure over a parent's value)
	return func(v ssa.Value) bool { return v == recv }, nil, nil
}

var kindsDepth int

type kfKey struct {
	fn   *ssa.Function
	repr ssa.Value
}

var kfCache = map[kfKey]*kindFlow{}

func (c *Ctx) kindsAt(fn *ssa.Function, recv ssa.Value, at ssa.Instruction) (KindSet, *ssa.Parameter) {
	subj, kills, p := c.subjectOf(fn, recv)
	var repr ssa.Value = recv
	if p != nil {
		repr = p
	}
	if ld, ok := recv.(*ssa.UnOp); ok {
		if cell := resolveCell(ld.X); cell != nil {
			repr = cell
		}
	}
	key := kfKey{fn, repr}
	kf := kfCache[key]
	if kf == nil {
		kf = KindFlow(fn, subj, kills)
		// extend with type-equality knowledge
		kf = c.kindFlowWithTypeTests(fn, subj, kills)
		kfCache[key] = kf
	}
	ks := kf.At(at)
	if p != nil && reflectSeqOf(p) != nil {
		ks &= AllKinds &^ Kinds(kInvalid) // the key or value of a reflect iteration is a valid Value
	}
	if p == nil {
		ks &= staticKinds(recv, 4)
		if phi, ok := recv.(*ssa.Phi); ok && kindsDepth < 6 {
			// what is known about each incoming value at the end of its predecessor
			kindsDepth++
			var u KindSet
			for k, e := range phi.Edges {
				if e == phi {
					continue
				}
				pred := phi.Block().Preds[k]
				ek, _ := c.kindsAt(fn, e, pred.Instrs[len(pred.Instrs)-1])
				// the test that selects this very edge also refines the incoming value
				if ifi, ok := pred.Instrs[len(pred.Instrs)-1].(*ssa.If); ok && len(pred.Succs) == 2 && pred.Succs[0] != pred.Succs[1] {
					subjE, killsE, _ := c.subjectOf(fn, e)
					kfe := c.kindFlowWithTypeTests(fn, subjE, killsE)
					t, f := kfe.refineFull(ifi.Cond, ek)
					if pred.Succs[0] == phi.Block() {
						ek = t
					} else {
						ek = f
					}
				}
				u |= ek
			}
			kindsDepth--
			ks &= u
		}
	}
	return ks, p
}

// kindFlowWithTypeTests: like KindFlow, and additionally v.Type() == T (T a type obtained
// with reflect.TypeFor[X]) narrows v to the kind of X.
func (c *Ctx) kindFlowWithTypeTests(fn *ssa.Function, subject func(ssa.Value) bool, kills func(ssa.Instruction) bool) *kindFlow {
	typeKind := func(v ssa.Value) (KindSet, bool) {
		for _, s := range traceSources(v) {
			if call, ok := s.(*ssa.Call); ok {
				if callee := call.Call.StaticCallee(); callee != nil && callee.Origin() != nil && callee.Origin().Name() == "TypeFor" && len(callee.TypeArgs()) == 1 {
					return kindOfStaticType(callee.TypeArgs()[0]), true
				}
			}
			if ld, ok := s.(*ssa.UnOp); ok {
				if g, ok := ld.X.(*ssa.Global); ok {
					if ks, ok := c.globalTypeKinds()[g]; ok {
						return ks, true
					}
				}
			}
		}
		return 0, false
	}
	kf := &kindFlow{fn: fn, subject: subject, kills: kills, in: map[*ssa.BasicBlock]KindSet{}, reached: map[*ssa.BasicBlock]bool{}}
	if len(fn.Blocks) == 0 {
		return kf
	}
	refine := func(cond ssa.Value, cur KindSet) (KindSet, KindSet) {
		t, f := kf.refine(cond, cur)
		if t != cur || f != cur {
			return t, f
		}
		neg := false
		for {
			if u, ok := cond.(*ssa.UnOp); ok && u.Op == token.NOT {
				cond, neg = u.X, !neg
				continue
			}
			break
		}
		if pc, ok := cond.(*ssa.Call); ok && len(pc.Call.Args) == 1 {
			// a package predicate applied to Kind(subject): evaluate it for every kind
			if callee := pc.Call.StaticCallee(); callee != nil && c.P.InPkg(callee) && len(callee.Params) == 1 {
				if kc, ok := pc.Call.Args[0].(*ssa.Call); ok && core.CalleeKey(&kc.Call) == "reflect.Value.Kind" && subject(kc.Call.Args[0]) {
					var tset KindSet
					okAll := true
					for k := 0; k < nKinds; k++ {
						res, ok := evalPureFn(callee, func(v ssa.Value) (constant.Value, bool) {
							if v == callee.Params[0] {
								return constant.MakeInt64(int64(k)), true
							}
							return nil, false
						})
						if !ok || res.Kind() != constant.Bool {
							okAll = false
							break
						}
						if constant.BoolVal(res) {
							tset |= Kinds(k)
						}
					}
					if okAll {
						if neg {
							return cur &^ tset, cur & tset
						}
						return cur & tset, cur &^ tset
					}
				}
			}
		}
		if bo, ok := cond.(*ssa.BinOp); ok && (bo.Op == token.EQL || bo.Op == token.NEQ) {
			for _, pair := range [][2]ssa.Value{{bo.X, bo.Y}, {bo.Y, bo.X}} {
				tc, isCall := pair[0].(*ssa.Call)
				if !isCall || core.CalleeKey(&tc.Call) != "reflect.Value.Type" || !subject(tc.Call.Args[0]) {
					continue
				}
				if ks, ok := typeKind(pair[1]); ok {
					eq := cur & ks
					if (bo.Op == token.EQL) != neg {
						return eq, cur
					}
					return cur, eq
				}
			}
		}
		// `_, ok := subject.Interface().(T)` for a concrete T: where ok holds the kind is T's
		if ex, ok := cond.(*ssa.Extract); ok && ex.Index == 1 {
			if ta, ok := ex.Tuple.(*ssa.TypeAssert); ok && ta.CommaOk && !types.IsInterface(ta.AssertedType) {
				if ic, ok := ta.X.(*ssa.Call); ok && core.CalleeKey(&ic.Call) == "reflect.Value.Interface" && subject(ic.Call.Args[0]) {
					eq := cur & kindOfStaticType(ta.AssertedType)
					if !neg {
						return eq, cur
					}
					return cur, eq
				}
			}
		}
		return cur, cur
	}
	kf.full = refine
	kf.solve()
	return kf
}

var globalTypeKindsCache = map[*core.Prog]map[*ssa.Global]KindSet{}

func (c *Ctx) globalTypeKinds() map[*ssa.Global]KindSet {
	if m, ok := globalTypeKindsCache[c.P]; ok {
		return m
	}
	out := map[*ssa.Global]KindSet{}
	if initFn := c.P.SSAPkg.Func("init"); initFn != nil {
		core.EachInstr(initFn, func(i ssa.Instruction) {
			st, ok := i.(*ssa.Store)
			if !ok {
				return
			}
			g, ok := st.Addr.(*ssa.Global)
			if !ok {
				return
			}
			if call, ok := st.Val.(*ssa.Call); ok {
				if callee := call.Call.StaticCallee(); callee != nil && callee.Origin() != nil && callee.Origin().Name() == "TypeFor" && len(callee.TypeArgs()) == 1 {
					out[g] = kindOfStaticType(callee.TypeArgs()[0])
				}
			}
		})
	}
	globalTypeKindsCache[c.P] = out
	return out
}

// relationalKinds: in a function that has established Kind(a) == Kind(b), b's kinds are a's.
func (c *Ctx) relationalKinds(fn *ssa.Function, recv ssa.Value, at ssa.Instruction, subj func(ssa.Value) bool) (KindSet, bool) {
	for _, g := range guardsOf(at) {
		bo, ok := g.Cond.(*ssa.BinOp)
		if !ok || !((bo.Op == token.NEQ && !g.Pol) || (bo.Op == token.EQL && g.Pol)) {
			continue
		}
		a, ok1 := bo.X.(*ssa.Call)
		b, ok2 := bo.Y.(*ssa.Call)
		if !ok1 || !ok2 || core.CalleeKey(&a.Call) != "reflect.Value.Kind" || core.CalleeKey(&b.Call) != "reflect.Value.Kind" {
			continue
		}
		var other ssa.Value
		if subj(a.Call.Args[0]) {
			other = b.Call.Args[0]
		} else if subj(b.Call.Args[0]) {
			other = a.Call.Args[0]
		} else {
			continue
		}
		ks, _ := c.kindsAt(fn, other, at)
		return ks, true
	}
	return 0, false
}

// shapeGuardKinds: a value obtained with FieldByIndex(info.sf.Index) under the guard info.sf.Type == <shape type>.
func (c *Ctx) shapeGuardKinds(fn *ssa.Function, recv ssa.Value, at ssa.Instruction) (KindSet, bool) {
	src := recv
	fb, ok := src.(*ssa.Call)
	if !ok || core.CalleeKey(&fb.Call) != "reflect.Value.FieldByIndex" {
		return 0, false
	}
	for _, g := range guardsOf(at) {
		bo, ok := g.Cond.(*ssa.BinOp)
		if !ok || !((bo.Op == token.EQL && g.Pol) || (bo.Op == token.NEQ && !g.Pol)) {
			continue
		}
		for _, pair := range [][2]ssa.Value{{bo.X, bo.Y}, {bo.Y, bo.X}} {
			if !c.mentionsNamedField(pair[0], "Type", 4) {
				continue
			}
			for _, s := range traceSources(pair[1]) {
				if ld, ok := s.(*ssa.UnOp); ok {
					if gl, ok := ld.X.(*ssa.Global); ok {
						if ks, ok := c.globalTypeKinds()[gl]; ok {
							return ks, true
						}
					}
				}
			}
		}
	}
	return 0, false
}

// exemptions: function:op -> reason
var partialExempt = map[string]string{
	"(*state).applyDefaults:Elem":       "documented contract of ApplyDefaults: the argument must be a pointer to the instance",
	"(*Schema).CloneSchemas:Interface":  "fields reached through the registry are exported fields of Schema",
	"(*Schema).everyChild:Interface":    "fields reached through the registry are exported fields of Schema",
	"role:structure-check:Interface":    "the value is a *Schema reached from the root through exported fields",
	"jsonNumber:Interface":              "json.Number is tested only on values the caller obtained from exported data",
	"marshalStructWithMap:Interface":    "the map field is named by a constant that C18/unknown-accepted checks to be an existing, exported field of the wrapper's embedded Schema",
	"role:structure-check:Elem":         "the structure check is applied only to *Schema values: the root and the contents of schema-bearing fields selected by the registry (C17/registry-exhaustive); nil is rejected before the fields are visited",
	"role:structure-check:FieldByIndex": "as above: Elem of a non-nil *Schema is the Schema struct",
}

func (c *Ctx) partialSites(rule string, closures []string) ([]partialSite, int) {
	if st := c.P.Struct("Schema"); st != nil {
		for i := 0; i < st.NumFields(); i++ {
			schemaFieldKinds[st.Field(i).Name()] = kindOfStaticType(st.Field(i).Type())
		}
	}
	var out []partialSite
	seen := map[*ssa.Function]bool{}
	total := 0
	for _, cn := range closures {
		for _, fn := range c.Closure(rule, cn).Sorted() {
			if seen[fn] {
				continue
			}
			seen[fn] = true
			core.EachInstr(fn, func(i ssa.Instruction) {
				call, ok := i.(ssa.CallInstruction)
				if !ok {
					return
				}
				key := core.CalleeKey(call.Common())
				if !strings.HasPrefix(key, "reflect.Value.") || len(call.Common().Args) == 0 {
					return
				}
				op := strings.TrimPrefix(key, "reflect.Value.")
				allowed, has := reflectPre[op]
				if !has {
					return
				}
				total++
				recv := call.Common().Args[0]
				ks, p := c.kindsFull(fn, recv, i, allowed)
				// inside the body of a range-over-func loop a captured value still has the kinds it had where the loop starts
				if !ks.SubsetOf(allowed) && strings.Contains(fn.Synthetic, "range-over-func") && fn.Parent() != nil {
					if ld, ok := recv.(*ssa.UnOp); ok && ld.Op == token.MUL {
						if cell := resolveCell(ld.X); cell != nil && cell.Parent() != fn {
							parent := fn.Parent()
							var mc ssa.Instruction
							var pl ssa.Value
							core.EachInstr(parent, func(j ssa.Instruction) {
								if m, ok := j.(*ssa.MakeClosure); ok && m.Fn == fn {
									mc = m
								}
								if l2, ok := j.(*ssa.UnOp); ok && l2.Op == token.MUL && resolveCell(l2.X) == cell && pl == nil {
									pl = l2
								}
							})
							if mc != nil && pl != nil {
								pk, _ := c.kindsFull(parent, pl, mc, allowed)
								ks &= pk
							}
						}
					}
				}
				// a closure returned by an iterator constructor: the captured parameter has the kinds the constructor's callers pass
				if !ks.SubsetOf(allowed) && fn.Parent() != nil && !strings.Contains(fn.Synthetic, "range-over-func") {
					if ld, ok := recv.(*ssa.UnOp); ok && ld.Op == token.MUL {
						if cell := resolveCell(ld.X); cell != nil && cell.Parent() != fn {
							ks &= c.closureArgKinds(fn, recv, i)
						}
					}
				}
				out = append(out, partialSite{fn: fn, call: i, op: op, recv: recv, allowed: allowed, got: ks, param: p})
			})
		}
	}
	return out, total
}

func rulePartialOps(c *Ctx, rule string) {
	sites, total := c.partialSites(rule, []string{"EV", "DEF", "EQ", "RES", "INF", "CLN", "UNM", "MAR"})
	// requirements on parameters: kinds the callers must not pass
	type req struct {
		fn *ssa.Function
		p  *ssa.Parameter
	}
	forbidden := map[req]KindSet{}
	why := map[req]string{}
	nOK := 0
	for _, s := range sites {
		if s.got.SubsetOf(s.allowed) {
			nOK++
			continue
		}
		name := core.FuncName(originOf(s.fn)) + ":" + s.op
		if reason, key, ok := c.exemptionFor(rule, s.fn, s.op); ok {
			c.R.OK(rule, "exempt:"+key, c.pos(s.call), "exempted: "+reason)
			continue
		}
		_ = name
		if s.param != nil && (s.fn.Parent() == nil || paramOnlyCell(s.recv, s.param) && s.param.Parent().Parent() == nil && s.param.Parent() != s.fn) {
			// (in a closure of a helper, on the helper's own parameter: the helper's callers answer for it)
			r := req{s.param.Parent(), s.param}
			forbidden[r] |= s.got &^ s.allowed
			why[r] = fmt.Sprintf("%s at %s", s.op, c.pos(s.call))
			continue
		}
		c.R.Bad(rule, fmt.Sprintf("%s:%s:%s", core.FuncName(s.fn), s.op, describeRecv(s.recv)), c.pos(s.call),
			fmt.Sprintf("reflect.Value.%s requires kind in %s, but at this call the value can have kind %s: it panics for those", s.op, s.allowed, s.got&^s.allowed))
	}
	// check the callers of functions with requirements (two levels)
	for round := 0; round < 3; round++ {
		next := map[req]KindSet{}
		for r, bad := range forbidden {
			idx := -1
			for k, p := range r.fn.Params {
				if p == r.p {
					idx = k
				}
			}
			callers := 0
			for _, fn := range c.P.Funcs {
				core.EachInstr(fn, func(i ssa.Instruction) {
					call, ok := i.(ssa.CallInstruction)
					if !ok || call.Common().StaticCallee() != r.fn || idx >= len(call.Common().Args) {
						return
					}
					callers++
					arg := call.Common().Args[idx]
					ks, p := c.kindsAt(fn, arg, i)
					subj, _, _ := c.subjectOf(fn, arg)
					if rk, ok := c.relationalKinds(fn, arg, i, subj); ok {
						ks &= rk
					}
					construct := fmt.Sprintf("caller:%s->%s(%s)", core.FuncName(fn), core.FuncName(r.fn), r.p.Name())
					if ks&bad == 0 {
						c.R.OK(rule, construct, c.pos(i), fmt.Sprintf("the argument has kind in %s here, which satisfies the callee's %s", ks, why[r]))
						return
					}
					if reason, ok := partialExempt[core.FuncName(fn)+"->"+core.FuncName(r.fn)]; ok {
						c.R.OK(rule, "exempt:"+construct, c.pos(i), "exempted: "+reason)
						return
					}
					if p != nil && fn.Parent() == nil && fn != r.fn {
						nr := req{fn, p}
						next[nr] |= ks & bad
						why[nr] = why[r] + " via " + core.FuncName(r.fn)
						return
					}
					if fn == r.fn {
						return // recursive call passing its own parameter on: same requirement
					}
					c.R.Bad(rule, construct, c.pos(i), fmt.Sprintf("%s is called with a value whose kind can be %s, for which it panics (%s)", core.FuncName(r.fn), ks&bad, why[r]))
				})
			}
			if callers == 0 {
				c.R.OK(rule, fmt.Sprintf("entry-contract:%s(%s)", core.FuncName(r.fn), r.p.Name()), c.P.Pos(r.fn.Pos()), "no caller in the package")
			}
		}
		forbidden = next
		if len(forbidden) == 0 {
			break
		}
	}
	for r, bad := range forbidden {
		c.R.Bad(rule, fmt.Sprintf("unresolved-requirement:%s(%s)", core.FuncName(r.fn), r.p.Name()), c.P.Pos(r.fn.Pos()), fmt.Sprintf("callers may pass kinds %s, for which %s panics", bad, why[r]))
	}
	c.R.Info["partial_reflect_sites"] = total
	c.R.Floor(rule, "partial reflect operations examined", total, 120)
	c.R.OK(rule, "guarded-in-place", "", fmt.Sprintf("%d of %d partial reflect operations are dominated by kind tests implying their precondition", nOK, total))
}

// paramOnlyCell: recv is a load of the variable of parameter p, which is never assigned anything else.
func paramOnlyCell(recv ssa.Value, p *ssa.Parameter) bool {
	ld, ok := recv.(*ssa.UnOp)
	if !ok || ld.Op != token.MUL {
		return false
	}
	cell := resolveCell(ld.X)
	if cell == nil {
		return false
	}
	stores := cellStores(cell)
	for _, sv := range stores {
		if sv != ssa.Value(p) {
			return false
		}
	}
	return len(stores) > 0
}

func describeRecv(v ssa.Value) string {
	switch x := v.(type) {
	case *ssa.Parameter:
		return x.Name()
	case *ssa.Call:
		return "result-of-" + strings.TrimPrefix(core.CalleeKey(&x.Call), "reflect.Value.")
	case *ssa.UnOp:
		if cell := resolveCell(x.X); cell != nil {
			return cell.Comment
		}
	case *ssa.Phi:
		return x.Comment
	}
	return v.Name()
}

func sortedSites(s []partialSite) []partialSite {
	sort.SliceStable(s, func(i, j int) bool { return core.InstrPos(s[i].call) < core.InstrPos(s[j].call) })
	return s
}

func (kf *kindFlow) refineFull(cond ssa.Value, cur KindSet) (KindSet, KindSet) {
	if kf.full != nil {
		return kf.full(cond, cur)
	}
	return kf.refine(cond, cur)
}

// exemptionFor looks an exemption up for the function itself, for the function it was extracted from
// (climbing through single-call-site helpers and enclosing functions), and by role.
func (c *Ctx) exemptionFor(rule string, fn *ssa.Function, op string) (reason, key string, ok bool) {
	cur := originOf(fn)
	for hops := 0; hops < 5 && cur != nil; hops++ {
		if c.structureCheckFamily(rule)[cur] {
			key = "role:structure-check:" + op
			if r, ok := partialExempt[key]; ok {
				return r, key, true
			}
		}
		key = core.FuncName(cur) + ":" + op
		if r, ok := partialExempt[key]; ok {
			return r, key, true
		}
		if site := soleCaller(outermost(cur)); site != nil {
			cur = originOf(site.Parent())
			continue
		}
		if cur.Parent() != nil {
			cur = cur.Parent()
			continue
		}
		break
	}
	return "", "", false
}

// structureCheckFamily: the functions that make up the structure check of Resolve (C20/tree-check identifies
// it by role: self-recursive over reflect.Value with a seen table keyed by *Schema).
func (c *Ctx) structureCheckFamily(rule string) map[*ssa.Function]bool {
	if c.structFam != nil {
		return c.structFam
	}
	c.structFam = map[*ssa.Function]bool{}
	for _, fn := range c.Closure(rule, "RES").Sorted() {
		if !c.P.InPkg(fn) || (fn.Parent() == nil && (fn.Object() == nil || fn.Object().Exported())) {
			continue
		}
		hasValueParam := false
		for _, p := range fn.Params {
			if tReflectValue(p.Type()) {
				hasValueParam = true
			}
		}
		if !hasValueParam {
			continue
		}
		seen, rec := false, false
		fam := c.familyInstrs(fn)
		for _, fi := range fam {
			switch x := fi.I.(type) {
			case *ssa.Lookup:
				if m, ok := x.X.Type().Underlying().(*types.Map); ok && isPointer(m.Key()) && c.isPkgNamed(m.Key(), "Schema") && x.CommaOk {
					seen = true
				}
			case *ssa.Call:
				if x.Call.StaticCallee() == fn {
					rec = true
				}
				if x.Call.StaticCallee() == nil && !x.Call.IsInvoke() {
					for _, callee := range core.Callees(c.G, x) {
						if callee == fn {
							rec = true
						}
					}
				}
			}
		}
		if seen && rec {
			for _, fi := range fam {
				c.structFam[fi.I.Parent()] = true
			}
		}
	}
	return c.structFam
}

// kindsFull: kindsAt refined by relational guards (Kind(x) == Kind(y)) and registry shape guards.
func (c *Ctx) kindsFull(fn *ssa.Function, recv ssa.Value, at ssa.Instruction, allowed KindSet) (KindSet, *ssa.Parameter) {
	ks, p := c.kindsAt(fn, recv, at)
	if !ks.SubsetOf(allowed) {
		subj, _, _ := c.subjectOf(fn, recv)
		if rk, ok := c.relationalKinds(fn, recv, at, subj); ok {
			ks &= rk
		}
		if sk, ok := c.shapeGuardKinds(fn, recv, at); ok {
			ks &= sk
		}
	}
	return ks, p
}

func init() {
	p := Properties["C10"]
	p.Rules = append(p.Rules, Rule{"C10/convert-guarded", ruleC10ConvertGuarded})
	p8 := Properties["C08"]
	p8.Rules = append(p8.Rules, Rule{"C08/convert-guarded", func(c *Ctx) { runAs(c, "C08/convert-guarded", "C10/convert-guarded", ruleC10ConvertGuarded) }})
}

// reflect.Value.Convert panics when the value is not convertible to the target type. The package converts map
// keys of string kind to the key type of another map: that is safe only if the target type is known to be of
// string kind too, so every Convert whose target is a type obtained at run time (T.Key(), v.Type() ...) must be
// dominated by a test of that target type's kind.
func ruleC10ConvertGuarded(c *Ctx) {
	const rule = "C10/convert-guarded"
	n := 0
	seen := map[*ssa.Function]bool{}
	for _, cn := range []string{"EV", "DEF", "EQ", "RES", "INF"} {
		for _, fn := range c.Closure(rule, cn).Sorted() {
			if seen[fn] || !c.P.InPkg(fn) {
				continue
			}
			seen[fn] = true
			core.EachInstr(fn, func(i ssa.Instruction) {
				call, ok := i.(*ssa.Call)
				if !ok || core.CalleeKey(&call.Call) != "reflect.Value.Convert" || len(call.Call.Args) != 2 {
					return
				}
				n++
				target := call.Call.Args[1]
				tested := false
				for _, g := range guardsOf(call) {
					if kindTestOf(g.Cond, target, 4) {
						tested = true
					}
				}
				// a helper whose contract is "the key type has kind string": the test is at every call site, on the
				// same type expression (m.Type().Key()) of the argument passed for the helper's parameter
				if !tested && fn.Parent() == nil {
					root, chain := typeExpr(target)
					if p, isP := root.(*ssa.Parameter); isP && p.Parent() == fn {
						tested = c.kindTestedAtCallers(fn, p, chain, 6)
					}
				}
				c.R.Check(tested, rule, core.FuncName(fn)+":Convert@"+c.pos(call), c.pos(call), "the kind of the target type is tested before the conversion", "reflect.Value.Convert is applied with a target type whose kind is not tested on the way: when the two maps' key types are, say, a string type and int, the conversion panics instead of the comparison (or lookup) failing")
			})
		}
	}
	c.R.Floor(rule, "reflect.Value.Convert calls", n, 1)
}

// kindTestOf: cond compares T.Kind() with a constant, for a T that shares its source with target.
func kindTestOf(cond ssa.Value, target ssa.Value, depth int) bool {
	if cond == nil || depth == 0 {
		return false
	}
	switch x := cond.(type) {
	case *ssa.BinOp:
		for _, pair := range [][2]ssa.Value{{x.X, x.Y}, {x.Y, x.X}} {
			kc, ok := pair[0].(*ssa.Call)
			if !ok || !kc.Call.IsInvoke() || kc.Call.Method.Name() != "Kind" {
				continue
			}
			if _, isK := pair[1].(*ssa.Const); !isK {
				continue
			}
			if kc.Call.Value == target || sharesSource(kc.Call.Value, target) {
				return true
			}
		}
		return kindTestOf(x.X, target, depth-1) || kindTestOf(x.Y, target, depth-1)
	case *ssa.UnOp:
		return kindTestOf(x.X, target, depth-1)
	case *ssa.Phi:
		for _, e := range x.Edges {
			if kindTestOf(e, target, depth-1) {
				return true
			}
		}
	}
	return false
}

// typeExpr decomposes a reflect.Type expression X.Type().Key().Elem()... into its root reflect.Value (or Type) and the selector chain.
func typeExpr(v ssa.Value) (ssa.Value, string) {
	chain := ""
	for depth := 0; depth < 6; depth++ {
		call, ok := v.(*ssa.Call)
		if !ok {
			break
		}
		if call.Call.IsInvoke() {
			chain = "." + call.Call.Method.Name() + chain
			v = call.Call.Value
			continue
		}
		if core.CalleeKey(&call.Call) == "reflect.Value.Type" {
			chain = ".Type" + chain
			v = call.Call.Args[0]
			continue
		}
		break
	}
	return v, chain
}

// kindTestOfExpr: cond tests the kind of root<chain> (e.g. instance.Type().Key()) against a constant.
func kindTestOfExpr(cond ssa.Value, root ssa.Value, chain string, depth int) bool {
	if cond == nil || depth == 0 {
		return false
	}
	switch x := cond.(type) {
	case *ssa.BinOp:
		// err != nil where err is the result of a package helper that fails exactly when the kind of
		// <its argument><chain'> is not the expected one: the same test, written as a function
		for _, pair := range [][2]ssa.Value{{x.X, x.Y}, {x.Y, x.X}} {
			if k, isK := pair[1].(*ssa.Const); !isK || !k.IsNil() {
				continue
			}
			for _, src := range append(traceSources(pair[0]), pair[0]) {
				hc, ok := src.(*ssa.Call)
				if !ok {
					continue
				}
				h := hc.Call.StaticCallee()
				if h == nil || curCtx == nil || !curCtx.P.InPkg(h) || h.Signature.Results().Len() != 1 || !isErrorType(h.Signature.Results().At(0).Type()) {
					continue
				}
				for pi, p := range h.Params {
					if pi >= len(hc.Call.Args) {
						continue
					}
					argRoot, argChain := typeExpr(hc.Call.Args[pi])
					if !(argRoot == root || sharesSource(argRoot, root)) || !strings.HasPrefix(chain, argChain) {
						continue
					}
					rest := strings.TrimPrefix(chain, argChain)
					tested := false
					core.EachInstr(h, func(i ssa.Instruction) {
						if ifi, isIf := i.(*ssa.If); isIf && kindTestOfExpr(ifi.Cond, p, rest, depth-1) {
							for _, succ := range ifi.Block().Succs {
								if blockReturnsErrorLocal(succ) || blockReturnsErrorDeepLocal(succ) {
									tested = true
								}
							}
						}
					})
					if tested {
						return true
					}
				}
			}
		}
		for _, pair := range [][2]ssa.Value{{x.X, x.Y}, {x.Y, x.X}} {
			kc, ok := pair[0].(*ssa.Call)
			if !ok || !kc.Call.IsInvoke() || kc.Call.Method.Name() != "Kind" {
				continue
			}
			if _, isK := pair[1].(*ssa.Const); !isK {
				continue
			}
			for _, src := range append(traceSources(kc.Call.Value), kc.Call.Value) {
				r, ch := typeExpr(src)
				if ch == chain && (r == root || sharesSource(r, root)) {
					return true
				}
			}
		}
		return kindTestOfExpr(x.X, root, chain, depth-1) || kindTestOfExpr(x.Y, root, chain, depth-1)
	case *ssa.UnOp:
		return kindTestOfExpr(x.X, root, chain, depth-1)
	case *ssa.Phi:
		for _, e := range x.Edges {
			if kindTestOfExpr(e, root, chain, depth-1) {
				return true
			}
		}
	}
	return false
}

// kindTestedAtCallers: every static call site of fn tests the kind of <arg for p><chain> before the call,
// or forwards its own parameter, whose callers are examined in turn.
func (c *Ctx) kindTestedAtCallers(fn *ssa.Function, p *ssa.Parameter, chain string, depth int) bool {
	if depth == 0 || !c.P.OnlyStaticCallers(fn) {
		return false
	}
	idx := -1
	for k, q := range fn.Params {
		if q == p {
			idx = k
		}
	}
	sites := c.P.CallIndex().Sites[fn]
	if idx < 0 || len(sites) == 0 {
		return false
	}
	for _, site := range sites {
		if idx >= len(site.Common().Args) {
			return false
		}
		arg := site.Common().Args[idx]
		okSite := false
		for _, g := range guardsOf(site) {
			if kindTestOfExpr(g.Cond, arg, chain, 4) {
				okSite = true
			}
		}
		if !okSite && conditionalKeyKindTest(site, arg, chain) {
			okSite = true
		}
		// a call inside a closure on a captured variable: what was established where the closure is created
		if !okSite && site.Parent().Parent() != nil {
			if ld, isLd := arg.(*ssa.UnOp); isLd && ld.Op == token.MUL {
				if cell := resolveCell(ld.X); cell != nil && cell.Parent() != site.Parent() {
					parent := cell.Parent()
					var mc ssa.Instruction
					var pl ssa.Value
					for _, f := range core.WithAnon(parent) {
						core.EachInstr(f, func(j ssa.Instruction) {
							if m, ok := j.(*ssa.MakeClosure); ok && m.Fn == outermostClosureIn(site.Parent(), parent) && j.Parent() == parent {
								mc = m
							}
						})
					}
					core.EachInstr(parent, func(j ssa.Instruction) {
						if l2, ok := j.(*ssa.UnOp); ok && l2.Op == token.MUL && resolveCell(l2.X) == cell && pl == nil {
							pl = l2
						}
					})
					reassigned := false
					for _, sv := range cellStores(cell) {
						if _, isParam := sv.(*ssa.Parameter); !isParam {
							if c2, isCall := sv.(*ssa.Call); !isCall || core.CalleeKey(&c2.Call) != "reflect.Value.Elem" {
								reassigned = true
							}
						}
					}
					if mc != nil && pl != nil && !reassigned {
						for _, g := range guardsOf(mc) {
							if kindTestOfExpr(g.Cond, pl, chain, 4) {
								okSite = true
							}
						}
						if !okSite && conditionalKeyKindTest(mc, pl, chain) {
							okSite = true
						}
					}
				}
			}
		}
		if !okSite {
			// the caller forwards its own parameter
			srcs := traceSources(arg)
			if len(srcs) == 1 {
				if q, isP := srcs[0].(*ssa.Parameter); isP && q.Parent() == outermost(site.Parent()) && site.Parent().Parent() == nil {
					okSite = c.kindTestedAtCallers(site.Parent(), q, chain, depth-1)
				}
			}
		}
		if !okSite {
			return false
		}
	}
	return true
}

// conditionalKeyKindTest: the caller establishes "if arg is a map, its key type has kind string" before the site:
// a test M of arg's kind against Map dominates the site, and on M's map outcome every path to the site passes a
// test K of the kind of arg<chain> whose other outcome does not reach the site (it returns an error).
func conditionalKeyKindTest(site ssa.Instruction, arg ssa.Value, chain string) bool {
	fn := site.Parent()
	found := false
	core.EachInstr(fn, func(i ssa.Instruction) {
		K, ok := i.(*ssa.If)
		if !ok || !kindTestOfExpr(K.Cond, arg, chain, 4) {
			return
		}
		for _, g := range guardsLocal(K) {
			bo, ok := g.Cond.(*ssa.BinOp)
			if !ok || !((bo.Op == token.EQL && g.Pol) || (bo.Op == token.NEQ && !g.Pol)) {
				continue
			}
			isMapTest := false
			for _, pair := range [][2]ssa.Value{{bo.X, bo.Y}, {bo.Y, bo.X}} {
				kc, ok1 := pair[0].(*ssa.Call)
				k, ok2 := pair[1].(*ssa.Const)
				if ok1 && ok2 && core.CalleeKey(&kc.Call) == "reflect.Value.Kind" && (kc.Call.Args[0] == arg || sharesSource(kc.Call.Args[0], arg)) {
					if kv, ok := constInt(k); ok && kv == int64(kMap) {
						isMapTest = true
					}
				}
			}
			if !isMapTest {
				continue
			}
			M, ok := g.At.(*ssa.If)
			if !ok || !M.Block().Dominates(site.Block()) {
				continue
			}
			// one outcome of K must be unable to reach the site
			excl := false
			for _, succ := range K.Block().Succs {
				if succ != site.Block() && !core.Reachable(succ, site.Block(), map[*ssa.BasicBlock]bool{K.Block(): true}) {
					excl = true
				}
			}
			mapSucc := M.Block().Succs[g.Succ]
			if excl && mustPass(mapSucc, map[*ssa.BasicBlock]bool{K.Block(): true}, map[*ssa.BasicBlock]bool{site.Block(): true}) {
				found = true
			}
		}
	})
	return found
}

// outermostClosureIn: the closure nested directly in parent that contains fn (fn itself when its parent is parent).
func outermostClosureIn(fn, parent *ssa.Function) *ssa.Function {
	for fn != nil && fn.Parent() != parent {
		fn = fn.Parent()
	}
	return fn
}
