package rules

import (
	"fmt"
	"go/token"
	"go/types"
	"reflect"
	"strings"

	"golang.org/x/tools/go/ssa"

	"verif/checker/core"
)

func init() {
	add := func(prop, as, orig string, f func(*Ctx)) {
		p := Properties[prop]
		p.Rules = append(p.Rules, Rule{as, func(c *Ctx) { runAs(c, as, orig, f) }})
	}
	// rules a property shares with the property that owns the mechanism
	eq := func(c *Ctx) {
		ruleC11NumbersFirst2(c, "C12/equality-clauses")
		ruleC11Normalise(c, "C12/equality-clauses")
		ruleC11CaseCoverage2(c, "C12/equality-clauses")
		ruleExactExtraction(c, "C12/equality-clauses")
	}
	add("C01", "C01/equality-clauses", "C12/equality-clauses", eq)
	add("C03", "C03/pointer-keys", "C17/keys-from-parsed-segments", ruleC17KeysFromSegments)
	add("C03", "C03/pointer-target", "C17/no-wrong-target", ruleC17NoWrongTarget)
	add("C05", "C05/property-order-complete", "C19/listed-first", ruleC19ListedFirst)
	add("C05", "C05/case-exact-decoding", "C18/case-exact-decoding", ruleC18CaseExact)
	add("C08", "C08/hash-respects-equal", "C12/hash-respects-equal", ruleC12Hash)
	add("C09", "C09/tag-parser", "C04/tag-parser", func(c *Ctx) { ruleTagParser(c, "C04/tag-parser") })
	add("C18", "C18/version-gate", "C02/version-gate", ruleC02VersionGate)
	add("C17", "C17/union-variants", "C05/union-variants", ruleC05UnionVariants)
	add("C18", "C18/annotations-handover", "C07/R2", ruleC07R2)
	add("C08", "C08/decided-by-equal", "C12/decided-by-equal", ruleC12DecidedByEqual)
	add("C01", "C01/decided-by-equal", "C12/decided-by-equal", ruleC12DecidedByEqual) // enum, const and uniqueItems are part of the validity relation
	add("C08", "C08/equality-clauses", "C12/equality-clauses", eq)                     // an array instance against a slice keyword value: representation independence of const/enum
}

func init() {
	for _, pid := range []string{"C03", "C17"} {
		pid := pid
		p := Properties[pid]
		p.Rules = append(p.Rules, Rule{pid + "/errors-checked", func(c *Ctx) { ruleResolveErrorsChecked(c, pid+"/errors-checked") }})
	}
}

// The verdicts of unevaluatedItems / unevaluatedProperties are part of the 2020-12 validity relation (C01):
// the annotation-flow rules of C07 are run for C01 as well.
func init() {
	p := Properties["C01"]
	for _, sh := range []struct {
		as, orig string
		f        func(*Ctx)
	}{
		{"C01/annotation-sites", "C07/R1", ruleC07R1},
		{"C01/annotation-handover", "C07/R2", ruleC07R2},
		{"C01/complement", "C07/complement", ruleC07Complement},
		{"C01/records", "C07/records", ruleC07Records},
	} {
		sh := sh
		p.Rules = append(p.Rules, Rule{sh.as, func(c *Ctx) { runAs(c, sh.as, sh.orig, sh.f) }})
	}
}

// Rules that a seeded change against one property showed to be necessary conditions of that property too,
// although they were written for another (DESIGN 8.5): run under both names.
func init() {
	for _, sh := range []struct {
		prop, as, orig string
		f              func(*Ctx)
	}{
		{"C10", "C10/loader-cache-key", "C03/loader-on-miss-only", ruleC03LoaderOnMiss}, // a cache that is never hit recurses without bound
		{"C06", "C06/ref-per-occurrence", "C03/ref-per-occurrence", ruleC03RefPerOccurrence},
		{"C17", "C17/ref-per-occurrence", "C03/ref-per-occurrence", ruleC03RefPerOccurrence},
		{"C18", "C18/ref-per-occurrence", "C03/ref-per-occurrence", ruleC03RefPerOccurrence}, // an unreferenced definition must not capture a reference
		{"C06", "C06/evaluation-sites", "C07/R1", ruleC07R1},
		{"C14", "C14/scope-stack-discipline", "C06/scope-stack-discipline", ruleC06Stack}, // state that survives a call makes the next verdict depend on it
		{"C14", "C14/side-table-keys", "C10/side-table-keys", ruleC10SideTableKeys},
		{"C16", "C16/bounds-table", "C04/bounds-table", func(c *Ctx) { ruleBoundsTable(c, "C04/bounds-table") }},
		{"C16", "C16/clone-three-shapes", "C20/three-shapes-everywhere", ruleC20ThreeShapes},
		{"C16", "C16/clone-no-skip", "C20/no-skip", ruleC20NoSkip},
		{"C17", "C17/globals", "C13/globals", ruleC13Globals}, // a package-level pointer cache mutated after publication
		{"C18", "C18/anchor-gate", "C02/anchor-gate", ruleC02AnchorGate},
		{"C03", "C03/anchor-gate", "C02/anchor-gate", ruleC02AnchorGate}, // what a $id or an anchor keyword registers decides what "#name" and the references below it reach
		{"C17", "C17/anchor-gate", "C02/anchor-gate", ruleC02AnchorGate},
		{"C18", "C18/draft-keywords-gated", "C02/draft-keywords-gated", ruleC02DraftKeywords},
		{"C02", "C02/empty-preserved", "C05/empty-preserved", ruleC05Empty},
		{"C04", "C04/type-subsumption", "C01/type-subsumption", ruleC01TypeSubsumption},
		{"C19", "C19/json-name-conflicts", "C04/json-name-conflicts", func(c *Ctx) { ruleJSONNameConflicts(c, "C04/json-name-conflicts") }}, // the inferred order is the order of the fields that win
		{"C16", "C16/json-name-conflicts", "C04/json-name-conflicts", func(c *Ctx) { ruleJSONNameConflicts(c, "C04/json-name-conflicts") }},
		{"C04", "C04/skip-by-index-prefix", "C16/skip-by-index-prefix", ruleC16SkipPrefix}, // promoted fields of a hidden embedded struct must not become properties
		{"C09", "C09/skip-by-index-prefix", "C16/skip-by-index-prefix", ruleC16SkipPrefix},
		{"C03", "C03/escape-tables", "C17/escape-tables", ruleC17Escape}, // a pointer fragment that is unescaped differently reaches another member
		{"C14", "C14/monotone", "C07/monotone", ruleC07Monotone},        // a merge in which the last record wins makes the verdict depend on the order of a map iteration
		{"C13", "C13/root-provenance", "C02/root-provenance", ruleC02RootProvenance}, // the one write Resolve makes into a caller's schema: only to fill in a missing $schema
	} {
		sh := sh
		p := Properties[sh.prop]
		p.Rules = append(p.Rules, Rule{sh.as, func(c *Ctx) { runAs(c, sh.as, sh.orig, sh.f) }})
	}
}

// A `return err` reached only where err is known to be nil is a success exit in disguise: the function stops half
// way and reports success (an `err != nil` test written as `err == nil`). Package-wide; run for the properties
// whose entry points decode, resolve or walk with early error returns.
func init() {
	for _, pid := range []string{"C03", "C05", "C15", "C17", "C18"} {
		pid := pid
		Properties[pid].Rules = append(Properties[pid].Rules, Rule{pid + "/no-success-in-disguise", func(c *Ctx) { ruleNoSuccessInDisguise(c, pid+"/no-success-in-disguise") }})
	}
}

func ruleNoSuccessInDisguise(c *Ctx, rule string) {
	n := 0
	for _, fn := range c.P.Funcs {
		if !c.P.InPkg(fn) || fn.Synthetic != "" {
			continue
		}
		k := 0
		core.EachInstr(fn, func(i ssa.Instruction) {
			ret, ok := i.(*ssa.Return)
			if !ok || len(ret.Results) == 0 || ret.Block() == fn.Recover {
				return
			}
			ev := ret.Results[len(ret.Results)-1]
			if !isErrorType(ev.Type()) {
				return
			}
			if _, isConst := ev.(*ssa.Const); isConst {
				return
			}
			n++
			k++
			knownNil := ""
			for _, g := range guardsLocal(ret) {
				x, kc, equal, ok := eqConst(g)
				if !ok || !kc.IsNil() || !equal {
					continue
				}
				// (the very same value: a named result is a variable, assigned again before each return)
				if x == ev {
					knownNil = c.pos(g.At)
				}
			}
			// leaving a loop with whatever a call returned, nil included, ends the loop at the first element
			_, directCall := ev.(*ssa.Call)
			if ex, isEx := ev.(*ssa.Extract); isEx {
				_, directCall = ex.Tuple.(*ssa.Call)
			}
			if knownNil == "" && directCall && returnLeavesLoop(ret) && !knownNonNil(ret, ev) {
				c.R.Bad(rule, fmt.Sprintf("%s:return#%d:loop-left-on-success", core.FuncName(fn), k), c.pos(ret), "a loop is left by returning an error value that is not known to be non-nil (`return f(x)` inside the loop instead of `if err := f(x); err != nil { return err }`): when the value is nil the function reports success after the first element and the remaining elements are never looked at")
			}
			if knownNil != "" {
				c.R.Bad(rule, fmt.Sprintf("%s:return#%d", core.FuncName(fn), k), c.pos(ret), "an error variable is returned where it is known to be nil (test at "+knownNil+"): the function stops there and reports success, so what follows (the remaining keywords of the document, the remaining schemas of the walk) is silently skipped")
			}
		})
	}
	// the same in the body of a range-over-func loop: `return x` there stores x in the enclosing function's result
	// and stops the iteration (the body function returns false)
	for _, fn := range c.P.Funcs {
		if !c.P.InPkg(fn) || !isRangeFuncBody(fn) {
			continue
		}
		k := 0
		core.EachInstr(fn, func(i ssa.Instruction) {
			ret, ok := i.(*ssa.Return)
			if !ok || len(ret.Results) != 1 {
				return
			}
			if kc, isConst := ret.Results[0].(*ssa.Const); !isConst || kc.Value == nil || kc.Value.String() != "false" {
				return
			}
			for _, j := range ret.Block().Instrs {
				st, isSt := j.(*ssa.Store)
				if !isSt || !isErrorType(st.Val.Type()) {
					continue
				}
				n++
				k++
				if kc, isConst := st.Val.(*ssa.Const); isConst && kc.IsNil() {
					continue // `return nil` inside the loop: a deliberate early success
				}
				if !knownNonNil(ret, st.Val) {
					c.R.Bad(rule, fmt.Sprintf("%s:return#%d:loop-left-on-success", core.FuncName(fn), k), c.pos(st), "a loop is left by returning an error value that is not known to be non-nil (`return f(x)` inside the loop instead of `if err := f(x); err != nil { return err }`): when the value is nil the function reports success after the first element and the remaining elements are never looked at")
				}
			}
		})
	}
	c.R.OK(rule, "returns-examined", "", fmt.Sprintf("%d returns of an error variable examined: none is reached only where the variable is known to be nil", n))
	c.R.Floor(rule, "returns of an error variable in the package", n, 20)
}

// returnLeavesLoop: the return is reached from inside a loop of its function (through straight-line blocks).
func returnLeavesLoop(ret *ssa.Return) bool {
	q := ret.Block()
	for hops := 0; hops < 6; hops++ {
		for _, s := range q.Succs {
			if core.Reachable(s, q, nil) {
				return true
			}
		}
		if len(q.Preds) != 1 {
			// a join: inside a loop if every predecessor is
			if len(q.Preds) == 0 {
				return false
			}
			for _, p := range q.Preds {
				in := false
				for _, s := range p.Succs {
					if s != q && core.Reachable(s, p, nil) || core.Reachable(q, p, nil) {
						in = true
					}
				}
				if !in {
					return false
				}
			}
			return true
		}
		q = q.Preds[0]
	}
	return false
}

// knownNonNil: the error value returned is a freshly made error, or the return is guarded by a test that it is not nil.
func knownNonNil(ret *ssa.Return, ev ssa.Value) bool {
	for _, g := range guardsLocal(ret) {
		x, kc, equal, ok := eqConst(g)
		if ok && kc.IsNil() && !equal && (x == ev || sameVarValue(x, ev)) {
			return true
		}
	}
	for _, src := range append(traceSources(ev), ev) {
		switch x := src.(type) {
		case *ssa.Call:
			switch core.CalleeKey(&x.Call) {
			case "fmt.Errorf", "errors.New", "errors.Join":
				continue
			}
			return false
		case *ssa.MakeInterface:
			continue // a concrete error value
		case *ssa.Const:
			if x.IsNil() {
				return false
			}
		default:
			return false
		}
	}
	return true
}

// What the side table says about one schema (which properties it requires, its compiled patterns, what its
// references resolved to) is read from that schema's own entry: the key of the lookup is the schema at hand (a
// parameter, the element of the traversal), never the root or a base resource loaded from a field.
func init() {
	for _, pid := range []string{"C15", "C01", "C03"} {
		pid := pid
		Properties[pid].Rules = append(Properties[pid].Rules, Rule{pid + "/own-side-table-entry", func(c *Ctx) { ruleOwnSideTableEntry(c, pid+"/own-side-table-entry") }})
	}
}

func ruleOwnSideTableEntry(c *Ctx, rule string) {
	perSchema := map[string]bool{"resolvedInfo.isRequired": true, "resolvedInfo.patternProperties": true, "resolvedInfo.resolvedRef": true,
		"resolvedInfo.resolvedDynamicRef": true, "resolvedInfo.dynamicRefAnchor": true, "resolvedInfo.dynamicRefFallback": true}
	n := 0
	seen := map[*ssa.Function]bool{}
	for _, cn := range []string{"EV", "DEF", "RES"} {
		for _, fn := range c.Closure(rule, cn).Sorted() {
			if seen[fn] {
				continue
			}
			seen[fn] = true
			k := 0
			core.EachInstr(fn, func(i ssa.Instruction) {
				lk, ok := i.(*ssa.Lookup)
				if !ok || lk.CommaOk || !c.isMapTo(lk.X.Type(), "resolvedInfo") || lk.Referrers() == nil {
					return
				}
				var fields []string
				for _, v := range append(derivedValues(lk, 4), lk) {
					if v.Referrers() == nil {
						continue
					}
					for _, r := range *v.Referrers() {
						if fa, ok := r.(*ssa.FieldAddr); ok && fa.X == v {
							if f := c.fieldName(fa.X.Type(), fa.Field); perSchema[f] {
								fields = append(fields, f)
							}
						}
					}
				}
				if len(fields) == 0 {
					return
				}
				n++
				k++
				bad := ""
				for _, s := range traceSourcesPhi(lk.Index) {
					if ld, ok := s.val.(*ssa.UnOp); ok {
						if fa, ok := ld.X.(*ssa.FieldAddr); ok {
							f := c.fieldName(fa.X.Type(), fa.Field)
							if f == "Resolved.root" || f == "resolvedInfo.base" {
								bad = f
							}
						}
					}
				}
				c.R.Check(bad == "", rule, fmt.Sprintf("%s:lookup#%d", core.FuncName(fn), k), c.pos(lk), "the per-schema facts are read from the entry of the schema at hand",
					fmt.Sprintf("%v of a schema are read from the side-table entry of %s instead of the schema's own entry: at every nesting depth the root's (or the resource's) facts are used, e.g. a nested `required` is ignored when defaults are applied", fields, bad))
			})
		}
	}
	c.R.Floor(rule, "reads of per-schema facts from the side table", n, 3)
}

// derivedValues: phis and stored-then-loaded copies of v (a few steps).
func derivedValues(v ssa.Value, depth int) []ssa.Value {
	var out []ssa.Value
	if depth == 0 || v.Referrers() == nil {
		return out
	}
	for _, r := range *v.Referrers() {
		switch x := r.(type) {
		case *ssa.Phi:
			out = append(out, x)
			out = append(out, derivedValues(x, depth-1)...)
		case *ssa.Store:
			if x.Val == v {
				if cell := resolveCell(x.Addr); cell != nil && cell.Referrers() != nil {
					for _, fn := range core.WithAnon(cell.Parent()) {
						core.EachInstr(fn, func(i ssa.Instruction) {
							if ld, ok := i.(*ssa.UnOp); ok && ld.Op.String() == "*" && resolveCell(ld.X) == cell {
								out = append(out, ld)
							}
						})
					}
				}
			}
		}
	}
	return out
}

// The JSON names of the fields of Schema are keywords of the specifications, letter for letter: a field tagged
// `json:"contentschema"` or `json:"readonly"` is a different, unknown keyword for every document (the real keyword
// lands in Extra and its subschema is never walked), and a case variant of a keyword becomes a known one.
func init() {
	for _, pid := range []string{"C01", "C05", "C06", "C17", "C18"} {
		pid := pid
		Properties[pid].Rules = append(Properties[pid].Rules, Rule{pid + "/keyword-names", func(c *Ctx) { ruleKeywordNames(c, pid+"/keyword-names") }})
	}
}

var specKeywords = strings.Fields(`$schema $id $ref $anchor $dynamicRef $dynamicAnchor $vocabulary $comment $defs $recursiveRef $recursiveAnchor
	allOf anyOf oneOf not if then else dependentSchemas prefixItems items contains properties patternProperties additionalProperties propertyNames
	unevaluatedItems unevaluatedProperties type enum const multipleOf maximum exclusiveMaximum minimum exclusiveMinimum maxLength minLength pattern
	maxItems minItems uniqueItems maxContains minContains maxProperties minProperties required dependentRequired
	title description default deprecated readOnly writeOnly examples format contentEncoding contentMediaType contentSchema
	definitions dependencies additionalItems`)

func ruleKeywordNames(c *Ctx, rule string) {
	st := c.P.Struct("Schema")
	if st == nil {
		c.R.Unresolved(rule, "struct Schema")
		return
	}
	known := map[string]bool{}
	for _, k := range specKeywords {
		known[k] = true
	}
	n := 0
	seen := map[string]string{}
	for i := 0; i < st.NumFields(); i++ {
		f := st.Field(i)
		if !f.Exported() {
			continue
		}
		tag, ok := reflect.StructTag(st.Tag(i)).Lookup("json")
		name, _, _ := strings.Cut(tag, ",")
		if ok && name == "-" && !strings.Contains(tag, ",") {
			continue
		}
		if name == "" {
			name = f.Name()
		}
		n++
		c.R.Check(known[name], rule, "Schema."+f.Name()+":name", c.P.Pos(f.Pos()), "the JSON name of the field is a keyword of the specification", fmt.Sprintf("the field Schema.%s has the JSON name %q, which is not a keyword of draft-07 or 2020-12 (keyword names are case-sensitive): the real keyword is an unknown keyword for this package, its value lands in Extra, and a subschema in it is neither resolved nor walked", f.Name(), name))
		if prev, dup := seen[name]; dup {
			c.R.Bad(rule, "Schema."+f.Name()+":unique", c.P.Pos(f.Pos()), fmt.Sprintf("the fields %s and %s share the JSON name %q", prev, f.Name(), name))
		}
		seen[name] = f.Name()
	}
	c.R.Floor(rule, "fields of Schema with a JSON name", n, 50)
}

// A branch taken for one kind of the instance (`case reflect.Struct:`) that no instance can reach because an outer
// test has already excluded that kind is a sign that the outer test lost a kind: the arm that reports "cannot apply
// defaults to a struct" is dead if the surrounding test admits maps only, and struct values are then passed over in
// silence.
func init() {
	for _, pid := range []string{"C15", "C08"} {
		pid := pid
		Properties[pid].Rules = append(Properties[pid].Rules, Rule{pid + "/no-dead-kind-arm", func(c *Ctx) { ruleNoDeadKindArm(c, pid+"/no-dead-kind-arm") }})
	}
}

func ruleNoDeadKindArm(c *Ctx, rule string) {
	n := 0
	seen := map[*ssa.Function]bool{}
	for _, cn := range []string{"DEF", "EV", "EQ"} {
		for _, fn := range c.Closure(rule, cn).Sorted() {
			if seen[fn] || fn.Parent() != nil || !c.P.InPkg(fn) || c.transparent(fn) {
				continue
			}
			seen[fn] = true
			k := 0
			core.EachInstr(fn, func(i ssa.Instruction) {
				ifi, ok := i.(*ssa.If)
				if !ok {
					return
				}
				bo, ok := ifi.Cond.(*ssa.BinOp)
				if !ok || bo.Op != token.EQL {
					return
				}
				kc, ok := bo.X.(*ssa.Call)
				if !ok || core.CalleeKey(&kc.Call) != "reflect.Value.Kind" {
					return
				}
				if _, isConst := bo.Y.(*ssa.Const); !isConst {
					return
				}
				arm := ifi.Block().Succs[0]
				if len(arm.Preds) != 1 || len(arm.Instrs) == 0 {
					return
				}
				// only arms that refuse the kind (an error return): harmless dead arms exist (the Interface and Pointer
				// arms of the equality function after its stripping loops)
				if !blockReturnsErrorLocal(arm) {
					return
				}
				n++
				k++
				ks, _ := c.kindsAt(fn, kc.Call.Args[0], arm.Instrs[0])
				before, _ := c.kindsAt(fn, kc.Call.Args[0], ifi)
				c.R.Check(ks != 0, rule, fmt.Sprintf("%s:kind-arm#%d", core.FuncName(fn), k), c.pos(ifi), "the refusal can be reached for the kind it tests",
					fmt.Sprintf("the branch for instance kind %s cannot be reached: an enclosing test admits only %s, so values of that kind never get here and whatever the arm does for them (an error, a special case) silently does not happen", bo.Y, before))
			})
		}
	}
	c.R.Floor(rule, "kind arms that refuse the instance with an error", n, 1)
}

func init() {
	for _, pid := range []string{"C02", "C03", "C17"} {
		pid := pid
		Properties[pid].Rules = append(Properties[pid].Rules, Rule{pid + "/id-fragment-refused", func(c *Ctx) { ruleIDFragmentRefused(c, pid+"/id-fragment-refused") }})
	}
}


func init() {
	for _, pid := range []string{"C05", "C07", "C18"} {
		pid := pid
		Properties[pid].Rules = append(Properties[pid].Rules, Rule{pid + "/boolean-schema-overwrites", func(c *Ctx) { ruleBooleanSchemaOverwrites(c, pid+"/boolean-schema-overwrites") }})
	}
}

func init() {
	for _, pid := range []string{"C05", "C19"} {
		pid := pid
		Properties[pid].Rules = append(Properties[pid].Rules, Rule{pid + "/marshal-splices", func(c *Ctx) { ruleMarshalSplices(c, pid+"/marshal-splices") }})
	}
}

// The set of required names that ApplyDefaults consults is built for every schema that has a `required` list: the
// store of the set is guarded by tests of that list only, not by the schema's type or anything else (a schema whose
// type is ["object","null"] requires its properties just the same).
func init() {
	Properties["C15"].Rules = append(Properties["C15"].Rules, Rule{"C15/required-set-unconditional", ruleRequiredSetUnconditional})
}

func ruleRequiredSetUnconditional(c *Ctx) {
	const rule = "C15/required-set-unconditional"
	n := 0
	for _, fn := range c.Closure(rule, "RES").Minus(c.Closure(rule, "EV")).Sorted() {
		core.EachInstr(fn, func(i ssa.Instruction) {
			st, ok := i.(*ssa.Store)
			if !ok {
				return
			}
			fa, ok := st.Addr.(*ssa.FieldAddr)
			if !ok || c.fieldName(fa.X.Type(), fa.Field) != "resolvedInfo.isRequired" {
				return
			}
			n++
			var extra []string
			for _, g := range controlGuards(st) {
				if g.At.Parent() != st.Parent() {
					continue
				}
				if c.mentionsField(g.Cond, "Schema.Required", 5) || isErrNilTest(g.Cond) || isRangeCond(g.Cond) {
					continue
				}
				if !skippable(g, st) {
					continue
				}
				// only tests of the schema itself matter (a nil test of the schema, of the info ...)
				mentionsSchema := false
				for _, v := range backSlice(g.Cond, 12) {
					if ld, ok := v.(*ssa.UnOp); ok && ld.Op == token.MUL {
						if fa2, ok := ld.X.(*ssa.FieldAddr); ok && strings.HasPrefix(c.fieldName(fa2.X.Type(), fa2.Field), "Schema.") {
							mentionsSchema = true
						}
					}
				}
				if mentionsSchema {
					extra = append(extra, c.pos(g.At))
				}
			}
			c.R.Check(len(extra) == 0, rule, fmt.Sprintf("%s:required-set#%d", core.FuncName(fn), n), c.pos(st), "the set of required names is built whenever the schema has a required list", fmt.Sprintf("whether the set of required names is built depends on other keywords of the schema (tests at %v): for such a schema ApplyDefaults sees no required names and fills a required property with its default", extra))
		})
	}
	c.R.Floor(rule, "stores of the required-name set", n, 1)
}

// Three small clauses from round 8.
func init() {
	for _, pid := range []string{"C03", "C18", "C06"} {
		pid := pid
		Properties[pid].Rules = append(Properties[pid].Rules, Rule{pid + "/first-anchor-wins", func(c *Ctx) { ruleFirstAnchorWins(c, pid+"/first-anchor-wins") }})
	}
	for _, pid := range []string{"C20", "C17"} {
		pid := pid
		Properties[pid].Rules = append(Properties[pid].Rules, Rule{pid + "/registry-not-filtered-by-name", func(c *Ctx) { ruleRegistryNotFilteredByName(c, pid+"/registry-not-filtered-by-name") }})
	}
	Properties["C02"].Rules = append(Properties["C02"].Rules, Rule{"C02/id-beside-ref-for-every-schema", ruleIDBesideRefEverySchema})
}

// An anchor name is registered only where the resource has none of that name yet: the entry into the anchor table is
// guarded by a failed lookup of the same name in the same table. (The callers drop the duplicate error on purpose;
// which registration survives is decided here, and it is the first in walk order.)
func ruleFirstAnchorWins(c *Ctx, rule string) {
	n := 0
	for _, fn := range c.Closure(rule, "RES").Minus(c.Closure(rule, "EV")).Sorted() {
		core.EachInstr(fn, func(i ssa.Instruction) {
			mu, ok := i.(*ssa.MapUpdate)
			if !ok {
				return
			}
			// an anchor table: a map to the package's anchor entries (it may be held in a local variable)
			mt, isMap := mu.Map.Type().Underlying().(*types.Map)
			if !isMap || !c.isPkgNamed(mt.Elem(), "anchorInfo") {
				return
			}
			n++
			absent := false
			for _, g := range guardsOf(mu) {
				ex, ok := g.Cond.(*ssa.Extract)
				if !ok || g.Pol || ex.Index != 1 {
					continue
				}
				lk, ok := ex.Tuple.(*ssa.Lookup)
				if !ok || !(lk.Index == mu.Key || sharesSource(lk.Index, mu.Key)) {
					continue
				}
				if lt, ok := lk.X.Type().Underlying().(*types.Map); ok && c.isPkgNamed(lt.Elem(), "anchorInfo") && (lk.X == mu.Map || sharesSource(lk.X, mu.Map) || sameFieldLoad(lk.X, mu.Map) || c.mentionsField(lk.X, "resolvedInfo.anchors", 4)) {
					absent = true
				}
			}
			c.R.Check(absent, rule, fmt.Sprintf("%s:anchor-entry#%d", core.FuncName(fn), n), c.pos(mu), "an anchor is entered only if the resource has none of that name yet", "an anchor is entered into the table without a preceding failed lookup of its name (the duplicate is reported afterwards, and the callers drop that error): the last of two equal names in walk order wins instead of the first, so a never-referenced subschema that repeats a name captures the references to it")
		})
	}
	c.R.Floor(rule, "entries into a resource's anchor table", n, 1)
}

// The table of schema-bearing fields is built from the fields of Schema as they are: no keyword is left out by name.
// (A field missing from the table is not cloned, not walked and not checked for sharing.)
func ruleRegistryNotFilteredByName(c *Ctx, rule string) {
	n := 0
	var initFns []*ssa.Function
	for _, m := range c.P.SSAPkg.Members {
		if f, ok := m.(*ssa.Function); ok && strings.HasPrefix(f.Name(), "init") {
			initFns = append(initFns, c.initFamily(f)...)
		}
	}
	for _, fn := range initFns {
		core.EachInstr(fn, func(i ssa.Instruction) {
			call, ok := i.(*ssa.Call)
			if !ok || core.CalleeKey(&call.Call) != "builtin.append" {
				return
			}
			sl, isSlice := call.Type().Underlying().(*types.Slice)
			if !isSlice || !c.isPkgNamed(sl.Elem(), "structFieldInfo") {
				return
			}
			n++
			var byName []string
			for _, g := range controlGuards(call) {
				bo, ok := g.Cond.(*ssa.BinOp)
				if !ok || (bo.Op != token.EQL && bo.Op != token.NEQ) {
					continue
				}
				// a comparison of the field's JSON name (not of its Go name, by which the fields tagged "-" are added
				// back) with a keyword, on the side that keeps the field out
				excludes := (bo.Op == token.NEQ && g.Pol) || (bo.Op == token.EQL && !g.Pol)
				for _, pair := range [][2]ssa.Value{{bo.X, bo.Y}, {bo.Y, bo.X}} {
					if s, ok := constString(pair[1]); ok && s != "" && s != "-" && excludes && mentionsStructFieldNamed(pair[0], "name", 3) {
						byName = append(byName, fmt.Sprintf("%q at %s", s, c.pos(g.At)))
					}
				}
			}
			c.R.Check(len(byName) == 0, rule, fmt.Sprintf("field-table:append#%d", n), c.pos(call), "no field is kept out of the table of schema fields by its name", fmt.Sprintf("the table of the fields of Schema is filled under a comparison with a keyword name (%v): the subschemas under that keyword are not cloned by CloneSchemas, not visited by the tree walk and not seen by the sharing check", byName))
		})
	}
	c.R.Floor(rule, "places where package initialisation fills the table of schema fields", n, 1)
}

// Under draft-07 the $id beside a $ref is ignored in every schema, the root included: what decides is the draft and
// the presence of $ref, not which schema it is.
func ruleIDBesideRefEverySchema(c *Ctx) {
	const rule = "C02/id-beside-ref-for-every-schema"
	n := 0
	want, okDraft := c.draftConst("draft7")
	for _, fn := range c.Closure(rule, "RES").Minus(c.Closure(rule, "EV")).Sorted() {
		core.EachInstr(fn, func(i ssa.Instruction) {
			bo, ok := i.(*ssa.BinOp)
			if !ok || (bo.Op != token.EQL && bo.Op != token.NEQ) || !isPointer(bo.X.Type()) || !c.isPkgNamed(bo.X.Type(), "Schema") {
				return
			}
			if !(c.mentionsField(bo.X, "Resolved.root", 3) || c.mentionsField(bo.Y, "Resolved.root", 3)) {
				return
			}
			n++
			underDraft, underRef := false, false
			for _, g := range guardsOf(bo) {
				if okDraft && c.guardIsDraft(g, want) {
					underDraft = true
				}
				if c.mentionsField(g.Cond, "Schema.Ref", 4) {
					underRef = true
				}
			}
			c.R.Check(!(underDraft && underRef), rule, fmt.Sprintf("%s:root-identity-test#%d", core.FuncName(fn), n), c.pos(bo), "a comparison with the root does not take part in the draft-07 rule for keywords beside $ref", "under the draft-07 test and the presence of $ref the code additionally asks whether the schema is the root: a root that is `$id` + `$ref` is exempted from \"the keywords beside $ref are ignored\", its $id becomes the base URI, and its relative $ref selects the document next to the $id instead of the one next to the retrieval URI")
		})
	}
	c.R.OK(rule, "examined", "", fmt.Sprintf("%d comparisons of a schema with the root in the resolution code", n))
}
