package rules

import (
	"go/types"
	"sort"

	"golang.org/x/tools/go/ssa"
)

// jsonField is one effective JSON object member of a struct type, as
// encoding/json (v1) resolves it.
type jsonField struct {
	Name      string
	Path      []int
	GoPath    []string
	Type      types.Type
	OmitEmpty bool
	Tagged    bool
	Depth     int
}

// jsonFieldsOf re-implements encoding/json's typeFields: breadth-first over
// embedded structs, the shallowest field of a name wins, at equal depth a
// tagged field beats untagged ones, otherwise the name is dropped.
func jsonFieldsOf(t types.Type) map[string]jsonField {
	type cand struct {
		jsonField
	}
	st, ok := t.Underlying().(*types.Struct)
	if !ok {
		return nil
	}
	type level struct {
		st     *types.Struct
		path   []int
		gopath []string
	}
	cur := []level{{st, nil, nil}}
	visited := map[*types.Struct]bool{}
	all := map[string][]jsonField{}
	depth := 0
	for len(cur) > 0 {
		var next []level
		for _, lv := range cur {
			if visited[lv.st] {
				continue
			}
			visited[lv.st] = true
			for i := 0; i < lv.st.NumFields(); i++ {
				f := lv.st.Field(i)
				ft := f.Type()
				if f.Embedded() {
					et := ft
					if p, ok := et.Underlying().(*types.Pointer); ok {
						et = p.Elem()
					}
					if _, isStruct := et.Underlying().(*types.Struct); !f.Exported() && !isStruct {
						continue
					}
				} else if !f.Exported() {
					continue
				}
				tagVal, hasTag := lookupTag(lv.st.Tag(i), "json")
				if tagVal == "-" {
					continue
				}
				name, opts := "", map[string]bool{}
				if hasTag {
					parts := splitComma(tagVal)
					name = parts[0]
					for _, o := range parts[1:] {
						opts[o] = true
					}
				}
				path := append(append([]int(nil), lv.path...), i)
				gopath := append(append([]string(nil), lv.gopath...), f.Name())
				et := ft
				if p, ok := et.Underlying().(*types.Pointer); ok && f.Embedded() {
					et = p.Elem()
				}
				if sub, isStruct := et.Underlying().(*types.Struct); f.Embedded() && name == "" && isStruct {
					next = append(next, level{sub, path, gopath})
					continue
				}
				tagged := name != ""
				if name == "" {
					name = f.Name()
				}
				all[name] = append(all[name], jsonField{Name: name, Path: path, GoPath: gopath, Type: ft, OmitEmpty: opts["omitempty"], Tagged: tagged, Depth: depth})
			}
		}
		cur = next
		depth++
	}
	out := map[string]jsonField{}
	for name, cs := range all {
		sort.SliceStable(cs, func(i, j int) bool { return cs[i].Depth < cs[j].Depth })
		min := cs[0].Depth
		var top []jsonField
		for _, c := range cs {
			if c.Depth == min {
				top = append(top, c)
			}
		}
		if len(top) == 1 {
			out[name] = top[0]
			continue
		}
		var tagged []jsonField
		for _, c := range top {
			if c.Tagged {
				tagged = append(tagged, c)
			}
		}
		if len(tagged) == 1 {
			out[name] = tagged[0]
		}
		// otherwise ambiguous: dropped
	}
	return out
}

func splitComma(s string) []string {
	var out []string
	cur := ""
	for _, r := range s {
		if r == ',' {
			out = append(out, cur)
			cur = ""
		} else {
			cur += string(r)
		}
	}
	return append(out, cur)
}

// wrapperTypes finds the struct types used as marshal and unmarshal wrappers:
// the type arguments of the generic splice helpers called from MarshalJSON /
// UnmarshalJSON of Schema.
func (c *Ctx) wrapperTypes(rule string) (marshal, unmarshal types.Type, marshalHelper, unmarshalHelper *ssa.Function) {
	find := func(entry *ssa.Function) (types.Type, *ssa.Function) {
		if entry == nil {
			return nil, nil
		}
		var t types.Type
		var helper *ssa.Function
		for _, b := range entry.Blocks {
			for _, i := range b.Instrs {
				call, ok := i.(ssa.CallInstruction)
				if !ok {
					continue
				}
				callee := call.Common().StaticCallee()
				if callee == nil || callee.Origin() == nil || !c.P.InPkg(callee) || len(callee.TypeArgs()) != 1 {
					continue
				}
				if _, isStruct := callee.TypeArgs()[0].Underlying().(*types.Struct); isStruct {
					t, helper = callee.TypeArgs()[0], callee
				}
			}
		}
		return t, helper
	}
	marshal, marshalHelper = find(c.fn("Schema.MarshalJSON"))
	unmarshal, unmarshalHelper = find(c.fn("(*Schema).UnmarshalJSON"))
	if marshal == nil {
		c.R.Unresolved(rule, "marshal wrapper struct (type argument of the splice helper called by Schema.MarshalJSON)")
	}
	if unmarshal == nil {
		c.R.Unresolved(rule, "unmarshal wrapper struct (type argument of the splice helper called by (*Schema).UnmarshalJSON)")
	}
	return
}
