package rules

// ruleOrderInsensitive is implemented in order_impl.go (DESIGN 3.7).
