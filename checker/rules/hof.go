package rules

import (
	"verif/checker/core"

	"golang.org/x/tools/go/ssa"
)

// Standard-library slice functions that apply a function argument to the elements of a slice
// argument: replacing a hand-written loop by one of them does not change behaviour, so the
// closure's element parameter is read as "an element of that slice" and the call's result as
// depending on the closure's results.
var hofSlice = map[string][2]int{ // callee -> (index of the slice argument, index of the function argument)
	"slices.ContainsFunc":     {0, 1},
	"slices.IndexFunc":        {0, 1},
	"slices.DeleteFunc":       {0, 1},
	"slices.SortFunc":         {0, 1},
	"slices.SortStableFunc":   {0, 1},
	"slices.BinarySearchFunc": {0, 2},
	"sort.Slice":              {0, 1},
}

// hofCallOf: the call of a slice higher-order function that receives closure fn as its function argument.
func hofCallOf(fn *ssa.Function) (*ssa.Call, ssa.Value) {
	par := fn.Parent()
	if par == nil {
		return nil, nil
	}
	var res *ssa.Call
	var slice ssa.Value
	for _, f := range core.WithAnon(par) {
		core.EachInstr(f, func(i ssa.Instruction) {
			call, ok := i.(*ssa.Call)
			if !ok {
				return
			}
			idx, ok := hofSlice[core.CalleeKey(&call.Call)]
			if !ok || idx[1] >= len(call.Call.Args) {
				return
			}
			for _, src := range traceSources(call.Call.Args[idx[1]]) {
				if mc, ok := src.(*ssa.MakeClosure); ok && mc.Fn == fn {
					res, slice = call, call.Call.Args[idx[0]]
				}
			}
		})
	}
	return res, slice
}

// paramSources: what a parameter stands for when that is known: the element source of a slice
// higher-order function, or the arguments at the static call sites of a transparent helper.
func (c *Ctx) paramSources(p *ssa.Parameter) []ssa.Value {
	fn := p.Parent()
	if fn == nil {
		return nil
	}
	if fn.Parent() != nil {
		if _, slice := hofCallOf(fn); slice != nil {
			return []ssa.Value{slice}
		}
		return nil
	}
	if c.transparent(fn) {
		return c.P.ArgsFor(p)
	}
	return nil
}

// hofClosureResults: for a call of a slice higher-order function, the values its closure argument returns.
func hofClosureResults(call *ssa.Call) []ssa.Value {
	idx, ok := hofSlice[core.CalleeKey(&call.Call)]
	if !ok || idx[1] >= len(call.Call.Args) {
		return nil
	}
	var out []ssa.Value
	for _, src := range traceSources(call.Call.Args[idx[1]]) {
		mc, ok := src.(*ssa.MakeClosure)
		if !ok {
			continue
		}
		fn, ok := mc.Fn.(*ssa.Function)
		if !ok {
			continue
		}
		core.EachInstr(fn, func(i ssa.Instruction) {
			if ret, ok := i.(*ssa.Return); ok {
				out = append(out, ret.Results...)
			}
		})
	}
	return out
}

// predMembership analyses a predicate closure handed to maps.DeleteFunc and the like: every return is
// `set[k]` or `!set[k]` for the closure's first parameter k and one map[string]bool. It returns the map
// value as seen in the enclosing function (the captured variable's binding) and whether the result is negated.
func predMembership(fv ssa.Value) (set ssa.Value, negated, ok bool) {
	var mc *ssa.MakeClosure
	for _, src := range traceSources(fv) {
		if m, isMC := src.(*ssa.MakeClosure); isMC {
			mc = m
		}
	}
	if mc == nil {
		return nil, false, false
	}
	fn, isFn := mc.Fn.(*ssa.Function)
	if !isFn || len(fn.Params) == 0 {
		return nil, false, false
	}
	n := 0
	good := true
	core.EachInstr(fn, func(i ssa.Instruction) {
		ret, isRet := i.(*ssa.Return)
		if !isRet || len(ret.Results) != 1 {
			return
		}
		n++
		v := ret.Results[0]
		neg := false
		if u, isU := v.(*ssa.UnOp); isU && u.Op.String() == "!" {
			v, neg = u.X, true
		}
		lk, isLk := v.(*ssa.Lookup)
		// the branch form: `if set[k] { return false }; ...; return true` - a constant returned under the lookup's outcome
		if kc, isK := v.(*ssa.Const); isK && !isLk && !neg && kc.Value != nil && isBoolType(kc.Type()) {
			for _, g := range guardsLocal(ret) {
				if gl, ok := g.Cond.(*ssa.Lookup); ok && gl.Index == ssa.Value(fn.Params[0]) {
					lk, isLk = gl, true
					// result == constant; the lookup has outcome g.Pol: result is "member" when they agree
					neg = (kc.Value.String() == "true") != g.Pol
				}
			}
		}
		if !isLk || lk.Index != fn.Params[0] {
			good = false
			return
		}
		// the map: a captured variable of the enclosing function
		var m ssa.Value = lk.X
		if ld, isLd := m.(*ssa.UnOp); isLd {
			if fvr, isFV := ld.X.(*ssa.FreeVar); isFV {
				for k, f := range fn.FreeVars {
					if f == fvr && k < len(mc.Bindings) {
						m = mc.Bindings[k]
					}
				}
			}
		}
		if fvr, isFV := m.(*ssa.FreeVar); isFV {
			for k, f := range fn.FreeVars {
				if f == fvr && k < len(mc.Bindings) {
					m = mc.Bindings[k]
				}
			}
		}
		if set != nil && (set != m || negated != neg) {
			good = false
		}
		set, negated = m, neg
	})
	return set, negated, good && n > 0 && set != nil
}

// fromPkgCall: v is (a variable holding) the result of a call to a function of the analysed package.
func (c *Ctx) fromPkgCall(v ssa.Value) *ssa.Function {
	for _, src := range traceSourcesDeep(v) {
		// a captured variable's cell
		if a, ok := src.(*ssa.Alloc); ok {
			for _, sv := range cellStores(a) {
				if f := c.fromPkgCall(sv); f != nil {
					return f
				}
			}
		}
		if sc, ok := src.(*ssa.Call); ok {
			if callee := sc.Call.StaticCallee(); callee != nil && c.P.InPkg(callee) {
				return callee
			}
		}
	}
	return nil
}
