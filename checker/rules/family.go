package rules

import (
	"sort"
	"strings"

	"verif/checker/core"

	"golang.org/x/tools/go/ssa"
)

// Helper transparency.
//
// A rule that inspects "the code of function F" must not depend on whether a
// piece of that code sits in F itself, in a closure of F or in a small
// unexported function F calls: extracting a block into a helper (or inlining
// one) does not change behaviour. The family of F is F, its closures, and the
// transparent helpers they call: package functions all of whose callers are
// static calls the index sees (unexported, never used as a value), that are
// not themselves one of the role anchors the rules look for, and that are not
// self-recursive. Instructions of a helper are presented together with the
// path of call sites that leads to them, so that dominance and guard questions
// can be asked at the level of F ("is the call that leads there in region R?").

type famInstr struct {
	I    ssa.Instruction
	Path []ssa.CallInstruction // call sites from the root's family down to I's function; empty when I is in the root (or one of its closures)
}

// Top is the instruction of the root function (or its closures) that stands for I: the outermost call site, or I itself.
func (fi famInstr) Top() ssa.Instruction {
	if len(fi.Path) > 0 {
		return fi.Path[0]
	}
	return fi.I
}

func (c *Ctx) isRole(fn *ssa.Function) bool {
	for _, f := range c.roles {
		if f == fn && f != nil {
			return true
		}
	}
	return false
}

func selfRecursive(fn *ssa.Function) bool {
	rec := false
	for _, f := range core.WithAnon(fn) {
		core.EachInstr(f, func(i ssa.Instruction) {
			if call, ok := i.(ssa.CallInstruction); ok && call.Common().StaticCallee() == fn {
				rec = true
			}
		})
	}
	return rec
}

// transparent: fn is a helper whose body may be read as part of its callers.
func (c *Ctx) transparent(fn *ssa.Function) bool {
	if fn == nil || fn.Parent() != nil || fn.Synthetic != "" || len(fn.Blocks) == 0 {
		return false
	}
	v, ok := c.transparentCache[fn]
	if !ok {
		v = c.P.InPkg(fn) && c.P.OnlyStaticCallers(fn) && !selfRecursive(fn) && fn.TypeParams().Len() == 0
		c.transparentCache[fn] = v
	}
	return v && !c.isRole(fn)
}

// familyInstrs lists every instruction of root, of its closures, and of the transparent
// helpers they call (to depth 3), each helper instruction once per call path.
func (c *Ctx) familyInstrs(root *ssa.Function) []famInstr {
	var out []famInstr
	var visit func(fn *ssa.Function, path []ssa.CallInstruction, onPath map[*ssa.Function]bool)
	visit = func(fn *ssa.Function, path []ssa.CallInstruction, onPath map[*ssa.Function]bool) {
		for _, f := range core.WithAnon(fn) {
			core.EachInstr(f, func(i ssa.Instruction) {
				out = append(out, famInstr{i, path})
				call, ok := i.(ssa.CallInstruction)
				if !ok || len(path) >= 3 {
					return
				}
				callee := call.Common().StaticCallee()
				if callee == nil || callee == root || onPath[callee] || !c.transparent(callee) {
					return
				}
				onPath[callee] = true
				np := append(append([]ssa.CallInstruction{}, path...), call)
				visit(callee, np, onPath)
				delete(onPath, callee)
			})
		}
	}
	visit(root, nil, map[*ssa.Function]bool{root: true})
	return out
}

// familyFuncs: the distinct functions of the family, root first.
func (c *Ctx) familyFuncs(root *ssa.Function) []*ssa.Function {
	seen := map[*ssa.Function]bool{}
	var out []*ssa.Function
	for _, fi := range c.familyInstrs(root) {
		if f := fi.I.Parent(); !seen[f] {
			seen[f] = true
			out = append(out, f)
		}
	}
	return out
}

// famGuards: the branch outcomes that necessarily hold when fi.I executes on this path:
// those inside its own function and those of every call site on the path.
func famGuards(fi famInstr) []guardAtom {
	out := guardsOf(fi.I)
	for _, site := range fi.Path {
		out = append(out, guardsOf(site)...)
	}
	return out
}

// famControlGuards: like famGuards with control dependence (may-conditions).
func famControlGuards(fi famInstr) []guardAtom {
	out := controlGuards(fi.I)
	for _, site := range fi.Path {
		out = append(out, controlGuards(site)...)
	}
	return out
}

// subjectsDeep extends subjectSet across transparent helpers: a helper parameter belongs to the
// subject when every call site passes a subject value for it; so do the values derived from it.
func (c *Ctx) subjectsDeep(root *ssa.Function, p *ssa.Parameter) map[ssa.Value]bool {
	set := subjectSet(root, p)
	funcs := c.familyFuncs(root)
	changed := true
	for changed {
		changed = false
		for _, fn := range funcs {
			if fn == root || fn.Parent() != nil || !c.transparent(fn) {
				continue
			}
			for _, q := range fn.Params {
				if set[q] {
					continue
				}
				args := c.P.ArgsFor(q)
				if len(args) == 0 {
					continue
				}
				all := true
				for _, a := range args {
					if !set[a] {
						all = false
					}
				}
				if all {
					for v := range subjectSet(fn, q) {
						set[v] = true
					}
					changed = true
				}
			}
		}
	}
	return set
}

// upValue maps a helper parameter back to the argument passed on this path (repeatedly), so that
// a value used inside a helper can be compared with values of the root function.
func upValue(v ssa.Value, path []ssa.CallInstruction) ssa.Value {
	for k := len(path) - 1; k >= 0; k-- {
		p, ok := v.(*ssa.Parameter)
		if !ok {
			return v
		}
		callee := path[k].Common().StaticCallee()
		if callee == nil || p.Parent() != callee {
			return v
		}
		idx := -1
		for j, q := range callee.Params {
			if q == p {
				idx = j
			}
		}
		if idx < 0 || idx >= len(path[k].Common().Args) {
			return v
		}
		v = path[k].Common().Args[idx]
	}
	return v
}

// inRegion: fi executes only inside the region dominated by block b of the root function
// (b dominates the instruction itself, or the outermost call site that leads to it).
func inRegion(fi famInstr, b *ssa.BasicBlock) bool {
	// the level of the path that lies in b's function decides
	if fi.I.Parent() == b.Parent() {
		return b.Dominates(fi.I.Block())
	}
	for k := len(fi.Path) - 1; k >= 0; k-- {
		if fi.Path[k].Parent() == b.Parent() {
			return b.Dominates(fi.Path[k].Block())
		}
	}
	return false
}

func sortedFuncs(m map[*ssa.Function]bool) []*ssa.Function {
	var out []*ssa.Function
	for f := range m {
		out = append(out, f)
	}
	sort.Slice(out, func(i, j int) bool { return core.FuncName(out[i]) < core.FuncName(out[j]) })
	return out
}

// shortFuncName: the canonical method or function name without its receiver.
func shortFuncName(fn *ssa.Function) string {
	n := core.FuncName(fn)
	for k := len(n) - 1; k >= 0; k-- {
		if n[k] == '.' {
			return n[k+1:]
		}
	}
	return n
}

// ---- implicit lifting: primitives that see through single-call-site helpers ----

// curCtx is the context of the run in progress; the free-standing CFG primitives use it to
// see through transparent helpers.
var curCtx *Ctx

// soleCaller: the only static call site of a transparent helper (nil when fn is not one, or has several).
func soleCaller(fn *ssa.Function) ssa.CallInstruction {
	c := curCtx
	if c == nil || fn == nil || fn.Parent() != nil || !c.transparent(fn) {
		return nil
	}
	sites := c.P.CallIndex().Sites[fn]
	if len(sites) != 1 {
		return nil
	}
	return sites[0]
}

// liftTo returns the instruction of function fn (or of a closure nested in fn) that stands for i:
// i itself, or the call site through which the helper containing i is entered (climbing sole callers).
func liftTo(i ssa.Instruction, fn *ssa.Function) ssa.Instruction {
	for hops := 0; hops < 6; hops++ {
		if i.Parent() == fn {
			return i
		}
		// the body of a range-over-func loop runs where the loop stands: the call of the iterator in the parent
		if body := i.Parent(); body.Parent() != nil && isRangeFuncBody(body) {
			if at := rangeFuncCall(body); at != nil {
				i = at
				continue
			}
		}
		for f := i.Parent(); f != nil; f = f.Parent() {
			if f == fn {
				return i
			}
		}
		site := soleCaller(i.Parent())
		if site == nil {
			// a closure of a helper: climb to the helper first
			if p := i.Parent().Parent(); p != nil {
				if s2 := soleCaller(outermost(p)); s2 != nil {
					i = s2
					continue
				}
			}
			return nil
		}
		i = site
	}
	return nil
}

func outermost(fn *ssa.Function) *ssa.Function {
	for fn.Parent() != nil {
		fn = fn.Parent()
	}
	return fn
}

// eachFam calls f for every instruction of root, of its closures and of the transparent helpers they call, once each.
func (c *Ctx) eachFam(root *ssa.Function, f func(i ssa.Instruction)) {
	seen := map[ssa.Instruction]bool{}
	for _, fi := range c.familyInstrs(root) {
		if !seen[fi.I] {
			seen[fi.I] = true
			f(fi.I)
		}
	}
}

// eachFamTop: like eachFam but without the closures of root itself (instructions of root and of helpers reached from it).
func (c *Ctx) eachFamOwn(root *ssa.Function, f func(i ssa.Instruction)) {
	seen := map[ssa.Instruction]bool{}
	for _, fi := range c.familyInstrs(root) {
		top := fi.Top()
		if top.Parent() != root {
			continue
		}
		if !seen[fi.I] {
			seen[fi.I] = true
			f(fi.I)
		}
	}
}

// domIn: block b of function b.Parent() dominates instruction i, seen through helpers:
// i (or the call site that leads to it) lies in the region dominated by b.
func domIn(b *ssa.BasicBlock, i ssa.Instruction) bool {
	li := liftTo(i, b.Parent())
	if li == nil || li.Parent() != b.Parent() {
		return false
	}
	return b.Dominates(li.Block())
}

// dominatesFam: instruction a executes before b on every path, seen through helpers.
// a in a helper: its call site must dominate b and a must lie on every normal path through the helper.
func dominatesFam(a, b ssa.Instruction) bool {
	if a.Parent() == b.Parent() {
		return core.Dominates(a, b)
	}
	// b inside a helper of a's function
	if lb := liftTo(b, a.Parent()); lb != nil && lb.Parent() == a.Parent() {
		return lb == a || core.Dominates(a, lb)
	}
	// a inside a helper of b's function
	if la := liftTo(a, b.Parent()); la != nil && la.Parent() == b.Parent() {
		return core.Dominates(la, b) && alwaysExecuted(a)
	}
	// b inside a helper with several call sites: a must come before every one of them
	if c := curCtx; c != nil {
		h := outermost(b.Parent())
		if h != outermost(a.Parent()) && c.transparent(h) {
			sites := c.P.CallIndex().Sites[h]
			if len(sites) > 1 {
				for _, site := range sites {
					if !dominatesFam(a, site) {
						return false
					}
				}
				return true
			}
		}
	}
	return false
}

// alwaysExecuted: a's block dominates every normal return of its function (a runs whenever the function returns).
func alwaysExecuted(a ssa.Instruction) bool {
	fn := a.Parent()
	for _, bl := range fn.Blocks {
		if _, ok := bl.Instrs[len(bl.Instrs)-1].(*ssa.Return); ok && bl != fn.Recover {
			if !a.Block().Dominates(bl) {
				return false
			}
		}
	}
	return true
}

func isRangeFuncBody(fn *ssa.Function) bool {
	return fn != nil && fn.Parent() != nil && strings.Contains(fn.Synthetic, "range-over-func")
}

// rangeFuncCall: the instruction of the parent that runs the range-over-func body (the call of the iterator with the body closure).
func rangeFuncCall(body *ssa.Function) ssa.Instruction {
	var at ssa.Instruction
	core.EachInstr(body.Parent(), func(i ssa.Instruction) {
		call, ok := i.(ssa.CallInstruction)
		if !ok {
			return
		}
		for _, a := range call.Common().Args {
			if mc, ok := a.(*ssa.MakeClosure); ok && mc.Fn == body {
				at = i
			}
		}
	})
	return at
}
