package rules

import (
	"sort"

	"verif/checker/core"

	"golang.org/x/tools/go/ssa"
)

// Helper transparency.
//
// A rule that inspects "the code of function F" must not depend on whether a
// piece of that code sits in F itself, in a closure of F or in a small
// unexported function F calls: extracting a block into a helper (or inlining
// one) does not change behaviour. The family of F is F, its closures, and the
// transparent helpers they call: package functions all of whose callers are
// static calls the index sees (unexported, never used as a value), that are
// not themselves one of the role anchors the rules look for, and that are not
// self-recursive. Instructions of a helper are presented together with the
// path of call sites that leads to them, so that dominance and guard questions
// can be asked at the level of F ("is the call that leads there in region R?").

type famInstr struct {
	I    ssa.Instruction
	Path []ssa.CallInstruction // call sites from the root's family down to I's function; empty when I is in the root (or one of its closures)
}

// Top is the instruction of the root function (or its closures) that stands for I: the outermost call site, or I itself.
func (fi famInstr) Top() ssa.Instruction {
	if len(fi.Path) > 0 {
		return fi.Path[0]
	}
	return fi.I
}

func (c *Ctx) isRole(fn *ssa.Function) bool {
	for _, f := range c.roles {
		if f == fn {
			return true
		}
	}
	return false
}

func selfRecursive(fn *ssa.Function) bool {
	rec := false
	for _, f := range core.WithAnon(fn) {
		core.EachInstr(f, func(i ssa.Instruction) {
			if call, ok := i.(ssa.CallInstruction); ok && call.Common().StaticCallee() == fn {
				rec = true
			}
		})
	}
	return rec
}

// transparent: fn is a helper whose body may be read as part of its callers.
func (c *Ctx) transparent(fn *ssa.Function) bool {
	if fn == nil || fn.Parent() != nil || fn.Synthetic != "" || len(fn.Blocks) == 0 {
		return false
	}
	v, ok := c.transparentCache[fn]
	if !ok {
		v = c.P.InPkg(fn) && c.P.OnlyStaticCallers(fn) && !selfRecursive(fn) && fn.TypeParams().Len() == 0
		c.transparentCache[fn] = v
	}
	return v && !c.isRole(fn)
}

// familyInstrs lists every instruction of root, of its closures, and of the transparent
// helpers they call (to depth 3), each helper instruction once per call path.
func (c *Ctx) familyInstrs(root *ssa.Function) []famInstr {
	var out []famInstr
	var visit func(fn *ssa.Function, path []ssa.CallInstruction, onPath map[*ssa.Function]bool)
	visit = func(fn *ssa.Function, path []ssa.CallInstruction, onPath map[*ssa.Function]bool) {
		for _, f := range core.WithAnon(fn) {
			core.EachInstr(f, func(i ssa.Instruction) {
				out = append(out, famInstr{i, path})
				call, ok := i.(ssa.CallInstruction)
				if !ok || len(path) >= 3 {
					return
				}
				callee := call.Common().StaticCallee()
				if callee == nil || callee == root || onPath[callee] || !c.transparent(callee) {
					return
				}
				onPath[callee] = true
				np := append(append([]ssa.CallInstruction{}, path...), call)
				visit(callee, np, onPath)
				delete(onPath, callee)
			})
		}
	}
	visit(root, nil, map[*ssa.Function]bool{root: true})
	return out
}

// familyFuncs: the distinct functions of the family, root first.
func (c *Ctx) familyFuncs(root *ssa.Function) []*ssa.Function {
	seen := map[*ssa.Function]bool{}
	var out []*ssa.Function
	for _, fi := range c.familyInstrs(root) {
		if f := fi.I.Parent(); !seen[f] {
			seen[f] = true
			out = append(out, f)
		}
	}
	return out
}

// famGuards: the branch outcomes that necessarily hold when fi.I executes on this path:
// those inside its own function and those of every call site on the path.
func famGuards(fi famInstr) []guardAtom {
	out := guardsOf(fi.I)
	for _, site := range fi.Path {
		out = append(out, guardsOf(site)...)
	}
	return out
}

// famControlGuards: like famGuards with control dependence (may-conditions).
func famControlGuards(fi famInstr) []guardAtom {
	out := controlGuards(fi.I)
	for _, site := range fi.Path {
		out = append(out, controlGuards(site)...)
	}
	return out
}

// subjectsDeep extends subjectSet across transparent helpers: a helper parameter belongs to the
// subject when every call site passes a subject value for it; so do the values derived from it.
func (c *Ctx) subjectsDeep(root *ssa.Function, p *ssa.Parameter) map[ssa.Value]bool {
	set := subjectSet(root, p)
	funcs := c.familyFuncs(root)
	changed := true
	for changed {
		changed = false
		for _, fn := range funcs {
			if fn == root || fn.Parent() != nil || !c.transparent(fn) {
				continue
			}
			for _, q := range fn.Params {
				if set[q] {
					continue
				}
				args := c.P.ArgsFor(q)
				if len(args) == 0 {
					continue
				}
				all := true
				for _, a := range args {
					if !set[a] {
						all = false
					}
				}
				if all {
					for v := range subjectSet(fn, q) {
						set[v] = true
					}
					changed = true
				}
			}
		}
	}
	return set
}

// upValue maps a helper parameter back to the argument passed on this path (repeatedly), so that
// a value used inside a helper can be compared with values of the root function.
func upValue(v ssa.Value, path []ssa.CallInstruction) ssa.Value {
	for k := len(path) - 1; k >= 0; k-- {
		p, ok := v.(*ssa.Parameter)
		if !ok {
			return v
		}
		callee := path[k].Common().StaticCallee()
		if callee == nil || p.Parent() != callee {
			return v
		}
		idx := -1
		for j, q := range callee.Params {
			if q == p {
				idx = j
			}
		}
		if idx < 0 || idx >= len(path[k].Common().Args) {
			return v
		}
		v = path[k].Common().Args[idx]
	}
	return v
}

// inRegion: fi executes only inside the region dominated by block b of the root function
// (b dominates the instruction itself, or the outermost call site that leads to it).
func inRegion(fi famInstr, b *ssa.BasicBlock) bool {
	top := fi.Top()
	if top.Parent() != b.Parent() {
		return false
	}
	return b.Dominates(top.Block())
}

func sortedFuncs(m map[*ssa.Function]bool) []*ssa.Function {
	var out []*ssa.Function
	for f := range m {
		out = append(out, f)
	}
	sort.Slice(out, func(i, j int) bool { return core.FuncName(out[i]) < core.FuncName(out[j]) })
	return out
}

// shortFuncName: the canonical method or function name without its receiver.
func shortFuncName(fn *ssa.Function) string {
	n := core.FuncName(fn)
	for k := len(n) - 1; k >= 0; k-- {
		if n[k] == '.' {
			return n[k+1:]
		}
	}
	return n
}
