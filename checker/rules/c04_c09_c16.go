package rules

import (
	"fmt"
	"go/constant"
	"go/token"
	"go/types"
	"math"
	"strings"

	"golang.org/x/tools/go/ssa"

	"verif/checker/core"
)

func init() {
	register(&Property{
		ID: "C04",
		Rules: []Rule{
			{"C04/kind-coverage", ruleC04KindCoverage},
			{"C04/null-for-nilable", ruleC04Null},
			{"C04/marshaler-table", ruleC04MarshalerTable},
			{"C04/anon-tag", func(c *Ctx) { ruleAnonTag(c, "C04/anon-tag") }},
			{"C04/bounds-table", func(c *Ctx) { ruleBoundsTable(c, "C04/bounds-table") }},
			{"C04/required-guard", func(c *Ctx) { ruleRequiredGuard(c, "C04/required-guard") }},
			{"C04/tag-parser", func(c *Ctx) { ruleTagParser(c, "C04/tag-parser") }},
			{"C04/integer-classification", func(c *Ctx) { ruleIntegerClassification(c, "C04/integer-classification") }},
		},
		Explanation: "Decides the code-shape clauses of inference soundness: the kind dispatch handles exactly the documented kinds and sends the rest to the unsupported/ignored exit; `null` is added for pointers, slices and substituted schemas only by extending an existing type (never producing a list with only \"null\") and is never withheld for a particular type; the table of standard-library marshaler types maps each type to the JSON type it marshals to (frozen table; big.Int is a known finding); an embedded field's json tag is consulted before it is flattened (known finding); the bounds of sized integers equal the ranges of their kinds; a field is required exactly when it carries neither omitempty nor omitzero; the tag parser is a pure function of the field; integral floats are classified by an exact test. It does NOT decide agreement with encoding/json's dynamic field resolution (name conflicts between a field and a promoted field are not detectable by a shape rule) nor the validity of any concrete value.",
		NotDecided:  []string{"JSON-name conflicts between a field and a deeper promoted field (confirmed defect D9; no shape-independent static condition separates a correct implementation from this one)", "values of marshaler types", "the validity of any concrete encoded value"},
	})
	register(&Property{
		ID: "C09",
		Rules: []Rule{
			{"C09/closed-objects", ruleC09Closed},
			{"C09/required-guard", func(c *Ctx) { ruleRequiredGuard(c, "C09/required-guard") }},
			{"C09/bounds-table", func(c *Ctx) { ruleBoundsTable(c, "C09/bounds-table") }},
			{"C09/array-length", ruleC09ArrayLength},
			{"C09/element-schemas", ruleC09Elements},
			{"C09/numeric-keywords-unconditional", func(c *Ctx) { ruleNumericUnconditional(c, "C09/numeric-keywords-unconditional") }},
			{"C09/anon-tag", func(c *Ctx) { ruleAnonTag(c, "C09/anon-tag") }},
		},
		Explanation: "Decides that inferred schemas are tight in shape: every struct schema is closed (additionalProperties false is stored unconditionally on the struct path, also for structs without fields); required is appended exactly under the two negated option tests; the constants stored as minimum/maximum equal the range of each sized integer kind, are fresh per schema, unsigned kinds have minimum 0, integer kinds have type integer and floats number; fixed-size arrays get minItems = maxItems = their length; slices, arrays and maps get the recursive schema of their element type; and the evaluator applies minimum/maximum/multipleOf to every number regardless of the `type` keyword (so the bounds of nullable integers are enforced). It does NOT decide agreement with encoding/json's decoder.",
		NotDecided:  []string{"agreement with encoding/json's decoder (case-insensitive field matching, number syntax)", "D8/D9 (flattened tagged embedded structs, name conflicts), which break this property too"},
	})
	register(&Property{
		ID: "C16",
		Rules: []Rule{
			{"C16/clone-on-substitute", ruleC16Clone},
			{"C16/table-copy", ruleC16TableCopy},
			{"C16/cycle-detection", ruleC16Cycle},
			{"C16/order-deterministic", func(c *Ctx) { c.ruleOrderInsensitive("C16/order-deterministic", "INF") }},
			{"C16/tag-parser", func(c *Ctx) { ruleTagParser(c, "C16/tag-parser") }},
			{"C16/anon-tag", func(c *Ctx) { ruleAnonTag(c, "C16/anon-tag") }},
			{"C16/required-guard", func(c *Ctx) { ruleRequiredGuard(c, "C16/required-guard") }},
			{"C16/null-for-nilable", func(c *Ctx) { ruleC04NullAs(c, "C16/null-for-nilable") }},
			{"C16/no-shared-writes", func(c *Ctx) { c.ruleNoSharedWrites("C16/no-shared-writes", "INF") }},
			{"C16/skip-by-index-prefix", ruleC16SkipPrefix},
			{"C16/inferred-order-duplicate-free", func(c *Ctx) { ruleInferredOrderDedup(c, "C16/inferred-order-duplicate-free") }},
		},
		Explanation: "Decides isolation and determinism of inference structurally: every schema taken from the type table or from a TypeSchemas override (including the properties of an overridden embedded struct) passes through CloneSchemas before it enters the result, and no Schema value is copied shallowly; the table handed to the recursion is a per-call clone of the package table, and nothing reachable from For writes the package table, the options or anything not allocated by the call; the cycle mark is tested and set before recursing and removed by a deferred delete on every exit; every map iteration is order-insensitive; tag options are the exact comma-separated elements and the tag parser is a pure function of the field; required follows the two option tests; the promoted fields of an overridden embedded struct are skipped by comparing index prefixes; the inferred PropertyOrder is always de-duplicated. It does NOT decide agreement of names and order with encoding/json for every tag string.",
		NotDecided:  []string{"agreement of property names and order with encoding/json for every tag string and embedding (D8, D9)", "equality of repeated results as values"},
	})
}

// typeSubject: values denoting the reflect.Type parameter of fn after pointer stripping.
func typeSubjectSet(fn *ssa.Function, p *ssa.Parameter) map[ssa.Value]bool {
	set := map[ssa.Value]bool{p: true}
	changed := true
	for changed {
		changed = false
		core.EachInstr(fn, func(i ssa.Instruction) {
			// a parameter captured by a closure lives in a cell: loads of the cell are the parameter
			if ld, ok := i.(*ssa.UnOp); ok && ld.Op == token.MUL && !set[ld] {
				if cell := resolveCell(ld.X); cell != nil {
					stores := cellStores(cell)
					all := len(stores) > 0
					for _, sv := range stores {
						if !set[sv] {
							all = false
						}
					}
					if all {
						set[ld] = true
						changed = true
					}
				}
				return
			}
			phi, ok := i.(*ssa.Phi)
			if !ok || set[phi] {
				return
			}
			all := true
			for _, e := range phi.Edges {
				if set[e] {
					continue
				}
				if call, ok := e.(*ssa.Call); ok && call.Call.IsInvoke() && call.Call.Method.Name() == "Elem" && (set[call.Call.Value] || call.Call.Value == phi) {
					continue
				}
				all = false
			}
			if all {
				set[phi] = true
				changed = true
			}
		})
	}
	return set
}

type inferModel struct {
	fn        *ssa.Function
	typeParam *ssa.Parameter // the reflect.Type being translated
	subj      map[ssa.Value]bool
	kf        *kindFlow
	c         *Ctx
}

// The inputs of the recursion are recognised by type, wherever they are passed: as parameters of the inference
// function, or as fields of a parameter/receiver struct that bundles them (an "inference context").
func (m *inferModel) isTableType(t types.Type) bool {
	mt, ok := t.Underlying().(*types.Map)
	return ok && isNamed(mt.Key(), "reflect", "Type") && m.c.isPkgNamed(mt.Elem(), "Schema") && isPointer(mt.Elem())
}

func (m *inferModel) isSeenType(t types.Type) bool {
	mt, ok := t.Underlying().(*types.Map)
	return ok && isNamed(mt.Key(), "reflect", "Type") && tBool(mt.Elem())
}

// inputOfType: v is one of the recursion's inputs of the given type: a parameter of the inference function (or of
// one of its helpers), or a field loaded from such a parameter.
func (m *inferModel) inputOfType(v ssa.Value, is func(types.Type) bool) bool {
	if v == nil || !is(v.Type()) {
		return false
	}
	for _, src := range append(traceSourcesDeep(v), v) {
		switch x := src.(type) {
		case *ssa.Parameter:
			return true
		case *ssa.UnOp:
			if fa, ok := x.X.(*ssa.FieldAddr); ok {
				for _, s2 := range append(traceSourcesDeep(fa.X), fa.X) {
					if _, isP := s2.(*ssa.Parameter); isP {
						return true
					}
				}
			}
		}
	}
	return false
}

func (m *inferModel) isTable(v ssa.Value) bool { return m.inputOfType(v, m.isTableType) }
func (m *inferModel) isSeen(v ssa.Value) bool  { return m.inputOfType(v, m.isSeenType) }

// entryInput: at an entry call of the inference function, the values given for the input of the given type:
// the argument itself, or what is stored into that field of the context struct handed over.
func (m *inferModel) entryInput(call *ssa.Call, is func(types.Type) bool) []ssa.Value {
	var out []ssa.Value
	for _, a := range call.Call.Args {
		if is(a.Type()) {
			out = append(out, a)
			continue
		}
		// a pointer to a struct with a field of that type
		pt, ok := a.Type().Underlying().(*types.Pointer)
		if !ok {
			continue
		}
		st, ok := pt.Elem().Underlying().(*types.Struct)
		if !ok {
			continue
		}
		for fi := 0; fi < st.NumFields(); fi++ {
			if !is(st.Field(fi).Type()) {
				continue
			}
			for _, src := range traceSourcesDeep(a) {
				alloc, isAlloc := src.(*ssa.Alloc)
				if !isAlloc {
					continue
				}
				core.EachInstr(alloc.Parent(), func(i ssa.Instruction) {
					if sto, ok := i.(*ssa.Store); ok {
						if fa, ok := sto.Addr.(*ssa.FieldAddr); ok && fa.X == alloc && fa.Field == fi {
							out = append(out, sto.Val)
						}
					}
				})
			}
		}
	}
	return out
}

func (c *Ctx) inferModel(rule string) *inferModel {
	fn := c.inferFn(rule)
	if fn == nil {
		return nil
	}
	// the json tag parser is a role anchor (C04/tag-parser), not a helper to see through
	if _, done := c.roles["role:tag-parser"]; !done {
		c.roles["role:tag-parser"] = nil
		for _, fi := range c.familyInstrs(fn) {
			if call, ok := fi.I.(*ssa.Call); ok {
				if callee := call.Call.StaticCallee(); callee != nil && c.P.InPkg(callee) && callee.Signature.Params().Len() >= 1 && isNamed(callee.Signature.Params().At(0).Type(), "reflect", "StructField") {
					// (the parser returns the parsed tag as a struct; a helper that returns just the name is not it)
					if rs := callee.Signature.Results(); rs.Len() == 1 {
						if st, isStruct := rs.At(0).Type().Underlying().(*types.Struct); isStruct {
							// the parser proper records the options as a set; a first-stage helper that only splits the tag does not
							hasSet := false
							for k := 0; k < st.NumFields(); k++ {
								if _, isMap := st.Field(k).Type().Underlying().(*types.Map); isMap {
									hasSet = true
								}
							}
							if prev := c.roles["role:tag-parser"]; prev == nil || hasSet {
								c.roles["role:tag-parser"] = callee
							}
						}
					}
				}
			}
		}
	}
	var tp *ssa.Parameter
	for _, p := range fn.Params {
		if isNamed(p.Type(), "reflect", "Type") && tp == nil {
			tp = p
		}
	}
	if tp == nil {
		c.R.Unresolved(rule, "reflect.Type parameter of the inference function")
		return nil
	}
	m := &inferModel{fn: fn, typeParam: tp, subj: typeSubjectSet(fn, tp), c: c}
	// the type being translated, as seen by transparent helpers that are handed it at every call site
	for changed := true; changed; {
		changed = false
		for _, h := range c.familyFuncs(fn) {
			if h == fn || h.Parent() != nil || !c.transparent(h) {
				continue
			}
			for _, q := range h.Params {
				if m.subj[q] || !isNamed(q.Type(), "reflect", "Type") {
					continue
				}
				args := c.P.ArgsFor(q)
				all := len(args) > 0
				for _, a := range args {
					if !m.subj[a] {
						all = false
					}
				}
				if all {
					for v := range typeSubjectSet(h, q) {
						m.subj[v] = true
					}
					changed = true
				}
			}
		}
	}
	m.kf = KindFlow(fn, func(v ssa.Value) bool { return m.subj[v] }, nil)
	return m
}

// storesToField lists stores into the named Schema field in fn.
func (c *Ctx) storesToField(fn *ssa.Function, field string) []*ssa.Store {
	var out []*ssa.Store
	c.eachFam(fn, func(i ssa.Instruction) {
		if st, ok := i.(*ssa.Store); ok {
			if fa, ok := st.Addr.(*ssa.FieldAddr); ok && c.fieldName(fa.X.Type(), fa.Field) == field {
				out = append(out, st)
			}
		}
	})
	return out
}

func ruleC04KindCoverage(c *Ctx) {
	const rule = "C04/kind-coverage"
	m := c.inferModel(rule)
	if m == nil {
		return
	}
	// kinds for which a schema is produced: the kinds possible at stores to Schema.Type / Types and at the plain success return
	handled := KindSet(0)
	for _, f := range []string{"Schema.Type", "Schema.Types", "Schema.Items", "Schema.AdditionalProperties"} {
		for _, st := range c.storesToField(m.fn, f) {
			// only stores into the schema under construction (a fresh Schema of this activation), not into a substituted one
			fa := st.Addr.(*ssa.FieldAddr)
			fresh := true
			for _, src := range traceSourcesDeep(fa.X) {
				if _, isAlloc := src.(*ssa.Alloc); !isAlloc {
					fresh = false
				}
			}
			if !fresh {
				continue
			}
			ks := m.kf.At(st)
			if ks != AllKinds {
				handled |= ks
			}
		}
	}
	// Interface: unrestricted (no store); detect an explicit comparison with Interface
	c.eachFam(m.fn, func(i ssa.Instruction) {
		if bo, ok := i.(*ssa.BinOp); ok && bo.Op == token.EQL {
			if k, ok := bo.Y.(*ssa.Const); ok {
				if call, ok := bo.X.(*ssa.Call); ok && call.Call.IsInvoke() && call.Call.Method.Name() == "Kind" && m.subj[call.Call.Value] {
					if kv, ok := constInt(k); ok && kv == kInterface {
						handled |= Kinds(kInterface)
					}
					if kv, ok := constInt(k); ok && kv == kPointer {
						handled |= Kinds(kPointer)
					}
				}
			}
		}
	})
	want := Kinds(kBool, kInt, kInt8, kInt16, kInt32, kInt64, kUint, kUint8, kUint16, kUint32, kUint64, kUintptr, kFloat32, kFloat64, kInterface, kMap, kPointer, kSlice, kArray, kString, kStruct)
	missing, extra := want&^handled, handled&^want
	c.R.Check(missing == 0, rule, "documented-kinds-handled", c.P.Pos(m.fn.Pos()), fmt.Sprintf("a schema is produced for %s", handled&want), fmt.Sprintf("no schema is produced for the documented kinds %s", missing))
	c.R.Check(extra == 0, rule, "undocumented-kinds-rejected", c.P.Pos(m.fn.Pos()), "complex, chan, func and unsafe pointer reach the unsupported/ignored exit", fmt.Sprintf("a schema is produced for %s, which cannot be represented in JSON", extra))
	// the type keyword per kind
	wantType := map[string]KindSet{"boolean": Kinds(kBool), "integer": intKinds | uintKinds, "number": floatKinds, "object": Kinds(kMap, kStruct), "array": Kinds(kArray, kSlice), "string": Kinds(kString)}
	for _, st := range c.storesToField(m.fn, "Schema.Type") {
		s, ok := constString(st.Val)
		if !ok || s == "" {
			continue
		}
		ks := m.kf.At(st)
		if ks == AllKinds {
			continue
		}
		w, known := wantType[s]
		c.R.Check(known && ks.SubsetOf(w), rule, "type:"+s+":"+ks.String(), c.pos(st), fmt.Sprintf("kinds %s get type %q", ks, s), fmt.Sprintf("kinds %s are given the JSON type %q", ks, s))
	}
}

func ruleC04Null(c *Ctx) { ruleC04NullAs(c, "C04/null-for-nilable") }

// ruleC04NullAs: stores that add "null" to a schema's types.
func ruleC04NullAs(c *Ctx, rule string) {
	inf := c.Closure(rule, "INF")
	n := 0
	for _, fn := range inf.Sorted() {
		for _, st := range c.storesToField(fn, "Schema.Types") {
			consts, dynamic := sliceLiteralStrings(st.Val)
			hasNull := false
			for _, s := range consts {
				if s == "null" {
					hasNull = true
				}
			}
			if !hasNull {
				continue
			}
			n++
			construct := fmt.Sprintf("%s:null-store#%d", core.FuncName(fn), n)
			// (1) never a list consisting of "null" only
			okExtend := len(consts) >= 2 && !dynamic
			why := ""
			if !okExtend {
				// a dynamic rest (the old Type, or the old Types): it must be known non-empty
				for _, g := range guardsOf(st) {
					if x, k, equal, ok := eqConst(g); ok && !equal {
						if s, isStr := constString(k); isStr && s == "" && c.mentionsField(x, "Schema.Type", 3) {
							okExtend = true
						}
					}
					if usesLen(g.Cond, 3) && c.mentionsField(g.Cond, "Schema.Types", 5) && g.Pol {
						okExtend = true
					}
				}
				why = "\"null\" is combined with the previous type(s) without a test that there is one: a schema that restricts no type becomes [\"null\"] and rejects every non-null value (pointer to interface, or to a TypeSchemas entry without type)"
			}
			c.R.Check(okExtend, rule, construct+":extends-a-type", c.pos(st), "\"null\" only extends an existing, non-empty type", why)
			// (1b) ... and every non-empty list is extended: the length test is "at least one"
			for _, g := range guardsOf(st) {
				bo, ok := g.Cond.(*ssa.BinOp)
				if !ok || !usesLen(g.Cond, 3) || !c.mentionsField(g.Cond, "Schema.Types", 5) {
					continue
				}
				kc, isConst := bo.Y.(*ssa.Const)
				op := bo.Op
				if !isConst {
					kc, isConst = bo.X.(*ssa.Const)
					op = map[token.Token]token.Token{token.LSS: token.GTR, token.GTR: token.LSS, token.LEQ: token.GEQ, token.GEQ: token.LEQ, token.EQL: token.EQL, token.NEQ: token.NEQ}[op]
				}
				if !isConst {
					continue
				}
				if !g.Pol {
					op = map[token.Token]token.Token{token.LSS: token.GEQ, token.GTR: token.LEQ, token.LEQ: token.GTR, token.GEQ: token.LSS, token.EQL: token.NEQ, token.NEQ: token.EQL}[op]
				}
				kv, _ := constInt(kc)
				// now: len(Types) op kv holds at the store
				atLeastOne := op == token.GTR && kv == 0 || op == token.GEQ && kv == 1 || op == token.NEQ && kv == 0
				c.R.Check(atLeastOne, rule, construct+":every-non-empty-list", c.pos(st), "a type list of any positive length gets \"null\"", fmt.Sprintf("\"null\" is added to a type list only when its length is %s %d: a TypeSchemas entry that writes its type as a one-element list is left without \"null\", and a nil pointer to that type, which marshals to null, is rejected", op, kv))
			}
			// (2) not withheld for a particular type
			withheld := ""
			for _, g := range guardsOf(st) {
				if x, k, _, ok := eqConst(g); ok {
					if s, isStr := constString(k); isStr && s != "" && s != "typeschemasnull=1" && c.mentionsField(x, "Schema.Type", 3) {
						withheld = s
					}
				}
			}
			c.R.Check(withheld == "", rule, construct+":not-type-specific", c.pos(st), "whether \"null\" is added does not depend on which type the schema has", "\"null\" is added depending on a comparison of the schema's type with \""+withheld+"\": a nil pointer to such a type marshals to null but is rejected")
		}
	}
	c.R.Floor(rule, "stores that add \"null\"", n, 4)
	// (3) every way of returning a schema passes the test of the pointer flag: a shortcut that returns
	// before it (a memo, a fast path) hands the pointee's schema to a pointer and rejects its null.
	if m := c.inferModel(rule); m != nil {
		var flag *ssa.Phi
		c.eachFam(m.fn, func(i ssa.Instruction) {
			phi, ok := i.(*ssa.Phi)
			if !ok || !isBoolType(phi.Type()) {
				return
			}
			hasTrue, hasFalse := false, false
			for _, e := range phi.Edges {
				if k, ok := e.(*ssa.Const); ok && k.Value != nil {
					if k.Value.String() == "true" {
						hasTrue = true
					} else {
						hasFalse = true
					}
				}
			}
			// the flag is set where the subject type is a pointer
			if hasTrue && hasFalse && flag == nil {
				for _, g := range controlGuards(phi) {
					if c.isKindDispatch(g.Cond) {
						flag = phi
					}
				}
				if flag == nil {
					// rotated loop: the phi sits in the loop header that tests the kind itself
					if ifi, ok := phi.Block().Instrs[len(phi.Block().Instrs)-1].(*ssa.If); ok && c.isKindDispatch(ifi.Cond) {
						flag = phi
					}
				}
			}
		})
		if flag == nil {
			c.R.Unresolved(rule, "the flag recording that the subject type was reached through a pointer")
			return
		}
		tests := map[*ssa.BasicBlock]bool{}
		for _, b := range m.fn.Blocks {
			ifi, ok := b.Instrs[len(b.Instrs)-1].(*ssa.If)
			if !ok {
				continue
			}
			if dependsOnValue(ifi.Cond, flag, 4) {
				tests[b] = true
			}
			// the documented debugging switch (an environment variable) is the one accepted bypass
			if dependsOnCallNamed(ifi.Cond, []string{"os.Getenv"}, 4) {
				tests[b] = true
			}
		}
		nret := 0
		for _, b := range m.fn.Blocks {
			ret, ok := b.Instrs[len(b.Instrs)-1].(*ssa.Return)
			if !ok || len(ret.Results) == 0 {
				continue
			}
			r0 := ret.Results[0]
			if ld, isLd := r0.(*ssa.UnOp); isLd {
				// results spilled to cells because of the deferred call
				if cell := resolveCell(ld.X); cell != nil {
					if st := nearestStore(ret, cell); st != nil {
						r0 = st.Val
					}
				}
			}
			if k, isK := r0.(*ssa.Const); isK && k.IsNil() {
				continue
			}
			nret++
			ok2 := mustPass(flag.Block(), tests, map[*ssa.BasicBlock]bool{b: true})
			c.R.Check(ok2, rule, fmt.Sprintf("%s:return#%d:passes-pointer-flag-test", core.FuncName(m.fn), nret), c.pos(ret), "every path that returns a schema tests the pointer flag", "a schema is returned on a path that never tests whether the type was reached through a pointer: for *T that path yields T's schema without \"null\", so the JSON encoding of a nil pointer is rejected")
		}
		c.R.Floor(rule, "schema-returning exits of the inference function", nret, 2)
	}
}

func isBoolType(t types.Type) bool {
	b, ok := t.Underlying().(*types.Basic)
	return ok && b.Kind() == types.Bool
}

// dependsOnValue: v is computed from target through unary/binary operators and phis.
func dependsOnValue(v, target ssa.Value, depth int) bool {
	if v == nil || depth == 0 {
		return false
	}
	if v == target {
		return true
	}
	switch x := v.(type) {
	case *ssa.UnOp:
		return dependsOnValue(x.X, target, depth-1)
	case *ssa.BinOp:
		return dependsOnValue(x.X, target, depth-1) || dependsOnValue(x.Y, target, depth-1)
	case *ssa.Phi:
		for _, e := range x.Edges {
			if dependsOnValue(e, target, depth-1) {
				return true
			}
		}
	}
	return false
}

// sliceLiteralStrings: the constant strings of a []string literal value (and whether it has non-constant parts).
func sliceLiteralStrings(v ssa.Value) ([]string, bool) {
	var out []string
	dynamic := false
	switch x := v.(type) {
	case *ssa.Slice:
		if arr, ok := x.X.(*ssa.Alloc); ok && arr.Referrers() != nil {
			for _, r := range *arr.Referrers() {
				if ia, ok := r.(*ssa.IndexAddr); ok && ia.Referrers() != nil {
					for _, r2 := range *ia.Referrers() {
						if st, ok := r2.(*ssa.Store); ok {
							if s, ok := constString(st.Val); ok {
								out = append(out, s)
							} else {
								dynamic = true
							}
						}
					}
				}
			}
		}
	case *ssa.Call:
		if core.CalleeKey(&x.Call) == "builtin.append" {
			a, d := sliceLiteralStrings(x.Call.Args[0])
			out = append(out, a...)
			dynamic = d
			if len(x.Call.Args) > 1 {
				b, d2 := sliceLiteralStrings(x.Call.Args[1])
				out = append(out, b...)
				if d2 || len(b) == 0 {
					dynamic = true
				}
			}
		} else {
			dynamic = true
		}
	default:
		dynamic = true
	}
	return out, dynamic
}

func ruleC04MarshalerTable(c *Ctx) {
	const rule = "C04/marshaler-table"
	// the JSON type each standard-library marshaler type encodes to
	want := map[string]string{"time.Time": "string", "log/slog.Level": "string", "math/big.Int": "integer", "math/big.Rat": "string", "math/big.Float": "string"}
	n := 0
	for _, m := range c.P.SSAPkg.Members {
		fn, ok := m.(*ssa.Function)
		if !ok || !strings.HasPrefix(fn.Name(), "init") {
			continue
		}
		core.EachInstr(fn, func(i ssa.Instruction) {
			mu, ok := i.(*ssa.MapUpdate)
			if !ok {
				return
			}
			mt, isMap := mu.Map.Type().Underlying().(*types.Map)
			if !isMap || !isNamed(mt.Key(), "reflect", "Type") || !c.isPkgNamed(mt.Elem(), "Schema") {
				return
			}
			kc, ok := mu.Key.(*ssa.Call)
			if !ok || kc.Call.StaticCallee() == nil || len(kc.Call.StaticCallee().TypeArgs()) != 1 {
				c.R.Unknown(rule, "entry:key", c.pos(mu), "cannot read the key type of a type-table entry")
				return
			}
			kt := kc.Call.StaticCallee().TypeArgs()[0]
			kn := types.TypeString(kt, nil)
			n++
			// value: a Schema literal with Type or Types constants
			var got []string
			for _, src := range traceSources(mu.Value) {
				if a, ok := src.(*ssa.Alloc); ok && a.Referrers() != nil {
					for _, r := range *a.Referrers() {
						if fa, ok := r.(*ssa.FieldAddr); ok && fa.Referrers() != nil {
							fname := c.fieldName(fa.X.Type(), fa.Field)
							for _, r2 := range *fa.Referrers() {
								if st, ok := r2.(*ssa.Store); ok {
									if fname == "Schema.Type" {
										if s, ok := constString(st.Val); ok {
											got = append(got, s)
										}
									}
									if fname == "Schema.Types" {
										ss, _ := sliceLiteralStrings(st.Val)
										for _, s := range ss {
											if s != "null" {
												got = append(got, s)
											}
										}
									}
								}
							}
						}
					}
				}
			}
			w, known := want[kn]
			guardNote := ""
			if len(guardsOf(mu)) > 0 {
				guardNote = ":conditional"
			}
			construct := "entry:" + kn + guardNote
			if !known {
				c.R.Bad(rule, "unclassified-entry:"+kn, c.pos(mu), "the type table has an entry for "+kn+", whose JSON encoding the checker does not know; add it to the checker's table with the JSON type it marshals to")
				return
			}
			okT := len(got) > 0
			for _, g := range got {
				if g != w && !(w == "integer" && g == "number") {
					okT = false
				}
			}
			c.R.Check(okT, rule, construct, c.pos(mu), kn+" marshals to a JSON "+w, fmt.Sprintf("%s marshals to a JSON %s (its MarshalJSON/MarshalText output), but the type table gives it the schema type %v: every value of that type is rejected by the inferred schema", kn, w, got))
		})
	}
	c.R.Floor(rule, "type-table entries", n, 5)
}

// ruleAnonTag: encoding/json does not flatten an embedded field that carries a
// JSON name; the field's json tag must be consulted before it is treated as embedded.
func ruleAnonTag(c *Ctx, rule string) {
	m := c.inferModel(rule)
	if m == nil {
		return
	}
	n := 0
	c.eachFam(m.fn, func(i ssa.Instruction) {
		ifi, ok := i.(*ssa.If)
		if !ok {
			return
		}
		fld, ok := ifi.Cond.(*ssa.Field)
		if !ok || core.CanonFieldOf(fld.X.Type(), fld.Field) != "Anonymous" || !isNamed(fld.X.Type(), "reflect", "StructField") {
			if ld, isLd := ifi.Cond.(*ssa.UnOp); isLd {
				if fa, isFa := ld.X.(*ssa.FieldAddr); isFa && core.CanonFieldOf(fa.X.Type(), fa.Field) == "Anonymous" && isNamed(fa.X.Type(), "reflect", "StructField") {
					goto found
				}
			}
			return
		}
	found:
		n++
		// in the region dominated by the true successor, the tag of the field must be consulted
		region := ifi.Block().Succs[0]
		consulted := false
		c.eachFam(m.fn, func(j ssa.Instruction) {
			call, ok := j.(*ssa.Call)
			if !ok || !(region.Dominates(call.Block())) {
				return
			}
			key := core.CalleeKey(&call.Call)
			if key == "reflect.StructTag.Lookup" || key == "reflect.StructTag.Get" {
				consulted = true
			}
			if callee := call.Call.StaticCallee(); callee != nil && c.P.InPkg(callee) && callee.Signature.Params().Len() == 1 && isNamed(callee.Signature.Params().At(0).Type(), "reflect", "StructField") {
				consulted = true
			}
		})
		// or a decision in the region looks at a tag that was parsed earlier (once per field)
		c.eachFam(m.fn, func(j ssa.Instruction) {
			if jf, ok := j.(*ssa.If); ok && region.Dominates(jf.Block()) && c.dependsOnTag(jf.Cond, 6) {
				consulted = true
			}
		})
		// or the test itself is already conditional on the tag
		for _, g := range guardsOf(ifi) {
			if dependsOnCallNamed(g.Cond, []string{"reflect.StructTag.Lookup", "reflect.StructTag.Get"}, 4) {
				consulted = true
			}
		}
		// only an embedded STRUCT has fields to promote: an embedded named non-struct type is an ordinary
		// field named after the type, so the decision to skip the embedded field must look at its kind
		kindTested := false
		otherKind := ""
		c.eachFam(m.fn, func(j ssa.Instruction) {
			bo, ok := j.(*ssa.BinOp)
			if !ok || (bo.Op != token.EQL && bo.Op != token.NEQ) || !region.Dominates(bo.Block()) {
				return
			}
			for _, pair := range [][2]ssa.Value{{bo.X, bo.Y}, {bo.Y, bo.X}} {
				kc, isCall := pair[0].(*ssa.Call)
				k, isK := pair[1].(*ssa.Const)
				if !isCall || !isK || !kc.Call.IsInvoke() || kc.Call.Method.Name() != "Kind" {
					continue
				}
				if v, ok := constInt(k); ok && v != int64(kStruct) && v != int64(kPointer) && bo.Op == token.EQL {
					// a test for any other kind in the decision: fields of that kind would be treated like structs
					for _, src := range append(traceSources(kc.Call.Value), kc.Call.Value) {
						onField := c.mentionsNamedField(src, "Type", 4)
						if ec, ok := src.(*ssa.Call); ok && ec.Call.IsInvoke() && ec.Call.Method.Name() == "Elem" {
							for _, s2 := range append(traceSources(ec.Call.Value), ec.Call.Value) {
								if c.mentionsNamedField(s2, "Type", 4) {
									onField = true
								}
							}
						}
						if onField && v >= 0 && v < nKinds {
							otherKind = Kinds(int(v)).String() + " (test at " + c.pos(bo) + ")"
						}
					}
				}
				if v, ok := constInt(k); !ok || v != int64(kStruct) {
					continue
				}
				for _, src := range append(traceSources(kc.Call.Value), kc.Call.Value) {
					if c.mentionsNamedField(src, "Type", 4) {
						kindTested = true
					}
					// a helper that strips one pointer level: derefType(field.Type)
					if hc, ok := src.(*ssa.Call); ok && !hc.Call.IsInvoke() {
						if h := hc.Call.StaticCallee(); h != nil && c.P.InPkg(h) && len(hc.Call.Args) == 1 && isNamed(h.Signature.Results().At(0).Type(), "reflect", "Type") {
							for _, s2 := range append(traceSources(hc.Call.Args[0]), hc.Call.Args[0]) {
								if c.mentionsNamedField(s2, "Type", 4) {
									kindTested = true
								}
							}
						}
					}
					if ec, ok := src.(*ssa.Call); ok && ec.Call.IsInvoke() && ec.Call.Method.Name() == "Elem" {
						for _, s2 := range append(traceSources(ec.Call.Value), ec.Call.Value) {
							if c.mentionsNamedField(s2, "Type", 4) {
								kindTested = true
							}
						}
					}
				}
			}
		})
		c.R.Check(otherKind == "", rule, "forType:field.Anonymous:no-other-kind-promoted", c.pos(ifi), "the only kinds tested in the decision to flatten an embedded field are Struct and Pointer", "the decision to flatten an embedded field also tests for the kind "+otherKind+": an embedded field of that kind has no fields to promote and is an ordinary field named after its type for encoding/json, but it is left out of the inferred properties, required names and PropertyOrder")
		if strings.HasPrefix(rule, "C04/") {
			c.R.Check(kindTested, rule, "forType:field.Anonymous:promotes-only-structs", c.pos(ifi), "an embedded field is skipped (its fields being promoted) only when its type is a struct", "an embedded field is skipped whatever its kind: struct{ MyString } (type MyString string) marshals as {\"MyString\":\"...\"} but the inferred schema has no such property and is closed, so the encoding is rejected")
		}
		if consulted {
			// encoding/json promotes an embedded struct's fields unless the tag gives it a NAME: a tag with
			// options only (`json:",omitempty"`) still promotes. The decision must look at the name, not at the tag's presence.
			presenceOnly, byName := "", false
			c.eachFam(m.fn, func(j ssa.Instruction) {
				jf, ok := j.(*ssa.If)
				if !ok || !region.Dominates(jf.Block()) {
					return
				}
				cond := jf.Cond
				for {
					if u, ok := cond.(*ssa.UnOp); ok && u.Op == token.NOT {
						cond = u.X
						continue
					}
					break
				}
				if ex, ok := cond.(*ssa.Extract); ok && ex.Index == 1 {
					if call, ok := ex.Tuple.(*ssa.Call); ok && core.CalleeKey(&call.Call) == "reflect.StructTag.Lookup" {
						presenceOnly = c.pos(jf)
					}
				}
				if bo, ok := cond.(*ssa.BinOp); ok && (bo.Op == token.EQL || bo.Op == token.NEQ) && tString(bo.X.Type()) && c.dependsOnTag(bo, 6) {
					byName = true
				}
			})
			c.R.Check(presenceOnly == "" || byName, rule, "forType:field.Anonymous:by-tag-name", c.pos(ifi), "whether an embedded struct is a named property is decided by the tag's name", "an embedded struct is treated as a named property as soon as it has a json tag (test at "+presenceOnly+"), but encoding/json does so only when the tag gives a name: with `json:\",omitempty\"` the fields are still promoted, and the inferred schema (closed, one nested property) rejects every value of the type")
		}
		c.R.Check(consulted, rule, "forType:field.Anonymous", c.pos(ifi), "an embedded field's json tag is consulted before it is flattened", "an embedded field is skipped (its promoted fields are inlined) without consulting its json tag: `Outer{Inner `json:\"inner\"`}` marshals as {\"inner\":{...}} but the inferred schema is flat and closed, so the encoding is rejected and documents the schema accepts do not decode")
	})
	c.R.Floor(rule, "tests of reflect.StructField.Anonymous in the inference function", n, 1)
}

func kindRange(k int) (min, max float64, sized bool) {
	switch k {
	case kInt8:
		return math.MinInt8, math.MaxInt8, true
	case kInt16:
		return math.MinInt16, math.MaxInt16, true
	case kInt32:
		return math.MinInt32, math.MaxInt32, true
	case kUint8:
		return 0, math.MaxUint8, true
	case kUint16:
		return 0, math.MaxUint16, true
	case kUint32:
		return 0, math.MaxUint32, true
	}
	return 0, 0, false
}

func ruleBoundsTable(c *Ctx, rule string) {
	m := c.inferModel(rule)
	if m == nil {
		return
	}
	tr := c.Tracer(rule, "INF")
	inf := c.Closure(rule, "INF")
	type bound struct {
		val float64
		pos string
	}
	mins, maxs := map[int]bound{}, map[int]bound{}
	for _, which := range []string{"Schema.Minimum", "Schema.Maximum"} {
		for _, st := range c.storesToField(m.fn, which) {
			ks := m.kf.At(st)
			if ks == AllKinds || ks == 0 {
				c.R.Unknown(rule, which+":kinds", c.pos(st), "cannot determine for which kinds this bound is stored")
				continue
			}
			// the stored pointer: a call with a constant argument
			var k *ssa.Const
			if call, ok := st.Val.(*ssa.Call); ok && len(call.Call.Args) == 1 {
				k, _ = call.Call.Args[0].(*ssa.Const)
			}
			if k == nil || k.Value == nil {
				// the bound may come from a helper that maps the kind to its bounds: (min, max) := h(t.Kind())
				if per, ok := c.boundsFromHelper(m, st.Val, ks); ok {
					for kk, b := range per {
						if b.present {
							if which == "Schema.Minimum" {
								mins[kk] = bound{b.val, c.pos(st)}
							} else {
								maxs[kk] = bound{b.val, c.pos(st)}
							}
						}
					}
					continue
				}
				c.R.Unknown(rule, which+":const:"+ks.String(), c.pos(st), "the bound is not a constant")
				continue
			}
			fv, _ := constant.Float64Val(constant.ToFloat(k.Value))
			// fresh per schema
			fresh := true
			for l := range tr.Obj(st.Val) {
				if !(l.Root.Kind == core.RFresh && inf.Has(l.Root.Fn)) {
					fresh = false
				}
			}
			c.R.Check(fresh, rule, which+":fresh:"+ks.String(), c.pos(st), "the bound is a fresh *float64 per schema", "the *float64 stored as a bound is shared between schemas (not allocated per inference): a caller who adjusts one schema's bound changes every later result")
			for kk := 0; kk < nKinds; kk++ {
				if ks&Kinds(kk) == 0 {
					continue
				}
				if which == "Schema.Minimum" {
					mins[kk] = bound{fv, c.pos(st)}
				} else {
					maxs[kk] = bound{fv, c.pos(st)}
				}
			}
		}
	}
	for kk := 0; kk < nKinds; kk++ {
		name := kindNames[kk]
		if min, max, sized := kindRange(kk); sized {
			b, ok := mins[kk]
			c.R.Check(ok && b.val == min, rule, "min:"+name, b.pos, fmt.Sprintf("minimum %v", min), fmt.Sprintf("the minimum inferred for %s is %v (present=%v), its range starts at %v: out-of-range values are accepted or in-range values rejected", name, b.val, ok, min))
			b2, ok2 := maxs[kk]
			c.R.Check(ok2 && b2.val == max, rule, "max:"+name, b2.pos, fmt.Sprintf("maximum %v", max), fmt.Sprintf("the maximum inferred for %s is %v (present=%v), its range ends at %v", name, b2.val, ok2, max))
		} else if Kinds(kk)&uintKinds != 0 {
			b, ok := mins[kk]
			c.R.Check(ok && b.val == 0, rule, "min:"+name, b.pos, "minimum 0", "no minimum 0 is inferred for the unsigned kind "+name+": negative numbers are accepted but do not decode")
		}
	}
}

func ruleRequiredGuard(c *Ctx, rule string) {
	m := c.inferModel(rule)
	if m == nil {
		return
	}
	n := 0
	for _, st := range c.storesToField(m.fn, "Schema.Required") {
		call, ok := st.Val.(*ssa.Call)
		if !ok || core.CalleeKey(&call.Call) != "builtin.append" {
			continue
		}
		n++
		opts := map[string]bool{}
		var extra []string
		viaPointer := false
		for _, g := range guardsOf(st) {
			if lk, ok := g.Cond.(*ssa.Lookup); ok && !g.Pol {
				if s, ok := constString(lk.Index); ok {
					opts[s] = true
					continue
				}
			}
			if isRangeCond(g.Cond) || isErrNilTest(g.Cond) || c.isKindDispatch(g.Cond) {
				continue
			}
			if sliceMentionsField(g.Cond, "Index") && (sliceMentionsField(g.Cond, "name") || sliceMentionsField(g.Cond, "Properties")) {
				continue // which of two fields with the same JSON name is kept (C04/json-name-conflicts)
			}
			if c.dependsOnIndexPath(g.Cond, 5) {
				if c.testsPointerKind(g.Cond) {
					viaPointer = true
				}
				continue
			}
			if !skippable(g, st) {
				continue
			}
			// the documented skips: unexported / "-" fields, embedded fields, ignored invalid types, promoted fields of an override
			if c.isDocumentedFieldSkip(g) {
				continue
			}
			extra = append(extra, c.pos(g.At))
		}
		c.R.Check(opts["omitempty"] && opts["omitzero"], rule, "required:option-tests", c.pos(st), "a field is required only if it has neither omitempty nor omitzero", fmt.Sprintf("the append to required is guarded by the negated option tests %v, expected both omitempty and omitzero: a field that encoding/json may omit would be required (valid encodings rejected), or an always-emitted field optional", sortedKeys(opts)))
		if strings.HasPrefix(rule, "C04/") { // only C04 (the encoding of every value is accepted) needs this; a stricter schema does not break C09 or C16
			c.R.Check(viaPointer, rule, "required:not-through-embedded-pointer", c.pos(st), "whether a promoted field is required depends on the embedding path (a field reached through an embedded pointer is absent when the pointer is nil)",
				"a field promoted from an embedded pointer (struct{ *Inner }) is required like any other, but encoding/json omits it when the pointer is nil: the encoding of the zero value of such a type is rejected by the inferred schema")
		}
		c.R.Check(len(extra) == 0, rule, "required:no-other-condition", c.pos(st), "nothing else decides whether a field is required", fmt.Sprintf("whether a field becomes required additionally depends on other conditions (guards at %v)", extra))
	}
	c.R.Floor(rule, "appends to required", n, 1)
}

// isDocumentedFieldSkip: guards of the struct-field loop that legitimately skip a field.
func (c *Ctx) isDocumentedFieldSkip(g guardAtom) bool {
	cond := g.Cond
	// field.Anonymous, info.omit, skip flag, ignore && fs == nil, skipPath != nil
	names := []string{"Anonymous", "omit"}
	var fieldName string
	switch x := cond.(type) {
	case *ssa.Field:
		fieldName = core.CanonFieldOf(x.X.Type(), x.Field)
	case *ssa.UnOp:
		if fa, ok := x.X.(*ssa.FieldAddr); ok {
			fieldName = core.CanonFieldOf(fa.X.Type(), fa.Field)
		}
	}
	for _, n := range names {
		if fieldName == n {
			return true
		}
	}
	if bo, ok := cond.(*ssa.BinOp); ok {
		// comparisons with nil (fs == nil, skipPath != nil), with the `ignore` parameter, or index comparisons of the skip path
		for _, v := range []ssa.Value{bo.X, bo.Y} {
			if k, ok := v.(*ssa.Const); ok && k.IsNil() {
				return true
			}
		}
		if bo.Op == token.NEQ || bo.Op == token.EQL || bo.Op == token.GEQ || bo.Op == token.LSS {
			if isIntType(bo.X.Type()) {
				return true
			}
		}
	}
	if p, ok := cond.(*ssa.Parameter); ok && tBool(p.Type()) {
		return true
	}
	if phi, ok := cond.(*ssa.Phi); ok && tBool(phi.Type()) {
		return true // the `skip` flag computed from the index prefix
	}
	return false
}

func isIntType(t types.Type) bool {
	b, ok := t.Underlying().(*types.Basic)
	return ok && b.Info()&types.IsInteger != 0
}

// ruleTagParser: tag options are the exact comma-separated elements; the parser is a pure function of the field.
func ruleTagParser(c *Ctx, rule string) {
	m := c.inferModel(rule)
	if m == nil {
		return
	}
	tp := c.roles["role:tag-parser"]
	if tp == nil {
		c.R.Unresolved(rule, "json tag parser (package function taking a reflect.StructField)")
		return
	}
	// pure: no package-level state
	pure := true
	for _, fn := range c.P.Closure("TAG", c.G, tp).Sorted() {
		core.EachInstr(fn, func(i ssa.Instruction) {
			for _, op := range i.Operands(nil) {
				if g, ok := (*op).(*ssa.Global); ok && g.Pkg == c.P.SSAPkg {
					pure = false
					c.R.Bad(rule, core.FuncName(fn)+":global:"+g.Name(), c.pos(i), "the json tag parser uses the package-level variable "+g.Name()+": its result for one field can depend on fields parsed earlier (e.g. a cache keyed by the tag text returns another field's name)")
				}
			}
		})
	}
	if pure {
		c.R.OK(rule, core.FuncName(tp)+":pure", c.P.Pos(tp.Pos()), "the tag parser reads no package-level state: its result is a function of the field alone")
	}
	// option keys: direct elements of strings.Split(rest, ",")
	n := 0
	c.eachFam(tp, func(i ssa.Instruction) {
		mu, ok := i.(*ssa.MapUpdate)
		if !ok {
			return
		}
		n++
		okKey := true
		for _, s := range traceSources(mu.Key) {
			ld, isLd := s.(*ssa.UnOp)
			if !isLd {
				okKey = false
				continue
			}
			ia, isIA := ld.X.(*ssa.IndexAddr)
			if !isIA {
				okKey = false
				continue
			}
			fromSplit := false
			for _, src := range traceSources(ia.X) {
				if call, ok := src.(*ssa.Call); ok && (core.CalleeKey(&call.Call) == "strings.Split" || core.CalleeKey(&call.Call) == "strings.SplitN") {
					if sep, ok := constString(call.Call.Args[1]); ok && sep == "," {
						fromSplit = true
					}
				}
			}
			if !fromSplit {
				okKey = false
			}
		}
		// the options are honoured by encoding/json whether or not the name part of the tag is valid
		var nameGuards []string
		gs := controlGuards(mu)
		if at := liftTo(mu, tp); at != nil && at != ssa.Instruction(mu) {
			gs = append(gs, controlGuards(at)...)
		}
		for _, g := range gs {
			if pc, ok := g.Cond.(*ssa.Call); ok {
				if callee := pc.Call.StaticCallee(); callee != nil && c.P.InPkg(callee) && len(callee.Params) == 1 && tString(callee.Params[0].Type()) && isBoolType(pc.Type()) {
					nameGuards = append(nameGuards, c.pos(g.At))
				}
			}
		}
		c.R.Check(len(nameGuards) == 0, rule, fmt.Sprintf("%s:option-key#%d:whatever-the-name", core.FuncName(tp), n), c.pos(mu), "options are recorded whether or not the tag's name part is valid",
			fmt.Sprintf("whether the tag's options are recorded depends on a predicate on the tag's name (at %v): encoding/json ignores an invalid name but still honours `omitempty`, so for `json:\"it's,omitempty\"` the field is omitted when empty while the schema requires it", nameGuards))
		c.R.Check(okKey, rule, fmt.Sprintf("%s:option-key#%d", core.FuncName(tp), n), c.pos(mu), "an option is recorded exactly as the comma-separated element of the tag", "a tag option is transformed (trimmed, lower-cased, ...) before it is recorded: encoding/json compares options literally, so `json:\"x, omitempty\"` does not omit the field but the schema would treat it as optional")
	})
	c.R.Floor(rule, "recorded tag options", n, 1)
	// "-" means omit only without a comma: the parser compares the name with "-" and looks at the `found` result of
	// the Cut at the comma (in whatever form: nested tests, `name == "-" && !found`)
	dashCmp, foundUsed := false, false
	// (all the package functions that look at a struct field's tag for the inference function: a two-stage parser counts as a whole)
	tagFns := []*ssa.Function{tp}
	c.eachFam(m.fn, func(i ssa.Instruction) {
		if call, ok := i.(*ssa.Call); ok {
			if callee := call.Call.StaticCallee(); callee != nil && c.P.InPkg(callee) && callee != tp && callee.Signature.Params().Len() >= 1 && isNamed(callee.Signature.Params().At(0).Type(), "reflect", "StructField") {
				tagFns = append(tagFns, callee)
			}
		}
	})
	seenI := map[ssa.Instruction]bool{}
	eachTagInstr := func(f func(i ssa.Instruction)) {
		for _, tf := range tagFns {
			c.eachFam(tf, func(i ssa.Instruction) {
				if !seenI[i] {
					seenI[i] = true
					f(i)
				}
			})
		}
	}
	eachTagInstr(func(i ssa.Instruction) {
		switch x := i.(type) {
		case *ssa.BinOp:
			if x.Op == token.EQL || x.Op == token.NEQ {
				for _, o := range []ssa.Value{x.X, x.Y} {
					if s, ok := constString(o); ok && s == "-" {
						dashCmp = true
					}
				}
			}
		case *ssa.Extract:
			if call, ok := x.Tuple.(*ssa.Call); ok && core.CalleeKey(&call.Call) == "strings.Cut" && x.Index == 2 && x.Referrers() != nil {
				if sep, ok := constString(call.Call.Args[1]); ok && sep == "," {
					for _, r := range *x.Referrers() {
						if _, isDbg := r.(*ssa.DebugRef); !isDbg {
							foundUsed = true
						}
					}
				}
			}
		}
	})
	c.R.Check(dashCmp && foundUsed, rule, core.FuncName(tp)+":dash-rule", c.P.Pos(tp.Pos()), "`-` omits the field only when no comma follows (`-,` names the field \"-\")", "the rule for the name \"-\" does not also look at whether a comma follows: a field tagged `json:\"-,\"` (named \"-\") would be omitted")
}

// ruleIntegerClassification: integral floats are classified with an exact test (math.Modf), not via an int64 round trip.
func ruleIntegerClassification(c *Ctx, rule string) {
	cls := c.TypeClassifier(rule)
	if cls == nil {
		return
	}
	bad := false
	c.eachFam(cls, func(i ssa.Instruction) {
		if cv, ok := i.(*ssa.Convert); ok && isFloat(cv.X.Type()) && isIntType(cv.Type()) {
			bad = true
			c.R.Bad(rule, "classifier:float-to-int", c.pos(cv), "the type classifier converts a float to an integer type to decide integrality: for magnitudes of 2^63 and above the conversion overflows, so MaxInt64, large uint64 values and 1e19 are classified as non-integers and rejected by `type: integer`")
		}
	})
	if !bad {
		c.R.OK(rule, "classifier:exact-integrality", c.P.Pos(cls.Pos()), "no float-to-integer conversion in the type classifier")
	}
}

// ---- C09 ----

func ruleC09Closed(c *Ctx) {
	const rule = "C09/closed-objects"
	m := c.inferModel(rule)
	if m == nil {
		return
	}
	n := 0
	for _, st := range c.storesToField(m.fn, "Schema.AdditionalProperties") {
		ks := m.kf.At(st)
		if !ks.SubsetOf(Kinds(kStruct)) || ks == 0 {
			continue
		}
		n++
		// the stored value is the false schema
		isFalse := false
		if call, ok := st.Val.(*ssa.Call); ok {
			if callee := call.Call.StaticCallee(); callee != nil && c.P.InPkg(callee) && callee.Signature.Params().Len() == 0 {
				// a function returning &Schema{Not: &Schema{}}
				core.EachInstr(callee, func(i ssa.Instruction) {
					if s2, ok := i.(*ssa.Store); ok {
						if fa, ok := s2.Addr.(*ssa.FieldAddr); ok && c.fieldName(fa.X.Type(), fa.Field) == "Schema.Not" {
							isFalse = true
						}
					}
				})
			}
		}
		c.R.Check(isFalse, rule, "struct:false-schema", c.pos(st), "additionalProperties of a struct is the false schema", "the additionalProperties stored for a struct is not the false schema")
		var extra []string
		for _, g := range guardsOf(st) {
			if c.isKindDispatch(g.Cond) || !skippable(g, st) {
				continue
			}
			extra = append(extra, c.pos(g.At))
		}
		c.R.Check(len(extra) == 0, rule, "struct:unconditional", c.pos(st), "stored for every struct", fmt.Sprintf("additionalProperties false is stored only under further conditions (guards at %v): some struct types (e.g. structs without fields) get an open object schema, which accepts documents that fail strict decoding", extra))
	}
	c.R.Floor(rule, "additionalProperties stores on the struct path", n, 1)
}

func ruleC09ArrayLength(c *Ctx) {
	const rule = "C09/array-length"
	m := c.inferModel(rule)
	if m == nil {
		return
	}
	for _, f := range []string{"Schema.MinItems", "Schema.MaxItems"} {
		found := false
		for _, st := range c.storesToField(m.fn, f) {
			ks := m.kf.At(st)
			if !ks.SubsetOf(Kinds(kArray)) || ks == 0 {
				continue
			}
			fromLen := false
			if call, ok := st.Val.(*ssa.Call); ok && len(call.Call.Args) == 1 {
				if lc, ok := call.Call.Args[0].(*ssa.Call); ok && lc.Call.IsInvoke() && lc.Call.Method.Name() == "Len" && m.subj[lc.Call.Value] {
					fromLen = true
				}
			}
			found = found || fromLen
		}
		c.R.Check(found, rule, "array:"+f, c.P.Pos(m.fn.Pos()), f+" of a fixed-size array is its length", f+" of a fixed-size array is not set from the array type's length: documents with another number of items are accepted but decode differently")
	}
}

func ruleC09Elements(c *Ctx) {
	const rule = "C09/element-schemas"
	m := c.inferModel(rule)
	if m == nil {
		return
	}
	for _, spec := range []struct {
		field string
		kinds KindSet
	}{{"Schema.Items", Kinds(kSlice, kArray)}, {"Schema.AdditionalProperties", Kinds(kMap)}} {
		ok := false
		for _, st := range c.storesToField(m.fn, spec.field) {
			ks := m.kf.At(st)
			if ks == 0 || !ks.SubsetOf(spec.kinds) {
				continue
			}
			for _, src := range traceSources(st.Val) {
				if ex, isEx := src.(*ssa.Extract); isEx && ex.Index == 0 {
					if call, isCall := ex.Tuple.(*ssa.Call); isCall && call.Call.StaticCallee() == m.fn {
						ti := 0
						for k, p := range m.fn.Params {
							if p == m.typeParam {
								ti = k
							}
						}
						if ec, isE := call.Call.Args[ti].(*ssa.Call); isE && ec.Call.IsInvoke() && ec.Call.Method.Name() == "Elem" && m.subj[ec.Call.Value] {
							ok = true
						}
					}
				}
			}
		}
		c.R.Check(ok, rule, spec.field+":"+spec.kinds.String(), c.P.Pos(m.fn.Pos()), "the element schema is the recursive result for t.Elem()", spec.field+" for kinds "+spec.kinds.String()+" is not the inferred schema of the element type")
		// the recursive result is nil for an ignored (unsupported) element type: it must be tested, otherwise the
		// container gets an absent (= unrestricted) element schema and accepts documents that cannot decode
		for _, st := range c.storesToField(m.fn, spec.field) {
			ks := m.kf.At(st)
			if ks == 0 || !ks.SubsetOf(spec.kinds) {
				continue
			}
			fromRec := false
			for _, src := range traceSources(st.Val) {
				if ex, isEx := src.(*ssa.Extract); isEx && ex.Index == 0 {
					if call, isCall := ex.Tuple.(*ssa.Call); isCall && call.Call.StaticCallee() == m.fn {
						fromRec = true
					}
				}
			}
			if !fromRec {
				continue
			}
			fa := st.Addr.(*ssa.FieldAddr)
			tested := false
			core.EachInstr(st.Parent(), func(i ssa.Instruction) {
				bo, isBo := i.(*ssa.BinOp)
				if !isBo || (bo.Op != token.EQL && bo.Op != token.NEQ) {
					return
				}
				for _, pair := range [][2]ssa.Value{{bo.X, bo.Y}, {bo.Y, bo.X}} {
					k, isK := pair[1].(*ssa.Const)
					if !isK || !k.IsNil() {
						continue
					}
					if pair[0] == st.Val || sharesSource(pair[0], st.Val) {
						tested = true
					}
					if ld, isLd := pair[0].(*ssa.UnOp); isLd {
						if fa2, isFa := ld.X.(*ssa.FieldAddr); isFa && fa2.Field == fa.Field && sameVarValue(fa2.X, fa.X) {
							tested = true
						}
					}
				}
			})
			c.R.Check(tested, rule, spec.field+":ignored-element-tested", c.pos(st), "a nil (ignored) element schema is tested for", "the recursive result stored as "+spec.field+" is never compared with nil: with IgnoreInvalidTypes an unsupported element type (map[string]func()) leaves the keyword absent, so the schema accepts values that do not decode into the type")
		}
	}
}

// ruleNumericUnconditional: minimum/maximum/multipleOf apply to every number; no guard on the `type` keyword.
func ruleNumericUnconditional(c *Ctx, rule string) {
	m := c.EvalModel(rule)
	ext := c.NumberExtractor(rule)
	if m == nil || ext == nil {
		return
	}
	var call *ssa.Call
	c.eachFamOwn(m.E, func(i ssa.Instruction) {
		if cl, ok := i.(*ssa.Call); ok && cl.Call.StaticCallee() == ext && m.instLoc(c, cl.Call.Args[0], map[ssa.Value]bool{}) == "same" {
			call = cl
		}
	})
	if call == nil {
		c.R.Bad(rule, "numeric-group", c.P.Pos(m.E.Pos()), "the evaluator does not extract the instance as a number for the numeric keywords")
		return
	}
	var bad []string
	for _, g := range guardsOf(call) {
		if c.mentionsField(g.Cond, "Schema.Type", 6) || c.mentionsField(g.Cond, "Schema.Types", 6) || dependsOnInPkgCallWithField(c, g.Cond, []string{"Schema.Type", "Schema.Types"}) {
			bad = append(bad, c.pos(g.At))
		}
	}
	c.R.Check(len(bad) == 0, rule, "numeric-group:independent-of-type", c.pos(call), "the numeric keywords are applied to every number whatever the `type` keyword says", fmt.Sprintf("the numeric keywords are skipped depending on the `type` keyword (guards at %v): for the type list [\"null\",\"integer\"] that inference emits for pointers to sized integers the bounds would not be enforced", bad))
}

// ---- C16 ----

func ruleC16Clone(c *Ctx) {
	const rule = "C16/clone-on-substitute"
	m := c.inferModel(rule)
	if m == nil {
		return
	}
	cloneFn := c.fn("(*Schema).CloneSchemas")
	if cloneFn == nil {
		c.R.Unresolved(rule, "type table parameter / CloneSchemas")
		return
	}
	isTable := m.isTable
	fromTable := func(v ssa.Value) bool {
		for d := 0; d < 8; d++ {
			switch x := v.(type) {
			case *ssa.Lookup:
				if isTable(x.X) {
					return true
				}
				v = x.X
			case *ssa.UnOp:
				v = x.X
			case *ssa.FieldAddr:
				v = x.X
			case *ssa.Extract:
				v = x.Tuple
			case *ssa.Phi:
				for _, e := range x.Edges {
					if l, ok := e.(*ssa.Lookup); ok && isTable(l.X) {
						return true
					}
				}
				return false
			default:
				return false
			}
		}
		return false
	}
	n := 0
	check := func(v ssa.Value, at ssa.Instruction, what string) {
		if !(isPointer(v.Type()) && c.isPkgNamed(v.Type(), "Schema")) {
			return
		}
		for _, src := range traceSources(v) {
			if k, ok := src.(*ssa.Const); ok && k.IsNil() {
				continue
			}
			if !fromTable(src) {
				continue
			}
			n++
			c.R.Bad(rule, what, c.pos(at), "a schema taken from the type table or a TypeSchemas override enters the result ("+what+") without passing through CloneSchemas: the result shares Schema objects with the options and with other occurrences of the type, so Resolve rejects the tree or a later mutation leaks")
		}
	}
	c.eachFam(m.fn, func(i ssa.Instruction) {
		switch x := i.(type) {
		case *ssa.Store:
			if fa, ok := x.Addr.(*ssa.FieldAddr); ok && c.fieldOwner(fa) == "Schema" {
				check(x.Val, x, "store:"+c.fieldName(fa.X.Type(), fa.Field))
			}
			if a, ok := x.Addr.(*ssa.Alloc); ok && a.Comment == "" {
				check(x.Val, x, "result")
			}
		case *ssa.MapUpdate:
			check(x.Value, x, "map-insert")
		case *ssa.Return:
			for _, r := range x.Results {
				check(r, x, "return")
			}
		}
	})
	// every value that does come from the table and is used as a schema passes through the clone
	clones := 0
	c.eachFam(m.fn, func(i ssa.Instruction) {
		if call, ok := i.(*ssa.Call); ok && call.Call.StaticCallee() == cloneFn && fromTable(call.Call.Args[0]) {
			clones++
		}
	})
	c.R.Floor(rule, "clones of table / override schemas", clones, 2)
	if n == 0 {
		c.R.OK(rule, "table-schemas-cloned", c.P.Pos(m.fn.Pos()), fmt.Sprintf("%d uses of table/override schemas, each through CloneSchemas; none stored, inserted or returned directly", clones))
	}
	// no shallow copy of a Schema value anywhere in the closure of For (outside CloneSchemas itself)
	for _, fn := range c.Closure(rule, "INF").Sorted() {
		if fn == cloneFn {
			continue
		}
		core.EachInstr(fn, func(i ssa.Instruction) {
			if st, ok := i.(*ssa.Store); ok {
				if _, isStruct := st.Val.Type().Underlying().(*types.Struct); isStruct && c.isPkgNamed(st.Val.Type(), "Schema") {
					c.R.Bad(rule, core.FuncName(fn)+":shallow-copy", c.pos(st), "a Schema value is copied by assignment in the closure of For: the copy shares every nested subschema with the original")
				}
			}
		})
	}
}

func ruleC16TableCopy(c *Ctx) {
	const rule = "C16/table-copy"
	m := c.inferModel(rule)
	if m == nil {
		return
	}
	inf := c.Closure(rule, "INF")
	// the recursion's own helpers are not entry points
	famFns := map[*ssa.Function]bool{}
	for _, f := range c.familyFuncs(m.fn) {
		famFns[f] = true
	}
	n := 0
	for _, fn := range inf.Sorted() {
		core.EachInstr(fn, func(i ssa.Instruction) {
			call, ok := i.(*ssa.Call)
			if !ok || call.Call.StaticCallee() != m.fn || fn == m.fn || famFns[outermost(fn)] {
				return
			}
			n++
			okClone := false
			if tabs := m.entryInput(call, m.isTableType); len(tabs) > 0 {
				okClone = true
				for _, tableArg := range tabs {
					srcs := traceSourcesDeep(tableArg)
					if len(srcs) == 0 {
						okClone = false
					}
					for _, src := range srcs {
						cc, ok := src.(*ssa.Call)
						if !ok || core.CalleeKey(&cc.Call) != "maps.Clone" || loadedFromGlobal(cc.Call.Args[0]) == nil {
							okClone = false
						}
					}
				}
			}
			c.R.Check(okClone, rule, core.FuncName(originOf(fn))+":table-argument", c.pos(call), "the type table handed to the recursion is a per-call clone of the package table", "the type table handed to the recursion is not a per-call maps.Clone of the package table: TypeSchemas of one call would leak into the next, or concurrent calls race")
			// the seen set is fresh
			for _, seenArg := range m.entryInput(call, m.isSeenType) {
				isMake := false
				if srcs := traceSourcesDeep(seenArg); len(srcs) > 0 {
					isMake = true
					for _, src := range srcs {
						if _, ok := src.(*ssa.MakeMap); !ok {
							isMake = false
						}
					}
				}
				c.R.Check(isMake, rule, core.FuncName(originOf(fn))+":seen-argument", c.pos(call), "the cycle set is fresh per call", "the cycle set handed to the recursion is not a fresh map")
			}
		})
	}
	c.R.Floor(rule, "entry calls of the inference function", n, 1)
}

func ruleC16Cycle(c *Ctx) {
	const rule = "C16/cycle-detection"
	m := c.inferModel(rule)
	if m == nil {
		return
	}
	var test *ssa.Lookup
	var mark *ssa.MapUpdate
	var unmark *ssa.Defer
	var plainDeletes []*ssa.Call
	c.eachFam(m.fn, func(i ssa.Instruction) {
		switch x := i.(type) {
		case *ssa.Lookup:
			if m.isSeen(x.X) && m.subj[x.Index] {
				test = x
			}
		case *ssa.MapUpdate:
			if m.isSeen(x.Map) && m.subj[x.Key] {
				mark = x
			}
		case *ssa.Defer:
			if core.CalleeKey(&x.Call) == "builtin.delete" && m.isSeen(x.Call.Args[0]) {
				unmark = x
			}
		case *ssa.Call:
			if core.CalleeKey(&x.Call) == "builtin.delete" && m.isSeen(x.Call.Args[0]) {
				plainDeletes = append(plainDeletes, x)
			}
		}
	})
	// the unmark can also be a closure that the marking helper returns and the inference function defers
	var unmarkVia []*ssa.Defer
	if unmark == nil {
		c.eachFam(m.fn, func(i ssa.Instruction) {
			d, ok := i.(*ssa.Defer)
			if !ok || d.Call.IsInvoke() {
				return
			}
			for _, src := range append(traceSourcesDeep(d.Call.Value), d.Call.Value) {
				mc, ok := src.(*ssa.MakeClosure)
				if !ok {
					continue
				}
				core.EachInstr(mc.Fn.(*ssa.Function), func(j ssa.Instruction) {
					if call, ok := j.(*ssa.Call); ok && core.CalleeKey(&call.Call) == "builtin.delete" && m.isSeen(call.Call.Args[0]) {
						unmarkVia = append(unmarkVia, d)
					}
				})
			}
		})
	}
	if test == nil || mark == nil {
		c.R.Bad(rule, "seen-test-and-mark", c.P.Pos(m.fn.Pos()), "the inference function does not test and mark the type in the cycle set: a recursive type recurses without bound")
		return
	}
	// found -> error
	rejects := false
	for _, b := range test.Parent().Blocks {
		if ifi, ok := b.Instrs[len(b.Instrs)-1].(*ssa.If); ok && ifi.Cond == test && (blockReturnsError(b.Succs[0]) || blockReturnsErrorDeep(b.Succs[0])) {
			rejects = true
		}
	}
	c.R.Check(rejects, rule, "seen->error", c.pos(test), "a type already being inferred yields an error", "meeting a type that is already being inferred does not yield an error")
	// where, in the inference function, the test-and-mark happens: the instruction itself, or the call sites of the helper that holds it
	var marks []ssa.Instruction
	if mark.Parent() == m.fn {
		marks = []ssa.Instruction{mark}
	} else {
		for _, site := range c.P.CallIndex().Sites[outermost(mark.Parent())] {
			if li := liftTo(site, m.fn); li != nil && li.Parent() == m.fn {
				marks = append(marks, li)
			}
		}
	}
	// the recursion on named types happens after the mark: every self call is dominated by the test block
	okDom := len(marks) > 0
	c.eachFam(m.fn, func(i ssa.Instruction) {
		if call, ok := i.(*ssa.Call); ok && call.Call.StaticCallee() == m.fn {
			if mark.Parent() == m.fn {
				if !test.Block().Dominates(call.Block()) && !nameTestDominates(m, call) {
					okDom = false
				}
				return
			}
			lc := liftTo(call, m.fn)
			dominated := false
			for _, mk := range marks {
				if lc != nil && core.Dominates(mk, lc) {
					dominated = true
				}
			}
			// (the marking helper is called under `t.Name() != ""`; the recursion comes after that diamond)
			if !dominated && lc != nil && lc.Parent() == m.fn {
				if lcc, ok := lc.(*ssa.Call); ok && nameTestDominates(m, lcc) {
					for _, mk := range marks {
						if core.ReachableFromInstr(mk, lc) {
							dominated = true
						}
					}
				}
			}
			if !dominated {
				okDom = false
			}
		}
	})
	c.R.Check(okDom && core.Dominates(test, mark), rule, "mark-before-recursion", c.pos(mark), "named types are tested and marked before the function recurses", "a recursive call can be reached before the type was tested and marked")
	// the mark is conditional only on the type being named (and not yet seen)
	var extra []string
	for _, g := range guardsOf(mark) {
		if g.Cond == test {
			continue
		}
		if bo, ok := g.Cond.(*ssa.BinOp); ok {
			if nc, ok := bo.X.(*ssa.Call); ok && nc.Call.IsInvoke() && nc.Call.Method.Name() == "Name" {
				continue
			}
			if c.isKindDispatch(g.Cond) {
				// the pointer-stripping loop
				continue
			}
		}
		if skippable(g, mark) {
			extra = append(extra, c.pos(g.At))
		}
	}
	c.R.Check(len(extra) == 0, rule, "mark-every-named-type", c.pos(mark), "every named type is entered in the cycle set", fmt.Sprintf("only some named types are entered in the cycle set (further conditions at %v): a recursive type of another kind (e.g. type Tree map[string]Tree) recurses until the stack overflows", extra))
	// the mark is removed by a deferred delete registered right after it
	okUnmark := unmark != nil && core.Dominates(mark, unmark) && unmark.Block() == mark.Block()
	if unmark == nil && len(unmarkVia) > 0 && mark.Parent() != m.fn {
		// every place where the marking helper is called is followed by the deferral of the closure it returned;
		// in between, the function can only leave with the helper's error
		okUnmark = true
		for _, mk := range marks {
			covered := false
			for _, d := range unmarkVia {
				ld := liftTo(d, m.fn)
				if ld == nil || !core.Dominates(mk, ld) {
					continue
				}
				fromThis := false
				for _, src := range append(traceSources(d.Call.Value), d.Call.Value) {
					if ex, ok := src.(*ssa.Extract); ok && ex.Tuple == mk.(ssa.Value) {
						fromThis = true
					}
					if src == mk.(ssa.Value) {
						fromThis = true
					}
				}
				if !fromThis {
					continue
				}
				// exits between the call and the deferral
				okExits := true
				seenB := map[*ssa.BasicBlock]bool{}
				stack := []*ssa.BasicBlock{mk.Block()}
				for len(stack) > 0 {
					b := stack[len(stack)-1]
					stack = stack[:len(stack)-1]
					if seenB[b] {
						continue
					}
					seenB[b] = true
					if b == ld.Block() {
						continue
					}
					if _, isRet := b.Instrs[len(b.Instrs)-1].(*ssa.Return); isRet && !blockReturnsErrorLocal(b) {
						okExits = false
					}
					stack = append(stack, b.Succs...)
				}
				if okExits {
					covered = true
				}
			}
			if !covered {
				okUnmark = false
			}
		}
	}
	// a helper that tests and marks, with the deferred delete left in the inference function: each place where the
	// helper is called is followed, where it did not fail, by the deferral of the delete
	if !okUnmark && mark.Parent() != m.fn && len(marks) > 0 {
		var dels []*ssa.Defer
		core.EachInstr(m.fn, func(i ssa.Instruction) {
			if d, ok := i.(*ssa.Defer); ok && core.CalleeKey(&d.Call) == "builtin.delete" && m.isSeen(d.Call.Args[0]) {
				dels = append(dels, d)
			}
		})
		okUnmark = len(dels) > 0
		for _, mk := range marks {
			covered := false
			ifi, isIf := mk.Block().Instrs[len(mk.Block().Instrs)-1].(*ssa.If)
			for _, d := range dels {
				if d.Block() == mk.Block() && core.Dominates(mk, d) {
					covered = true
				}
				if isIf && isErrNilTest(ifi.Cond) {
					// the branch taken when the helper did not fail
					for si, sc := range mk.Block().Succs {
						if sc == d.Block() && !blockReturnsErrorDeepLocal(sc) && blockReturnsErrorDeepLocal(mk.Block().Succs[1-si]) {
							covered = true
						}
					}
				}
			}
			if !covered {
				okUnmark = false
			}
		}
	}
	c.R.Check(okUnmark, rule, "unmark-deferred", c.pos(mark), "the mark is removed by a deferred delete on every exit", "the cycle mark is not removed by a deferred delete registered with it (explicit deletes miss some exits, e.g. the `return nil, nil` of an ignored invalid type): a type that occurs twice is then reported as a cycle")
	_ = plainDeletes
}

// nameTestDominates: the call is after the `t.Name() != ""` diamond (both the marked and the unnamed path join before it).
func nameTestDominates(m *inferModel, call *ssa.Call) bool {
	for _, b := range m.fn.Blocks {
		if ifi, ok := b.Instrs[len(b.Instrs)-1].(*ssa.If); ok {
			if bo, ok := ifi.Cond.(*ssa.BinOp); ok {
				if nc, ok := bo.X.(*ssa.Call); ok && nc.Call.IsInvoke() && nc.Call.Method.Name() == "Name" && b.Dominates(call.Block()) {
					return true
				}
			}
		}
	}
	return false
}

func ruleC16SkipPrefix(c *Ctx) {
	const rule = "C16/skip-by-index-prefix"
	m := c.inferModel(rule)
	if m == nil {
		return
	}
	// a comparison between an element of field.Index and an element of the skip path
	found := false
	nLen := 0
	for _, fi := range c.familyInstrs(m.fn) {
		i := fi.I
		// a whole-slice comparison of (a prefix of) field.Index with the skip path
		if call, ok := i.(*ssa.Call); ok {
			switch core.CalleeKey(&call.Call) {
			case "slices.Equal", "slices.Compare", "slices.EqualFunc", "reflect.DeepEqual":
				for _, a := range call.Call.Args {
					for _, src := range append(traceSources(a), a) {
						if c.mentionsNamedField(src, "Index", 5) {
							found = true
						}
					}
				}
			}
		}
		bo, ok := i.(*ssa.BinOp)
		if !ok || (bo.Op != token.NEQ && bo.Op != token.EQL) {
			continue
		}
		isIdxElem := func(v ssa.Value) bool {
			ld, ok := v.(*ssa.UnOp)
			if !ok {
				return false
			}
			ia, ok := ld.X.(*ssa.IndexAddr)
			if !ok {
				return false
			}
			if _, isConst := ia.Index.(*ssa.Const); isConst {
				return false // a fixed position compares only one level of the path
			}
			return c.mentionsNamedField(ia.X, "Index", 4)
		}
		isOther := func(v ssa.Value) bool {
			if ld, ok := v.(*ssa.UnOp); ok {
				if _, ok := ld.X.(*ssa.IndexAddr); ok {
					return true
				}
			}
			if ex, ok := v.(*ssa.Extract); ok {
				_, isNext := ex.Tuple.(*ssa.Next)
				return isNext
			}
			_, isPhi := v.(*ssa.Phi)
			return isPhi
		}
		if (isIdxElem(bo.X) && isOther(bo.Y)) || (isIdxElem(bo.Y) && isOther(bo.X)) {
			found = true
			// the comparison is made for every field at least as deep as the embedded one: the length relation that
			// holds where the elements are compared is len(field.Index) >= len(path), nothing narrower
			lenOfIndex := func(v ssa.Value) (direct, any bool) {
				for _, x := range backSlice(v, 8) {
					if call, ok := x.(*ssa.Call); ok && core.CalleeKey(&call.Call) == "builtin.len" && c.mentionsNamedField(upValue(call.Call.Args[0], fi.Path), "Index", 4) {
						any = true
						direct = x == v
					}
				}
				return
			}
			lenOfOther := func(v ssa.Value) (direct, any bool) {
				for _, x := range backSlice(v, 8) {
					if call, ok := x.(*ssa.Call); ok && core.CalleeKey(&call.Call) == "builtin.len" && !c.mentionsNamedField(upValue(call.Call.Args[0], fi.Path), "Index", 4) {
						if sl, isSlice := call.Call.Args[0].Type().Underlying().(*types.Slice); isSlice && isIntType(sl.Elem()) {
							any = true
							direct = x == v
						}
					}
				}
				return
			}
			for _, g := range famGuards(fi) {
				lb, ok := g.Cond.(*ssa.BinOp)
				if !ok {
					continue
				}
				op := lb.Op
				dA, aA := lenOfIndex(lb.X)
				dB, aB := lenOfOther(lb.Y)
				if !(aA && aB) {
					dA, aA = lenOfIndex(lb.Y)
					dB, aB = lenOfOther(lb.X)
					if !(aA && aB) {
						continue
					}
					op = map[token.Token]token.Token{token.LSS: token.GTR, token.GTR: token.LSS, token.LEQ: token.GEQ, token.GEQ: token.LEQ, token.EQL: token.EQL, token.NEQ: token.NEQ}[op]
				}
				if !g.Pol {
					op = map[token.Token]token.Token{token.LSS: token.GEQ, token.GTR: token.LEQ, token.LEQ: token.GTR, token.GEQ: token.LSS, token.EQL: token.NEQ, token.NEQ: token.EQL}[op]
				}
				nLen++
				c.R.Check(op == token.GEQ && dA && dB, rule, fmt.Sprintf("promoted-fields-of-override:every-depth#%d", nLen), c.pos(lb), "a field is tested against the embedded field's path whenever its own path is at least as long",
					fmt.Sprintf("the element-wise comparison with the embedded field's index path is made only when the lengths satisfy `len(field.Index) %s ...` (with arithmetic: %v): fields promoted from a struct embedded deeper inside the hidden one have a longer path, are not recognised, and become properties of the outer object", op, !(dA && dB)))
			}
		}
	}
	c.R.Check(found, rule, "promoted-fields-of-override:index-prefix", c.P.Pos(m.fn.Pos()), "promoted fields of an overridden embedded struct are recognised by comparing their index path with the embedded field's, element by element", "the promoted fields of an overridden embedded struct are no longer recognised by an element-wise comparison of index paths (e.g. only by depth): fields promoted from a second, ordinary embedded struct would be dropped")
}

func (c *Ctx) mentionsNamedField(v ssa.Value, name string, depth int) bool {
	if depth == 0 || v == nil {
		return false
	}
	switch x := v.(type) {
	case *ssa.Parameter:
		for _, src := range c.paramSources(x) {
			if c.mentionsNamedField(src, name, depth-1) {
				return true
			}
		}
		return false
	case *ssa.Field:
		return core.CanonFieldOf(x.X.Type(), x.Field) == name || c.mentionsNamedField(x.X, name, depth-1)
	case *ssa.UnOp:
		if fa, ok := x.X.(*ssa.FieldAddr); ok {
			return core.CanonFieldOf(fa.X.Type(), fa.Field) == name
		}
		return c.mentionsNamedField(x.X, name, depth-1)
	case *ssa.Slice:
		return c.mentionsNamedField(x.X, name, depth-1)
	}
	return false
}

// dependsOnInPkgCallWithField: cond is (derived from) the result of a package function applied to a value read from one of the fields.
func dependsOnInPkgCallWithField(c *Ctx, cond ssa.Value, fields []string) bool {
	var walk func(v ssa.Value, depth int) bool
	walk = func(v ssa.Value, depth int) bool {
		if depth == 0 || v == nil {
			return false
		}
		switch x := v.(type) {
		case *ssa.Call:
			for _, a := range x.Call.Args {
				for _, f := range fields {
					if c.mentionsField(a, f, 5) {
						return true
					}
				}
				if walk(a, depth-1) {
					return true
				}
			}
		case *ssa.UnOp:
			if cell := resolveCell(x.X); cell != nil {
				for _, sv := range cellStores(cell) {
					if walk(sv, depth-1) {
						return true
					}
				}
				return false
			}
			return walk(x.X, depth-1)
		case *ssa.BinOp:
			return walk(x.X, depth-1) || walk(x.Y, depth-1)
		case *ssa.Phi:
			for _, e := range x.Edges {
				if walk(e, depth-1) {
					return true
				}
			}
		}
		return false
	}
	return walk(cond, 6)
}

// dependsOnTag: v is computed from the json tag of a struct field (a StructTag lookup, or the
// result of a package function that takes the reflect.StructField).
func (c *Ctx) dependsOnTag(v ssa.Value, depth int) bool {
	if v == nil || depth == 0 {
		return false
	}
	switch x := v.(type) {
	case *ssa.Call:
		key := core.CalleeKey(&x.Call)
		if key == "reflect.StructTag.Lookup" || key == "reflect.StructTag.Get" {
			return true
		}
		if callee := x.Call.StaticCallee(); callee != nil && c.P.InPkg(callee) && callee.Signature.Params().Len() == 1 && isNamed(callee.Signature.Params().At(0).Type(), "reflect", "StructField") {
			return true
		}
		for _, a := range x.Call.Args {
			if c.dependsOnTag(a, depth-1) {
				return true
			}
		}
	case *ssa.Extract:
		return c.dependsOnTag(x.Tuple, depth-1)
	case *ssa.BinOp:
		return c.dependsOnTag(x.X, depth-1) || c.dependsOnTag(x.Y, depth-1)
	case *ssa.UnOp:
		return c.dependsOnTag(x.X, depth-1)
	case *ssa.Field:
		return c.dependsOnTag(x.X, depth-1)
	case *ssa.FieldAddr:
		return c.dependsOnTag(x.X, depth-1)
	case *ssa.Slice:
		return c.dependsOnTag(x.X, depth-1)
	case *ssa.Phi:
		for _, e := range x.Edges {
			if c.dependsOnTag(e, depth-1) {
				return true
			}
		}
	case *ssa.Alloc:
		for _, st := range cellStores(x) {
			if c.dependsOnTag(st, depth-1) {
				return true
			}
		}
	}
	return false
}

// dependsOnIndexPath: the condition is computed from the index path of the struct field being
// examined (reflect.StructField.Index), directly or through a package function applied to it.
func (c *Ctx) dependsOnIndexPath(v ssa.Value, depth int) bool {
	if v == nil || depth == 0 {
		return false
	}
	if c.mentionsNamedField(v, "Index", 4) {
		return true
	}
	switch x := v.(type) {
	case *ssa.Call:
		for _, a := range x.Call.Args {
			if c.dependsOnIndexPath(a, depth-1) {
				return true
			}
		}
		// a package helper given the field as a whole, which reads its index path
		if callee := x.Call.StaticCallee(); callee != nil && c.P.InPkg(callee) {
			for k, a := range x.Call.Args {
				if isNamed(a.Type(), "reflect", "StructField") && k < len(callee.Params) && c.readsIndexOf(callee.Params[k], 3) {
					return true
				}
			}
		}
	case *ssa.BinOp:
		return c.dependsOnIndexPath(x.X, depth-1) || c.dependsOnIndexPath(x.Y, depth-1)
	case *ssa.UnOp:
		if cell := resolveCell(x.X); cell != nil {
			for _, sv := range cellStores(cell) {
				if c.dependsOnIndexPath(sv, depth-1) {
					return true
				}
			}
			return false
		}
		return c.dependsOnIndexPath(x.X, depth-1)
	case *ssa.Phi:
		for _, e := range x.Edges {
			if c.dependsOnIndexPath(e, depth-1) {
				return true
			}
		}
	case *ssa.Extract:
		return c.dependsOnIndexPath(x.Tuple, depth-1)
	}
	return false
}

// readsIndexOf: the function of parameter p (a reflect.StructField) reads p.Index, itself or by passing p on.
func (c *Ctx) readsIndexOf(p *ssa.Parameter, depth int) bool {
	if depth == 0 {
		return false
	}
	found := false
	for _, f := range core.WithAnon(p.Parent()) {
		core.EachInstr(f, func(i ssa.Instruction) {
			switch x := i.(type) {
			case *ssa.Field:
				if core.CanonFieldOf(x.X.Type(), x.Field) == "Index" && isNamed(x.X.Type(), "reflect", "StructField") {
					for _, src := range append(traceSources(x.X), x.X) {
						if src == ssa.Value(p) {
							found = true
						}
					}
				}
			case *ssa.FieldAddr:
				if core.CanonFieldOf(x.X.Type(), x.Field) == "Index" && isNamed(derefType(x.X.Type()), "reflect", "StructField") {
					// the spilled parameter
					if al, ok := x.X.(*ssa.Alloc); ok {
						for _, sv := range cellStores(al) {
							if sv == ssa.Value(p) {
								found = true
							}
						}
					}
				}
			case *ssa.Call:
				if callee := x.Call.StaticCallee(); callee != nil && c.P.InPkg(callee) {
					for k, a := range x.Call.Args {
						if k < len(callee.Params) && isNamed(a.Type(), "reflect", "StructField") {
							for _, src := range append(traceSourcesDeep(a), a) {
								if src == ssa.Value(p) && c.readsIndexOf(callee.Params[k], depth-1) {
									found = true
								}
							}
						}
					}
				}
			}
		})
	}
	return found
}

type helperBound struct {
	val     float64
	present bool
}

// boundsFromHelper: v is a result of a helper called with the subject's kind; the helper switches on that kind and
// returns, per kind, either nil or a fresh *float64 of a constant. Returns the bound per kind (for the kinds in ks).
func (c *Ctx) boundsFromHelper(m *inferModel, v ssa.Value, ks KindSet) (map[int]helperBound, bool) {
	var call *ssa.Call
	idx := 0
	switch x := v.(type) {
	case *ssa.Extract:
		call, _ = x.Tuple.(*ssa.Call)
		idx = x.Index
	case *ssa.Call:
		call = x
	}
	if call == nil {
		return nil, false
	}
	h := call.Call.StaticCallee()
	if h == nil || !c.P.InPkg(h) || len(h.Blocks) == 0 {
		return nil, false
	}
	// which parameter receives the kind of the subject type?
	var kp *ssa.Parameter
	for pi, a := range call.Call.Args {
		if kc, ok := a.(*ssa.Call); ok && kc.Call.IsInvoke() && kc.Call.Method.Name() == "Kind" && m.subj[kc.Call.Value] && pi < len(h.Params) {
			kp = h.Params[pi]
		}
	}
	if kp == nil {
		return nil, false
	}
	kf := &kindFlow{fn: h, subject: func(ssa.Value) bool { return false }, in: map[*ssa.BasicBlock]KindSet{}, reached: map[*ssa.BasicBlock]bool{}, entry: ks, hasEnt: true,
		kindVal: func(x ssa.Value) bool { return x == kp }}
	kf.solve()
	out := map[int]helperBound{}
	okAll := true
	core.EachInstr(h, func(i ssa.Instruction) {
		ret, ok := i.(*ssa.Return)
		if !ok || idx >= len(ret.Results) {
			return
		}
		rk := kf.At(ret)
		var b helperBound
		switch r := ret.Results[idx].(type) {
		case *ssa.Const:
			if !r.IsNil() {
				okAll = false
			}
		case *ssa.Call:
			if len(r.Call.Args) == 1 {
				if k, isK := r.Call.Args[0].(*ssa.Const); isK && k.Value != nil {
					fv, _ := constant.Float64Val(constant.ToFloat(k.Value))
					b = helperBound{fv, true}
				} else {
					okAll = false
				}
			} else {
				okAll = false
			}
		default:
			okAll = false
		}
		for kk := 0; kk < nKinds; kk++ {
			if rk&Kinds(kk) != 0 {
				if prev, dup := out[kk]; dup && prev != b {
					okAll = false
				}
				out[kk] = b
			}
		}
	})
	return out, okAll
}

func init() {
	for _, pid := range []string{"C04", "C09"} {
		pid := pid
		p := Properties[pid]
		p.Rules = append(p.Rules, Rule{pid + "/json-name-conflicts", func(c *Ctx) { ruleJSONNameConflicts(c, pid+"/json-name-conflicts") }})
	}
}

// Two visible fields can have the same JSON name (a tag on an outer field and on a field of an embedded struct).
// encoding/json keeps the one at the smallest embedding depth (and drops both on a tie without a tagged winner);
// the inferred property must describe that field. So where a field's schema is entered under its JSON name, the
// code must look whether the name is already taken and decide by the depth of the fields (len(field.Index)).
func ruleJSONNameConflicts(c *Ctx, rule string) {
	m := c.inferModel(rule)
	if m == nil {
		return
	}
	n := 0
	for _, fi := range c.familyInstrs(m.fn) {
		mu, ok := fi.I.(*ssa.MapUpdate)
		if !ok || !c.mentionsField(mu.Map, "Schema.Properties", 4) {
			continue
		}
		// (in a helper that enters the property, the key is the helper's parameter: the argument at this call site)
		key := upValue(mu.Key, fi.Path)
		// keyed by the parsed JSON name of the field
		fromName := false
		for _, src := range append(traceSources(key), key) {
			if mentionsStructFieldNamed(src, "name", 3) {
				fromName = true
			}
		}
		if !fromName {
			continue
		}
		n++
		// (the skip of fields promoted from an overridden struct compares index paths too, but it is not about this name)
		byDepth := false
		for _, g := range famControlGuards(fi) {
			if isRangeCond(g.Cond) {
				continue
			}
			if sliceMentionsField(g.Cond, "Index") && (sliceMentionsField(g.Cond, "name") || sliceMentionsField(g.Cond, "Properties")) {
				byDepth = true
			}
		}
		// where the depths of the two fields are compared directly, the entry may only happen when the holder is not shallower
		for _, g := range famControlGuards(fi) {
			b, ok := g.Cond.(*ssa.BinOp)
			if !ok {
				continue
			}
			holderLeft := sliceMentionsField(b.X, "name") && !sliceMentionsField(b.X, "Index") && sliceMentionsField(b.Y, "Index") && !sliceMentionsField(b.Y, "name")
			holderRight := sliceMentionsField(b.Y, "name") && !sliceMentionsField(b.Y, "Index") && sliceMentionsField(b.X, "Index") && !sliceMentionsField(b.X, "name")
			if !holderLeft && !holderRight {
				continue
			}
			op := b.Op
			if holderRight { // normalise to holder OP newcomer
				op = map[token.Token]token.Token{token.LSS: token.GTR, token.GTR: token.LSS, token.LEQ: token.GEQ, token.GEQ: token.LEQ}[op]
			}
			if !g.Pol {
				op = map[token.Token]token.Token{token.LSS: token.GEQ, token.GTR: token.LEQ, token.LEQ: token.GTR, token.GEQ: token.LSS}[op]
			}
			if op == token.LSS || op == token.LEQ {
				c.R.Check(false, rule, "forType:properties[name]:shallower-wins", c.pos(mu), "of two fields with one JSON name the shallower one is kept", fmt.Sprintf("the field's schema replaces the holder of its JSON name only when the holder is shallower (comparison at %s): the deeper of two fields with one JSON name wins, encoding/json emits the shallower one", c.pos(g.At)))
			} else if op == token.GEQ || op == token.GTR {
				c.R.Check(true, rule, "forType:properties[name]:shallower-wins", c.pos(mu), "of two fields with one JSON name the shallower one is kept", "")
			}
		}
		ruleNameConflictScenarios(c, rule, m.fn, mu)
		c.R.Check(byDepth, rule, "forType:properties[name]:dominant-field", c.pos(mu), "a JSON name that is already taken is resolved by the embedding depth of the two fields", "a field's schema is entered under its JSON name without looking whether the name is already taken and which of the two fields is shallower: for struct{ C int `json:\"c\"`; Inner } with Inner{ X string `json:\"c\"` } encoding/json emits the outer field, but the inferred property describes the inner one (the later field wins) and the name is listed twice in `required`")
	}
	c.R.Floor(rule, "entries of field schemas under their JSON name", n, 1)
}

// backSlice: the values v is computed from (data dependences only), looking through local struct variables
// (stores to the variable and to its fields), map lookups, tuples, phis and the arguments of calls.
func backSlice(v ssa.Value, limit int) []ssa.Value {
	seen := map[ssa.Value]bool{}
	var out []ssa.Value
	var walk func(v ssa.Value)
	walk = func(v ssa.Value) {
		if v == nil || seen[v] || len(out) >= limit {
			return
		}
		seen[v] = true
		out = append(out, v)
		switch x := v.(type) {
		case *ssa.UnOp:
			walk(x.X)
			if x.Op == token.MUL {
				for _, sv := range localStores(x.X) {
					walk(sv)
				}
			}
		case *ssa.FieldAddr:
			walk(x.X)
		case *ssa.Field:
			walk(x.X)
		case *ssa.BinOp:
			walk(x.X)
			walk(x.Y)
		case *ssa.Phi:
			for _, e := range x.Edges {
				walk(e)
			}
		case *ssa.Extract:
			walk(x.Tuple)
		case *ssa.Lookup:
			walk(x.X)
			walk(x.Index)
		case *ssa.Index:
			walk(x.X)
		case *ssa.IndexAddr:
			walk(x.X)
		case *ssa.Slice:
			walk(x.X)
		case *ssa.Convert:
			walk(x.X)
		case *ssa.ChangeType:
			walk(x.X)
		case *ssa.MakeInterface:
			walk(x.X)
		case *ssa.Call:
			for _, a := range x.Call.Args {
				walk(a)
			}
		}
	}
	walk(v)
	return out
}

// localStores: the values stored to the local variable (or the field of a local struct variable) at addr.
func localStores(addr ssa.Value) []ssa.Value {
	var out []ssa.Value
	switch a := addr.(type) {
	case *ssa.Alloc:
		for _, r := range *a.Referrers() {
			if st, ok := r.(*ssa.Store); ok && st.Addr == a {
				out = append(out, st.Val)
			}
			// a struct variable filled field by field (composite literal)
			if fa, ok := r.(*ssa.FieldAddr); ok && fa.Referrers() != nil {
				for _, rr := range *fa.Referrers() {
					if st, ok := rr.(*ssa.Store); ok && st.Addr == fa {
						out = append(out, st.Val)
					}
				}
			}
		}
	case *ssa.FieldAddr:
		al, ok := a.X.(*ssa.Alloc)
		if !ok {
			return nil
		}
		for _, r := range *al.Referrers() {
			switch r := r.(type) {
			case *ssa.Store:
				if r.Addr == al {
					out = append(out, r.Val)
				}
			case *ssa.FieldAddr:
				if r.Field != a.Field {
					continue
				}
				for _, rr := range *r.Referrers() {
					if st, ok := rr.(*ssa.Store); ok && st.Addr == r {
						out = append(out, st.Val)
					}
				}
			}
		}
	}
	return out
}

// sliceMentionsField: some value v is computed from reads the field with the given canonical name.
func sliceMentionsField(v ssa.Value, name string) bool {
	for _, x := range backSlice(v, 200) {
		switch x := x.(type) {
		case *ssa.Field:
			if core.CanonFieldOf(x.X.Type(), x.Field) == name {
				return true
			}
		case *ssa.FieldAddr:
			if core.CanonFieldOf(x.X.Type(), x.Field) == name {
				return true
			}
		case *ssa.Call:
			// a value built by a package constructor from the whole field (newOwner(field)): what the constructor reads
			// of the field counts
			if name == "Index" && curCtx != nil {
				if h := x.Call.StaticCallee(); h != nil && curCtx.P.InPkg(h) {
					for k, a := range x.Call.Args {
						if k < len(h.Params) && isNamed(a.Type(), "reflect", "StructField") && curCtx.readsIndexOf(h.Params[k], 3) {
							return true
						}
					}
				}
			}
		}
	}
	return false
}

// testsPointerKind: the condition is computed from a comparison of a reflect.Kind with reflect.Pointer,
// in the function itself or in a module function it calls.
func (c *Ctx) testsPointerKind(v ssa.Value) bool {
	isPtrCmp := func(x ssa.Value) bool {
		b, ok := x.(*ssa.BinOp)
		if !ok || (b.Op != token.EQL && b.Op != token.NEQ) {
			return false
		}
		for _, o := range []ssa.Value{b.X, b.Y} {
			if k, ok := o.(*ssa.Const); ok && k.Value != nil && types.TypeString(k.Type(), nil) == "reflect.Kind" {
				if n, ok := constant.Int64Val(k.Value); ok && n == 22 /* reflect.Pointer */ {
					return true
				}
			}
		}
		return false
	}
	for _, x := range backSlice(v, 200) {
		if isPtrCmp(x) {
			return true
		}
		if call, ok := x.(*ssa.Call); ok {
			if callee := call.Call.StaticCallee(); callee != nil && c.P.InPkg(callee) {
				found := false
				for _, fn := range c.familyFuncs(callee) {
					core.EachInstr(fn, func(i ssa.Instruction) {
						if val, ok := i.(ssa.Value); ok && isPtrCmp(val) {
							found = true
						}
					})
				}
				if found {
					return true
				}
			}
		}
	}
	return false
}

// sameVarValue: the two values are the same SSA value, or loads of one variable (a variable captured by a
// closure lives in a cell and is loaded anew at every use).
func sameVarValue(a, b ssa.Value) bool {
	if a == b {
		return true
	}
	la, ok1 := a.(*ssa.UnOp)
	lb, ok2 := b.(*ssa.UnOp)
	if !ok1 || !ok2 || la.Op != token.MUL || lb.Op != token.MUL {
		return false
	}
	ca, cb := resolveCell(la.X), resolveCell(lb.X)
	return ca != nil && ca == cb
}

func init() {
	for _, pid := range []string{"C04", "C09", "C16"} {
		pid := pid
		p := Properties[pid]
		p.Rules = append(p.Rules, Rule{pid + "/omitted-embedded-hides-promoted", func(c *Ctx) { ruleOmittedEmbedded(c, pid+"/omitted-embedded-hides-promoted") }})
	}
}

// An embedded struct that the json tag names or omits (`json:"-"`) is one field for encoding/json: the fields Go
// promotes from it are not fields of the outer struct. Inference skips them by remembering the index path of the
// embedded field. That must happen also when the embedded field itself is omitted: the assignment of the path
// may not be reached only where the tag parser says "not omitted".
func ruleOmittedEmbedded(c *Ctx, rule string) {
	m := c.inferModel(rule)
	if m == nil {
		return
	}
	n := 0
	c.eachFam(m.fn, func(i ssa.Instruction) {
		phi, ok := i.(*ssa.Phi)
		if !ok {
			return
		}
		sl, isSlice := phi.Type().Underlying().(*types.Slice)
		if !isSlice || !isIntType(sl.Elem()) {
			return
		}
		for k, e := range phi.Edges {
			ld, ok := e.(*ssa.UnOp)
			if !ok || ld.Op != token.MUL || !c.mentionsNamedField(ld, "Index", 3) {
				continue
			}
			n++
			_ = k
			// (the load stands where the assignment stands)
			var bad []string
			for _, g := range controlGuards(ld) {
				// (only a test made earlier in the same iteration: control dependences carried around the loop do not count)
				if g.At.Parent() != ld.Parent() || !g.At.Block().Dominates(ld.Block()) {
					continue
				}
				if mentionsStructFieldNamed(g.Cond, "omit", 4) && !g.Pol {
					bad = append(bad, c.pos(g.At))
				}
			}
			// the field whose path is remembered must itself have passed the "am I promoted from a skipped field" test:
			// an embedded struct nested in a skipped one would otherwise overwrite the outer path, and the rest of the
			// outer struct's promoted fields would no longer be skipped
			tested := false
			web := map[ssa.Value]bool{}
			var grow func(v ssa.Value)
			grow = func(v ssa.Value) {
				if web[v] {
					return
				}
				web[v] = true
				if p2, ok := v.(*ssa.Phi); ok {
					for _, e2 := range p2.Edges {
						if _, isPhi := e2.(*ssa.Phi); isPhi {
							grow(e2)
						}
					}
				}
				if refs := v.Referrers(); refs != nil {
					for _, r := range *refs {
						if p3, ok := r.(*ssa.Phi); ok && types.Identical(p3.Type(), phi.Type()) {
							grow(p3)
						}
					}
				}
			}
			grow(phi)
			for _, b := range ld.Parent().Blocks {
				ifi, isIf := b.Instrs[len(b.Instrs)-1].(*ssa.If)
				if !isIf || !b.Dominates(ld.Block()) || b == ld.Block() && false {
					continue
				}
				for _, v := range backSlice(ifi.Cond, 12) {
					switch x := v.(type) {
					case *ssa.BinOp:
						if k, ok := x.Y.(*ssa.Const); ok && k.IsNil() && web[x.X] {
							tested = true
						}
					case *ssa.Call:
						if core.CalleeKey(&x.Call) == "builtin.len" && web[x.Call.Args[0]] {
							tested = true
						}
					}
				}
			}
			c.R.Check(tested, rule, fmt.Sprintf("%s:skip-path-assignment#%d:after-skip-test", core.FuncName(phi.Parent()), n), c.pos(ld), "the path is remembered only for a field that has itself passed the skip test",
				"the index path of an embedded field is remembered before the test whether that field is itself promoted from a skipped embedded field: an embedded struct inside a tag-named (or overridden) embedded struct overwrites the outer path, and the remaining promoted fields of the outer one become properties of the enclosing struct, which encoding/json never emits there")
			c.R.Check(len(bad) == 0, rule, fmt.Sprintf("%s:skip-path-assignment#%d", core.FuncName(phi.Parent()), n), c.pos(ld), "the path of an embedded field whose promoted fields are to be skipped is remembered whether or not the field itself is omitted",
				fmt.Sprintf("the index path of the embedded field is remembered only where the tag parser does not omit the field (test at %v): for an embedded struct tagged `json:\"-\"` the promoted fields are then not skipped and become required properties that encoding/json never emits", bad))
		}
	})
	// the same, with the path kept in a struct of its own: h.remember(field) stores field.Index in h, h.hides(field) tests it
	c.eachFam(m.fn, func(i ssa.Instruction) {
		site, ok := i.(*ssa.Call)
		if !ok {
			return
		}
		h := site.Call.StaticCallee()
		if h == nil || !c.P.InPkg(h) || h == m.fn {
			return
		}
		recvIdx, fld, ok := c.storesIndexPathIn(h)
		if !ok || recvIdx >= len(site.Call.Args) {
			return
		}
		state := site.Call.Args[recvIdx]
		n++
		var bad []string
		for _, g := range controlGuards(site) {
			if g.At.Parent() != site.Parent() || !g.At.Block().Dominates(site.Block()) {
				continue
			}
			if mentionsStructFieldNamed(g.Cond, "omit", 4) && !g.Pol {
				bad = append(bad, c.pos(g.At))
			}
		}
		tested := false
		for _, b := range site.Parent().Blocks {
			ifi, isIf := b.Instrs[len(b.Instrs)-1].(*ssa.If)
			if !isIf || !b.Dominates(site.Block()) {
				continue
			}
			for _, v := range backSlice(ifi.Cond, 12) {
				switch x := v.(type) {
				case *ssa.Call:
					g := x.Call.StaticCallee()
					if g == nil || g == h || !c.P.InPkg(g) {
						continue
					}
					for k, a := range x.Call.Args {
						if a == state && k < len(g.Params) && c.loadsFieldOfParam(g.Params[k], fld) {
							tested = true
						}
					}
				case *ssa.UnOp:
					if fa, ok := x.X.(*ssa.FieldAddr); ok && fa.X == state && fa.Field == fld {
						tested = true
					}
				}
			}
		}
		c.R.Check(tested, rule, fmt.Sprintf("%s:skip-path-assignment#%d:after-skip-test", core.FuncName(site.Parent()), n), c.pos(site), "the path is remembered only for a field that has itself passed the skip test",
			"the index path of an embedded field is remembered before the test whether that field is itself promoted from a skipped embedded field: an embedded struct inside a tag-named (or overridden) embedded struct overwrites the outer path, and the remaining promoted fields of the outer one become properties of the enclosing struct, which encoding/json never emits there")
		c.R.Check(len(bad) == 0, rule, fmt.Sprintf("%s:skip-path-assignment#%d", core.FuncName(site.Parent()), n), c.pos(site), "the path of an embedded field whose promoted fields are to be skipped is remembered whether or not the field itself is omitted",
			fmt.Sprintf("the index path of the embedded field is remembered only where the tag parser does not omit the field (test at %v): for an embedded struct tagged `json:\"-\"` the promoted fields are then not skipped and become required properties that encoding/json never emits", bad))
	})
	c.R.Floor(rule, "assignments of an embedded field's index path", n, 1)
}

// storesIndexPathIn: h stores the Index of a reflect.StructField parameter into a []int field of a struct it has
// through a pointer parameter. Returns the index of that pointer parameter and the field.
func (c *Ctx) storesIndexPathIn(h *ssa.Function) (recv, field int, ok bool) {
	core.EachInstr(h, func(i ssa.Instruction) {
		st, isSt := i.(*ssa.Store)
		if !isSt {
			return
		}
		fa, isFA := st.Addr.(*ssa.FieldAddr)
		if !isFA {
			return
		}
		sl, isSlice := st.Val.Type().Underlying().(*types.Slice)
		if !isSlice || !isIntType(sl.Elem()) || !c.mentionsNamedField(st.Val, "Index", 3) {
			return
		}
		for k, p := range h.Params {
			if fa.X == ssa.Value(p) {
				recv, field, ok = k, fa.Field, true
			}
		}
	})
	return
}

// loadsFieldOfParam: the function of pointer parameter p reads field fld of *p.
func (c *Ctx) loadsFieldOfParam(p *ssa.Parameter, fld int) bool {
	found := false
	core.EachInstr(p.Parent(), func(i ssa.Instruction) {
		if ld, ok := i.(*ssa.UnOp); ok && ld.Op == token.MUL {
			if fa, ok := ld.X.(*ssa.FieldAddr); ok && fa.X == ssa.Value(p) && fa.Field == fld {
				found = true
			}
		}
	})
	return found
}
