package rules

import (
	"fmt"
	"go/types"
	"strings"

	"golang.org/x/tools/go/ssa"

	"verif/checker/core"
)

func init() {
	register(&Property{
		ID: "C13",
		Rules: []Rule{
			{"C13/no-shared-writes", func(c *Ctx) {
				c.ruleNoSharedWrites("C13/no-shared-writes", "EV", "DEF", "INF", "MAR", "CLN", "EQ", "RES")
			}},
			{"C13/globals", ruleC13Globals},
			{"C13/per-call-state", ruleC13PerCallState},
			{"C13/no-reflect-mutators-in-EV", ruleC13NoReflectMutators},
		},
		Explanation: "Decides, for all schedules at once, the structural necessary condition of data-race freedom: no function reachable from Validate, ApplyDefaults, For/ForType, MarshalJSON, CloneSchemas, Equal or Resolve writes memory that was not allocated by the same call (field-sensitive, allocation-site based write-effect analysis over the call-graph closure of each entry point); package-level variables are written only during package initialisation, the two process-wide caches are sync.Maps whose stored values are complete before publication and never written afterwards; per-call types (state, annotations, resolver) are not reachable from any shared type; no mutating reflect operation is reachable from Validate. It does NOT decide that concurrent results equal sequential results beyond what absence of shared writes implies, nor races inside the standard library.",
		NotDecided:  []string{"equality of concurrent and sequential results as an observed fact", "races inside the standard library or in user callbacks (Loader)", "writes performed through reflection by encoding/json on caller-supplied values"},
	})
}

// initClosure: functions that run during package initialisation.
func (c *Ctx) initClosure() *core.Closure {
	if cl, ok := c.closures["INIT"]; ok {
		return cl
	}
	var entries []*ssa.Function
	for _, m := range c.P.SSAPkg.Members {
		if f, ok := m.(*ssa.Function); ok && (f.Name() == "init" || strings.HasPrefix(f.Name(), "init#")) {
			entries = append(entries, f)
		}
	}
	cl := c.P.Closure("INIT", c.G, entries...)
	c.closures["INIT"] = cl
	return cl
}

func baseOfAddr(v ssa.Value) ssa.Value {
	for {
		switch x := v.(type) {
		case *ssa.FieldAddr:
			v = x.X
		case *ssa.IndexAddr:
			v = x.X
		default:
			return v
		}
	}
}

// loadedFromGlobal: v is the content of a package-level variable (possibly through field selections).
func loadedFromGlobal(v ssa.Value) *ssa.Global {
	for i := 0; i < 8; i++ {
		switch x := v.(type) {
		case *ssa.UnOp:
			if x.Op.String() == "*" {
				if g, ok := baseOfAddr(x.X).(*ssa.Global); ok {
					return g
				}
				v = baseOfAddr(x.X)
				continue
			}
			return nil
		case *ssa.Slice:
			v = x.X
		case *ssa.ChangeType:
			v = x.X
		case *ssa.Global:
			return x
		default:
			return nil
		}
	}
	return nil
}

func ruleC13Globals(c *Ctx) {
	const rule = "C13/globals"
	initCl := c.initClosure()
	// 1. who-may-write: direct scan of every package function.
	nGlobals, nSites := 0, 0
	for _, m := range c.P.SSAPkg.Members {
		if g, ok := m.(*ssa.Global); ok {
			nGlobals++
			_ = g
		}
	}
	syncMaps := map[*ssa.Global]bool{}
	for _, m := range c.P.SSAPkg.Members {
		if g, ok := m.(*ssa.Global); ok {
			if p, ok := g.Type().(*types.Pointer); ok && isNamed(p.Elem(), "sync", "Map") {
				syncMaps[g] = true
			}
		}
	}
	for _, fn := range c.P.Funcs {
		inInit := initCl.Has(fn)
		core.EachInstr(fn, func(i ssa.Instruction) {
			var g *ssa.Global
			kind := ""
			switch x := i.(type) {
			case *ssa.Store:
				if gg, ok := baseOfAddr(x.Addr).(*ssa.Global); ok {
					g, kind = gg, "store"
				}
			case *ssa.MapUpdate:
				if gg := loadedFromGlobal(x.Map); gg != nil {
					g, kind = gg, "mapupdate"
				}
			case ssa.CallInstruction:
				key := core.CalleeKey(x.Common())
				args := x.Common().Args
				if strings.HasPrefix(key, "builtin.") && len(args) > 0 && (key == "builtin.delete" || key == "builtin.clear" || key == "builtin.copy" || key == "builtin.append") {
					if gg := loadedFromGlobal(args[0]); gg != nil {
						// append to a global's slice is a write only if the result is stored back (a Store, seen above) or in place
						g, kind = gg, strings.TrimPrefix(key, "builtin.")
					}
				}
				// sync.Map globals: only method calls are allowed
				for ai, a := range args {
					if gg, ok := a.(*ssa.Global); ok && syncMaps[gg] {
						if !(ai == 0 && strings.HasPrefix(key, "sync.Map.")) {
							c.R.Bad(rule, fmt.Sprintf("%s:syncmap-escapes:%s", core.FuncName(fn), gg.Name()), c.pos(i), "the sync.Map "+gg.Name()+" is passed to "+key+"; it may only be used as the receiver of its own methods")
						} else {
							nSites++
							c.R.OK(rule, fmt.Sprintf("%s:%s:%s", core.FuncName(fn), key, gg.Name()), c.pos(i), "synchronised access through a sync.Map method")
						}
					}
				}
			}
			if g == nil || g.Pkg != c.P.SSAPkg {
				return
			}
			nSites++
			construct := fmt.Sprintf("%s:%s:%s", core.FuncName(fn), kind, g.Name())
			if inInit {
				c.R.OK(rule, construct, c.pos(i), "package-level variable written during package initialisation only")
			} else if kind == "append" {
				// in-place append is caught by the Store of its result; an append whose result is not stored back does not publish
				c.R.OK(rule, construct, c.pos(i), "append reads the global; a write-back would be a store (checked)")
			} else {
				c.R.Bad(rule, construct, c.pos(i), fmt.Sprintf("%s writes package-level variable %s (%s) outside package initialisation: unsynchronised shared state", core.FuncName(fn), g.Name(), kind))
			}
		})
	}
	c.R.Floor(rule, "writes/synchronised accesses to package-level variables", nSites, 8)
	c.R.Info["package_globals"] = nGlobals

	// 2. values published to a sync.Map cache are complete before publication
	// and never written afterwards.
	for _, cname := range []string{"EV", "UNM", "MAR", "INF", "DEF", "RES"} {
		tr := c.Tracer(rule, cname)
		cl := c.Closure(rule, cname)
		type pub struct {
			call ssa.CallInstruction
			root *core.Root
		}
		var pubs []pub
		for _, fn := range cl.Sorted() {
			core.EachInstr(fn, func(i ssa.Instruction) {
				call, ok := i.(ssa.CallInstruction)
				if !ok {
					return
				}
				key := core.CalleeKey(call.Common())
				if key != "sync.Map.Store" && key != "sync.Map.LoadOrStore" && key != "sync.Map.Swap" {
					return
				}
				for _, a := range call.Common().Args[1:] {
					for l := range tr.Obj(a) {
						pubs = append(pubs, pub{call, l.Root})
					}
				}
			})
		}
		for _, pb := range pubs {
			bad := false
			for _, fn := range cl.Sorted() {
				for _, w := range tr.Writes(fn) {
					for l := range w.Targets {
						if l.Root != pb.root || l.Path == "" && w.Kind == "store" {
							continue
						}
						if fn != pb.call.Parent() || core.ReachableFromInstr(pb.call, w.Instr) {
							bad = true
							c.R.Bad(rule, fmt.Sprintf("%s:write-after-publish:%s:%s", cname, core.FuncName(fn), pb.root), c.pos(w.Instr),
								fmt.Sprintf("%s writes %s after (or outside the function of) its publication to a process-wide sync.Map at %s; readers in other goroutines may observe the write", core.FuncName(fn), l, c.pos(pb.call)))
						}
					}
				}
			}
			if !bad {
				c.R.OK(rule, fmt.Sprintf("%s:published-complete:%s", cname, pb.root), c.pos(pb.call), "no write to the published object is reachable after the publishing call, and no other function of the closure writes it")
			}
		}
	}
}

func ruleC13PerCallState(c *Ctx) {
	const rule = "C13/per-call-state"
	perCall := []string{"state", "annotations", "resolver"}
	shared := []string{"Schema", "Resolved", "resolvedInfo", "anchorInfo", "ForOptions", "ResolveOptions"}
	contains := func(t types.Type) string {
		seen := map[types.Type]bool{}
		var walk func(t types.Type) string
		walk = func(t types.Type) string {
			if seen[t] {
				return ""
			}
			seen[t] = true
			for _, n := range perCall {
				if c.isPkgNamed(t, n) {
					return n
				}
			}
			switch x := t.(type) {
			case *types.Pointer:
				return walk(x.Elem())
			case *types.Named:
				for _, s := range shared {
					if c.isPkgNamed(x, s) {
						return "" // checked field by field below
					}
				}
				return walk(x.Underlying())
			case *types.Alias:
				return walk(types.Unalias(x))
			case *types.Slice:
				return walk(x.Elem())
			case *types.Array:
				return walk(x.Elem())
			case *types.Map:
				if r := walk(x.Key()); r != "" {
					return r
				}
				return walk(x.Elem())
			case *types.Chan:
				return walk(x.Elem())
			case *types.Struct:
				for i := 0; i < x.NumFields(); i++ {
					if r := walk(x.Field(i).Type()); r != "" {
						return r
					}
				}
			}
			return ""
		}
		return walk(t)
	}
	for _, n := range perCall {
		if c.P.Named(n) == nil {
			c.R.Unresolved(rule, "type "+n)
		}
	}
	for _, sname := range shared {
		st := c.P.Struct(sname)
		if st == nil {
			c.R.Unresolved(rule, "type "+sname)
			continue
		}
		for i := 0; i < st.NumFields(); i++ {
			f := st.Field(i)
			if pc := contains(f.Type()); pc != "" {
				c.R.Bad(rule, sname+"."+f.Name(), c.P.Pos(f.Pos()), fmt.Sprintf("field %s.%s of a shared type can hold per-call %s: one call's mutable state becomes reachable from other goroutines", sname, f.Name(), pc))
			} else {
				c.R.OKTable(rule, sname+"."+f.Name(), c.P.Pos(f.Pos()), "field type cannot reach state, annotations or resolver")
			}
		}
	}
	for _, m := range c.P.SSAPkg.Members {
		if g, ok := m.(*ssa.Global); ok {
			if pc := contains(g.Type()); pc != "" {
				c.R.Bad(rule, "global:"+g.Name(), c.P.Pos(g.Pos()), "package-level variable can hold per-call "+pc)
			} else {
				c.R.OKTable(rule, "global:"+g.Name(), c.P.Pos(g.Pos()), "type cannot reach per-call state")
			}
		}
	}
	// every *state / *resolver in the entry closures is a fresh allocation of an entry-point call
	for _, cn := range []string{"EV", "DEF", "RES"} {
		tr := c.Tracer(rule, cn)
		cl := c.Closure(rule, cn)
		for _, fn := range cl.Sorted() {
			for _, p := range fn.Params {
				for _, n := range perCall {
					if !c.isPkgNamed(p.Type(), n) || !isPointer(p.Type()) {
						continue
					}
					ok := true
					for l := range tr.Obj(p) {
						if !((l.Root.Kind == core.RFresh) && cl.Has(l.Root.Fn)) {
							ok = false
							c.R.Bad(rule, fmt.Sprintf("%s:%s:%s", cn, core.FuncName(fn), p.Name()), c.P.Pos(fn.Pos()), fmt.Sprintf("parameter %s (*%s) of %s can designate %s, which is not allocated by the current call", p.Name(), n, core.FuncName(fn), l))
						}
					}
					if ok {
						c.R.OK(rule, fmt.Sprintf("%s:%s:%s", cn, core.FuncName(fn), p.Name()), c.P.Pos(fn.Pos()), "every value reaching this *"+n+" parameter is an allocation made inside the current entry-point call")
					}
				}
			}
		}
	}
}

func ruleC13NoReflectMutators(c *Ctx) {
	const rule = "C13/no-reflect-mutators-in-EV"
	cl := c.Closure(rule, "EV")
	n := 0
	for _, fn := range cl.Sorted() {
		for _, call := range core.ReflectMutatorCalls(fn) {
			n++
			c.R.Bad(rule, core.FuncName(fn)+":"+core.CalleeKey(call.Common()), c.pos(call), "a mutating reflect operation is reachable from Validate: validation could modify the instance or a schema")
		}
	}
	if n == 0 {
		c.R.OK(rule, "EV:zero-reflect-mutators", "", fmt.Sprintf("no call of a mutating reflect.Value method in the %d functions reachable from Validate", len(cl.Set)))
	}
}
